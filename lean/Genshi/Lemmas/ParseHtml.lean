/-
  C07 — lemmas about the HTML layer: the `_open_tags` stack is exactly the stack of
  `balance`, void STARTs are followed by their END.
-/
import Genshi.Model.ParseHtml
import Genshi.Lemmas.Parse
namespace Genshi.Parse
open Genshi

/-- the nesting stack that corresponds to `_open_tags` -/
def stackOf (openTags : List Str) : List QName := openTags.map mkQName

theorem balance_closers : ∀ (o : List Str), balance (stackOf o) (closers o) = some []
  | [] => rfl
  | t :: o => by
      simp only [stackOf, closers, List.map_cons, balance, ↓reduceIte]
      exact balance_closers o

theorem balance_popTo (env : Env) (tag : Str) : ∀ (o : List Str),
    balance (stackOf o) (popTo env tag o).2 = some (stackOf (popTo env tag o).1)
  | [] => rfl
  | t :: o => by
      simp only [popTo]
      split
      · simp [stackOf, balance]
      · simp only [stackOf, List.map_cons, balance, ↓reduceIte]
        exact balance_popTo env tag o

theorem balance_handleEndtag (env : Env) (o : List Str) (tag : Str) :
    balance (stackOf o) (handleEndtag env o tag).2 = some (stackOf (handleEndtag env o tag).1) := by
  unfold handleEndtag
  split
  · rfl
  · exact balance_popTo env tag o

theorem balance_handleStarttag (env : Env) (o o' : List Str) (tag : Str)
    (attrs : List (Str × Option Str)) (evs : Stream)
    (h : handleStarttag env o tag attrs = .ok (o', evs)) :
    balance (stackOf o) evs = some (stackOf o') := by
  unfold handleStarttag at h
  cases hf : fixAttrs env attrs with
  | error e => simp [hf] at h
  | ok fixed =>
    simp only [hf] at h
    split at h
    · simp only [Except.ok.injEq, Prod.mk.injEq] at h
      obtain ⟨rfl, rfl⟩ := h
      simp [balance]
    · simp only [Except.ok.injEq, Prod.mk.injEq] at h
      obtain ⟨rfl, rfl⟩ := h
      simp [balance, stackOf]

theorem piEvent_isPi (s : Str) : ∃ t d, piEvent s = .pi t d := by
  unfold piEvent
  dsimp only
  split <;> exact ⟨_, _, rfl⟩

/-- one callback moves the nesting stack exactly as it moves `_open_tags` -/
theorem balance_htmlStep (env : Env) (o o' : List Str) (c : HtmlCb) (evs : Stream)
    (h : htmlStep env o c = .ok (o', evs)) :
    balance (stackOf o) evs = some (stackOf o') := by
  cases c with
  | starttag tag attrs => exact balance_handleStarttag env o o' tag attrs evs h
  | endtag tag =>
    simp only [htmlStep, Except.ok.injEq] at h
    have := balance_handleEndtag env o tag
    rw [h] at this; exact this
  | startendtag tag attrs =>
    simp only [htmlStep] at h
    cases hs : handleStarttag env o tag attrs with
    | error e => simp [hs] at h
    | ok r =>
      obtain ⟨o1, e1⟩ := r
      simp only [hs, Except.ok.injEq, Prod.mk.injEq] at h
      obtain ⟨rfl, rfl⟩ := h
      rw [balance_append, balance_handleStarttag env o o1 tag attrs e1 hs]
      simp only [Option.bind_some]
      exact balance_handleEndtag env o1 tag
  | data s =>
    simp only [htmlStep, Except.ok.injEq, Prod.mk.injEq] at h
    obtain ⟨rfl, rfl⟩ := h; cases o <;> simp [balance, stackOf]
  | comment s =>
    simp only [htmlStep, Except.ok.injEq, Prod.mk.injEq] at h
    obtain ⟨rfl, rfl⟩ := h; cases o <;> simp [balance, stackOf]
  | pi s =>
    simp only [htmlStep, Except.ok.injEq, Prod.mk.injEq] at h
    obtain ⟨rfl, rfl⟩ := h
    obtain ⟨t, d, hpi⟩ := piEvent_isPi s
    rw [hpi]; cases o <;> simp [balance, stackOf]
  | charref name =>
    simp only [htmlStep] at h
    cases hc : charrefText name with
    | error e => simp [hc] at h
    | ok t =>
      simp only [hc, Except.ok.injEq, Prod.mk.injEq] at h
      obtain ⟨rfl, rfl⟩ := h; cases o <;> simp [balance, stackOf]
  | entityref name =>
    simp only [htmlStep, Except.ok.injEq, Prod.mk.injEq] at h
    obtain ⟨rfl, rfl⟩ := h; cases o <;> simp [balance, stackOf]
  | decl s =>
    simp only [htmlStep, Except.ok.injEq, Prod.mk.injEq] at h
    obtain ⟨rfl, rfl⟩ := h; rfl

/-- the events of any run of callbacks keep the nesting stack in step with `_open_tags`;
    when nothing was raised the closers empty it -/
theorem eager_html_balance (env : Env) : ∀ (items : List (Item HtmlCb)) (o : List Str),
    ∃ st, balance (stackOf o) (eager (htmlLayer env) o items).1 = some st ∧
      ((eager (htmlLayer env) o items).2 = none → st = [])
  | [], o => ⟨[], by simp [eager, htmlLayer, balance_closers], fun _ => rfl⟩
  | .raise e :: rest, o => ⟨stackOf o, by simp [eager, balance], by simp [eager]⟩
  | .cb c :: rest, o => by
      simp only [eager]
      cases hs : (htmlLayer env).step o c with
      | error e => exact ⟨stackOf o, by simp [balance], by simp⟩
      | ok r =>
        obtain ⟨o', evs⟩ := r
        obtain ⟨st, h1, h2⟩ := eager_html_balance env rest o'
        refine ⟨st, ?_, h2⟩
        simp only
        rw [balance_append, balance_htmlStep env o o' c evs hs]
        simpa using h1

/-! ### what an end tag closes -/

/-- an end tag closes the open elements up to and including the innermost one with the same name
    (case-insensitively) … -/
theorem popTo_match (env : Env) (tag : Str) : ∀ (pre : List Str) (t : Str) (post : List Str),
    (∀ x ∈ pre, env.lower x ≠ env.lower tag) → env.lower t = env.lower tag →
    popTo env tag (pre ++ t :: post) = (post, (pre ++ [t]).map fun x => Event.end_ (mkQName x))
  | [], t, post, _, ht => by simp [popTo, ht]
  | p :: pre, t, post, hpre, ht => by
      have hp : env.lower p ≠ env.lower tag := hpre p (by simp)
      simp only [List.cons_append, popTo, hp, ↓reduceIte]
      rw [popTo_match env tag pre t post (fun x hx => hpre x (by simp [hx])) ht]
      simp

/-- … and every open element when none has that name -/
theorem popTo_nomatch (env : Env) (tag : Str) : ∀ (o : List Str),
    (∀ x ∈ o, env.lower x ≠ env.lower tag) →
    popTo env tag o = ([], o.map fun x => Event.end_ (mkQName x))
  | [], _ => rfl
  | p :: o, h => by
      have hp : env.lower p ≠ env.lower tag := h p (by simp)
      simp only [popTo, hp, ↓reduceIte]
      rw [popTo_nomatch env tag o (fun x hx => h x (by simp [hx]))]
      simp

/-! ### void elements -/

theorem voidClosed_append (v : List Str) : ∀ (a b : Stream),
    voidClosed v a = true → voidClosed v b = true → voidClosed v (a ++ b) = true
  | [], b, _, hb => by simpa using hb
  | e :: es, b, ha, hb => by
      cases e with
      | start t at_ =>
        simp only [voidClosed, Bool.and_eq_true, Bool.or_eq_true, Bool.not_eq_true'] at ha
        simp only [List.cons_append, voidClosed, Bool.and_eq_true, Bool.or_eq_true, Bool.not_eq_true']
        refine ⟨?_, voidClosed_append v es b ha.2 hb⟩
        rcases ha.1 with h | h
        · exact Or.inl h
        · right
          cases es with
          | nil => simp [headIsEnd] at h
          | cons e' es' => cases e' <;> simp_all [headIsEnd]
      | _ =>
        simp only [voidClosed] at ha
        simp only [List.cons_append, voidClosed]
        exact voidClosed_append v es b ha hb

theorem voidClosed_ends (v : List Str) (f : Str → Event) (hf : ∀ t, ∃ q, f t = .end_ q) :
    ∀ (l : List Str), voidClosed v (l.map f) = true
  | [] => rfl
  | t :: l => by
      obtain ⟨q, hq⟩ := hf t
      simp only [List.map_cons, hq, voidClosed]
      exact voidClosed_ends v f hf l

theorem voidClosed_popTo (env : Env) (v : List Str) (tag : Str) : ∀ (o : List Str),
    voidClosed v (popTo env tag o).2 = true
  | [] => rfl
  | t :: o => by
      simp only [popTo]
      split
      · rfl
      · simp only [voidClosed]; exact voidClosed_popTo env v tag o

theorem voidClosed_handleEndtag (env : Env) (v : List Str) (o : List Str) (tag : Str) :
    voidClosed v (handleEndtag env o tag).2 = true := by
  unfold handleEndtag
  split
  · rfl
  · exact voidClosed_popTo env v tag o

/-- the void names carry no brace: `QName(name)` is the plain name -/
def plainNames (v : List Str) : Prop := ∀ t ∈ v, mkQName t = ⟨[], t⟩

theorem voidClosed_handleStarttag (env : Env) (o o' : List Str) (tag : Str)
    (attrs : List (Str × Option Str)) (evs : Stream) (hok : tagOk tag = true)
    (h : handleStarttag env o tag attrs = .ok (o', evs)) :
    voidClosed env.void evs = true := by
  unfold handleStarttag at h
  cases hf : fixAttrs env attrs with
  | error e => simp [hf] at h
  | ok fixed =>
    simp only [hf] at h
    split at h
    · simp only [Except.ok.injEq, Prod.mk.injEq] at h
      obtain ⟨rfl, rfl⟩ := h
      simp [voidClosed, headIsEnd]
    · rename_i hv
      simp only [Except.ok.injEq, Prod.mk.injEq] at h
      obtain ⟨rfl, rfl⟩ := h
      simp only [voidClosed, headIsEnd, Bool.or_false, Bool.and_true, Bool.not_eq_true']
      unfold isVoidName
      by_cases hn : (mkQName tag).ns = []
      · rw [mkQName_loc_of_tagOk tag hok hn]
        simp only [Bool.and_eq_false_iff]
        right
        simpa using hv
      · simp [hn]

def cbTagOk : HtmlCb → Bool
  | .starttag tag _ => tagOk tag
  | .startendtag tag _ => tagOk tag
  | _ => true

def itemTagOk : Item HtmlCb → Bool
  | .cb c => cbTagOk c
  | .raise _ => true

theorem voidClosed_htmlStep (env : Env) (o o' : List Str) (c : HtmlCb) (evs : Stream)
    (hok : cbTagOk c = true) (h : htmlStep env o c = .ok (o', evs)) :
    voidClosed env.void evs = true := by
  cases c with
  | starttag tag attrs => exact voidClosed_handleStarttag env o o' tag attrs evs hok h
  | endtag tag =>
    simp only [htmlStep, Except.ok.injEq] at h
    have := voidClosed_handleEndtag env env.void o tag
    rw [h] at this; exact this
  | startendtag tag attrs =>
    simp only [htmlStep] at h
    cases hs : handleStarttag env o tag attrs with
    | error e => simp [hs] at h
    | ok r =>
      obtain ⟨o1, e1⟩ := r
      simp only [hs, Except.ok.injEq, Prod.mk.injEq] at h
      obtain ⟨rfl, rfl⟩ := h
      exact voidClosed_append _ _ _ (voidClosed_handleStarttag env o o1 tag attrs e1 hok hs)
        (voidClosed_handleEndtag env env.void o1 tag)
  | data s =>
    simp only [htmlStep, Except.ok.injEq, Prod.mk.injEq] at h
    obtain ⟨rfl, rfl⟩ := h; rfl
  | comment s =>
    simp only [htmlStep, Except.ok.injEq, Prod.mk.injEq] at h
    obtain ⟨rfl, rfl⟩ := h; rfl
  | pi s =>
    simp only [htmlStep, Except.ok.injEq, Prod.mk.injEq] at h
    obtain ⟨rfl, rfl⟩ := h
    obtain ⟨t, d, hpi⟩ := piEvent_isPi s
    rw [hpi]; rfl
  | charref name =>
    simp only [htmlStep] at h
    cases hc : charrefText name with
    | error e => simp [hc] at h
    | ok t =>
      simp only [hc, Except.ok.injEq, Prod.mk.injEq] at h
      obtain ⟨rfl, rfl⟩ := h; rfl
  | entityref name =>
    simp only [htmlStep, Except.ok.injEq, Prod.mk.injEq] at h
    obtain ⟨rfl, rfl⟩ := h; rfl
  | decl s =>
    simp only [htmlStep, Except.ok.injEq, Prod.mk.injEq] at h
    obtain ⟨rfl, rfl⟩ := h; rfl

theorem eager_html_voidClosed (env : Env) : ∀ (items : List (Item HtmlCb)) (o : List Str),
    items.all itemTagOk = true → voidClosed env.void (eager (htmlLayer env) o items).1 = true
  | [], o, _ => by
      simp only [eager, htmlLayer, closers]
      exact voidClosed_ends _ _ (fun t => ⟨_, rfl⟩) o
  | .raise e :: rest, o, _ => by simp [eager, voidClosed]
  | .cb c :: rest, o, h => by
      simp only [List.all_cons, Bool.and_eq_true, itemTagOk] at h
      simp only [eager]
      cases hs : (htmlLayer env).step o c with
      | error e => simp [voidClosed]
      | ok r =>
        obtain ⟨o', evs⟩ := r
        simp only
        exact voidClosed_append _ _ _ (voidClosed_htmlStep env o o' c evs h.1 hs)
          (eager_html_voidClosed env rest o' h.2)

/-! ### every exception of the layer is an `Exception` -/

def PyExc.isBase : PyExc → Bool
  | .base _ => true
  | _ => false

def itemNoBase : Item HtmlCb → Bool
  | .raise e => !e.isBase
  | .cb _ => true

theorem charrefText_noBase (name : Str) (e : PyExc) (h : charrefText name = .error e) : e.isBase = false := by
  unfold charrefText at h
  split at h
  · unfold pyChr at h
    split at h
    · simp at h
    · split at h <;> (simp only [Except.error.injEq] at h; subst h; rfl)
  · simp only [Except.error.injEq] at h; subst h; rfl

theorem fixAttrs_noBase (env : Env) (hstrip : ∀ v e, env.strip v = .error e → e.isBase = false) :
    ∀ (attrs : List (Str × Option Str)) (e : PyExc), fixAttrs env attrs = .error e → e.isBase = false
  | [], e, h => by simp [fixAttrs] at h
  | (n, v) :: rest, e, h => by
      simp only [fixAttrs] at h
      cases hs : env.strip (v.getD n) with
      | error e' =>
        simp only [hs, Except.error.injEq] at h; subst h
        exact hstrip _ _ hs
      | ok v' =>
        simp only [hs] at h
        cases hr : fixAttrs env rest with
        | error e' =>
          simp only [hr, Except.error.injEq] at h; subst h
          exact fixAttrs_noBase env hstrip rest _ hr
        | ok r => simp [hr] at h

theorem handleStarttag_noBase (env : Env) (hstrip : ∀ v e, env.strip v = .error e → e.isBase = false)
    (o : List Str) (tag : Str) (attrs : List (Str × Option Str)) (e : PyExc)
    (h : handleStarttag env o tag attrs = .error e) : e.isBase = false := by
  unfold handleStarttag at h
  cases hf : fixAttrs env attrs with
  | error e' =>
    simp only [hf, Except.error.injEq] at h; subst h
    exact fixAttrs_noBase env hstrip attrs _ hf
  | ok fixed =>
    simp only [hf] at h
    split at h <;> simp at h

theorem htmlStep_noBase (env : Env) (hstrip : ∀ v e, env.strip v = .error e → e.isBase = false)
    (o : List Str) (c : HtmlCb) (e : PyExc) (h : htmlStep env o c = .error e) : e.isBase = false := by
  cases c with
  | starttag tag attrs => exact handleStarttag_noBase env hstrip o tag attrs e h
  | startendtag tag attrs =>
    simp only [htmlStep] at h
    cases hs : handleStarttag env o tag attrs with
    | error e' =>
      simp only [hs, Except.error.injEq] at h; subst h
      exact handleStarttag_noBase env hstrip o tag attrs _ hs
    | ok r => obtain ⟨o1, e1⟩ := r; simp [hs] at h
  | charref name =>
    simp only [htmlStep] at h
    cases hc : charrefText name with
    | error e' =>
      simp only [hc, Except.error.injEq] at h; subst h
      exact charrefText_noBase name _ hc
    | ok t => simp [hc] at h
  | endtag tag => simp [htmlStep] at h
  | data s => simp [htmlStep] at h
  | comment s => simp [htmlStep] at h
  | pi s => simp [htmlStep] at h
  | entityref name => simp [htmlStep] at h
  | decl s => simp [htmlStep] at h

theorem eager_html_noBase (env : Env) (hstrip : ∀ v e, env.strip v = .error e → e.isBase = false) :
    ∀ (items : List (Item HtmlCb)) (o : List Str) (e : PyExc), items.all itemNoBase = true →
      (eager (htmlLayer env) o items).2 = some e → e.isBase = false
  | [], o, e, _, h => by simp [eager] at h
  | .raise e' :: rest, o, e, hi, h => by
      simp only [eager, Option.some.injEq] at h; subst h
      simp only [List.all_cons, Bool.and_eq_true, itemNoBase, Bool.not_eq_true'] at hi
      exact hi.1
  | .cb c :: rest, o, e, hi, h => by
      simp only [List.all_cons, Bool.and_eq_true] at hi
      simp only [eager] at h
      cases hs : (htmlLayer env).step o c with
      | error e' =>
        simp only [hs, Option.some.injEq] at h; subst h
        exact htmlStep_noBase env hstrip o c _ hs
      | ok r =>
        obtain ⟨o', evs⟩ := r
        simp only [hs] at h
        exact eager_html_noBase env hstrip rest o' e hi.2 h

end Genshi.Parse

/-
  C04 helper lemmas: result combinators, frame-stack and choice-stack
  invariants of the implementation model.
-/
import Genshi.Model.TmplImpl
namespace Genshi.Tmpl

theorem bind_ok {ε α β : Type} {x : Except ε α} {f : α → Except ε β} {b : β} :
    (x >>= f) = .ok b ↔ ∃ a, x = .ok a ∧ f a = .ok b := by
  cases x with
  | error e => simp [bind, Except.bind]
  | ok a => simp [bind, Except.bind]

theorem seq_ok {σ : Type} {r : Res σ} {k : σ → Res σ} {o : List Event} {s' : σ} :
    seq r k = .ok (o, s') ↔
      ∃ o1 s1 o2, r = .ok (o1, s1) ∧ k s1 = .ok (o2, s') ∧ o = o1 ++ o2 := by
  unfold seq
  cases r with
  | error e => simp
  | ok p =>
    obtain ⟨o1, s1⟩ := p
    simp only
    cases hk : k s1 with
    | error e => simp [hk]
    | ok q =>
      obtain ⟨o2, s2⟩ := q
      simp only [Except.ok.injEq, Prod.mk.injEq]
      constructor
      · rintro ⟨rfl, rfl⟩; exact ⟨o1, s1, o2, ⟨rfl, rfl⟩, by rw [hk], rfl⟩
      · rintro ⟨a, b, c, ⟨rfl, rfl⟩, h2, rfl⟩
        rw [hk] at h2
        simp only [Except.ok.injEq, Prod.mk.injEq] at h2
        exact ⟨by rw [h2.1], h2.2⟩

theorem mapSt_ok {σ : Type} {f : σ → σ} {r : Res σ} {o : List Event} {s' : σ} :
    mapSt f r = .ok (o, s') ↔ ∃ s1, r = .ok (o, s1) ∧ s' = f s1 := by
  unfold mapSt
  cases r with
  | error e => simp
  | ok p =>
    obtain ⟨o1, s1⟩ := p
    simp only [Except.ok.injEq, Prod.mk.injEq]
    constructor
    · rintro ⟨rfl, rfl⟩; exact ⟨s1, ⟨rfl, rfl⟩, rfl⟩
    · rintro ⟨s, ⟨rfl, rfl⟩, rfl⟩; exact ⟨rfl, rfl⟩

theorem wrapOut_ok {σ : Type} {a b : Event} {r : Res σ} {o : List Event} {s' : σ} :
    wrapOut a b r = .ok (o, s') ↔ ∃ o1, r = .ok (o1, s') ∧ o = a :: o1 ++ [b] := by
  unfold wrapOut
  cases r with
  | error e => simp
  | ok p =>
    obtain ⟨o1, s1⟩ := p
    simp only [Except.ok.injEq, Prod.mk.injEq]
    constructor
    · rintro ⟨rfl, rfl⟩; exact ⟨o1, ⟨rfl, rfl⟩, rfl⟩
    · rintro ⟨o2, ⟨rfl, rfl⟩, rfl⟩; exact ⟨rfl, rfl⟩

/-! ### the frame stack is restored -/

/-- invariant of a task on the frame stack: `binds` assigns into the top frame, every
    other task leaves the stack as it found it -/
def ScopesOK : ITask → St → St → Prop
  | .binds _ _ _, st, st' => st'.scopes.tail = st.scopes.tail ∧ (st.scopes ≠ [] → st'.scopes ≠ [])
  | _, st, st' => st'.scopes = st.scopes

@[simp] theorem push_scopes (st : St) (f : Frame) : (st.push f).scopes = f :: st.scopes := rfl
@[simp] theorem pop_scopes (st : St) : st.pop.scopes = st.scopes.tail := rfl
@[simp] theorem setMatched_scopes (st : St) (c cs m) : (st.setMatched c cs m).scopes = st.scopes := rfl
@[simp] theorem popChoice_scopes (st : St) : st.popChoice.scopes = st.scopes := rfl
@[simp] theorem define_scopes (st : St) (n m) : (st.define n m).scopes = st.scopes := rfl

theorem setTop_scopes (st : St) (x : Name) (v : Val) :
    (st.setTop x v).scopes.tail = st.scopes.tail ∧ (st.scopes ≠ [] → (st.setTop x v).scopes ≠ []) := by
  unfold St.setTop
  cases h : st.scopes with
  | nil => simp [h]
  | cons f fs => simp

theorem run_scopes : ∀ (n : Nat) (t : ITask) (st : St) (o : List Event) (st' : St),
    run n t st = .ok (o, st') → ScopesOK t st st' := by
  intro n
  induction n with
  | zero => intro t st o st' h; simp [run] at h
  | succ n ih =>
    intro t st o st' h
    cases t with
    | flat body =>
      cases body with
      | nil => simp [run] at h; simp [ScopesOK, h.2.symm]
      | cons ev rest =>
        simp only [run, seq_ok] at h
        obtain ⟨o1, s1, o2, h1, h2, rfl⟩ := h
        have a := ih _ _ _ _ h1
        have b := ih _ _ _ _ h2
        simp only [ScopesOK] at a b ⊢
        rw [b, a]
    | ev e =>
      cases e with
      | start t a => simp [run] at h; simp [ScopesOK, h.2.symm]
      | end_ t => simp [run] at h; simp [ScopesOK, h.2.symm]
      | text s => simp [run] at h; simp [ScopesOK, h.2.symm]
      | xexpr x =>
        cases x with
        | pure e =>
          simp only [run, bind_ok, pure, Except.pure, Except.ok.injEq, Prod.mk.injEq] at h
          obtain ⟨v, _, out, _, _, rfl⟩ := h
          simp [ScopesOK]
        | call f args =>
          simp only [run, bind_ok, mapSt_ok] at h
          obtain ⟨fv, _, vs, _, m, _, scope, _, s1, h1, rfl⟩ := h
          have a := ih _ _ _ _ h1
          simp only [ScopesOK] at a ⊢
          simp [a]
      | sub ds body =>
        simp only [run] at h
        have a := ih _ _ _ _ h
        simpa [ScopesOK] using a
    | apply ds body =>
      cases ds with
      | nil =>
        simp only [run] at h
        have a := ih _ _ _ _ h
        simpa [ScopesOK] using a
      | cons d ds =>
        cases d with
        | def_ name params =>
          simp only [run, Except.ok.injEq, Prod.mk.injEq] at h
          simp [ScopesOK, h.2.symm]
        | when e =>
          simp only [run] at h
          split at h
          · simp at h
          · split at h
            · simp only [Except.ok.injEq, Prod.mk.injEq] at h; simp [ScopesOK, h.2.symm]
            · split at h
              · simp at h
              · simp only [bind_ok] at h
                obtain ⟨m, _, h2⟩ := h
                split at h2
                · have a := ih _ _ _ _ h2
                  simpa [ScopesOK] using a
                · simp only [pure, Except.pure, Except.ok.injEq, Prod.mk.injEq] at h2
                  simp [ScopesOK, h2.2.symm]
        | otherwise =>
          simp only [run] at h
          split at h
          · simp at h
          · split at h
            · simp only [Except.ok.injEq, Prod.mk.injEq] at h; simp [ScopesOK, h.2.symm]
            · have a := ih _ _ _ _ h
              simpa [ScopesOK] using a
        | for_ v e =>
          simp only [run, bind_ok] at h
          obtain ⟨it, _, items, _, h2⟩ := h
          have a := ih _ _ _ _ h2
          simpa [ScopesOK] using a
        | if_ e =>
          simp only [run, bind_ok] at h
          obtain ⟨v, _, h2⟩ := h
          split at h2
          · have a := ih _ _ _ _ h2
            simpa [ScopesOK] using a
          · simp only [pure, Except.pure, Except.ok.injEq, Prod.mk.injEq] at h2
            simp [ScopesOK, h2.2.symm]
        | choose e =>
          simp only [run, bind_ok, mapSt_ok] at h
          obtain ⟨v, _, s1, h2, rfl⟩ := h
          have a := ih _ _ _ _ h2
          simpa [ScopesOK] using a
        | with_ bs =>
          simp only [run, mapSt_ok] at h
          obtain ⟨s1, h2, rfl⟩ := h
          have a := ih _ _ _ _ h2
          simp only [ScopesOK, push_scopes, List.tail_cons] at a
          simp [ScopesOK, a.1]
        | replace x => simp [run] at h
        | content x => simp [run] at h
        | attrs e =>
          cases ds with
          | nil =>
            simp only [run, bind_ok] at h
            obtain ⟨b, _, h2⟩ := h
            have a := ih _ _ _ _ h2
            simpa [ScopesOK] using a
          | cons d2 ds2 =>
            cases d2 <;> cases ds2 <;> simp only [run] at h <;> try (simp at h; done)
            simp only [bind_ok] at h
            obtain ⟨b, _, b', _, h2⟩ := h
            have a := ih _ _ _ _ h2
            simpa [ScopesOK] using a
        | strip c =>
          cases ds with
          | nil =>
            simp only [run, bind_ok] at h
            obtain ⟨b, _, h2⟩ := h
            have a := ih _ _ _ _ h2
            simpa [ScopesOK] using a
          | cons d2 ds2 => simp [run] at h
    | loop v items ds body =>
      cases items with
      | nil => simp [run] at h; simp [ScopesOK, h.2.symm]
      | cons item items =>
        simp only [run, seq_ok] at h
        obtain ⟨o1, s1, o2, h1, h2, rfl⟩ := h
        have a := ih _ _ _ _ h1
        have b := ih _ _ _ _ h2
        simp only [ScopesOK, push_scopes, pop_scopes] at a b ⊢
        rw [b, a]; rfl
    | binds bs ds body =>
      cases bs with
      | nil =>
        simp only [run] at h
        have a := ih _ _ _ _ h
        simp only [ScopesOK] at a ⊢
        simp [a]
      | cons p bs =>
        obtain ⟨x, e⟩ := p
        simp only [run, bind_ok] at h
        obtain ⟨v, _, h2⟩ := h
        have a := ih _ _ _ _ h2
        have b := setTop_scopes st x v
        simp only [ScopesOK] at a ⊢
        exact ⟨a.1.trans b.1, fun hne => a.2 (b.2 hne)⟩

/-! ### the choice stack is restored; data variables are only ever overwritten by new macros -/

/-- what rendering may do to `_choice_stack`: nothing, or set the matched flag of the top entry -/
def ChoiceStep (a b : List Choice) : Prop :=
  b = a ∨ ∃ c cs, a = c :: cs ∧ c.matched = false ∧ b = { c with matched := true } :: cs

theorem ChoiceStep.refl (a : List Choice) : ChoiceStep a a := Or.inl rfl

theorem ChoiceStep.trans {a b c : List Choice} (h1 : ChoiceStep a b) (h2 : ChoiceStep b c) :
    ChoiceStep a c := by
  rcases h1 with rfl | ⟨x, xs, rfl, hx, rfl⟩
  · exact h2
  · rcases h2 with rfl | ⟨y, ys, hy, hm, _⟩
    · exact Or.inr ⟨x, xs, rfl, hx, rfl⟩
    · simp only [List.cons.injEq] at hy
      rw [← hy.1] at hm
      simp at hm

/-- what rendering may do to the data frame and the macro table: macros are only added, and a
    data variable keeps its value unless a macro created meanwhile was stored under its name -/
def DataStep (st st' : St) : Prop :=
  (∃ ms, st'.macros = st.macros ++ ms) ∧
  ∀ x, st'.data.look? x = st.data.look? x ∨
       ∃ i, st.macros.length ≤ i ∧ st'.data.look? x = some (.macro i)

theorem DataStep.refl (st : St) : DataStep st st := ⟨⟨[], by simp⟩, fun _ => Or.inl rfl⟩

theorem DataStep.trans {a b c : St} (h1 : DataStep a b) (h2 : DataStep b c) : DataStep a c := by
  obtain ⟨⟨m1, e1⟩, d1⟩ := h1
  obtain ⟨⟨m2, e2⟩, d2⟩ := h2
  refine ⟨⟨m1 ++ m2, by rw [e2, e1, List.append_assoc]⟩, fun x => ?_⟩
  rcases d2 x with h | ⟨i, hi, h⟩
  · rcases d1 x with g | ⟨j, hj, g⟩
    · exact Or.inl (h.trans g)
    · exact Or.inr ⟨j, hj, h.trans g⟩
  · refine Or.inr ⟨i, ?_, h⟩
    rw [e1] at hi
    simp at hi
    omega

theorem look_set (e : Env) (n : Name) (v : Val) (x : Name) :
    (e.set n v).look? x = if n = x then some v else e.look? x := by
  induction e with
  | nil => simp [Env.set, Env.look?]
  | cons p rest ih =>
    obtain ⟨k, w⟩ := p
    simp only [Env.set]
    by_cases hk : k = n
    · subst hk
      simp only [if_true, Env.look?]
      by_cases hx : k = x <;> simp [hx]
    · simp only [hk, if_false, Env.look?, ih]
      by_cases hx : k = x
      · subst hx; simp [Ne.symm hk]
      · simp [hx]

def Inv (st st' : St) : Prop := ChoiceStep st.choice st'.choice ∧ DataStep st st'

theorem Inv.refl (st : St) : Inv st st := ⟨ChoiceStep.refl _, DataStep.refl _⟩
theorem Inv.trans {a b c : St} (h1 : Inv a b) (h2 : Inv b c) : Inv a c :=
  ⟨h1.1.trans h2.1, h1.2.trans h2.2⟩

/-- states that differ in the frame stack only -/
theorem Inv.of_same {st st' : St} (h1 : st'.choice = st.choice) (h2 : st'.data = st.data)
    (h3 : st'.macros = st.macros) : Inv st st' := by
  refine ⟨Or.inl h1, ⟨[], by simp [h3]⟩, fun x => Or.inl (by rw [h2])⟩

theorem Inv.push (st : St) (f : Frame) : Inv st (st.push f) := Inv.of_same rfl rfl rfl
theorem Inv.pop (st : St) : Inv st st.pop := Inv.of_same rfl rfl rfl
theorem Inv.setTop (st : St) (x : Name) (v : Val) : Inv st (st.setTop x v) := by
  unfold St.setTop; split
  · exact Inv.refl _
  · exact Inv.of_same rfl rfl rfl

theorem Inv.define (st : St) (n : Name) (m : Macro) : Inv st (st.define n m) := by
  refine ⟨Or.inl rfl, ⟨[m], rfl⟩, fun x => ?_⟩
  simp only [St.define, look_set]
  by_cases h : n = x
  · exact Or.inr ⟨st.macros.length, Nat.le_refl _, by simp [h]⟩
  · exact Or.inl (by simp [h])

theorem Inv.setMatched (st : St) (c : Choice) (cs : List Choice) (m : Bool)
    (h : st.choice = c :: cs) (hc : c.matched = false) : Inv st (st.setMatched c cs m) := by
  refine ⟨?_, DataStep.refl _⟩
  cases m with
  | true => exact Or.inr ⟨c, cs, h, hc, rfl⟩
  | false =>
    refine Or.inl ?_
    simp only [St.setMatched, h]
    congr 1
    cases c; simp_all

theorem run_inv : ∀ (n : Nat) (t : ITask) (st : St) (o : List Event) (st' : St),
    run n t st = .ok (o, st') → Inv st st' := by
  intro n
  induction n with
  | zero => intro t st o st' h; simp [run] at h
  | succ n ih =>
    intro t st o st' h
    cases t with
    | flat body =>
      cases body with
      | nil => simp [run] at h; rw [← h.2]; exact Inv.refl _
      | cons ev rest =>
        simp only [run, seq_ok] at h
        obtain ⟨o1, s1, o2, h1, h2, rfl⟩ := h
        exact (ih _ _ _ _ h1).trans (ih _ _ _ _ h2)
    | ev e =>
      cases e with
      | start t a => simp [run] at h; rw [← h.2]; exact Inv.refl _
      | end_ t => simp [run] at h; rw [← h.2]; exact Inv.refl _
      | text s => simp [run] at h; rw [← h.2]; exact Inv.refl _
      | xexpr x =>
        cases x with
        | pure e =>
          simp only [run, bind_ok, pure, Except.pure, Except.ok.injEq, Prod.mk.injEq] at h
          obtain ⟨v, _, out, _, _, rfl⟩ := h
          exact Inv.refl _
        | call f args =>
          simp only [run, bind_ok, mapSt_ok] at h
          obtain ⟨fv, _, vs, _, m, _, scope, _, s1, h1, rfl⟩ := h
          exact ((Inv.push st scope).trans (ih _ _ _ _ h1)).trans (Inv.pop s1)
      | sub ds body =>
        simp only [run] at h
        exact ih _ _ _ _ h
    | apply ds body =>
      cases ds with
      | nil =>
        simp only [run] at h
        exact ih _ _ _ _ h
      | cons d ds =>
        cases d with
        | def_ name params =>
          simp only [run, Except.ok.injEq, Prod.mk.injEq] at h
          rw [← h.2]; exact Inv.define _ _ _
        | when e =>
          simp only [run] at h
          split at h
          · simp at h
          · rename_i c cs hc
            split at h
            · simp only [Except.ok.injEq, Prod.mk.injEq] at h; rw [← h.2]; exact Inv.refl _
            · rename_i hm
              have hm' : c.matched = false := by simpa using hm
              split at h
              · simp at h
              · simp only [bind_ok] at h
                obtain ⟨m, _, h2⟩ := h
                split at h2
                · exact (Inv.setMatched st c cs true hc hm').trans (ih _ _ _ _ h2)
                · simp only [pure, Except.pure, Except.ok.injEq, Prod.mk.injEq] at h2
                  rw [← h2.2]; exact Inv.setMatched st c cs false hc hm'
        | otherwise =>
          simp only [run] at h
          split at h
          · simp at h
          · rename_i c cs hc
            split at h
            · simp only [Except.ok.injEq, Prod.mk.injEq] at h; rw [← h.2]; exact Inv.refl _
            · rename_i hm
              have hm' : c.matched = false := by simpa using hm
              exact (Inv.setMatched st c cs true hc hm').trans (ih _ _ _ _ h)
        | for_ v e =>
          simp only [run, bind_ok] at h
          obtain ⟨it, _, items, _, h2⟩ := h
          exact ih _ _ _ _ h2
        | if_ e =>
          simp only [run, bind_ok] at h
          obtain ⟨v, _, h2⟩ := h
          split at h2
          · exact ih _ _ _ _ h2
          · simp only [pure, Except.pure, Except.ok.injEq, Prod.mk.injEq] at h2
            rw [← h2.2]; exact Inv.refl _
        | choose e =>
          simp only [run, bind_ok, mapSt_ok] at h
          obtain ⟨v, _, s1, h2, rfl⟩ := h
          have a := ih _ _ _ _ h2
          refine ⟨Or.inl ?_, a.2⟩
          rcases a.1 with h3 | ⟨c, cs, h3, _, h4⟩
          · simp only [St.popChoice, h3, List.tail_cons]
          · simp only [List.cons.injEq] at h3
            simp only [St.popChoice, h4, List.tail_cons, h3.2]
        | with_ bs =>
          simp only [run, mapSt_ok] at h
          obtain ⟨s1, h2, rfl⟩ := h
          exact ((Inv.push st []).trans (ih _ _ _ _ h2)).trans (Inv.pop s1)
        | replace x => simp [run] at h
        | content x => simp [run] at h
        | attrs e =>
          cases ds with
          | nil =>
            simp only [run, bind_ok] at h
            obtain ⟨b, _, h2⟩ := h
            exact ih _ _ _ _ h2
          | cons d2 ds2 =>
            cases d2 <;> cases ds2 <;> simp only [run] at h <;> try (simp at h; done)
            simp only [bind_ok] at h
            obtain ⟨b, _, b', _, h2⟩ := h
            exact ih _ _ _ _ h2
        | strip c =>
          cases ds with
          | nil =>
            simp only [run, bind_ok] at h
            obtain ⟨b, _, h2⟩ := h
            exact ih _ _ _ _ h2
          | cons d2 ds2 => simp [run] at h
    | loop v items ds body =>
      cases items with
      | nil => simp [run] at h; rw [← h.2]; exact Inv.refl _
      | cons item items =>
        simp only [run, seq_ok] at h
        obtain ⟨o1, s1, o2, h1, h2, rfl⟩ := h
        exact (((Inv.push st _).trans (ih _ _ _ _ h1)).trans (Inv.pop s1)).trans (ih _ _ _ _ h2)
    | binds bs ds body =>
      cases bs with
      | nil =>
        simp only [run] at h
        exact ih _ _ _ _ h
      | cons p bs =>
        obtain ⟨x, e⟩ := p
        simp only [run, bind_ok] at h
        obtain ⟨v, _, h2⟩ := h
        exact (Inv.setTop st x v).trans (ih _ _ _ _ h2)

end Genshi.Tmpl

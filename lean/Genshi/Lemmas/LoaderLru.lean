/-
  C15 — closing the chain: the cache of the loader model is the abstract LRU map reached by a
  sequence of `get`/`set` operations, so (by `lru_refines_run`) the concrete linked structure
  driven by the same operations is well-formed and represents exactly that cache.
-/
import Genshi.Lemmas.Loader
import Genshi.Lemmas.Lru
namespace Genshi.Loader
open Genshi.Lru

theorem arun_append {K V : Type} [DecidableEq K] (a : ALru K V) (ops : List (Op K V)) (op : Op K V) :
    (arun a (ops ++ [op])).1 = (astep (arun a ops).1 op).1 := by
  induction ops generalizing a with
  | nil => simp [arun]
  | cons o os ih => simp only [List.cons_append, arun]; exact ih _

/-- the cache is what some sequence of container operations produces from the empty cache -/
def CacheReach (cap : Nat) (a : ALru Key Tmpl) : Prop := ∃ ops, a = (arun (aempty cap) ops).1

theorem CacheReach.step {cap : Nat} {a : ALru Key Tmpl} (h : CacheReach cap a) (op : Op Key Tmpl) :
    CacheReach cap (astep a op).1 := by
  obtain ⟨ops, rfl⟩ := h
  exact ⟨ops ++ [op], (arun_append _ ops op).symm⟩

theorem touched_reach {cap : Nat} {s : LState} (key : Key) (h : CacheReach cap s.cache) :
    CacheReach cap (touched s key).cache := by
  unfold touched
  cases alookup key s.cache.items with
  | none => exact h
  | some v => exact h.step _

/-- `load` acts on its cache only through `__getitem__` and `__setitem__` -/
theorem load_reach {cfg : Cfg} {fs : FS} {s s' : LState} {r : Req} {res : Res} {cap : Nat}
    (hr : CacheReach cap s.cache) (h : load cfg fs s r = some (s', res)) : CacheReach cap s'.cache := by
  obtain ⟨key, _, he⟩ := load_effect h
  cases res with
  | err e => rw [(he.failed e rfl).1]; exact touched_reach key hr
  | ok t =>
    rcases he.ok t rfl with ⟨_, hc, _⟩ | ⟨_, _, hc, _⟩
    · rw [hc]; exact touched_reach key hr
    · rw [hc]; exact (touched_reach key hr).step _

theorem hrun_reach (cfg : Cfg) (w : World) (cap : Nat) (hr : CacheReach cap w.ls.cache) (ops : List HOp) :
    CacheReach cap (hrun cfg w ops).1.ls.cache := by
  induction ops generalizing w with
  | nil => exact hr
  | cons op ops ih =>
    simp only [hrun]
    apply ih
    cases op with
    | write _ _ _ => exact hr
    | touch loc => simp only [hstep]; split <;> exact hr
    | delete _ => exact hr
    | load r =>
      simp only [hstep]
      cases hl : load cfg w.fs w.ls r with
      | none => exact hr
      | some p => exact load_reach hr hl

/-- after every history the loader's cache is represented by a well-formed concrete
    `LRUCache` structure: the one the same container operations build -/
theorem hrun_concrete (cfg : Cfg) (ops : List HOp) (d : Node Key Tmpl) :
    ∃ (cops : List (Op Key Tmpl)) (c : CLru Key Tmpl) (outs : List (Out Key Tmpl)),
      crun (empty cfg.cap d) cops = some (c, outs) ∧ Wf c ∧
      abs c = some (hrun cfg (World.init cfg.cap) ops).1.ls.cache := by
  obtain ⟨cops, hc⟩ := hrun_reach cfg (World.init cfg.cap) cfg.cap ⟨[], rfl⟩ ops
  obtain ⟨c, ids, hrun', hrepr, habs⟩ := crun_refines (empty_repr cfg.cap d) cops
  have e : absOf (empty cfg.cap d) [] = (aempty cfg.cap : ALru Key Tmpl) := rfl
  rw [e] at hrun' habs
  exact ⟨cops, c, _, hrun', ⟨ids, hrepr⟩, by rw [hrepr.abs, habs, hc]⟩

end Genshi.Loader

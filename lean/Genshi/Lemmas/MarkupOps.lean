/-
  C18 (wave 4) — lemmas about `Genshi.MarkupOps`: UTF-8 decoding inverts `utf8`, hence the C
  `escape()` end to end equals the character-wise specification; `striptags` / `stripentities`
  on escaped text; Attrs accessors; QName.
-/
import Genshi.Lemmas.Escape
import Genshi.Lemmas.SanRoundtrip
import Genshi.Model.MarkupOps
set_option linter.unusedSimpArgs false
namespace Genshi.MarkupOps
open Genshi.Str Genshi.Escape

/-! ### UTF-8 -/

theorem utf8Char_length_pos (c : Char) : 1 ≤ (utf8Char c).length := by
  unfold utf8Char
  simp only
  split
  · simp
  · split
    · simp
    · split <;> simp

theorem utf8Decode_char (c : Char) (f : Nat) (rest : List Nat) :
    utf8Decode (f + 1) (utf8Char c ++ rest) = c :: utf8Decode f rest := by
  have hv := c.valid
  have hlt : c.toNat < 0x110000 := by
    rcases hv with h | h
    · have : c.toNat < 0xD800 := h
      omega
    · exact h.2
  unfold utf8Char
  simp only
  by_cases h1 : c.toNat < 0x80
  · simp only [h1, ↓reduceIte, List.cons_append, List.nil_append, utf8Decode]
    rw [Char.ofNat_toNat]
  by_cases h2 : c.toNat < 0x800
  · simp only [h1, h2, ↓reduceIte, List.cons_append, List.nil_append, utf8Decode]
    have a1 : ¬ (0xC0 + c.toNat / 64 < 0x80) := by omega
    have a2 : 0xC0 + c.toNat / 64 < 0xE0 := by omega
    simp only [a1, a2, ↓reduceIte]
    have : (0xC0 + c.toNat / 64 - 0xC0) * 64 + (0x80 + c.toNat % 64 - 0x80) = c.toNat := by omega
    rw [this, Char.ofNat_toNat]
  by_cases h3 : c.toNat < 0x10000
  · simp only [h1, h2, h3, ↓reduceIte, List.cons_append, List.nil_append, utf8Decode]
    have a1 : ¬ (0xE0 + c.toNat / 4096 < 0x80) := by omega
    have a2 : ¬ (0xE0 + c.toNat / 4096 < 0xE0) := by omega
    have a3 : 0xE0 + c.toNat / 4096 < 0xF0 := by omega
    simp only [a1, a2, a3, ↓reduceIte]
    have : (0xE0 + c.toNat / 4096 - 0xE0) * 4096 + (0x80 + c.toNat / 64 % 64 - 0x80) * 64 +
        (0x80 + c.toNat % 64 - 0x80) = c.toNat := by omega
    rw [this, Char.ofNat_toNat]
  · simp only [h1, h2, h3, ↓reduceIte, List.cons_append, List.nil_append, utf8Decode]
    have a1 : ¬ (0xF0 + c.toNat / 262144 < 0x80) := by omega
    have a2 : ¬ (0xF0 + c.toNat / 262144 < 0xE0) := by omega
    have a3 : ¬ (0xF0 + c.toNat / 262144 < 0xF0) := by omega
    simp only [a1, a2, a3, ↓reduceIte]
    have : (0xF0 + c.toNat / 262144 - 0xF0) * 262144 + (0x80 + c.toNat / 4096 % 64 - 0x80) * 4096 +
        (0x80 + c.toNat / 64 % 64 - 0x80) * 64 + (0x80 + c.toNat % 64 - 0x80) = c.toNat := by omega
    rw [this, Char.ofNat_toNat]

theorem utf8Decode_utf8_fuel : ∀ (s : List Char) (f : Nat), (utf8 s).length ≤ f → utf8Decode f (utf8 s) = s := by
  intro s
  induction s with
  | nil => intro f _; cases f <;> rfl
  | cons c cs ih =>
    intro f hf
    have hs : utf8 (c :: cs) = utf8Char c ++ utf8 cs := by simp [utf8]
    rw [hs] at hf ⊢
    have := utf8Char_length_pos c
    simp only [List.length_append] at hf
    cases f with
    | zero => omega
    | succ f =>
      rw [utf8Decode_char, ih f (by omega)]

/-- `PyUnicode_FromStringAndSize` reads back what `PyUnicode_AsUTF8AndSize` wrote -/
theorem utf8Decode_utf8 (s : List Char) : utf8Decode (utf8 s).length (utf8 s) = s :=
  utf8Decode_utf8_fuel s _ (Nat.le_refl _)

/-- the C `escape()` end to end (encode, scan, decode) is the character-wise escape -/
theorem escapeC_eq_spec (q : Bool) (s : List Char) : escapeC q s = escapeSpec q s := by
  unfold escapeC
  simp only [escapeCBytes_spec, ← utf8_escapeSpec]
  exact utf8Decode_utf8 _

/-- both implementations compute the specification -/
theorem escOf_eq_spec (i : Impl) (q : Bool) (s : List Char) : escOf i q s = escapeSpec q s := by
  cases i
  · exact escapeC_eq_spec q s
  · exact escapePy_eq_spec q s

theorem escOf_fun (i : Impl) : escOf i = escapeSpec := by
  funext q s; exact escOf_eq_spec i q s

/-! ### operands -/

/-- string operands: `str` (and str subclasses), `Markup`, Markup subclasses, `__html__` objects -/
def Arg.stringy : Arg → Bool
  | .str _ => true
  | .markup _ => true
  | .msub _ => true
  | .html _ => true
  | _ => false

/-- what the algebra says an operand contributes: escaped once2 iff it is not safe -/
def once2 (q : Bool) : Arg → Str
  | .str s => escapeSpec q s
  | .markup s => s
  | .msub s => s
  | .html s => s
  | .none => []
  | .int n => intRepr n

theorem escapeCls_string (i : Impl) (q : Bool) (a : Arg) (h : a.stringy = true) :
    ∃ t, escapeCls i (escOf i) q a = .ok (t, once2 q a) ∧ t ≠ .str := by
  cases a with
  | none => simp [Arg.stringy] at h
  | int n => simp [Arg.stringy] at h
  | str s =>
    cases s with
    | nil => exact ⟨.markup, by simp [escapeCls, Arg.falsy, once2, escapeSpec], by decide⟩
    | cons c cs =>
      cases i <;> exact ⟨.markup, by simp [escapeCls, Arg.falsy, once2, escOf_eq_spec], by decide⟩
  | markup s =>
    cases s with
    | nil => exact ⟨.markup, by simp [escapeCls, Arg.falsy, once2], by decide⟩
    | cons c cs => cases i <;> exact ⟨.markup, by simp [escapeCls, Arg.falsy, once2], by decide⟩
  | msub s =>
    cases s with
    | nil => exact ⟨.markup, by simp [escapeCls, Arg.falsy, once2], by decide⟩
    | cons c cs =>
      cases i
      · exact ⟨.msub, by simp [escapeCls, Arg.falsy, once2], by decide⟩
      · exact ⟨.markup, by simp [escapeCls, Arg.falsy, once2], by decide⟩
  | html s => cases i <;> exact ⟨.markup, by simp [escapeCls, Arg.falsy, once2], by decide⟩

theorem escapeOp_string (i : Impl) (q : Bool) (a : Arg) (h : a.stringy = true) :
    escapeOp i (escOf i) q a = .ok (once2 q a) := by
  cases i
  · cases a <;> simp [Arg.stringy] at h <;> simp [escapeOp, once2, escOf_eq_spec]
  · obtain ⟨t, ht, _⟩ := escapeCls_string .py q a h
    simp [escapeOp, ht, Except.map]

/-- a pre-escaped operand passes through any escaper unchanged -/
theorem escapeOp_markup (i : Impl) (esc : Bool → Str → Str) (q : Bool) (t : Str) :
    escapeOp i esc q (.markup t) = .ok t := by
  cases i
  · simp [escapeOp]
  · cases t <;> simp [escapeOp, escapeCls, Arg.falsy, Except.map]

theorem mapM_ok {α β ε : Type} (f : α → Except ε β) (g : α → β) :
    ∀ (xs : List α), (∀ x ∈ xs, f x = .ok (g x)) → xs.mapM f = .ok (xs.map g) := by
  intro xs
  induction xs with
  | nil => intro _; rfl
  | cons x xs ih =>
    intro h
    rw [List.mapM_cons, h x (by simp), ih (fun y hy => h y (by simp [hy]))]
    rfl


theorem mapM_escapeOp (i : Impl) (q : Bool) (os : List Arg) (h : ∀ x ∈ os, x.stringy = true) :
    os.mapM (escapeOp i (escOf i) q) = .ok (os.map (once2 q)) :=
  mapM_ok _ _ os (fun x hx => escapeOp_string i q x (h x hx))

theorem mapM_escapeOp_pre (i : Impl) (q : Bool) (os : List Arg) :
    (os.map fun o => Arg.markup (once2 q o)).mapM (escapeOp i (fun _ s => s) q) = .ok (os.map (once2 q)) := by
  induction os with
  | nil => rfl
  | cons o os ih =>
    rw [List.map_cons, List.mapM_cons, escapeOp_markup, ih]; rfl

theorem mapM_escapeKV (i : Impl) (kvs : List (Str × Arg)) (h : ∀ p ∈ kvs, p.2.stringy = true) :
    kvs.mapM (escapeKV i (escOf i)) = .ok (kvs.map fun p => (p.1, once2 true p.2)) :=
  mapM_ok _ _ kvs (fun p hp => by simp [escapeKV, escapeOp_string i true p.2 (h p hp), Except.map])

theorem mapM_escapeKV_pre (i : Impl) (kvs : List (Str × Arg)) :
    (kvs.map fun p => (p.1, Arg.markup (once2 true p.2))).mapM (escapeKV i (fun _ s => s)) =
      .ok (kvs.map fun p => (p.1, once2 true p.2)) := by
  induction kvs with
  | nil => rfl
  | cons o os ih =>
    rw [List.map_cons, List.mapM_cons, ih]
    simp [escapeKV, escapeOp_markup, Except.map]

/-! ### striptags -/

theorem stripTagsGo_no_lt : ∀ (f : Nat) (s : Str), '<' ∉ s → stripTagsGo f s = s := by
  intro f
  induction f with
  | zero => intro s _; rfl
  | succ f ih =>
    intro s hs
    cases s with
    | nil => rfl
    | cons c cs =>
      have hc : c ≠ '<' := fun h => hs (by simp [h])
      have hcs : '<' ∉ cs := fun h => hs (by simp [h])
      simp [stripTagsGo, hc, ih cs hcs]

theorem escapeSpec_no_lt (q : Bool) (s : Str) : '<' ∉ escapeSpec q s := by
  unfold escapeSpec
  simp only [List.mem_flatMap, not_exists, not_and]
  intro c _
  unfold escC
  by_cases h1 : c = '&'
  · subst h1; simp [amp]
  by_cases h2 : c = '<'
  · subst h2; simp [lt]
  by_cases h3 : c = '>'
  · subst h3; simp [gt]
  by_cases h4 : c = '"'
  · subst h4; cases q <;> simp [qt]
  simp [h1, h2, h3, h4]
  exact fun h => h2 h.symm

/-- escaped text holds no tag: `striptags` leaves it alone -/
theorem striptags_escapeSpec (q : Bool) (s : Str) : striptags (escapeSpec q s) = escapeSpec q s :=
  stripTagsGo_no_lt _ _ (escapeSpec_no_lt q s)

/-! ### Attrs -/

theorem has_eq_get_isSome (a : Attrs) (n : Name) : Attrs.has a n = (Attrs.get a n).isSome := by
  induction a with
  | nil => rfl
  | cons p ps ih =>
    obtain ⟨k, v⟩ := p
    by_cases h : k = n
    · simp [Attrs.has, Attrs.get, h]
    · have : (k == n) = false := by simpa using h
      simp only [Attrs.has, List.any_cons, this, Bool.false_or, Attrs.get, h, ↓reduceIte]
      exact ih

theorem attrsSlice_sublist (a : Attrs) (i j : Option Int) : (attrsSlice a i j).Sublist a :=
  (List.take_sublist _ _).trans (List.drop_sublist _ _)

theorem attrsSlice_all (a : Attrs) : attrsSlice a none none = a := by
  simp [attrsSlice, sliceBound]

theorem sub_sublist (a : Attrs) (names : List Name) : (Attrs.sub a names).Sublist a := by
  unfold Attrs.sub; exact List.filter_sublist

/-! ### QName -/

theorem lstripBrace_idem (s : Str) : lstripBrace (lstripBrace s) = lstripBrace s := by
  unfold lstripBrace
  induction s with
  | nil => rfl
  | cons c cs ih =>
    by_cases h : c = '{'
    · simp only [lstripBy, h, decide_true, ↓reduceIte]; simpa [h] using ih
    · simp [lstripBy, h]

theorem lstripBrace_of_head (s : Str) (h : s.head? ≠ some '{') : lstripBrace s = s := by
  cases s with
  | nil => rfl
  | cons c cs =>
    have : c ≠ '{' := fun hc => h (by simp [hc])
    simp [lstripBrace, lstripBy, this]

theorem lstripBrace_head (s : Str) : (lstripBrace s).head? ≠ some '{' := by
  unfold lstripBrace
  induction s with
  | nil => simp [lstripBy]
  | cons c cs ih =>
    by_cases h : c = '{'
    · simpa [lstripBy, h] using ih
    · simp [lstripBy, h]

theorem splitBrace_append (ns loc : Str) (h : '}' ∉ ns) : splitBrace (ns ++ '}' :: loc) = some (ns, loc) := by
  induction ns with
  | nil => simp [splitBrace]
  | cons c cs ih =>
    have hc : c ≠ '}' := fun hc => h (by simp [hc])
    have hcs : '}' ∉ cs := fun hm => h (by simp [hm])
    simp [splitBrace, hc, ih hcs]

end Genshi.MarkupOps

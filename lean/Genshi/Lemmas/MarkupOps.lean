/-
  C18 (wave 4) — lemmas about `Genshi.MarkupOps`: UTF-8 decoding inverts `utf8`, hence the C
  `escape()` end to end equals the character-wise specification; `striptags` / `stripentities`
  on escaped text; Attrs accessors; QName.
-/
import Genshi.Lemmas.Escape
import Genshi.Lemmas.SanRoundtrip
import Genshi.Model.MarkupOps
set_option linter.unusedSimpArgs false
namespace Genshi.MarkupOps
open Genshi.Str Genshi.Escape

/-! ### UTF-8 -/

theorem utf8Char_length_pos (c : Char) : 1 ≤ (utf8Char c).length := by
  unfold utf8Char
  simp only
  split
  · simp
  · split
    · simp
    · split <;> simp

theorem utf8Decode_char (c : Char) (f : Nat) (rest : List Nat) :
    utf8Decode (f + 1) (utf8Char c ++ rest) = c :: utf8Decode f rest := by
  have hv := c.valid
  have hlt : c.toNat < 0x110000 := by
    rcases hv with h | h
    · have : c.toNat < 0xD800 := h
      omega
    · exact h.2
  unfold utf8Char
  simp only
  by_cases h1 : c.toNat < 0x80
  · simp only [h1, ↓reduceIte, List.cons_append, List.nil_append, utf8Decode]
    rw [Char.ofNat_toNat]
  by_cases h2 : c.toNat < 0x800
  · simp only [h1, h2, ↓reduceIte, List.cons_append, List.nil_append, utf8Decode]
    have a1 : ¬ (0xC0 + c.toNat / 64 < 0x80) := by omega
    have a2 : 0xC0 + c.toNat / 64 < 0xE0 := by omega
    simp only [a1, a2, ↓reduceIte]
    have : (0xC0 + c.toNat / 64 - 0xC0) * 64 + (0x80 + c.toNat % 64 - 0x80) = c.toNat := by omega
    rw [this, Char.ofNat_toNat]
  by_cases h3 : c.toNat < 0x10000
  · simp only [h1, h2, h3, ↓reduceIte, List.cons_append, List.nil_append, utf8Decode]
    have a1 : ¬ (0xE0 + c.toNat / 4096 < 0x80) := by omega
    have a2 : ¬ (0xE0 + c.toNat / 4096 < 0xE0) := by omega
    have a3 : 0xE0 + c.toNat / 4096 < 0xF0 := by omega
    simp only [a1, a2, a3, ↓reduceIte]
    have : (0xE0 + c.toNat / 4096 - 0xE0) * 4096 + (0x80 + c.toNat / 64 % 64 - 0x80) * 64 +
        (0x80 + c.toNat % 64 - 0x80) = c.toNat := by omega
    rw [this, Char.ofNat_toNat]
  · simp only [h1, h2, h3, ↓reduceIte, List.cons_append, List.nil_append, utf8Decode]
    have a1 : ¬ (0xF0 + c.toNat / 262144 < 0x80) := by omega
    have a2 : ¬ (0xF0 + c.toNat / 262144 < 0xE0) := by omega
    have a3 : ¬ (0xF0 + c.toNat / 262144 < 0xF0) := by omega
    simp only [a1, a2, a3, ↓reduceIte]
    have : (0xF0 + c.toNat / 262144 - 0xF0) * 262144 + (0x80 + c.toNat / 4096 % 64 - 0x80) * 4096 +
        (0x80 + c.toNat / 64 % 64 - 0x80) * 64 + (0x80 + c.toNat % 64 - 0x80) = c.toNat := by omega
    rw [this, Char.ofNat_toNat]

theorem utf8Decode_utf8_fuel : ∀ (s : List Char) (f : Nat), (utf8 s).length ≤ f → utf8Decode f (utf8 s) = s := by
  intro s
  induction s with
  | nil => intro f _; cases f <;> rfl
  | cons c cs ih =>
    intro f hf
    have hs : utf8 (c :: cs) = utf8Char c ++ utf8 cs := by simp [utf8]
    rw [hs] at hf ⊢
    have := utf8Char_length_pos c
    simp only [List.length_append] at hf
    cases f with
    | zero => omega
    | succ f =>
      rw [utf8Decode_char, ih f (by omega)]

/-- `PyUnicode_FromStringAndSize` reads back what `PyUnicode_AsUTF8AndSize` wrote -/
theorem utf8Decode_utf8 (s : List Char) : utf8Decode (utf8 s).length (utf8 s) = s :=
  utf8Decode_utf8_fuel s _ (Nat.le_refl _)

/-- the C `escape()` end to end (encode, scan, decode) is the character-wise escape -/
theorem escapeC_eq_spec (q : Bool) (s : List Char) : escapeC q s = escapeSpec q s := by
  unfold escapeC
  simp only [escapeCBytes_spec, ← utf8_escapeSpec]
  exact utf8Decode_utf8 _

/-- both implementations compute the specification -/
theorem escOf_eq_spec (i : Impl) (q : Bool) (s : List Char) : escOf i q s = escapeSpec q s := by
  cases i
  · exact escapeC_eq_spec q s
  · exact escapePy_eq_spec q s

theorem escOf_fun (i : Impl) : escOf i = escapeSpec := by
  funext q s; exact escOf_eq_spec i q s

/-! ### operands -/

/-- string operands: `str` (and str subclasses), `Markup`, Markup subclasses, `__html__` objects -/
def Arg.stringy : Arg → Bool
  | .str _ => true
  | .markup _ => true
  | .msub _ => true
  | .html _ => true
  | _ => false

/-- what the algebra says an operand contributes: escaped once2 iff it is not safe -/
def once2 (q : Bool) : Arg → Str
  | .str s => escapeSpec q s
  | .markup s => s
  | .msub s => s
  | .html s => s
  | .none => []
  | .int n => intRepr n

theorem escapeCls_string (i : Impl) (q : Bool) (a : Arg) (h : a.stringy = true) :
    ∃ t, escapeCls i (escOf i) q a = .ok (t, once2 q a) ∧ t ≠ .str := by
  cases a with
  | none => simp [Arg.stringy] at h
  | int n => simp [Arg.stringy] at h
  | str s =>
    cases s with
    | nil => exact ⟨.markup, by simp [escapeCls, Arg.falsy, once2, escapeSpec], by decide⟩
    | cons c cs =>
      cases i <;> exact ⟨.markup, by simp [escapeCls, Arg.falsy, once2, escOf_eq_spec], by decide⟩
  | markup s =>
    cases s with
    | nil => exact ⟨.markup, by simp [escapeCls, Arg.falsy, once2], by decide⟩
    | cons c cs => cases i <;> exact ⟨.markup, by simp [escapeCls, Arg.falsy, once2], by decide⟩
  | msub s =>
    cases s with
    | nil => exact ⟨.markup, by simp [escapeCls, Arg.falsy, once2], by decide⟩
    | cons c cs =>
      cases i
      · exact ⟨.msub, by simp [escapeCls, Arg.falsy, once2], by decide⟩
      · exact ⟨.markup, by simp [escapeCls, Arg.falsy, once2], by decide⟩
  | html s => cases i <;> exact ⟨.markup, by simp [escapeCls, Arg.falsy, once2], by decide⟩

theorem escapeOp_string (i : Impl) (q : Bool) (a : Arg) (h : a.stringy = true) :
    escapeOp i (escOf i) q a = .ok (once2 q a) := by
  cases i
  · cases a <;> simp [Arg.stringy] at h <;> simp [escapeOp, once2, escOf_eq_spec]
  · obtain ⟨t, ht, _⟩ := escapeCls_string .py q a h
    simp [escapeOp, ht, Except.map]

/-- a pre-escaped operand passes through any escaper unchanged -/
theorem escapeOp_markup (i : Impl) (esc : Bool → Str → Str) (q : Bool) (t : Str) :
    escapeOp i esc q (.markup t) = .ok t := by
  cases i
  · simp [escapeOp]
  · cases t <;> simp [escapeOp, escapeCls, Arg.falsy, Except.map]

theorem mapM_ok {α β ε : Type} (f : α → Except ε β) (g : α → β) :
    ∀ (xs : List α), (∀ x ∈ xs, f x = .ok (g x)) → xs.mapM f = .ok (xs.map g) := by
  intro xs
  induction xs with
  | nil => intro _; rfl
  | cons x xs ih =>
    intro h
    rw [List.mapM_cons, h x (by simp), ih (fun y hy => h y (by simp [hy]))]
    rfl


theorem mapM_escapeOp (i : Impl) (q : Bool) (os : List Arg) (h : ∀ x ∈ os, x.stringy = true) :
    os.mapM (escapeOp i (escOf i) q) = .ok (os.map (once2 q)) :=
  mapM_ok _ _ os (fun x hx => escapeOp_string i q x (h x hx))

theorem mapM_escapeOp_pre (i : Impl) (q : Bool) (os : List Arg) :
    (os.map fun o => Arg.markup (once2 q o)).mapM (escapeOp i (fun _ s => s) q) = .ok (os.map (once2 q)) := by
  induction os with
  | nil => rfl
  | cons o os ih =>
    rw [List.map_cons, List.mapM_cons, escapeOp_markup, ih]; rfl

theorem mapM_escapeKV (i : Impl) (kvs : List (Str × Arg)) (h : ∀ p ∈ kvs, p.2.stringy = true) :
    kvs.mapM (escapeKV i (escOf i)) = .ok (kvs.map fun p => (p.1, once2 true p.2)) :=
  mapM_ok _ _ kvs (fun p hp => by simp [escapeKV, escapeOp_string i true p.2 (h p hp), Except.map])

theorem mapM_escapeKV_pre (i : Impl) (kvs : List (Str × Arg)) :
    (kvs.map fun p => (p.1, Arg.markup (once2 true p.2))).mapM (escapeKV i (fun _ s => s)) =
      .ok (kvs.map fun p => (p.1, once2 true p.2)) := by
  induction kvs with
  | nil => rfl
  | cons o os ih =>
    rw [List.map_cons, List.mapM_cons, ih]
    simp [escapeKV, escapeOp_markup, Except.map]


/-! ### unescape on text without `&` -/

theorem replaceGo_no_head (p : Char) (ps new : Str) : ∀ (s : Str), p ∉ s → replaceGo (p :: ps) new 0 s = s := by
  intro s
  induction s with
  | nil => intro _; rfl
  | cons c cs ih =>
    intro h
    have hc : p ≠ c := fun e => h (by simp [e])
    have hcs : p ∉ cs := fun hm => h (by simp [hm])
    have : (p :: ps).isPrefixOf (c :: cs) = false := by simp [List.isPrefixOf, hc]
    simp only [replaceGo, this, Bool.false_eq_true, ↓reduceIte, ih hcs]

theorem replace_no_head (p : Char) (ps new s : Str) (h : p ∉ s) : replace (p :: ps) new s = s := by
  simp [replace, replaceGo_no_head p ps new s h]

theorem unescape_no_amp (s : Str) (h : '&' ∉ s) : unescape s = s := by
  unfold unescape
  simp only [qt, gt, lt, amp]
  rw [replace_no_head _ _ _ _ h, replace_no_head _ _ _ _ h, replace_no_head _ _ _ _ h, replace_no_head _ _ _ _ h]

/-! ### striptags -/

theorem stripTagsGo_no_lt : ∀ (f : Nat) (s : Str), '<' ∉ s → stripTagsGo f s = s := by
  intro f
  induction f with
  | zero => intro s _; rfl
  | succ f ih =>
    intro s hs
    cases s with
    | nil => rfl
    | cons c cs =>
      have hc : c ≠ '<' := fun h => hs (by simp [h])
      have hcs : '<' ∉ cs := fun h => hs (by simp [h])
      simp [stripTagsGo, hc, ih cs hcs]

theorem escapeSpec_no_lt (q : Bool) (s : Str) : '<' ∉ escapeSpec q s := by
  unfold escapeSpec
  simp only [List.mem_flatMap, not_exists, not_and]
  intro c _
  unfold escC
  by_cases h1 : c = '&'
  · subst h1; simp [amp]
  by_cases h2 : c = '<'
  · subst h2; simp [lt]
  by_cases h3 : c = '>'
  · subst h3; simp [gt]
  by_cases h4 : c = '"'
  · subst h4; cases q <;> simp [qt]
  simp [h1, h2, h3, h4]
  exact fun h => h2 h.symm

/-- escaped text holds no tag: `striptags` leaves it alone -/
theorem striptags_escapeSpec (q : Bool) (s : Str) : striptags (escapeSpec q s) = escapeSpec q s :=
  stripTagsGo_no_lt _ _ (escapeSpec_no_lt q s)


/-! ### striptags leaves no tag -/

theorem afterGt_none : ∀ (s : Str), afterGt s = none → '>' ∉ s := by
  intro s
  induction s with
  | nil => intro _; simp
  | cons c cs ih =>
    intro h
    by_cases hc : c = '>'
    · simp [afterGt, hc] at h
    · simp only [afterGt, hc, ↓reduceIte] at h
      intro hm
      rcases List.mem_cons.mp hm with h1 | h1
      · exact hc h1.symm
      · exact ih h h1

/-- `r` is a (not necessarily proper) suffix-part of `s`: no longer, and made of its characters -/
def Within (r s : Str) : Prop := r.length ≤ s.length ∧ ∀ x ∈ r, x ∈ s

theorem within_cons {r s : Str} (c : Char) (h : Within r s) : Within r (c :: s) :=
  ⟨by have := h.1; simp; omega, fun x hx => List.mem_cons_of_mem _ (h.2 x hx)⟩

theorem afterGt_within : ∀ (s r : Str), afterGt s = some r → Within r s := by
  intro s
  induction s with
  | nil => intro r h; simp [afterGt] at h
  | cons c cs ih =>
    intro r h
    by_cases hc : c = '>'
    · simp only [afterGt, hc, ↓reduceIte, Option.some.injEq] at h
      subst h
      exact ⟨by simp, fun x hx => List.mem_cons_of_mem _ hx⟩
    · simp only [afterGt, hc, ↓reduceIte] at h
      exact within_cons c (ih r h)

theorem afterCommentEnd_within : ∀ (s r : Str), afterCommentEnd s = some r → Within r s := by
  intro s
  induction s with
  | nil => intro r h; simp [afterCommentEnd] at h
  | cons c cs ih =>
    intro r h
    unfold afterCommentEnd at h
    split at h
    · simp only [Option.some.injEq] at h
      subst h
      exact ⟨by simp; omega, fun x hx => List.mem_cons_of_mem _ (List.mem_of_mem_drop hx)⟩
    · split at h
      · simp at h
      · exact within_cons c (ih r h)

theorem matchTag_within (s r : Str) (h : matchTag s = some r) : Within r s := by
  unfold matchTag at h
  split at h
  · rename_i r' hr
    simp only [Option.some.injEq] at h
    subst h
    split at hr
    · have := afterCommentEnd_within _ _ hr
      exact ⟨by have := this.1; simp at this ⊢; omega, fun x hx => List.mem_of_mem_drop (this.2 x hx)⟩
    · simp at hr
  · exact afterGt_within s r h

theorem matchTag_none (s : Str) (h : matchTag s = none) : '>' ∉ s := by
  unfold matchTag at h
  split at h
  · simp at h
  · exact afterGt_none s h

theorem stripTagsGo_subset : ∀ (f : Nat) (s : Str), s.length < f → ∀ x ∈ stripTagsGo f s, x ∈ s := by
  intro f
  induction f with
  | zero => intro s h; simp at h
  | succ f ih =>
    intro s hs x hx
    cases s with
    | nil => simp [stripTagsGo] at hx
    | cons c cs =>
      simp only [List.length_cons] at hs
      unfold stripTagsGo at hx
      split at hx
      · split at hx
        · rename_i rest hr
          have hw := matchTag_within cs rest hr
          exact List.mem_cons_of_mem _ (hw.2 x (ih rest (by have := hw.1; omega) x hx))
        · rcases List.mem_cons.mp hx with h1 | h1
          · simp [h1]
          · exact List.mem_cons_of_mem _ (ih cs (by omega) x h1)
      · rcases List.mem_cons.mp hx with h1 | h1
        · simp [h1]
        · exact List.mem_cons_of_mem _ (ih cs (by omega) x h1)

/-- no `<` of the text is followed, anywhere later, by a `>`: no tag is left -/
def NoTag (t : Str) : Prop := ∀ pre post, t = pre ++ '<' :: post → '>' ∉ post

theorem noTag_of_no_gt (t : Str) (h : '>' ∉ t) : NoTag t := by
  intro pre post he hm
  exact h (by rw [he]; simp [hm])

theorem stripTagsGo_noTag : ∀ (f : Nat) (s : Str), s.length < f → NoTag (stripTagsGo f s) := by
  intro f
  induction f with
  | zero => intro s h; simp at h
  | succ f ih =>
    intro s hs
    cases s with
    | nil => intro pre post he; simp [stripTagsGo] at he
    | cons c cs =>
      simp only [List.length_cons] at hs
      unfold stripTagsGo
      split
      · rename_i hc
        split
        · rename_i rest hr
          have hw := matchTag_within cs rest hr
          exact ih rest (by have := hw.1; omega)
        · rename_i hr
          have hgt := matchTag_none cs hr
          apply noTag_of_no_gt
          intro hm
          rcases List.mem_cons.mp hm with h1 | h1
          · rw [hc] at h1; exact absurd h1 (by decide)
          · exact hgt (stripTagsGo_subset f cs (by omega) _ h1)
      · rename_i hc
        intro pre post he
        cases pre with
        | nil =>
          simp only [List.nil_append, List.cons.injEq] at he
          exact absurd he.1 hc
        | cons p pre' =>
          simp only [List.cons_append, List.cons.injEq] at he
          exact ih cs (by omega) pre' post he.2

theorem striptags_noTag (s : Str) : NoTag (striptags s) :=
  stripTagsGo_noTag _ s (Nat.lt_succ_self _)


/-! ### striptags: plain text is kept, a simple tag is removed -/

theorem stripTagsGo_fuel : ∀ (f g : Nat) (s : Str), s.length < f → s.length < g →
    stripTagsGo f s = stripTagsGo g s := by
  intro f
  induction f with
  | zero => intro g s h; simp at h
  | succ f ih =>
    intro g s hf hg
    cases g with
    | zero => simp at hg
    | succ g =>
      cases s with
      | nil => rfl
      | cons c cs =>
        simp only [List.length_cons] at hf hg
        unfold stripTagsGo
        split
        · split
          · rename_i rest hr
            have hw := matchTag_within cs rest hr
            exact ih g rest (by have := hw.1; omega) (by have := hw.1; omega)
          · rw [ih g cs (by omega) (by omega)]
        · rw [ih g cs (by omega) (by omega)]

theorem stripTagsGo_plain_prefix : ∀ (a b : Str) (f : Nat), '<' ∉ a → (a ++ b).length < f →
    stripTagsGo f (a ++ b) = a ++ stripTagsGo (f - a.length) b := by
  intro a
  induction a with
  | nil => intro b f _ _; simp
  | cons c cs ih =>
    intro b f h hf
    have hc : c ≠ '<' := fun e => h (by simp [e])
    have hcs : '<' ∉ cs := fun hm => h (by simp [hm])
    cases f with
    | zero => simp at hf
    | succ f =>
      simp only [List.cons_append, List.length_cons] at hf ⊢
      simp only [stripTagsGo, hc, ↓reduceIte]
      rw [ih b f hcs (by omega)]
      have : f + 1 - (cs.length + 1) = f - cs.length := by omega
      rw [this]

/-- text before the first `<` is kept as it is -/
theorem striptags_plain_prefix (a b : Str) (h : '<' ∉ a) : striptags (a ++ b) = a ++ striptags b := by
  unfold striptags
  rw [stripTagsGo_plain_prefix a b _ h (Nat.lt_succ_self _)]
  congr 1
  apply stripTagsGo_fuel
  · simp; omega
  · exact Nat.lt_succ_self _

theorem afterGt_append (t rest : Str) (h : '>' ∉ t) : afterGt (t ++ '>' :: rest) = some rest := by
  induction t with
  | nil => simp [afterGt]
  | cons c cs ih =>
    have hc : c ≠ '>' := fun e => h (by simp [e])
    have hcs : '>' ∉ cs := fun hm => h (by simp [hm])
    simp [afterGt, hc, ih hcs]

/-- a tag `<t>` whose inside holds no `>` and does not begin with `!` is removed -/
theorem striptags_simple_tag (t rest : Str) (h1 : '>' ∉ t) (h2 : t.head? ≠ some '!') :
    striptags ('<' :: t ++ '>' :: rest) = striptags rest := by
  have hp : ['!', '-', '-'].isPrefixOf (t ++ '>' :: rest) = false := by
    cases t with
    | nil => simp [List.isPrefixOf]
    | cons c cs =>
      have : c ≠ '!' := fun e => h2 (by simp [e])
      simp [List.isPrefixOf, this, Ne.symm this]
  have hm : matchTag (t ++ '>' :: rest) = some rest := by
    unfold matchTag
    simp only [hp, Bool.false_eq_true, ↓reduceIte]
    exact afterGt_append t rest h1
  unfold striptags
  simp only [List.cons_append, List.length_cons, stripTagsGo, ↓reduceIte, hm]
  apply stripTagsGo_fuel
  · simp; omega
  · exact Nat.lt_succ_self _

/-! ### stripentities(keepxmlentities=True) on escaped text -/

theorem xml_facts : namedRefK ['a', 'm', 'p'] = .ok amp ∧ namedRefK ['l', 't'] = .ok lt ∧
    namedRefK ['g', 't'] = .ok gt := by decide

theorem matchRefK_amp (rest : Str) : matchRefK ('a' :: 'm' :: 'p' :: ';' :: rest) = some (.ok amp, rest) := by
  obtain ⟨ha, hm, hp, _, _, _, hs, _, _, _⟩ := San.word_facts
  simp [matchRefK, San.matchNumeric, matchNamedK, List.takeWhile, List.dropWhile, ha, hm, hp, hs, xml_facts.1]

theorem matchRefK_lt (rest : Str) : matchRefK ('l' :: 't' :: ';' :: rest) = some (.ok lt, rest) := by
  obtain ⟨_, _, _, hl, ht, _, hs, _, _, _⟩ := San.word_facts
  simp [matchRefK, San.matchNumeric, matchNamedK, List.takeWhile, List.dropWhile, hl, ht, hs, xml_facts.2.1]

theorem matchRefK_gt (rest : Str) : matchRefK ('g' :: 't' :: ';' :: rest) = some (.ok gt, rest) := by
  obtain ⟨_, _, _, _, ht, hg, hs, _, _, _⟩ := San.word_facts
  simp [matchRefK, San.matchNumeric, matchNamedK, List.takeWhile, List.dropWhile, hg, ht, hs, xml_facts.2.2]

theorem matchRefK_qt (rest : Str) : matchRefK ('#' :: '3' :: '4' :: ';' :: rest) = some (.ok ['"'], rest) := by
  obtain ⟨_, _, _, _, _, _, _, h3, h4, hs⟩ := San.word_facts
  simp [matchRefK, San.matchNumeric, List.takeWhile, List.dropWhile, h3, h4, hs, San.entity_facts.2.2.2, San.dropSemi]

theorem escapeSpec_cons (q : Bool) (c : Char) (v : Str) : escapeSpec q (c :: v) = escC q c ++ escapeSpec q v := by
  simp [escapeSpec]

theorem stripEntGoK_escape (q : Bool) : ∀ (v : Str) (f : Nat), (escapeSpec q v).length < f →
    stripEntGoK f (escapeSpec q v) = .ok (escapeSpec false v) := by
  intro v
  induction v with
  | nil =>
    intro f hf
    cases f with
    | zero => simp at hf
    | succ f => rfl
  | cons c v' ih =>
    intro f hf
    rw [escapeSpec_cons] at hf ⊢
    rw [escapeSpec_cons false]
    cases f with
    | zero => simp at hf
    | succ f =>
      by_cases h1 : c = '&'
      · subst h1
        have e1 : escC q '&' = amp := by simp [escC]
        have e2 : escC false '&' = amp := by simp [escC]
        rw [e1] at hf ⊢; rw [e2]
        simp only [amp, List.cons_append, List.nil_append, List.length_cons] at hf ⊢
        simp only [stripEntGoK, ↓reduceIte, matchRefK_amp]
        rw [ih f (by omega)]; rfl
      by_cases h2 : c = '<'
      · subst h2
        have e1 : escC q '<' = lt := by simp [escC]
        have e2 : escC false '<' = lt := by simp [escC]
        rw [e1] at hf ⊢; rw [e2]
        simp only [lt, List.cons_append, List.nil_append, List.length_cons] at hf ⊢
        simp only [stripEntGoK, ↓reduceIte, matchRefK_lt]
        rw [ih f (by omega)]; rfl
      by_cases h3 : c = '>'
      · subst h3
        have e1 : escC q '>' = gt := by simp [escC]
        have e2 : escC false '>' = gt := by simp [escC]
        rw [e1] at hf ⊢; rw [e2]
        simp only [gt, List.cons_append, List.nil_append, List.length_cons] at hf ⊢
        simp only [stripEntGoK, ↓reduceIte, matchRefK_gt]
        rw [ih f (by omega)]; rfl
      by_cases h4 : c = '"' ∧ q = true
      · obtain ⟨rfl, rfl⟩ := h4
        have e1 : escC true '"' = qt := by simp [escC]
        have e2 : escC false '"' = ['"'] := by simp [escC]
        rw [e1] at hf ⊢; rw [e2]
        simp only [qt, List.cons_append, List.nil_append, List.length_cons] at hf ⊢
        simp only [stripEntGoK, ↓reduceIte, matchRefK_qt]
        rw [ih f (by omega)]; rfl
      · have e1 : escC q c = [c] := by
          unfold escC
          simp only [h1, h2, h3, ↓reduceIte]
          by_cases hq : c = '"'
          · have : q = false := by
              cases q with
              | false => rfl
              | true => exact absurd ⟨hq, rfl⟩ h4
            simp [hq, this]
          · simp [hq]
        have e2 : escC false c = [c] := by
          unfold escC
          simp [h1, h2, h3]
        rw [e1] at hf ⊢; rw [e2]
        simp only [List.cons_append, List.nil_append, List.length_cons] at hf ⊢
        simp only [stripEntGoK, h1, ↓reduceIte]
        rw [ih f (by omega)]; rfl

/-- with `keepxmlentities` the XML entities of escaped text stay and `&#34;` is read back -/
theorem stripentitiesK_escape (q : Bool) (v : Str) :
    stripentities true (escapeSpec q v) = .ok (escapeSpec false v) := by
  simp only [stripentities, ↓reduceIte]
  exact stripEntGoK_escape q v _ (Nat.lt_succ_self _)

/-! ### Attrs -/

theorem has_eq_get_isSome (a : Attrs) (n : Name) : Attrs.has a n = (Attrs.get a n).isSome := by
  induction a with
  | nil => rfl
  | cons p ps ih =>
    obtain ⟨k, v⟩ := p
    by_cases h : k = n
    · simp [Attrs.has, Attrs.get, h]
    · have : (k == n) = false := by simpa using h
      simp only [Attrs.has, List.any_cons, this, Bool.false_or, Attrs.get, h, ↓reduceIte]
      exact ih

theorem attrsSlice_sublist (a : Attrs) (i j : Option Int) : (attrsSlice a i j).Sublist a :=
  (List.take_sublist _ _).trans (List.drop_sublist _ _)

theorem attrsSlice_all (a : Attrs) : attrsSlice a none none = a := by
  simp [attrsSlice, sliceBound]

theorem sub_sublist (a : Attrs) (names : List Name) : (Attrs.sub a names).Sublist a := by
  unfold Attrs.sub; exact List.filter_sublist


/-! ### `get` after `|` -/

/-- the pairs of the right operand whose value is not `None` -/
def somes (b : List (Name × Option Str)) : List (Name × Str) := b.filterMap fun p => p.2.map fun v => (p.1, v)

theorem somes_cons_none (k : Name) (b : List (Name × Option Str)) : somes ((k, none) :: b) = somes b := by
  simp [somes]

theorem somes_cons_some (k : Name) (v : Str) (b : List (Name × Option Str)) :
    somes ((k, some v) :: b) = (k, v) :: somes b := by
  simp [somes]

theorem orRepl_cons_none (self : Attrs) (k : Name) (b : List (Name × Option Str)) :
    orRepl self ((k, none) :: b) = orRepl self b := by
  simp [orRepl]

theorem orRepl_cons_some (self : Attrs) (k : Name) (v : Str) (b : List (Name × Option Str)) :
    orRepl self ((k, some v) :: b) = if self.has k then (k, v) :: orRepl self b else orRepl self b := by
  by_cases h : self.has k = true <;> simp [orRepl, h]

theorem get_append (x y : Attrs) (n : Name) :
    Attrs.get (x ++ y) n = match Attrs.get x n with | some v => some v | none => Attrs.get y n := by
  induction x with
  | nil => rfl
  | cons p ps ih =>
    obtain ⟨k, v⟩ := p
    by_cases h : k = n
    · simp [Attrs.get, h]
    · simp only [List.cons_append, Attrs.get, h, ↓reduceIte]; exact ih

theorem get_upsert (k : Name) (v : Str) (acc : Attrs) (n : Name) :
    Attrs.get (upsert k v acc) n = if k = n then some v else Attrs.get acc n := by
  induction acc with
  | nil => simp [upsert, Attrs.get]
  | cons p ps ih =>
    obtain ⟨k', w⟩ := p
    by_cases h : k' = k
    · subst h
      by_cases h2 : k' = n <;> simp [upsert, Attrs.get, h2]
    · by_cases h2 : k' = n
      · subst h2
        have : k ≠ k' := fun e => h e.symm
        simp [upsert, Attrs.get, h, this]
      · simp [upsert, Attrs.get, h, h2, ih]

theorem get_orNew_fold (self : Attrs) (remove : List Name) (n : Name)
    (hs : self.has n = false) (hr : remove.contains n = false) :
    ∀ (ps : List (Name × Option Str)) (acc : Attrs),
      Attrs.get (ps.foldl (orNewStep self remove) acc) n =
        match lastVal n (somes ps) with | some v => some v | none => Attrs.get acc n := by
  intro ps
  induction ps with
  | nil => intro acc; rfl
  | cons p ps ih =>
    intro acc
    obtain ⟨k, ov⟩ := p
    simp only [List.foldl_cons]
    rw [ih]
    cases ov with
    | none => rw [somes_cons_none]; simp [orNewStep]
    | some v =>
      rw [somes_cons_some]
      simp only [lastVal]
      cases hl : lastVal n (somes ps) with
      | some w => simp
      | none =>
        simp only [orNewStep]
        have hr2 : n ∉ remove := by simpa using hr
        by_cases hk : k = n
        · subst hk; simp [hs, hr2, get_upsert]
        · by_cases hc : (self.has k = true ∨ k ∈ remove)
          · simp [hc, hk]
          · simp [hc, hk, get_upsert]

theorem get_kept (l : Attrs) (remove : List Name) (R : List (Name × Str)) (n : Name)
    (hr : remove.contains n = false) :
    Attrs.get (l.filterMap fun p => if remove.contains p.1 then none else some (p.1, (lastVal p.1 R).getD p.2)) n
      = (Attrs.get l n).map fun sv => (lastVal n R).getD sv := by
  induction l with
  | nil => rfl
  | cons p ps ih =>
    obtain ⟨k, v⟩ := p
    have hr2 : n ∉ remove := by simpa using hr
    by_cases hk : k = n
    · subst hk; simp [List.filterMap_cons, hr2, Attrs.get]
    · by_cases hc : k ∈ remove
      · simp only [List.filterMap_cons, List.contains_iff_mem, hc, ↓reduceIte, Attrs.get, hk]
        simpa using ih
      · simp only [List.filterMap_cons, List.contains_iff_mem, hc, ↓reduceIte, Attrs.get, hk]
        simpa using ih

theorem get_orKept (a : Attrs) (b : List (Name × Option Str)) (n : Name) (hr : (orRemove b).contains n = false) :
    Attrs.get (orKept a b) n = (Attrs.get a n).map fun sv => (lastVal n (orRepl a b)).getD sv := by
  unfold orKept; exact get_kept a (orRemove b) (orRepl a b) n hr

theorem lastVal_orRepl (self : Attrs) (b : List (Name × Option Str)) (n : Name) (h : self.has n = true) :
    lastVal n (orRepl self b) = lastVal n (somes b) := by
  induction b with
  | nil => rfl
  | cons p ps ih =>
    obtain ⟨k, ov⟩ := p
    cases ov with
    | none => rw [orRepl_cons_none, somes_cons_none]; exact ih
    | some v =>
      rw [orRepl_cons_some, somes_cons_some]
      by_cases hh : self.has k = true
      · simp only [hh, ↓reduceIte, lastVal, ih]
      · have hk : k ≠ n := by intro e; subst e; exact hh h
        simp only [hh, Bool.false_eq_true, ↓reduceIte, lastVal, hk, ih]
        cases lastVal n (somes ps) <;> rfl

/-! ### QName -/

theorem lstripBrace_idem (s : Str) : lstripBrace (lstripBrace s) = lstripBrace s := by
  unfold lstripBrace
  induction s with
  | nil => rfl
  | cons c cs ih =>
    by_cases h : c = '{'
    · simp only [lstripBy, h, decide_true, ↓reduceIte]; simpa [h] using ih
    · simp [lstripBy, h]

theorem lstripBrace_of_head (s : Str) (h : s.head? ≠ some '{') : lstripBrace s = s := by
  cases s with
  | nil => rfl
  | cons c cs =>
    have : c ≠ '{' := fun hc => h (by simp [hc])
    simp [lstripBrace, lstripBy, this]

theorem lstripBrace_head (s : Str) : (lstripBrace s).head? ≠ some '{' := by
  unfold lstripBrace
  induction s with
  | nil => simp [lstripBy]
  | cons c cs ih =>
    by_cases h : c = '{'
    · simpa [lstripBy, h] using ih
    · simp [lstripBy, h]

theorem splitBrace_append (ns loc : Str) (h : '}' ∉ ns) : splitBrace (ns ++ '}' :: loc) = some (ns, loc) := by
  induction ns with
  | nil => simp [splitBrace]
  | cons c cs ih =>
    have hc : c ≠ '}' := fun hc => h (by simp [hc])
    have hcs : '}' ∉ cs := fun hm => h (by simp [hm])
    simp [splitBrace, hc, ih hcs]

end Genshi.MarkupOps

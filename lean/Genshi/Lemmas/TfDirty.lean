/-
  Streams without ENTER / EXIT marks (`Inner`: what `invert()` leaves behind).
  The element-only operations are the identity on them, and before / after only
  insert balanced content, which keeps any stream balanced the same way.
-/
import Genshi.Lemmas.TfBuf
namespace Genshi.Tf

theorem invert_inner (s : MStream) : Inner (invert s) := by
  intro p hp
  simp only [invert, List.mem_map] at hp
  obtain ⟨q, _, rfl⟩ := hp
  obtain ⟨m, x⟩ := q
  cases m <;> simp

theorem empty_inner {s : MStream} (h : Inner s) : empty s = s := by
  have := emptyGo_inner s [] h
  simpa [empty, emptyGo] using this

theorem prepend_inner' (c : List MEv) {s : MStream} (h : Inner s) : prepend c s = s := by
  have := prepend_inner c s [] h
  simpa [prepend] using this

theorem append_inner' (c : List MEv) {s : MStream} (h : Inner s) : append c s = s := by
  have := appendGo_inner c s [] h
  simpa [append, appendGo] using this

theorem map_inner {f : MItem → MItem} (hf : EffPres f) {s : MStream} (h : Inner s) : Inner (s.map f) := by
  intro p hp
  obtain ⟨q, hq, rfl⟩ := List.mem_map.mp hp
  rw [(hf q).1]; exact h q hq

/-- before / after (kept selections, `pre` and `post` balanced on their own): the output is
    balanced like the input, in every state of the loop and for every stream -/
theorem runGo_balance_any {pre post : MStream} (hpre : Bal (unmark pre)) (hpost : Bal (unmark post))
    (s : MStream) : ∀ (state : RunSt) st,
    balance st (unmark (runGo pre post true state s)) = balance st (unmark s) := by
  induction s with
  | nil =>
    intro state st
    have hp : balance st (unmark post) = balance st [] := by
      simpa using balance_bal st hpost []
    cases state <;> simp [runGo, unmark, hp]
  | cons p s ih =>
    intro state st
    obtain ⟨m, x⟩ := p
    have hx : ∀ (state' : RunSt) st, balance st (unmark ((m, x) :: runGo pre post true state' s)) =
        balance st (unmark ((m, x) :: s)) := by
      intro state' st
      rw [balance_unmark_cons, balance_unmark_cons]
      cases effStep (eff x) st with
      | none => rfl
      | some st' => simp [ih state' st']
    have hidle : ∀ st, balance st (unmark (runGo pre post true .idle ((m, x) :: s))) =
        balance st (unmark ((m, x) :: s)) := by
      intro st
      rcases m with _ | m
      · simp only [runGo]; exact hx _ st
      · simp only [runGo, ↓reduceIte, List.singleton_append, unmark_append]
        rw [balance_bal st hpre]; exact hx _ st
    cases state with
    | idle => exact hidle st
    | inEnter =>
      simp only [runGo, ↓reduceIte, List.singleton_append]
      split
      · rw [balance_unmark_cons, balance_unmark_cons]
        cases effStep (eff x) st with
        | none => rfl
        | some st' => simp only [Option.bind_some, unmark_append]; rw [balance_bal st' hpost, ih .idle st']
      · exact hx _ st
    | inRun m0 =>
      simp only [runGo]
      split
      · simp only [↓reduceIte, List.singleton_append]; exact hx _ st
      · rw [unmark_append, balance_bal st hpost]
        have := hidle st
        rcases m with _ | m
        · simpa [runGo] using this
        · simpa [runGo] using this

theorem runGo_inner {pre post : MStream} (hpre : NoneMarked pre) (hpost : NoneMarked post)
    (s : MStream) (h : Inner s) : ∀ state, Inner (runGo pre post true state s) := by
  induction s with
  | nil =>
    intro state
    cases state <;> simp only [runGo]
    · intro p hp; simp at hp
    · exact Inner.ofNone hpost
    · exact Inner.ofNone hpost
  | cons p s ih =>
    intro state
    obtain ⟨m, x⟩ := p
    have hmx : Inner [(m, x)] := fun q hq => by
      simp at hq; subst hq; exact h (m, x) (by simp)
    have ih' := ih h.tail
    have hidle : Inner (runGo pre post true .idle ((m, x) :: s)) := by
      rcases m with _ | m
      · simp only [runGo]; exact hmx.append (ih' _)
      · simp only [runGo, ↓reduceIte]
        exact (Inner.ofNone hpre).append (hmx.append (ih' _))
    cases state with
    | idle => exact hidle
    | inEnter =>
      simp only [runGo, ↓reduceIte]
      split
      · exact hmx.append ((Inner.ofNone hpost).append (ih' _))
      · exact hmx.append (ih' _)
    | inRun m0 =>
      simp only [runGo]
      split
      · simp only [↓reduceIte]; exact hmx.append (ih' _)
      · refine (Inner.ofNone hpost).append ?_
        rcases m with _ | m
        · simpa [runGo] using hidle
        · simpa [runGo] using hidle

end Genshi.Tf

/-
  C10 — helper lemmas about the heap machine: which transitions leave the template's heap
  alone (`*_heap`), and the frame / projection lemmas used by the schedule induction.
-/
import Genshi.Model.HeapWorld
namespace Genshi.Heap
open Genshi

/-! ## `Translator.__call__` on a copy never writes the template's heap -/

theorem transSub_heap (v : Variant) (hv : v.callCopies = true)
    (nested : Heap → St → List TEv → TRes) (hn : ∀ h st evs, (nested h st evs).h = h)
    (h : Heap) (st : St) (d b : Ref) : (transSub v nested h st d b).h = h := by
  unfold transSub
  split
  · simp only [hv, if_true]
    exact hn _ _ _
  · rfl

theorem transEvs_heap (v : Variant) (hv : v.callCopies = true) :
    ∀ (fuel : Nat) (h : Heap) (st : St) (evs : List TEv), (transEvs v fuel h st evs).h = h := by
  intro fuel
  induction fuel with
  | zero => intro h st evs; simp [transEvs]
  | succ n ih =>
    intro h st evs
    cases evs with
    | nil => simp [transEvs]
    | cons t ts =>
      cases t with
      | sub d b =>
        simp only [transEvs]
        have hs : (transSub v (transEvs v n) h st d b).h = h := transSub_heap v hv _ (ih) h st d b
        split
        · exact hs
        · simp only []
          rw [ih, hs]
      | out e => simp only [transEvs]; rw [ih]
      | expr e => simp only [transEvs]; rw [ih]
      | other => simp only [transEvs]; rw [ih]
      | execGen name x gsrc gbody => simp only [transEvs]; rw [ih]
      | incl t fb => simp only [transEvs]; rw [ih]
      | startI tag attrs => simp only [transEvs]; rw [ih]

theorem pullSource_heap (v : Variant) (hv : v.callCopies = true) (fuel : Nat) (h : Heap) (st : St)
    (src : Src) : (pullSource v fuel h st src).h = h := by
  cases src with
  | none => rfl
  | direct root i =>
    simp only [pullSource]
    split
    · rfl
    · split <;> rfl
  | trans root i started pend =>
    simp only [pullSource]
    split
    · rfl
    · split
      · rfl
      · have hs := transSub_heap v hv (transEvs v fuel) (transEvs_heap v hv fuel) h
          { st with ctx := popN pend (if started = true then st.ctx else setI18nKeys st.ctx) }
        split <;> simp_all
      · rfl
      · rfl

theorem flat_heap (v : Variant) (hv : v.callCopies = true) :
    ∀ (fuel : Nat) (h : Heap) (st : St) (src : Src) (stack : List It),
      (flat v fuel h st src stack).h = h := by
  intro fuel
  induction fuel with
  | zero => intro h st src stack; simp [flat]
  | succ n ih =>
    intro h st src stack
    have key : ∀ (p : SrcRes × List It), p.1.h = h →
        (match p.1.out with
          | .err e => (⟨p.1.h, p.1.st, p.1.src, p.2, .err e⟩ : FlatRes)
          | .done =>
            match p.2 with
            | [] => ⟨p.1.h, p.1.st, p.1.src, [], .done⟩
            | _ :: rest => flat v n p.1.h p.1.st p.1.src (resumeTop rest)
          | .item t =>
            match t with
            | .out e => ⟨p.1.h, p.1.st, p.1.src, p.2, .ev e⟩
            | .other => ⟨p.1.h, p.1.st, p.1.src, p.2, .err .unmodelled⟩
            | .execGen name x gsrc gbody =>
              flat v n p.1.h { p.1.st with ctx := p.1.st.ctx.setTop name (.genfn name x gsrc gbody) } p.1.src p.2
            | .incl ti fb => ⟨p.1.h, p.1.st, p.1.src, p.2, .incl ti fb⟩
            | .startI tag attrs =>
              match evalAttrs p.1.h p.1.st.ph p.1.st.ctx.frames attrs with
              | .error er => ⟨p.1.h, p.1.st, p.1.src, p.2, .err er⟩
              | .ok as => ⟨p.1.h, p.1.st, p.1.src, p.2, .ev (.start tag as)⟩
            | .expr ex =>
              match eval p.1.st.ctx.frames ex with
              | .error er => ⟨p.1.h, p.1.st, p.1.src, p.2, .err er⟩
              | .ok (.atom .none) => flat v n p.1.h p.1.st p.1.src p.2
              | .ok (.atom (.str s)) => ⟨p.1.h, p.1.st, p.1.src, p.2, .ev (.text s false)⟩
              | .ok (.atom a) => ⟨p.1.h, p.1.st, p.1.src, p.2, .ev (.text a.text false)⟩
              | .ok (.list xs) => flat v n p.1.h p.1.st p.1.src (.ensure xs :: p.2)
              | .ok (.opaque _) => ⟨p.1.h, p.1.st, p.1.src, p.2, .err .unmodelled⟩
              | .ok (.macro _) => ⟨p.1.h, p.1.st, p.1.src, p.2, .err .unmodelled⟩
              | .ok (.gen0 m) => flat v n p.1.h p.1.st p.1.src (.macroNew m none :: p.2)
              | .ok (.gen1 m a) => flat v n p.1.h p.1.st p.1.src (.macroNew m (some a) :: p.2)
              | .ok (.genx x items gbody) => flat v n p.1.h p.1.st p.1.src (.genexp x items gbody :: p.2)
              | .ok (.genf x gsrc gbody) => flat v n p.1.h p.1.st p.1.src (.genfNew x gsrc gbody :: p.2)
              | .ok (.genfn _ _ _ _) => ⟨p.1.h, p.1.st, p.1.src, p.2, .err .unmodelled⟩
              | .ok (.lam _ _) => ⟨p.1.h, p.1.st, p.1.src, p.2, .err .unmodelled⟩
            | .sub d b =>
              match readDirs p.1.h p.1.st.ph d with
              | none => ⟨p.1.h, p.1.st, p.1.src, p.2, .err .unmodelled⟩
              | some ds =>
                match applyDirs p.1.h p.1.st.ph p.1.st.ctx (if ds.isEmpty then .raw b 0 else .ref b 0) ds with
                | .error er => ⟨p.1.h, p.1.st, p.1.src, p.2, .err er⟩
                | .ok (c2, it2) => flat v n p.1.h { p.1.st with ctx := c2 } p.1.src (it2 :: p.2)).h = h := by
      intro p hp
      split
      · exact hp
      · split
        · exact hp
        · rw [ih]; exact hp
      · split
        · exact hp
        · exact hp
        · rw [ih]; exact hp
        · exact hp
        · split <;> exact hp
        · split
          · exact hp
          · rw [ih]; exact hp
          · exact hp
          · exact hp
          · rw [ih]; exact hp
          · exact hp
          · exact hp
          · rw [ih]; exact hp
          · rw [ih]; exact hp
          · rw [ih]; exact hp
          · rw [ih]; exact hp
          · exact hp
          · exact hp
        · split
          · exact hp
          · split
            · exact hp
            · rw [ih]; exact hp
    unfold flat
    cases stack with
    | nil => exact key (pullSource v n h st src, []) (pullSource_heap v hv n h st src)
    | cons it rest => exact key (⟨h, (pull h n st it).st, src, (pull h n st it).out⟩, (pull h n st it).it :: rest) rfl

theorem consume_runBody_heap (v : Variant) (hv : v.callCopies = true) :
    ∀ (fuel : Nat),
      (∀ (h : Heap) (st : St) (src : Src) (stack : List It) (start preEnd depth : Nat),
        (consume v fuel h st src stack start preEnd depth).h = h) ∧
      (∀ (h : Heap) (st : St) (stack : List It) (start : Nat) (end_ : Option Nat),
        (runBody v fuel h st stack start end_).h = h) := by
  intro fuel
  induction fuel with
  | zero => exact ⟨by intros; simp [consume], by intros; simp [runBody]⟩
  | succ n ih =>
    obtain ⟨ihc, ihb⟩ := ih
    constructor
    · intro h st src stack start preEnd depth
      have hf := flat_heap v hv n h st src stack
      simp only [consume]
      repeat' split
      all_goals first | rfl | exact hf | (simp only [ihc, ihb]; exact hf)
    · intro h st stack start end_
      have hf := flat_heap v hv n h st .none stack
      simp only [runBody]
      repeat' split
      all_goals first | rfl | exact hf | (simp only [ihc, ihb]; exact hf)

theorem mpull_heap (v : Variant) (hv : v.callCopies = true) (fuel : Nat) (h : Heap) (st : St) (src : Src)
    (stack : List It) (start : Nat) : (mpull v fuel h st src stack start).h = h := by
  have hf := flat_heap v hv fuel h st src stack
  have hc := (consume_runBody_heap v hv fuel).1
  simp only [mpull]
  repeat' split
  all_goals first | rfl | exact hf | (simp only [hc]; exact hf)

theorem pipe_heap (v : Variant) (hv : v.callCopies = true) (tr : Bool) (roots : List Nat) :
    ∀ (fuel : Nat) (h : Heap) (st : St) (frames : List PFrame) (touched : List Nat),
      (pipe v tr roots fuel h st frames touched).h = h := by
  intro fuel
  induction fuel with
  | zero => intro h st frames touched; simp [pipe]
  | succ n ih =>
    intro h st frames touched
    cases frames with
    | nil => simp [pipe]
    | cons f outer =>
      have hf := mpull_heap v hv n h st f.src f.stack f.mstart
      simp only [pipe]
      split
      · exact hf
      · exact hf
      · rw [ih]; exact hf
      · rw [ih]; exact hf
      · split
        · exact hf
        · rw [ih]; exact hf
      · rw [ih]; exact hf
      · exact hf

theorem stepR_heap (v : Variant) (hv : v.callCopies = true) (tr : Bool) (roots : List Nat) (fuel : Nat)
    (h : Heap) (r : Render) : (stepR v tr roots fuel h r).h = h := by
  unfold stepR
  split
  · exact pipe_heap v hv tr roots fuel h _ _ _
  · rfl

/-! ## the reordering loop one list-method call at a time -/

def lastOr (d : List Dir) (l : List (List Dir)) : List Dir := l.getLast?.getD d

theorem lastOr_cons2 (d a b : List Dir) (rest : List (List Dir)) :
    lastOr d (a :: b :: rest) = lastOr b rest := by
  unfold lastOr
  rw [List.getLast?_cons_cons]
  cases rest with
  | nil => simp
  | cons c cs =>
    simp only [List.getLast?_cons_cons]
    cases h : (c :: cs).getLast? with
    | none => simp at h
    | some x => rfl

/-- the micro trace ends in the list the loop as a whole produces -/
theorem reorderMicro_last : ∀ (n i : Nat) (s : Reorder),
    lastOr s.ds (reorderMicro n i s.ds (strTruthy s.dom)) = (reorderLoop n i s).ds := by
  intro n
  induction n with
  | zero => intro i s; simp [reorderMicro, reorderLoop, lastOr]
  | succ n ih =>
    intro i s
    simp only [reorderMicro, reorderLoop]
    cases hd : s.ds[i]? with
    | none => simp [lastOr]
    | some d =>
      simp only []
      cases hk : d.kind <;> simp only [] <;> try exact ih (i + 1) s
      · rename_i dm
        rw [lastOr_cons2]
        have := ih (i + 1) { s with dom := some dm, ctx := s.ctx.push [(sDomain, .atom (.str dm))], ds := d :: s.ds.eraseIdx i }
        simpa [strTruthy] using this
      · rename_i c
        rw [lastOr_cons2]
        have hpos : (if strTruthy s.dom = true then 1 else 0) = (match s.dom with | some dm => if dm.isEmpty then 0 else 1 | none => 0) := by
          cases s.dom with
          | none => simp [strTruthy]
          | some dm => cases h : dm.isEmpty <;> simp [strTruthy, h]
        rw [hpos]
        exact ih (i + 1) { s with cx := some c, ctx := s.ctx.push [(sContext, .atom (.str c))],
                                    ds := insertAt (match s.dom with | some dm => if dm.isEmpty then 0 else 1 | none => 0) d (s.ds.eraseIdx i) }

/-! ## `Translator.extract` on a copy never writes the template's heap -/

theorem foldl_h {α : Type} (f : XRes → α → XRes) (h : Heap) (hf : ∀ acc a, acc.h = h → (f acc a).h = h) :
    ∀ (l : List α) (acc : XRes), acc.h = h → (l.foldl f acc).h = h := by
  intro l
  induction l with
  | nil => intro acc ha; simpa using ha
  | cons a as ih => intro acc ha; simp only [List.foldl_cons]; exact ih _ (hf acc a ha)

theorem extractEvs_heap (v : Variant) (hv : v.extractCopies = true) :
    ∀ (fuel : Nat) (h : Heap) (evs : List TEv), (extractEvs v fuel h evs).h = h := by
  intro fuel
  induction fuel with
  | zero => intro h evs; simp [extractEvs]
  | succ n ih =>
    intro h evs
    cases evs with
    | nil => simp [extractEvs]
    | cons t ts =>
      cases t with
      | out e => simp only [extractEvs]; exact ih _ _
      | expr e => simp only [extractEvs]; exact ih _ _
      | other => simp only [extractEvs]; exact ih _ _
      | execGen name x gsrc gbody => simp only [extractEvs]; exact ih _ _
      | incl t fb => simp only [extractEvs]; exact ih _ _
      | startI tag attrs => simp only [extractEvs]; exact ih _ _
      | sub d b =>
        cases d with
        | priv a => simp [extractEvs]
        | tmpl da =>
          cases b with
          | priv a => simp [extractEvs]
          | tmpl ba =>
            simp only [extractEvs, hv, if_true]
            split
            · rename_i ds body _ _
              simp only []
              rw [ih]
              apply foldl_h
              · intro acc d ha
                split
                · exact ha
                · simp only []; rw [ih]; exact ha
              · simp only []
                split
                · rw [ih]; split
                  · rw [ih]
                  · rfl
                · split
                  · rw [ih]
                  · rfl
            · rfl

end Genshi.Heap

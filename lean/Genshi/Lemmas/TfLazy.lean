/-
  The lazy pipeline (`Model/TfLazy.lean`): algebra of `seqR`, frame and stability lemmas
  (a pipeline neither reads nor writes buffers outside its footprint), and the commutation
  lemma `execActs_commute`: the actions of a link whose buffers the rest of the pipeline does
  not touch can be run as "first all its buffer effects, then push all its output".
-/
import Genshi.Model.TfLazy
namespace Genshi.Tf

/-! ### seqR -/

@[simp] theorem seqR_div' (k : List Ctl → BufF → R) : seqR .div k = .div := rfl
@[simp] theorem seqR_err' (k : List Ctl → BufF → R) : seqR .err k = .err := rfl

theorem seqR_ok_nil (cs : List Ctl) (b : BufF) (k : List Ctl → BufF → R) :
    seqR (.ok (cs, b, [])) k = k cs b := by
  simp only [seqR]
  cases k cs b with
  | ok r => obtain ⟨cs', b', o⟩ := r; simp
  | err => rfl
  | div => rfl

theorem seqR_assoc (r : R) (k1 k2 : List Ctl → BufF → R) :
    seqR (seqR r k1) k2 = seqR r (fun cs b => seqR (k1 cs b) k2) := by
  cases r with
  | err => rfl
  | div => rfl
  | ok x =>
    obtain ⟨cs, b, o⟩ := x
    simp only [seqR]
    cases k1 cs b with
    | err => rfl
    | div => rfl
    | ok y =>
      obtain ⟨cs1, b1, o1⟩ := y
      simp only
      cases k2 cs1 b1 with
      | err => rfl
      | div => rfl
      | ok z => obtain ⟨cs2, b2, o2⟩ := z; simp [List.append_assoc]

theorem seqR_congr (r : R) (k1 k2 : List Ctl → BufF → R) (h : ∀ cs b, k1 cs b = k2 cs b) :
    seqR r k1 = seqR r k2 := by
  have : k1 = k2 := by funext cs b; exact h cs b
  rw [this]

/-- change the buffers of a result -/
def mapB (g : BufF → BufF) : R → R
  | .ok (cs, b, o) => .ok (cs, g b, o)
  | .err => .err
  | .div => .div

@[simp] theorem mapB_id (r : R) : mapB (fun b => b) r = r := by
  cases r with
  | ok x => obtain ⟨cs, b, o⟩ := x; rfl
  | err => rfl
  | div => rfl

theorem mapB_mapB (g h : BufF → BufF) (r : R) : mapB g (mapB h r) = mapB (fun b => g (h b)) r := by
  cases r with
  | ok x => obtain ⟨cs, b, o⟩ := x; rfl
  | err => rfl
  | div => rfl

theorem mapB_congr (g h : BufF → BufF) (r : R) (hg : ∀ b, g b = h b) : mapB g r = mapB h r := by
  have : g = h := funext hg
  rw [this]

/-- `g` commutes with the continuation: it commutes with the sequence -/
theorem seqR_mapB (g : BufF → BufF) (r : R) (k : List Ctl → BufF → R)
    (hk : ∀ cs b, k cs (g b) = mapB g (k cs b)) : seqR (mapB g r) k = mapB g (seqR r k) := by
  cases r with
  | err => rfl
  | div => rfl
  | ok x =>
    obtain ⟨cs, b, o⟩ := x
    simp only [mapB, seqR, hk]
    cases k cs b with
    | err => rfl
    | div => rfl
    | ok y => obtain ⟨cs1, b1, o1⟩ := y; rfl

theorem mapB_seqR (g : BufF → BufF) (r : R) (k : List Ctl → BufF → R) :
    mapB g (seqR r k) = seqR r (fun cs b => mapB g (k cs b)) := by
  cases r with
  | err => rfl
  | div => rfl
  | ok x =>
    obtain ⟨cs, b, o⟩ := x
    simp only [seqR]
    cases k cs b with
    | err => rfl
    | div => rfl
    | ok y => obtain ⟨cs1, b1, o1⟩ := y; rfl

/-! ### buffers -/

/-- `e` where `p` holds, `b` elsewhere -/
def mergeP (p : Nat → Bool) (e b : BufF) : BufF := fun i => if p i then e i else b i

theorem mergeP_self (p : Nat → Bool) (b : BufF) : mergeP p b b = b := by
  funext i; simp [mergeP]

theorem mergeP_mergeP (p : Nat → Bool) (e e' b : BufF) : mergeP p e (mergeP p e' b) = mergeP p e b := by
  funext i; simp only [mergeP]; split <;> rfl

theorem mergeP_congr (p : Nat → Bool) (e e' b : BufF) (h : ∀ i, p i = true → e i = e' i) :
    mergeP p e b = mergeP p e' b := by
  funext i; simp only [mergeP]; split
  · rename_i hp; exact h i hp
  · rfl

theorem set_eq_mergeP (b : BufF) (id : Nat) (v : List MEv) :
    b.set id v = mergeP (fun i => i == id) (fun _ => v) b := by
  funext i; simp [BufF.set, mergeP]

theorem mergeP_set_out (p : Nat → Bool) (e b : BufF) (id : Nat) (v : List MEv) (h : p id = false) :
    (mergeP p e b).set id v = mergeP p e (b.set id v) := by
  funext i
  simp only [BufF.set, mergeP]
  by_cases hi : i = id
  · subst hi; simp [h]
  · simp [hi]

theorem mergeP_out (p : Nat → Bool) (e b : BufF) (id : Nat) (h : p id = false) : mergeP p e b id = b id := by
  simp [mergeP, h]

theorem mergeP_in (p : Nat → Bool) (e b : BufF) (id : Nat) (h : p id = true) : mergeP p e b id = e id := by
  simp [mergeP, h]

/-! ### footprints -/

def Act.wr : Act → List Nat
  | .reset id => [id]
  | .app id _ => [id]
  | _ => []

def Act.rd : Act → List Nat
  | .inj (.buf id) => [id]
  | _ => []

def wrOp : Op → List Nat
  | .copy id _ => [id]
  | .cut id _ => [id]
  | _ => []

def rdOp (op : Op) : List Nat := (readsOf op).toList

def wrOps (ops : List Op) : List Nat := ops.flatMap wrOp
def rdOps (ops : List Op) : List Nat := ops.flatMap rdOp

/-- the actions stay inside the footprint (`w` written, `r` read) -/
def ActsIn (w r : List Nat) (acts : List Act) : Prop :=
  ∀ a ∈ acts, (∀ i ∈ a.wr, i ∈ w) ∧ (∀ i ∈ a.rd, i ∈ r)

theorem ActsIn.nil (w r : List Nat) : ActsIn w r [] := by intro a h; simp at h

theorem ActsIn.append {w r : List Nat} {a b : List Act} (ha : ActsIn w r a) (hb : ActsIn w r b) :
    ActsIn w r (a ++ b) := by
  intro x hx
  rcases List.mem_append.mp hx with h | h
  · exact ha x h
  · exact hb x h

theorem ActsIn.tail {w r : List Nat} {a : Act} {as : List Act} (h : ActsIn w r (a :: as)) : ActsIn w r as :=
  fun x hx => h x (List.mem_cons_of_mem _ hx)

theorem ActsIn.head {w r : List Nat} {a : Act} {as : List Act} (h : ActsIn w r (a :: as)) :
    (∀ i ∈ a.wr, i ∈ w) ∧ (∀ i ∈ a.rd, i ∈ r) := h a (List.mem_cons_self ..)

theorem ActsIn.outs (w r : List Nat) (s : MStream) : ActsIn w r (outs s) := by
  intro a h
  simp only [Tf.outs, List.mem_map] at h
  obtain ⟨x, _, rfl⟩ := h
  simp [Act.wr, Act.rd]

theorem ActsIn.mono {w r w' r' : List Nat} {a : List Act} (h : ActsIn w r a) (hw : ∀ i ∈ w, i ∈ w')
    (hr : ∀ i ∈ r, i ∈ r') : ActsIn w' r' a :=
  fun x hx => ⟨fun i hi => hw i ((h x hx).1 i hi), fun i hi => hr i ((h x hx).2 i hi)⟩

/-! ### a push function that respects a footprint -/

/-- `push` (a pipeline) neither reads nor writes the buffers in `p`, and writes only `w` -/
structure Respects (push : List Ctl → BufF → MItem → R) (p : Nat → Bool) (w : List Nat) : Prop where
  frame : ∀ (e : BufF) cs b x, push cs (mergeP p e b) x = mapB (mergeP p e) (push cs b x)
  stable : ∀ cs b x cs' b' o, push cs b x = .ok (cs', b', o) → ∀ i, i ∉ w → b' i = b i

theorem pushList_frame {push : List Ctl → BufF → MItem → R} {p : Nat → Bool} {w : List Nat}
    (hp : Respects push p w) (e : BufF) : ∀ (l : List MItem) cs b,
    pushList push l cs (mergeP p e b) = mapB (mergeP p e) (pushList push l cs b)
  | [], cs, b => rfl
  | x :: l, cs, b => by
    simp only [pushList, hp.frame]
    exact seqR_mapB _ _ _ (fun cs b => pushList_frame hp e l cs b)

theorem seqR_stable {r : R} {k : List Ctl → BufF → R} {w : List Nat} {b0 : BufF}
    (hr : ∀ cs' b' o, r = .ok (cs', b', o) → ∀ i, i ∉ w → b' i = b0 i)
    (hk : ∀ cs1 b1 cs' b' o, k cs1 b1 = .ok (cs', b', o) → ∀ i, i ∉ w → b' i = b1 i)
    (cs' : List Ctl) (b' : BufF) (o : MStream) (h : seqR r k = .ok (cs', b', o)) :
    ∀ i, i ∉ w → b' i = b0 i := by
  cases r with
  | err => simp [seqR] at h
  | div => simp [seqR] at h
  | ok x =>
    obtain ⟨cs1, b1, o1⟩ := x
    simp only [seqR] at h
    cases hk1 : k cs1 b1 with
    | err => simp [hk1] at h
    | div => simp [hk1] at h
    | ok y =>
      obtain ⟨cs2, b2, o2⟩ := y
      simp only [hk1, Out.ok.injEq, Prod.mk.injEq] at h
      obtain ⟨_, rfl, _⟩ := h
      intro i hi
      rw [hk cs1 b1 cs2 b2 o2 hk1 i hi, hr cs1 b1 o1 rfl i hi]

theorem pushList_stable {push : List Ctl → BufF → MItem → R} {p : Nat → Bool} {w : List Nat}
    (hp : Respects push p w) : ∀ (l : List MItem) cs b cs' b' o,
    pushList push l cs b = .ok (cs', b', o) → ∀ i, i ∉ w → b' i = b i
  | [], cs, b, cs', b', o, h => by
    simp only [pushList, Out.ok.injEq, Prod.mk.injEq] at h
    obtain ⟨_, rfl, _⟩ := h
    intro i _; rfl
  | x :: l, cs, b, cs', b', o, h => by
    simp only [pushList] at h
    exact seqR_stable (fun cs1 b1 o1 h1 => hp.stable cs b x cs1 b1 o1 h1)
      (fun cs1 b1 cs2 b2 o2 h2 => pushList_stable hp l cs1 b1 cs2 b2 o2 h2) cs' b' o h

theorem injLoop_frame {push : List Ctl → BufF → MItem → R} {p : Nat → Bool} {w : List Nat}
    (hp : Respects push p w) (e : BufF) (id : Nat) (hid : p id = false) : ∀ (n i : Nat) cs b,
    injLoop push id n i cs (mergeP p e b) = mapB (mergeP p e) (injLoop push id n i cs b)
  | 0, i, cs, b => rfl
  | n + 1, i, cs, b => by
    simp only [injLoop, mergeP_out p e b id hid]
    cases (b id)[i]? with
    | none => rfl
    | some x =>
      simp only [hp.frame]
      exact seqR_mapB _ _ _ (fun cs b => injLoop_frame hp e id hid n (i + 1) cs b)

theorem injLoop_stable {push : List Ctl → BufF → MItem → R} {p : Nat → Bool} {w : List Nat}
    (hp : Respects push p w) (id : Nat) : ∀ (n i : Nat) cs b cs' b' o,
    injLoop push id n i cs b = .ok (cs', b', o) → ∀ j, j ∉ w → b' j = b j
  | 0, i, cs, b, cs', b', o, h => by simp [injLoop] at h
  | n + 1, i, cs, b, cs', b', o, h => by
    simp only [injLoop] at h
    cases hx : (b id)[i]? with
    | none =>
      simp only [hx, Out.ok.injEq, Prod.mk.injEq] at h
      obtain ⟨_, rfl, _⟩ := h
      intro j _; rfl
    | some x =>
      simp only [hx] at h
      exact seqR_stable (fun cs1 b1 o1 h1 => hp.stable cs b _ cs1 b1 o1 h1)
        (fun cs1 b1 cs2 b2 o2 h2 => injLoop_stable hp id n (i + 1) cs1 b1 cs2 b2 o2 h2) cs' b' o h

/-- iterating a buffer nobody writes is pushing its content -/
theorem injLoop_const {push : List Ctl → BufF → MItem → R} {p : Nat → Bool} {w : List Nat}
    (hp : Respects push p w) (id : Nat) (hid : id ∉ w) : ∀ (n i : Nat) cs b,
    (b id).length - i < n →
    injLoop push id n i cs b = pushList push (inj ((b id).drop i)) cs b
  | 0, i, cs, b, h => by omega
  | n + 1, i, cs, b, h => by
    simp only [injLoop]
    by_cases hi : i < (b id).length
    · rw [List.getElem?_eq_getElem hi]
      simp only
      rw [List.drop_eq_getElem_cons hi]
      simp only [inj, List.map_cons, pushList]
      cases hpush : push cs b (none, (b id)[i]) with
      | err => rfl
      | div => rfl
      | ok r =>
        obtain ⟨cs1, b1, o1⟩ := r
        have hb : b1 id = b id := hp.stable cs b _ cs1 b1 o1 hpush id hid
        simp only [seqR]
        rw [injLoop_const hp id hid n (i + 1) cs1 b1 (by rw [hb]; omega), hb]
        rfl
    · have : (b id)[i]? = none := List.getElem?_eq_none (by omega)
      rw [this, List.drop_eq_nil_of_le (by omega)]
      rfl

theorem execActs_frame {F : Nat} {push : List Ctl → BufF → MItem → R} {p : Nat → Bool} {w : List Nat}
    (hp : Respects push p w) (e : BufF) : ∀ (acts : List Act) cs b,
    (∀ a ∈ acts, (∀ i ∈ a.wr, p i = false) ∧ (∀ i ∈ a.rd, p i = false)) →
    execActs F push acts cs (mergeP p e b) = mapB (mergeP p e) (execActs F push acts cs b)
  | [], cs, b, _ => rfl
  | a :: as, cs, b, h => by
    have ih := fun cs b => execActs_frame (F := F) hp e as cs b (fun x hx => h x (List.mem_cons_of_mem _ hx))
    have ha := h a (List.mem_cons_self ..)
    cases a with
    | out x =>
      simp only [execActs, hp.frame]
      exact seqR_mapB _ _ _ ih
    | reset id =>
      have hid : p id = false := ha.1 id (by simp [Act.wr])
      simp only [execActs, mergeP_set_out p e b id [] hid]
      exact ih cs _
    | app id x =>
      have hid : p id = false := ha.1 id (by simp [Act.wr])
      simp only [execActs, mergeP_out p e b id hid, mergeP_set_out p e b id _ hid]
      exact ih cs _
    | inj c =>
      cases c with
      | buf id =>
        have hid : p id = false := ha.2 id (by simp [Act.rd])
        simp only [execActs, mergeP_out p e b id hid, injLoop_frame hp e id hid]
        exact seqR_mapB _ _ _ ih
      | str s =>
        simp only [execActs, pushList_frame hp e]
        exact seqR_mapB _ _ _ ih
      | evs s =>
        simp only [execActs, pushList_frame hp e]
        exact seqR_mapB _ _ _ ih

theorem execActs_stable {F : Nat} {push : List Ctl → BufF → MItem → R} {p : Nat → Bool} {w w1 : List Nat}
    (hp : Respects push p w) : ∀ (acts : List Act) cs b cs' b' o,
    (∀ a ∈ acts, ∀ i ∈ a.wr, i ∈ w1) →
    execActs F push acts cs b = .ok (cs', b', o) → ∀ i, i ∉ w → i ∉ w1 → b' i = b i
  | [], cs, b, cs', b', o, _, h => by
    simp only [execActs, Out.ok.injEq, Prod.mk.injEq] at h
    obtain ⟨_, rfl, _⟩ := h
    intro i _ _; rfl
  | a :: as, cs, b, cs', b', o, hw, h => by
    have ih := fun cs b cs' b' o => execActs_stable (F := F) (w1 := w1) hp as cs b cs' b' o
      (fun x hx => hw x (List.mem_cons_of_mem _ hx))
    have ha := hw a (List.mem_cons_self ..)
    intro i hi hi1
    have key : ∀ (r : R), (∀ cs1 b1 o1, r = .ok (cs1, b1, o1) → ∀ j, j ∉ w → b1 j = b j) →
        seqR r (execActs F push as) = .ok (cs', b', o) → b' i = b i := by
      intro r hr hs
      cases r with
      | err => simp [seqR] at hs
      | div => simp [seqR] at hs
      | ok x =>
        obtain ⟨cs1, b1, o1⟩ := x
        simp only [seqR] at hs
        cases hk1 : execActs F push as cs1 b1 with
        | err => simp [hk1] at hs
        | div => simp [hk1] at hs
        | ok y =>
          obtain ⟨cs2, b2, o2⟩ := y
          simp only [hk1, Out.ok.injEq, Prod.mk.injEq] at hs
          obtain ⟨_, rfl, _⟩ := hs
          rw [ih cs1 b1 cs2 b2 o2 hk1 i hi hi1, hr cs1 b1 o1 rfl i hi]
    cases a with
    | out x =>
      simp only [execActs] at h
      exact key _ (fun cs1 b1 o1 h1 => hp.stable cs b x cs1 b1 o1 h1) h
    | reset id =>
      simp only [execActs] at h
      have hne : i ≠ id := by intro hc; subst hc; exact hi1 (ha i (by simp [Act.wr]))
      rw [ih cs _ cs' b' o h i hi hi1]; simp [BufF.set, hne]
    | app id x =>
      simp only [execActs] at h
      have hne : i ≠ id := by intro hc; subst hc; exact hi1 (ha i (by simp [Act.wr]))
      rw [ih cs _ cs' b' o h i hi hi1]; simp [BufF.set, hne]
    | inj c =>
      cases c with
      | buf id =>
        simp only [execActs] at h
        exact key _ (fun cs1 b1 o1 h1 => injLoop_stable hp id _ 0 cs b cs1 b1 o1 h1) h
      | str s =>
        simp only [execActs] at h
        exact key _ (fun cs1 b1 o1 h1 => pushList_stable hp _ cs b cs1 b1 o1 h1) h
      | evs s =>
        simp only [execActs] at h
        exact key _ (fun cs1 b1 o1 h1 => pushList_stable hp _ cs b cs1 b1 o1 h1) h

theorem pushList_append (push : List Ctl → BufF → MItem → R) : ∀ (l1 l2 : List MItem) cs b,
    pushList push (l1 ++ l2) cs b = seqR (pushList push l1 cs b) (pushList push l2)
  | [], l2, cs, b => by simp only [List.nil_append, pushList]; rw [seqR_ok_nil]
  | x :: l1, l2, cs, b => by
    simp only [List.cons_append, pushList]
    rw [seqR_assoc]
    exact seqR_congr _ _ _ (fun cs b => pushList_append push l1 l2 cs b)

theorem execActs_append (F : Nat) (push : List Ctl → BufF → MItem → R) : ∀ (a1 a2 : List Act) cs b,
    execActs F push (a1 ++ a2) cs b = seqR (execActs F push a1 cs b) (execActs F push a2)
  | [], a2, cs, b => by simp only [List.nil_append, execActs]; rw [seqR_ok_nil]
  | a :: a1, a2, cs, b => by
    have ih := fun cs b => execActs_append F push a1 a2 cs b
    cases a with
    | out x =>
      simp only [List.cons_append, execActs]
      rw [seqR_assoc]; exact seqR_congr _ _ _ ih
    | reset id => simp only [List.cons_append, execActs]; exact ih cs _
    | app id x => simp only [List.cons_append, execActs]; exact ih cs _
    | inj c =>
      cases c with
      | buf id =>
        simp only [List.cons_append, execActs]
        rw [seqR_assoc]; exact seqR_congr _ _ _ ih
      | str s =>
        simp only [List.cons_append, execActs]
        rw [seqR_assoc]; exact seqR_congr _ _ _ ih
      | evs s =>
        simp only [List.cons_append, execActs]
        rw [seqR_assoc]; exact seqR_congr _ _ _ ih

end Genshi.Tf

/-
  Chains of transformations: every admissible chain maps a well-nested stream
  to a well-nested stream (induction over the chain with the invariant
  "well nested, and `Good` unless the last selection was inverted").
-/
import Genshi.Lemmas.TfCut
namespace Genshi.Tf

theorem unmark_selectGo_ok (d : Nat) (rs : List Res) (s : MStream) (h : selOk d rs s = true) :
    unmark (selectGo d rs s) = unmark s := by
  induction s generalizing d rs with
  | nil => cases d <;> simp [selectGo]
  | cons p s ih =>
    obtain ⟨m, x⟩ := p
    cases d with
    | zero =>
      cases m with
      | none =>
        simp only [selOk] at h
        cases x <;> simp [selectGo, unmark, ih 0 rs h]
      | some m =>
        simp only [selOk] at h
        cases hr : rs.headD .none with
        | none =>
          simp only [hr] at h
          simp only [selectGo, hr]; cases x <;> simp [unmark, ih 0 _ h]
        | attrs a =>
          simp only [hr] at h
          simp only [selectGo, hr]; cases x <;> simp [unmark, ih 0 _ h]
        | self =>
          simp only [hr, Bool.and_eq_true] at h
          simp only [selectGo, hr]; cases x <;> simp [unmark, ih 0 _ h.2]
        | event e => simp only [hr] at h; exact absurd h (by decide)
        | text t => simp only [hr] at h; exact absurd h (by decide)
        | hit =>
          simp only [hr, Bool.and_eq_true] at h
          by_cases hx : x.isStart = true
          · simp only [hx, ↓reduceIte] at h
            simp only [selectGo, hr, hx, ↓reduceIte]; cases x <;> simp [unmark, ih 1 _ h.2]
          · have hx' : x.isStart = false := by simpa using hx
            simp only [hx', Bool.false_eq_true, ↓reduceIte] at h
            simp only [selectGo, hr, hx', Bool.false_eq_true, ↓reduceIte]
            cases x <;> simp [unmark, ih 0 _ h.2]
    | succ d =>
      simp only [selOk] at h
      simp only [selectGo]
      by_cases hd : subDepth d x = 0
      · simp only [hd, ↓reduceIte]; rw [hd] at h; cases x <;> simp [unmark, ih 0 rs h]
      · simp only [hd, ↓reduceIte]; cases x <;> simp [unmark, ih _ rs h]

/-! ### wrappers -/

theorem wrapper_inject {C : Stream} (hC : Bal C) : Wrapper C [] := by
  intro X st rest hX
  simp only [List.nil_append]
  rw [balance_bal st hC, balance_bal st hX]

theorem wrapper_after {C : Stream} (hC : Bal C) : Wrapper [] C := by
  intro X st rest hX
  simp only [List.nil_append]
  rw [balance_bal st hX, balance_bal st hC]

theorem wrapper_elem (t : QName) (a : AttrList) : Wrapper [.start t a] [.end_ t] := by
  intro X st rest hX
  have := balance_bal st (bal_elem t a hX) rest
  simpa using this

theorem evsOf_map_ev (s : Stream) : evsOf (s.map .ev) = s := by
  induction s with
  | nil => rfl
  | cons e s ih => simp [evsOf, ih]

theorem bal_ensureStr (t : Str) : Bal (evsOf (ensureStr t)) := by
  induction t with
  | nil => rfl
  | cons c t ih =>
    simp only [ensureStr, List.map_cons, evsOf] at ih ⊢
    unfold Bal at *
    rw [balance_skip _ (by rfl)]; exact ih

/-- literal content is balanced (buffer contents are outside this theorem) -/
def Content.Ok : Content → Prop
  | .str _ => True
  | .evs s => Bal s
  | .buf _ => False

theorem content_bal (b : Bufs) {c : Content} (h : c.Ok) : Bal (evsOf (content b c)) := by
  cases c with
  | str t => exact bal_ensureStr t
  | evs s => simpa [content, evsOf_map_ev, Content.Ok] using h
  | buf id => exact absurd h (by simp [Content.Ok])

/-! ### admissible chains -/

/-- operations whose nesting claim needs a `Good` marking -/
def Op.OkGood : Op → Prop
  | .filter _ => False
  | .replace c => c.Ok
  | .before c => c.Ok
  | .after c => c.Ok
  | .prepend c => c.Ok
  | .append c => c.Ok
  | _ => True

/-- operations admitted while the selection is inverted (documented precondition: a new
    `select` / `end` must come before anything that acts on contiguous selections) -/
def Op.OkDirty : Op → Prop
  | .select _ => True
  | .endSel => True
  | .invert => True
  | .buffer => True
  | .mapBang _ => True
  | .subst _ _ _ => True
  | .attr _ _ => True
  | _ => False

/-- is the marking `Good` after the operation? -/
def Op.next (good : Bool) : Op → Bool
  | .select _ => true
  | .endSel => true
  | .invert => false
  | _ => good

def Admissible : Bool → List Op → Prop
  | _, [] => True
  | good, op :: ops => (if good then op.OkGood else op.OkDirty) ∧ Admissible (op.next good) ops

theorem runGo_wn {pre post : MStream} (keep : Bool) (hw : Wrapper (unmark pre) (unmark post))
    {s : MStream} (hg : Good s) (h : WellNested (unmark s)) :
    WellNested (unmark (runGo pre post keep .idle s)) := by
  unfold WellNested; rw [(runGo_balance keep hw hg).1 []]; exact h

theorem applyOp_good (b : Bufs) (op : Op) {s s' : MStream} {b' : Bufs}
    (hok : op.OkGood) (hg : Good s) (hwn : WellNested (unmark s))
    (hsel : op.selOkAt s = true)
    (h : applyOp b op s = some (s', b')) :
    WellNested (unmark s') ∧ (op.next true = true → Good s') := by
  cases op with
  | select rs =>
    simp only [Op.selOkAt] at hsel
    obtain ⟨g, f⟩ := select_good rs s hwn hsel
    simp only [applyOp, select, f, ↓reduceIte, Option.map_some, Option.some.injEq, Prod.mk.injEq] at h
    obtain ⟨rfl, _⟩ := h
    exact ⟨by rw [unmark_selectGo_ok 0 rs s hsel]; exact hwn, fun _ => g⟩
  | invert =>
    simp only [applyOp, Option.some.injEq, Prod.mk.injEq] at h
    obtain ⟨rfl, _⟩ := h
    exact ⟨by rw [unmark_invert]; exact hwn, fun h => by simp [Op.next] at h⟩
  | endSel =>
    simp only [applyOp, Option.some.injEq, Prod.mk.injEq] at h
    obtain ⟨rfl, _⟩ := h
    exact ⟨by rw [unmark_endSel]; exact hwn, fun _ => endSel_good hwn⟩
  | empty =>
    simp only [applyOp, Option.some.injEq, Prod.mk.injEq] at h
    obtain ⟨rfl, _⟩ := h
    exact ⟨by unfold WellNested; rw [empty_balance hg]; exact hwn, fun _ => empty_good hg⟩
  | remove =>
    simp only [applyOp, Option.some.injEq, Prod.mk.injEq] at h
    obtain ⟨rfl, _⟩ := h
    exact ⟨by unfold WellNested remove; rw [remove_balance hg]; exact hwn, fun _ => remove_good s⟩
  | unwrap =>
    simp only [applyOp, Option.some.injEq, Prod.mk.injEq] at h
    obtain ⟨rfl, _⟩ := h
    exact ⟨by unfold WellNested; rw [unwrap_balance hg]; exact hwn, fun _ => unwrap_good hg⟩
  | wrap t a =>
    simp only [applyOp, Option.some.injEq, Prod.mk.injEq] at h
    obtain ⟨rfl, _⟩ := h
    have hw : Wrapper (unmark (inj ([Event.start t a].map MEv.ev))) (unmark [(none, MEv.ev (.end_ t))]) := by
      simpa [inj, unmark] using wrapper_elem t a
    exact ⟨runGo_wn true hw hg hwn,
      fun _ => (runGo_good true (inj_noneMarked _) (by intro p hp; simp at hp; simp [hp]) hg).1⟩
  | replace c =>
    simp only [applyOp, Option.some.injEq, Prod.mk.injEq] at h
    obtain ⟨rfl, _⟩ := h
    have hw : Wrapper (unmark (inj (content b c))) (unmark []) := by
      rw [unmark_inj]; exact wrapper_inject (content_bal b hok)
    exact ⟨runGo_wn false hw hg hwn,
      fun _ => (runGo_good false (inj_noneMarked _) (by intro p hp; simp at hp) hg).1⟩
  | before c =>
    simp only [applyOp, Option.some.injEq, Prod.mk.injEq] at h
    obtain ⟨rfl, _⟩ := h
    have hw : Wrapper (unmark (inj (content b c))) (unmark []) := by
      rw [unmark_inj]; exact wrapper_inject (content_bal b hok)
    exact ⟨runGo_wn true hw hg hwn,
      fun _ => (runGo_good true (inj_noneMarked _) (by intro p hp; simp at hp) hg).1⟩
  | after c =>
    simp only [applyOp, Option.some.injEq, Prod.mk.injEq] at h
    obtain ⟨rfl, _⟩ := h
    have hw : Wrapper (unmark []) (unmark (inj (content b c))) := by
      rw [unmark_inj]; exact wrapper_after (content_bal b hok)
    exact ⟨runGo_wn true hw hg hwn,
      fun _ => (runGo_good true (by intro p hp; simp at hp) (inj_noneMarked _) hg).1⟩
  | prepend c =>
    simp only [applyOp, Option.some.injEq, Prod.mk.injEq] at h
    obtain ⟨rfl, _⟩ := h
    exact ⟨by unfold WellNested; rw [prepend_balance _ (content_bal b hok) hg]; exact hwn,
      fun _ => prepend_good _ (content_bal b hok) hg⟩
  | append c =>
    simp only [applyOp, Option.some.injEq, Prod.mk.injEq] at h
    obtain ⟨rfl, _⟩ := h
    exact ⟨by unfold WellNested; rw [append_balance _ (content_bal b hok) hg]; exact hwn,
      fun _ => append_good _ (content_bal b hok) hg⟩
  | attr n v =>
    simp only [applyOp, Option.some.injEq, Prod.mk.injEq] at h
    obtain ⟨rfl, _⟩ := h
    exact ⟨by unfold WellNested setAttr; rw [map_balance (attrEv_effPres n v)]; exact hwn,
      fun _ => map_good (attrEv_effPres n v) hg⟩
  | rename n =>
    simp only [applyOp, Option.some.injEq, Prod.mk.injEq] at h
    obtain ⟨rfl, _⟩ := h
    exact ⟨by unfold WellNested; rw [rename_balance n hg]; exact hwn, fun _ => rename_good n hg⟩
  | copy id acc =>
    simp only [applyOp, Option.some.injEq, Prod.mk.injEq] at h
    obtain ⟨rfl, _⟩ := h
    rw [copy_id]; exact ⟨hwn, fun _ => hg⟩
  | cut id acc =>
    simp only [applyOp, Option.map_eq_some_iff, Prod.mk.injEq] at h
    obtain ⟨out, hc, rfl, _⟩ := h
    obtain ⟨g, bal⟩ := cut_good hg hc
    exact ⟨by unfold WellNested; rw [bal]; exact hwn, fun _ => g⟩
  | buffer =>
    simp only [applyOp, Option.some.injEq, Prod.mk.injEq] at h
    obtain ⟨rfl, _⟩ := h
    exact ⟨hwn, fun _ => hg⟩
  | mapBang all =>
    simp only [applyOp, Option.some.injEq, Prod.mk.injEq] at h
    obtain ⟨rfl, _⟩ := h
    exact ⟨by unfold WellNested mapBang; rw [map_balance (mapBangEv_effPres all)]; exact hwn,
      fun _ => map_good (mapBangEv_effPres all) hg⟩
  | subst p r n =>
    simp only [applyOp, Option.some.injEq, Prod.mk.injEq] at h
    obtain ⟨rfl, _⟩ := h
    exact ⟨by unfold WellNested substitute; rw [map_balance (substEv_effPres p r n)]; exact hwn,
      fun _ => map_good (substEv_effPres p r n) hg⟩
  | filter d => exact absurd hok (by simp [Op.OkGood])

theorem applyOp_dirty (b : Bufs) (op : Op) {s s' : MStream} {b' : Bufs}
    (hok : op.OkDirty) (hwn : WellNested (unmark s))
    (hsel : op.selOkAt s = true)
    (h : applyOp b op s = some (s', b')) :
    WellNested (unmark s') ∧ (op.next false = true → Good s') := by
  cases op with
  | select rs =>
    simp only [Op.selOkAt] at hsel
    obtain ⟨g, f⟩ := select_good rs s hwn hsel
    simp only [applyOp, select, f, ↓reduceIte, Option.map_some, Option.some.injEq, Prod.mk.injEq] at h
    obtain ⟨rfl, _⟩ := h
    exact ⟨by rw [unmark_selectGo_ok 0 rs s hsel]; exact hwn, fun _ => g⟩
  | invert =>
    simp only [applyOp, Option.some.injEq, Prod.mk.injEq] at h
    obtain ⟨rfl, _⟩ := h
    exact ⟨by rw [unmark_invert]; exact hwn, fun h => by simp [Op.next] at h⟩
  | endSel =>
    simp only [applyOp, Option.some.injEq, Prod.mk.injEq] at h
    obtain ⟨rfl, _⟩ := h
    exact ⟨by rw [unmark_endSel]; exact hwn, fun _ => endSel_good hwn⟩
  | buffer =>
    simp only [applyOp, Option.some.injEq, Prod.mk.injEq] at h
    obtain ⟨rfl, _⟩ := h
    exact ⟨hwn, fun h => by simp [Op.next] at h⟩
  | attr n v =>
    simp only [applyOp, Option.some.injEq, Prod.mk.injEq] at h
    obtain ⟨rfl, _⟩ := h
    exact ⟨by unfold WellNested setAttr; rw [map_balance (attrEv_effPres n v)]; exact hwn,
      fun h => by simp [Op.next] at h⟩
  | mapBang all =>
    simp only [applyOp, Option.some.injEq, Prod.mk.injEq] at h
    obtain ⟨rfl, _⟩ := h
    exact ⟨by unfold WellNested mapBang; rw [map_balance (mapBangEv_effPres all)]; exact hwn,
      fun h => by simp [Op.next] at h⟩
  | subst p r n =>
    simp only [applyOp, Option.some.injEq, Prod.mk.injEq] at h
    obtain ⟨rfl, _⟩ := h
    exact ⟨by unfold WellNested substitute; rw [map_balance (substEv_effPres p r n)]; exact hwn,
      fun h => by simp [Op.next] at h⟩
  | _ => exact absurd hok (by simp [Op.OkDirty])

theorem runChain_wellnested : ∀ (ops : List Op) (good : Bool) (b : Bufs) (s : MStream),
    Admissible good ops → WellNested (unmark s) → (good = true → Good s) →
    chainSelOk ops b s = true →
    ∀ out b', runChain ops b s = some (out, b') → WellNested (unmark out) := by
  intro ops
  induction ops with
  | nil =>
    intro good b s _ hwn _ _ out b' h
    simp only [runChain, Option.some.injEq, Prod.mk.injEq] at h
    obtain ⟨rfl, _⟩ := h
    exact hwn
  | cons op ops ih =>
    intro good b s hadm hwn hg hsel out b' h
    simp only [runChain] at h
    simp only [chainSelOk, Bool.and_eq_true] at hsel
    cases ha : applyOp b op s with
    | none => simp [ha] at h
    | some r =>
      obtain ⟨s1, b1⟩ := r
      simp only [ha] at h hsel
      obtain ⟨hadm1, hadm2⟩ := hadm
      cases good with
      | true =>
        simp only [↓reduceIte] at hadm1
        obtain ⟨hwn1, hg1⟩ := applyOp_good b op hadm1 (hg rfl) hwn hsel.1 ha
        exact ih (op.next true) b1 s1 hadm2 hwn1 hg1 hsel.2 out b' h
      | false =>
        simp only [Bool.false_eq_true, ↓reduceIte] at hadm1
        obtain ⟨hwn1, hg1⟩ := applyOp_dirty b op hadm1 hwn hsel.1 ha
        exact ih (op.next false) b1 s1 hadm2 hwn1 hg1 hsel.2 out b' h

end Genshi.Tf

/-
  Helper lemmas for chains: select keeps the events, the wrappers of the shared
  selection loop, balanced literal content.
-/
import Genshi.Lemmas.TfCut
namespace Genshi.Tf

theorem unmark_selectGo_ok (d : Nat) (rs : List Res) (s : MStream) (h : selOk d rs s = true) :
    unmark (selectGo d rs s) = unmark s := by
  induction s generalizing d rs with
  | nil => cases d <;> simp [selectGo]
  | cons p s ih =>
    obtain ⟨m, x⟩ := p
    cases d with
    | zero =>
      cases m with
      | none =>
        simp only [selOk] at h
        cases x <;> simp [selectGo, unmark, ih 0 rs h]
      | some m =>
        simp only [selOk] at h
        cases hr : rs.headD .none with
        | none =>
          simp only [hr] at h
          simp only [selectGo, hr]; cases x <;> simp [unmark, ih 0 _ h]
        | attrs a =>
          simp only [hr] at h
          simp only [selectGo, hr]; cases x <;> simp [unmark, ih 0 _ h]
        | self =>
          simp only [hr, Bool.and_eq_true] at h
          simp only [selectGo, hr]; cases x <;> simp [unmark, ih 0 _ h.2]
        | event e => simp only [hr] at h; exact absurd h (by decide)
        | text t => simp only [hr] at h; exact absurd h (by decide)
        | hit =>
          simp only [hr, Bool.and_eq_true] at h
          by_cases hx : x.isStart = true
          · simp only [hx, ↓reduceIte] at h
            simp only [selectGo, hr, hx, ↓reduceIte]; cases x <;> simp [unmark, ih 1 _ h.2]
          · have hx' : x.isStart = false := by simpa using hx
            simp only [hx', Bool.false_eq_true, ↓reduceIte] at h
            simp only [selectGo, hr, hx', Bool.false_eq_true, ↓reduceIte]
            cases x <;> simp [unmark, ih 0 _ h.2]
    | succ d =>
      simp only [selOk] at h
      simp only [selectGo]
      by_cases hd : subDepth d x = 0
      · simp only [hd, ↓reduceIte]; rw [hd] at h; cases x <;> simp [unmark, ih 0 rs h]
      · simp only [hd, ↓reduceIte]; cases x <;> simp [unmark, ih _ rs h]

/-! ### wrappers -/

theorem wrapper_inject {C : Stream} (hC : Bal C) : Wrapper C [] := by
  intro X st rest hX
  simp only [List.nil_append]
  rw [balance_bal st hC, balance_bal st hX]

theorem wrapper_after {C : Stream} (hC : Bal C) : Wrapper [] C := by
  intro X st rest hX
  simp only [List.nil_append]
  rw [balance_bal st hX, balance_bal st hC]

theorem wrapper_elem (t : QName) (a : AttrList) : Wrapper [.start t a] [.end_ t] := by
  intro X st rest hX
  have := balance_bal st (bal_elem t a hX) rest
  simpa using this

theorem wrapper_elem_kids (t : QName) (a : AttrList) {kids : Stream} (hk : Bal kids) :
    Wrapper (.start t a :: kids) [.end_ t] := by
  intro X st rest hX
  have := balance_bal st (bal_elem t a (hk.append hX)) rest
  simpa using this

theorem evsOf_map_ev (s : Stream) : evsOf (s.map .ev) = s := by
  induction s with
  | nil => rfl
  | cons e s ih => simp [evsOf, ih]

theorem bal_ensureStr (t : Str) : Bal (evsOf (ensureStr t)) := by
  induction t with
  | nil => rfl
  | cons c t ih =>
    simp only [ensureStr, List.map_cons, evsOf] at ih ⊢
    unfold Bal at *
    rw [balance_skip _ (by rfl)]; exact ih

theorem runGo_wn {pre post : MStream} (keep : Bool) (hw : Wrapper (unmark pre) (unmark post))
    {s : MStream} (hg : Good s) (h : WellNested (unmark s)) :
    WellNested (unmark (runGo pre post keep .idle s)) := by
  unfold WellNested; rw [(runGo_balance keep hw hg).1 []]; exact h

end Genshi.Tf

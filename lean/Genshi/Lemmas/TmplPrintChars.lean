/-
  C04 — the characters of printed expressions and directive values (`Model/TmplPrint.lean`):
  every token laid out for an AST that satisfies the side condition is a token of the tokenizer;
  the printed source of `${…}` is in the domain of the C03 lexer theorem (`Scannable`), non-empty,
  without blanks at its ends; no character of a printed source can start or end a delimiter or an
  escape; a directive value has no `\s` character at its ends.
-/
import Genshi.Model.TmplPrint
import Genshi.Lemmas.PyLex
import Genshi.Model.SanChars
namespace Genshi.Tmpl.Print
open Genshi.Tmpl.Raw
open Genshi.Py.Lex (Scannable StrBody plainChar isWord stripAscii)

/-! ### character classes -/

/-- the symbols of the mini language without the braces -/
def flatSyms : List Char := ['(', ')', '[', ']', ',', ':', ';', '-', '=']

/-- a character a token source can begin or end with -/
def edgeCh (c : Char) : Bool :=
  isIdChar c || c == '\'' || ['(', ')', '[', ']', '{', '}', ',', ':', ';', '-', '='].contains c

/-- a character that cannot start / end a delimiter or an escape -/
def okCh (c : Char) : Bool := c != '\\' && c != '%' && c != '#' && c != '\n'

/-- the class `stripAscii` removes -/
def stripCls (c : Char) : Bool :=
  c = ' ' || c = '\t' || c = '\n' || c = '\r' || c = '\x0b' || c = '\x0c'
    || c = '\x1c' || c = '\x1d' || c = '\x1e' || c = '\x1f' || c = '\u0085' || c = '\u00a0'

theorem stripAscii_eq (s : List Char) :
    stripAscii s = ((s.dropWhile stripCls).reverse.dropWhile stripCls).reverse := rfl

theorem idChar_word {c : Char} (h : isIdChar c = true) : isWord c = true := h

theorem digit_idChar_c {c : Char} (h : c.isDigit = true) : isIdChar c = true := by
  simp [Char.isDigit] at h
  simp only [isIdChar, isIdStart, isDigit, Char.le_def, Bool.or_eq_true, Bool.and_eq_true, decide_eq_true_eq]
  exact Or.inr h

theorem idStart_idChar_c {c : Char} (h : isIdStart c = true) : isIdChar c = true := by
  simp [isIdChar, h]

theorem val_range {c : Char} {a b : UInt32} (h : a ≤ c.val ∧ c.val ≤ b) (ha : 33 ≤ a.toNat) (hb : b.toNat ≤ 126) :
    33 ≤ c.toNat ∧ c.toNat ≤ 126 := by
  have h1 := UInt32.le_iff_toNat_le.mp h.1
  have h2 := UInt32.le_iff_toNat_le.mp h.2
  show 33 ≤ c.val.toNat ∧ c.val.toNat ≤ 126
  omega

theorem idChar_range {c : Char} (h : isIdChar c = true) : 33 ≤ c.toNat ∧ c.toNat ≤ 126 := by
  simp [isIdChar, isIdStart, isDigit, Char.le_def] at h
  rcases h with ((h | h) | rfl) | h
  · exact val_range h (by decide) (by decide)
  · exact val_range h (by decide) (by decide)
  · decide
  · exact val_range h (by decide) (by decide)

theorem sym_cases {c : Char} (h : ['(', ')', '[', ']', '{', '}', ',', ':', ';', '-', '='].contains c = true) :
    c = '(' ∨ c = ')' ∨ c = '[' ∨ c = ']' ∨ c = '{' ∨ c = '}' ∨ c = ',' ∨ c = ':' ∨ c = ';' ∨ c = '-' ∨ c = '=' := by
  simpa only [List.contains_cons, List.contains_nil, Bool.or_false, Bool.or_eq_true, beq_iff_eq] using h

theorem flatSym_cases {c : Char} (h : flatSyms.contains c = true) :
    c = '(' ∨ c = ')' ∨ c = '[' ∨ c = ']' ∨ c = ',' ∨ c = ':' ∨ c = ';' ∨ c = '-' ∨ c = '=' := by
  simpa only [flatSyms, List.contains_cons, List.contains_nil, Bool.or_false, Bool.or_eq_true, beq_iff_eq] using h

theorem edgeCh_range {c : Char} (h : edgeCh c = true) : 33 ≤ c.toNat ∧ c.toNat ≤ 126 := by
  simp only [edgeCh, Bool.or_eq_true, beq_iff_eq] at h
  rcases h with (h | rfl) | h
  · exact idChar_range h
  · decide
  · rcases sym_cases h with rfl | rfl | rfl | rfl | rfl | rfl | rfl | rfl | rfl | rfl | rfl <;> decide

theorem edgeCh_not_reSpace {c : Char} (h : edgeCh c = true) : Genshi.San.isReSpace c = false := by
  have := edgeCh_range h
  simp [Genshi.San.isReSpace, Genshi.San.inRanges, Genshi.Gen.SanClass.reSpaceRanges]
  omega

theorem stripCls_not_edge {c : Char} (h : stripCls c = true) : edgeCh c = false := by
  simp only [stripCls, Bool.or_eq_true, decide_eq_true_eq] at h
  rcases h with ((((((((((rfl | rfl) | rfl) | rfl) | rfl) | rfl) | rfl) | rfl) | rfl) | rfl) | rfl) | rfl <;> decide

theorem edgeCh_not_strip {c : Char} (h : edgeCh c = true) : stripCls c = false := by
  cases hs : stripCls c with
  | false => rfl
  | true => rw [stripCls_not_edge hs] at h; cases h

theorem notOk_cases {c : Char} (h : okCh c = false) : c = '\\' ∨ c = '%' ∨ c = '#' ∨ c = '\n' := by
  simp only [okCh, Bool.and_eq_false_iff, bne_eq_false_iff_eq] at h
  rcases h with ((h | h) | h) | h <;> simp [h]

theorem idChar_okCh {c : Char} (h : isIdChar c = true) : okCh c = true := by
  cases ho : okCh c with
  | true => rfl
  | false =>
    exfalso
    rcases notOk_cases ho with rfl | rfl | rfl | rfl <;> exact absurd h (by decide)

theorem strCh_okCh {c : Char} (h : strCh c = true) : okCh c = true := by
  simp only [strCh, okCh, Bool.and_eq_true] at h ⊢
  exact ⟨⟨⟨h.1.1.1.1, h.1.2⟩, h.2⟩, h.1.1.2⟩

/-! ### tokens -/

/-- a token the tokenizer can produce, other than a brace, whose string literal holds nothing that
    could end a directive -/
def tokFlat : MTok → Bool
  | .name s => tokOk (.name s)
  | .int _ => true
  | .str s => s.all strCh
  | .sym c => flatSyms.contains c
  | .eqeq => true

/-- `tokFlat` or a brace -/
def tokFine : MTok → Bool
  | .name s => tokOk (.name s)
  | .int _ => true
  | .str s => s.all strCh
  | .sym c => ['(', ')', '[', ']', '{', '}', ',', ':', ';', '-', '='].contains c
  | .eqeq => true

theorem tokFlat_fine {t : MTok} (h : tokFlat t = true) : tokFine t = true := by
  cases t with
  | sym c => rcases flatSym_cases h with rfl | rfl | rfl | rfl | rfl | rfl | rfl | rfl | rfl <;> decide
  | _ => exact h

theorem tokFine_ok {t : MTok} (h : tokFine t = true) : tokOk t = true := by
  cases t with
  | str s =>
    simp only [tokFine, tokOk, List.all_eq_true] at h ⊢
    intro c hc
    have := h c hc
    simp only [strCh, Bool.and_eq_true] at this
    simp [this.1.1.1.1, this.1.1.1.2, this.1.1.2]
  | _ => exact h

theorem all_fine_ok {ts : List MTok} (h : ts.all tokFine = true) : ts.all tokOk = true := by
  simp only [List.all_eq_true] at h ⊢
  exact fun t ht => tokFine_ok (h t ht)

theorem all_flat_fine {ts : List MTok} (h : ts.all tokFlat = true) : ts.all tokFine = true := by
  simp only [List.all_eq_true] at h ⊢
  exact fun t ht => tokFlat_fine (h t ht)

theorem name_chars {s : Str} (h : tokOk (.name s) = true) : s ≠ [] ∧ ∀ c ∈ s, isIdChar c = true := by
  cases s with
  | nil => simp [tokOk] at h
  | cons c r =>
    simp only [tokOk, Bool.and_eq_true, List.all_eq_true] at h
    refine ⟨by simp, ?_⟩
    intro d hd
    rcases List.mem_cons.mp hd with rfl | hd
    · exact idStart_idChar_c h.1
    · exact h.2 d hd

theorem natStr_chars (n : Nat) : natStr n ≠ [] ∧ ∀ c ∈ natStr n, isIdChar c = true :=
  ⟨Nat.toDigits_ne_nil, fun _ hc => digit_idChar_c (Nat.isDigit_of_mem_toDigits (by decide) (by decide) hc)⟩

theorem idChar_edge {c : Char} (h : isIdChar c = true) : edgeCh c = true := by simp [edgeCh, h]

theorem tokSrc_ne_nil {t : MTok} (h : tokFine t = true) : tokSrc t ≠ [] := by
  cases t with
  | name s => exact (name_chars h).1
  | int n => exact (natStr_chars n).1
  | _ => simp [tokSrc]

theorem tokSrc_ok {t : MTok} (h : tokFine t = true) : ∀ c ∈ tokSrc t, okCh c = true := by
  cases t with
  | name s => exact fun c hc => idChar_okCh ((name_chars h).2 c hc)
  | int n => exact fun c hc => idChar_okCh ((natStr_chars n).2 c hc)
  | str s =>
    intro c hc
    simp only [tokFine, List.all_eq_true] at h
    simp only [tokSrc, List.mem_cons, List.mem_append, List.not_mem_nil, or_false] at hc
    rcases hc with rfl | hc | rfl
    · decide
    · exact strCh_okCh (h c hc)
    · decide
  | sym c =>
    intro d hd
    simp only [tokSrc, List.mem_cons, List.not_mem_nil, or_false] at hd
    subst hd
    rcases sym_cases h with rfl | rfl | rfl | rfl | rfl | rfl | rfl | rfl | rfl | rfl | rfl <;> decide
  | eqeq =>
    intro d hd
    simp only [tokSrc, List.mem_cons, List.not_mem_nil, or_false] at hd
    rcases hd with rfl | rfl <;> decide

theorem tokSrc_head {t : MTok} (h : tokFine t = true) : ∀ c, (tokSrc t).head? = some c → edgeCh c = true := by
  cases t with
  | name s => exact fun c hc => idChar_edge ((name_chars h).2 c (List.mem_of_head? hc))
  | int n => exact fun c hc => idChar_edge ((natStr_chars n).2 c (List.mem_of_head? hc))
  | str s => intro c hc; simp [tokSrc] at hc; subst hc; decide
  | sym c =>
    intro d hd
    simp [tokSrc] at hd
    subst hd
    simp only [edgeCh, Bool.or_eq_true]
    exact Or.inr h
  | eqeq => intro d hd; simp [tokSrc] at hd; subst hd; decide

theorem tokSrc_last {t : MTok} (h : tokFine t = true) : ∀ c, (tokSrc t).getLast? = some c → edgeCh c = true := by
  cases t with
  | name s => exact fun c hc => idChar_edge ((name_chars h).2 c (List.mem_of_getLast? hc))
  | int n => exact fun c hc => idChar_edge ((natStr_chars n).2 c (List.mem_of_getLast? hc))
  | str s =>
    intro c hc
    have : tokSrc (.str s) = ('\'' :: s) ++ ['\''] := by simp [tokSrc]
    rw [this, List.getLast?_append] at hc
    simp at hc
    subst hc
    decide
  | sym c =>
    intro d hd
    simp [tokSrc] at hd
    subst hd
    simp only [edgeCh, Bool.or_eq_true]
    exact Or.inr h
  | eqeq => intro d hd; simp [tokSrc] at hd; subst hd; decide

/-! ### the layout of token lists -/

/-- what `toksSrc` writes between the token lists `a` and `b` -/
def junc (a b : List MTok) : Str :=
  match a.getLast?, b.head? with
  | some x, some y => if sep x y then [' '] else []
  | _, _ => []

theorem junc_cases (a b : List MTok) : junc a b = [] ∨ junc a b = [' '] := by
  unfold junc
  split
  · split <;> simp
  · simp

theorem toksSrc_append : ∀ (a b : List MTok), toksSrc (a ++ b) = toksSrc a ++ (junc a b ++ toksSrc b)
  | [], b => by simp [toksSrc, junc]
  | [t], [] => by simp [toksSrc, junc]
  | [t], y :: b => by simp [toksSrc, junc]
  | t :: u :: r, b => by
      have ih := toksSrc_append (u :: r) b
      have hj : junc (t :: u :: r) b = junc (u :: r) b := by simp [junc, List.getLast?_cons_cons]
      simp only [List.cons_append] at ih ⊢
      rw [hj]
      show tokSrc t ++ ((if sep t u then [' '] else []) ++ toksSrc (u :: (r ++ b)))
        = (tokSrc t ++ ((if sep t u then [' '] else []) ++ toksSrc (u :: r))) ++ (junc (u :: r) b ++ toksSrc b)
      rw [ih]
      simp only [List.append_assoc]

theorem toksSrc_cons (t : MTok) (r : List MTok) : toksSrc (t :: r) = tokSrc t ++ (junc [t] r ++ toksSrc r) :=
  toksSrc_append [t] r

theorem junc_ok (a b : List MTok) : ∀ c ∈ junc a b, c = ' ' := by
  intro c hc
  rcases junc_cases a b with e | e <;> rw [e] at hc
  · simp at hc
  · simp at hc; exact hc

theorem toksSrc_ok : ∀ (ts : List MTok), ts.all tokFine = true → ∀ c ∈ toksSrc ts, okCh c = true
  | [], _ => by simp [toksSrc]
  | t :: r, h => by
      simp only [List.all_cons, Bool.and_eq_true] at h
      rw [toksSrc_cons]
      intro c hc
      simp only [List.mem_append] at hc
      rcases hc with hc | hc | hc
      · exact tokSrc_ok h.1 c hc
      · rw [junc_ok _ _ c hc]; decide
      · exact toksSrc_ok r h.2 c hc

theorem toksSrc_ne_nil {ts : List MTok} (hne : ts ≠ []) (h : ts.all tokFine = true) : toksSrc ts ≠ [] := by
  cases ts with
  | nil => exact absurd rfl hne
  | cons t r =>
    simp only [List.all_cons, Bool.and_eq_true] at h
    rw [toksSrc_cons]
    have := tokSrc_ne_nil h.1
    simp [this]

theorem toksSrc_head_fine {ts : List MTok} (h : ts.all tokFine = true) :
    ∀ c, (toksSrc ts).head? = some c → edgeCh c = true := by
  cases ts with
  | nil => simp [toksSrc]
  | cons t r =>
    simp only [List.all_cons, Bool.and_eq_true] at h
    obtain ⟨d, s, hs⟩ := List.exists_cons_of_ne_nil (tokSrc_ne_nil h.1)
    intro c hc
    rw [toksSrc_cons, hs] at hc
    simp at hc
    subst hc
    exact tokSrc_head h.1 d (by rw [hs]; rfl)

theorem getLast?_append_ne {α : Type} {a b : List α} (h : b ≠ []) : (a ++ b).getLast? = b.getLast? := by
  obtain ⟨x, hx⟩ : ∃ x, b.getLast? = some x := by
    cases hb : b.getLast? with
    | none => exact absurd (List.getLast?_eq_none_iff.mp hb) h
    | some x => exact ⟨x, rfl⟩
  rw [List.getLast?_append, hx]
  rfl

theorem toksSrc_last : ∀ (ts : List MTok), ts.all tokFine = true →
    ∀ c, (toksSrc ts).getLast? = some c → edgeCh c = true
  | [], _ => by simp [toksSrc]
  | [t], h => by
      simp only [List.all_cons, List.all_nil, Bool.and_true] at h
      exact tokSrc_last h
  | t :: u :: r, h => by
      have h' : (u :: r).all tokFine = true := by
        simp only [List.all_cons, Bool.and_eq_true] at h ⊢
        exact h.2
      have ih := toksSrc_last (u :: r) h'
      have hne : toksSrc (u :: r) ≠ [] := toksSrc_ne_nil (by simp) h'
      rw [toksSrc_cons, getLast?_append_ne (by simp [hne]), getLast?_append_ne hne]
      exact ih

/-! ### token lists with balanced braces, and `Scannable` -/

/-- token lists of `tokFlat` tokens and balanced braces -/
inductive Bal : List MTok → Prop where
  | nil : Bal []
  | tok (t : MTok) (r : List MTok) : tokFlat t = true → Bal r → Bal (t :: r)
  | braces (inner r : List MTok) : Bal inner → Bal r → Bal (.sym '{' :: (inner ++ .sym '}' :: r))

theorem Bal.append {a b : List MTok} (ha : Bal a) (hb : Bal b) : Bal (a ++ b) := by
  induction ha with
  | nil => exact hb
  | tok t r ht _ ih => exact Bal.tok t _ ht ih
  | braces inner r hi _ _ ih =>
    have := Bal.braces inner _ hi ih
    simpa [List.append_assoc] using this

theorem Bal.of_flat : ∀ {ts : List MTok}, ts.all tokFlat = true → Bal ts
  | [], _ => Bal.nil
  | t :: r, h => by
      simp only [List.all_cons, Bool.and_eq_true] at h
      exact Bal.tok t r h.1 (Bal.of_flat h.2)

theorem Bal.fine {ts : List MTok} (h : Bal ts) : ts.all tokFine = true := by
  induction h with
  | nil => rfl
  | tok t r ht _ ih => simp [tokFlat_fine ht, ih]
  | braces inner r _ _ ih1 ih2 =>
    have h1 : tokFine (.sym '{') = true := by decide
    have h2 : tokFine (.sym '}') = true := by decide
    simp [h1, h2, ih1, ih2]

theorem scannable_words : ∀ (s : List Char) (r : List Char), (∀ c ∈ s, isIdChar c = true) → Scannable r →
    Scannable (s ++ r)
  | [], _, _, hr => hr
  | c :: s, r, h, hr =>
      Scannable.word c (s ++ r) (idChar_word (h c (by simp)))
        (scannable_words s r (fun d hd => h d (by simp [hd])) hr)

theorem strBody_of_strCh : ∀ (s : List Char), s.all strCh = true → StrBody '\'' s
  | [], _ => StrBody.nil
  | c :: s, h => by
      simp only [List.all_cons, Bool.and_eq_true] at h
      have hc := h.1
      simp only [strCh, Bool.and_eq_true, bne_iff_ne, ne_eq] at hc
      exact StrBody.char c s hc.1.1.1.2 hc.1.1.2 hc.1.1.1.1 (strBody_of_strCh s h.2)

theorem scannable_tok {t : MTok} (h : tokFlat t = true) {r : List Char} (hr : Scannable r) :
    Scannable (tokSrc t ++ r) := by
  cases t with
  | name s => exact scannable_words s r (name_chars h).2 hr
  | int n => exact scannable_words _ r (natStr_chars n).2 hr
  | str s =>
    have : tokSrc (.str s) ++ r = '\'' :: (s ++ '\'' :: r) := by simp [tokSrc]
    rw [this]
    exact Scannable.str '\'' s r (Or.inl rfl) (strBody_of_strCh s h) hr
  | sym c =>
    refine Scannable.plain c r ?_ hr
    rcases flatSym_cases h with rfl | rfl | rfl | rfl | rfl | rfl | rfl | rfl | rfl <;> decide
  | eqeq => exact Scannable.plain '=' _ (by decide) (Scannable.plain '=' _ (by decide) hr)

theorem scannable_junc (a b : List MTok) {r : List Char} (hr : Scannable r) : Scannable (junc a b ++ r) := by
  rcases junc_cases a b with e | e <;> rw [e]
  · exact hr
  · exact Scannable.plain ' ' r (by decide) hr

theorem Bal.scannable {ts : List MTok} (h : Bal ts) : ∀ {r : List Char}, Scannable r → Scannable (toksSrc ts ++ r) := by
  induction h with
  | nil => intro r hr; exact hr
  | tok t ts ht _ ih =>
    intro r hr
    rw [toksSrc_cons]
    simp only [List.append_assoc]
    exact scannable_tok ht (scannable_junc _ _ (ih hr))
  | braces inner ts _ _ ih1 ih2 =>
    intro r hr
    have e : toksSrc (.sym '{' :: (inner ++ .sym '}' :: ts)) ++ r
        = '{' :: ((junc [.sym '{'] (inner ++ .sym '}' :: ts) ++ (toksSrc inner ++ junc inner (.sym '}' :: ts)))
            ++ '}' :: (junc [.sym '}'] ts ++ (toksSrc ts ++ r))) := by
      rw [toksSrc_cons, toksSrc_append, toksSrc_cons]
      simp [tokSrc, List.append_assoc]
    rw [e]
    refine Scannable.braces _ _ ?_ (scannable_junc _ _ (ih2 hr))
    have := scannable_junc [.sym '{'] (inner ++ .sym '}' :: ts)
      (ih1 (scannable_junc inner (.sym '}' :: ts) Scannable.nil))
    simpa [List.append_assoc] using this

/-! ### the token lists of ASTs that satisfy the side conditions -/

theorem nameOk_flat {n : Name} (h : nameOk n = true) : tokFlat (.name n) = true := by
  cases n with
  | nil => simp [nameOk] at h
  | cons c r =>
    simp only [nameOk, Bool.and_eq_true] at h
    simp only [tokFlat, tokOk, Bool.and_eq_true]
    exact h.1

theorem flat_sym {c : Char} (h : flatSyms.contains c = true) : tokFlat (.sym c) = true := h

theorem atomToks_flat (a : Atom) (h : atomOk a = true) : (atomToks a).all tokFlat = true := by
  cases a with
  | none => decide
  | bool b => cases b <;> decide
  | int i => cases i <;> simp [atomToks, tokFlat, flatSyms]
  | str s => simpa [atomToks, tokFlat, atomOk, strOk] using h

theorem atomToks_ne_nil (a : Atom) : atomToks a ≠ [] := by
  cases a with
  | none => simp [atomToks]
  | bool b => cases b <;> simp [atomToks]
  | int i => cases i <;> simp [atomToks]
  | str s => simp [atomToks]

theorem atomsToks_flat : ∀ (xs : List Atom), xs.all atomOk = true → (atomsToks xs).all tokFlat = true
  | [], _ => rfl
  | [a], h => by
      simp only [List.all_cons, List.all_nil, Bool.and_true] at h
      exact atomToks_flat a h
  | a :: b :: r, h => by
      simp only [List.all_cons, Bool.and_eq_true] at h
      have ih := atomsToks_flat (b :: r) (by simp only [List.all_cons, Bool.and_eq_true]; exact h.2)
      have e : atomsToks (a :: b :: r) = atomToks a ++ .sym ',' :: atomsToks (b :: r) := rfl
      rw [e, List.all_append, List.all_cons, atomToks_flat a h.1, ih]
      decide

theorem pairsToks_flat : ∀ (kv : List (Str × Atom)), (kv.all fun p => strOk p.1 && atomOk p.2) = true →
    (pairsToks kv).all tokFlat = true
  | [], _ => rfl
  | [(k, a)], h => by
      simp only [List.all_cons, List.all_nil, Bool.and_true, Bool.and_eq_true] at h
      have e : pairsToks [(k, a)] = .str k :: .sym ':' :: atomToks a := rfl
      have hk : tokFlat (.str k) = true := h.1
      rw [e, List.all_cons, List.all_cons, hk, atomToks_flat a h.2]
      decide
  | (k, a) :: q :: r, h => by
      simp only [List.all_cons, Bool.and_eq_true] at h
      have ih := pairsToks_flat (q :: r) (by simp only [List.all_cons, Bool.and_eq_true]; exact h.2)
      have e : pairsToks ((k, a) :: q :: r) = .str k :: .sym ':' :: (atomToks a ++ .sym ',' :: pairsToks (q :: r)) := rfl
      have hk : tokFlat (.str k) = true := h.1.1
      rw [e, List.all_cons, List.all_cons, List.all_append, List.all_cons, hk, atomToks_flat a h.1.2, ih]
      decide

theorem exprToks_bal (st : Bool) : ∀ (e : Expr), exprOk st e = true → Bal (exprToks e) := by
  intro e
  induction e with
  | var n =>
    intro h
    simp only [exprOk, Bool.and_eq_true] at h
    exact Bal.tok _ _ (nameOk_flat h.2) Bal.nil
  | svar n =>
    intro h
    simp only [exprOk, Bool.and_eq_true] at h
    exact Bal.tok _ _ (nameOk_flat h.2) Bal.nil
  | lit v =>
    intro h
    cases v with
    | atom a =>
      simp only [exprOk] at h
      exact Bal.of_flat (atomToks_flat a h)
    | list xs =>
      simp only [exprOk] at h
      simp only [exprToks]
      exact Bal.tok _ _ (by decide) (Bal.append (Bal.of_flat (atomsToks_flat xs h)) (Bal.of_flat (by decide)))
    | dict kv =>
      simp only [exprOk] at h
      exact Bal.braces (pairsToks kv) [] (Bal.of_flat (pairsToks_flat kv h)) Bal.nil
    | undef => simp [exprOk] at h
    | «macro» _ => simp [exprOk] at h
  | eq a b iha ihb =>
    intro h
    simp only [exprOk, Bool.and_eq_true] at h
    simp only [exprToks]
    exact Bal.tok _ _ (by decide) (Bal.append (iha h.1) (Bal.tok _ _ (by decide)
      (Bal.append (ihb h.2) (Bal.of_flat (by decide)))))
  | not a iha =>
    intro h
    simp only [exprOk] at h
    simp only [exprToks]
    exact Bal.tok _ _ (by decide) (Bal.tok _ _ (by decide) (Bal.append (iha h) (Bal.of_flat (by decide))))
  | len a iha =>
    intro h
    simp only [exprOk] at h
    simp only [exprToks]
    exact Bal.tok _ _ (by decide) (Bal.tok _ _ (by decide) (Bal.append (iha h) (Bal.of_flat (by decide))))
  | ix a i iha ihi =>
    intro h
    simp only [exprOk, Bool.and_eq_true] at h
    simp only [exprToks]
    exact Bal.append (iha h.1.2) (Bal.tok _ _ (by decide) (Bal.append (ihi h.2) (Bal.of_flat (by decide))))
  | six a i iha ihi =>
    intro h
    simp only [exprOk, Bool.and_eq_true] at h
    simp only [exprToks]
    exact Bal.append (iha h.1.2) (Bal.tok _ _ (by decide) (Bal.append (ihi h.2) (Bal.of_flat (by decide))))

theorem exprToks_ne_nil (st : Bool) (e : Expr) (h : exprOk st e = true) : exprToks e ≠ [] := by
  cases e with
  | lit v =>
    cases v with
    | atom a => exact atomToks_ne_nil a
    | undef => simp [exprOk] at h
    | «macro» _ => simp [exprOk] at h
    | _ => simp [exprToks]
  | _ => simp [exprToks]

theorem argToks_bal (st : Bool) (a : Arg) (h : argOk st a = true) : Bal (argToks a) := by
  obtain ⟨k, e⟩ := a
  cases k with
  | none => exact exprToks_bal st e h
  | some k =>
    simp only [argOk, Bool.and_eq_true] at h
    simp only [argToks]
    exact Bal.tok _ _ (nameOk_flat h.1) (Bal.tok _ _ (by decide) (exprToks_bal st e h.2))

theorem argsToks_bal (st : Bool) : ∀ (args : List Arg), args.all (argOk st) = true → Bal (argsToks args)
  | [], _ => Bal.nil
  | [a], h => by
      simp only [List.all_cons, List.all_nil, Bool.and_true] at h
      exact argToks_bal st a h
  | a :: b :: r, h => by
      simp only [List.all_cons, Bool.and_eq_true] at h
      have ih := argsToks_bal st (b :: r) (by simp only [List.all_cons, Bool.and_eq_true]; exact h.2)
      have e' : argsToks (a :: b :: r) = argToks a ++ .sym ',' :: argsToks (b :: r) := rfl
      rw [e']
      exact Bal.append (argToks_bal st a h.1) (Bal.tok _ _ (by decide) ih)

theorem xexprToks_bal (st : Bool) (x : XExpr) (h : xexprOk st x = true) : Bal (xexprToks x) := by
  cases x with
  | pure e => exact exprToks_bal st e h
  | call f args =>
    cases f with
    | var n =>
      simp only [xexprOk, argsOk, Bool.and_eq_true] at h
      simp only [xexprToks, exprToks]
      exact Bal.tok _ _ (nameOk_flat h.1.2) (Bal.tok _ _ (by decide)
        (Bal.append (argsToks_bal st args h.2.1) (Bal.of_flat (by decide))))
    | svar n =>
      simp only [xexprOk, argsOk, Bool.and_eq_true] at h
      simp only [xexprToks, exprToks]
      exact Bal.tok _ _ (nameOk_flat h.1.2) (Bal.tok _ _ (by decide)
        (Bal.append (argsToks_bal st args h.2.1) (Bal.of_flat (by decide))))
    | _ => simp [xexprOk] at h

theorem xexprToks_ne_nil (st : Bool) (x : XExpr) (h : xexprOk st x = true) : xexprToks x ≠ [] := by
  cases x with
  | pure e => exact exprToks_ne_nil st e h
  | call f args =>
    cases f with
    | var n => simp [xexprToks, exprToks]
    | svar n => simp [xexprToks, exprToks]
    | _ => simp [xexprOk] at h

theorem paramToks_bal (st : Bool) (p : Param) (h : paramOk st p = true) : Bal (paramToks p) := by
  obtain ⟨n, o⟩ := p
  cases o with
  | none => exact Bal.tok _ _ (nameOk_flat h) Bal.nil
  | some e =>
    simp only [paramOk, Bool.and_eq_true] at h
    simp only [paramToks]
    exact Bal.tok _ _ (nameOk_flat h.1) (Bal.tok _ _ (by decide) (exprToks_bal st e h.2))

theorem paramsToks_bal (st : Bool) : ∀ (ps : List Param), ps.all (paramOk st) = true → Bal (paramsToks ps)
  | [], _ => Bal.nil
  | [p], h => by
      simp only [List.all_cons, List.all_nil, Bool.and_true] at h
      exact paramToks_bal st p h
  | p :: q :: r, h => by
      simp only [List.all_cons, Bool.and_eq_true] at h
      have ih := paramsToks_bal st (q :: r) (by simp only [List.all_cons, Bool.and_eq_true]; exact h.2)
      have e' : paramsToks (p :: q :: r) = paramToks p ++ .sym ',' :: paramsToks (q :: r) := rfl
      rw [e']
      exact Bal.append (paramToks_bal st p h.1) (Bal.tok _ _ (by decide) ih)

theorem bindsToks_bal (st : Bool) : ∀ (bs : List (Name × Expr)),
    (bs.all fun p => nameOk p.1 && exprOk st p.2) = true → Bal (bindsToks bs)
  | [], _ => Bal.nil
  | [(n, e)], h => by
      simp only [List.all_cons, List.all_nil, Bool.and_true, Bool.and_eq_true] at h
      have e' : bindsToks [(n, e)] = .name n :: .sym '=' :: exprToks e := rfl
      rw [e']
      exact Bal.tok _ _ (nameOk_flat h.1) (Bal.tok _ _ (by decide) (exprToks_bal st e h.2))
  | (n, e) :: q :: r, h => by
      simp only [List.all_cons, Bool.and_eq_true] at h
      have ih := bindsToks_bal st (q :: r) (by simp only [List.all_cons, Bool.and_eq_true]; exact h.2)
      have e' : bindsToks ((n, e) :: q :: r) = .name n :: .sym '=' :: (exprToks e ++ .sym ';' :: bindsToks (q :: r)) := rfl
      rw [e']
      exact Bal.tok _ _ (nameOk_flat h.1.1) (Bal.tok _ _ (by decide)
        (Bal.append (exprToks_bal st e h.1.2) (Bal.tok _ _ (by decide) ih)))

theorem optToks_bal (st : Bool) (o : Option Expr) (h : optOk st o = true) : Bal (optToks o) := by
  cases o with
  | none => exact Bal.nil
  | some e => exact exprToks_bal st e h

theorem dirToks_bal (st : Bool) (d : Dir) (h : dirOk st d = true) : Bal (dirToks d) := by
  cases d with
  | def_ f ps =>
    simp only [dirOk, Bool.and_eq_true] at h
    cases ps with
    | nil => exact Bal.tok _ _ (nameOk_flat h.1.1) Bal.nil
    | cons p ps =>
      simp only [dirToks]
      exact Bal.tok _ _ (nameOk_flat h.1.1) (Bal.tok _ _ (by decide)
        (Bal.append (paramsToks_bal st _ h.1.2) (Bal.of_flat (by decide))))
  | when e => exact optToks_bal st e h
  | otherwise => exact Bal.nil
  | for_ v e =>
    simp only [dirOk, Bool.and_eq_true] at h
    simp only [dirToks]
    exact Bal.tok _ _ (nameOk_flat h.1) (Bal.tok _ _ (by decide) (exprToks_bal st e h.2))
  | if_ e => exact exprToks_bal st e h
  | choose e => exact optToks_bal st e h
  | with_ bs =>
    simp only [dirOk, Bool.and_eq_true] at h
    exact bindsToks_bal st bs h.2
  | _ => simp [dirOk] at h

/-! ### the facts -/

/-- every token laid out for `${…}` is a token of the tokenizer -/
theorem xexprToks_ok (st : Bool) (x : XExpr) (h : xexprOk st x = true) : (xexprToks x).all tokOk = true :=
  all_fine_ok (xexprToks_bal st x h).fine

/-- every token laid out for a directive value is a token of the tokenizer -/
theorem dirToks_ok (st : Bool) (d : Dir) (h : dirOk st d = true) : (dirToks d).all tokOk = true :=
  all_fine_ok (dirToks_bal st d h).fine

/-- the printed source of `${…}` is in the domain of the C03 lexer theorem (`Py.Lex.lex_expr`) -/
theorem xexprSrc_scannable (st : Bool) (x : XExpr) (h : xexprOk st x = true) :
    Genshi.Py.Lex.Scannable (xexprSrc x) := by
  have := (xexprToks_bal st x h).scannable Scannable.nil
  simpa [xexprSrc] using this

theorem xexprSrc_ne_nil (st : Bool) (x : XExpr) (h : xexprOk st x = true) : xexprSrc x ≠ [] :=
  toksSrc_ne_nil (xexprToks_ne_nil st x h) (xexprToks_bal st x h).fine

/-- `stripAscii` is the identity on a text without characters of its class at the ends -/
theorem stripAscii_id {s : List Char} (hh : ∀ c, s.head? = some c → stripCls c = false)
    (hl : ∀ c, s.getLast? = some c → stripCls c = false) : stripAscii s = s := by
  have drop : ∀ t : List Char, (∀ c, t.head? = some c → stripCls c = false) → t.dropWhile stripCls = t := by
    intro t ht
    cases t with
    | nil => rfl
    | cons c r => simp [ht c rfl]
  rw [stripAscii_eq, drop s hh, drop s.reverse (by rw [List.head?_reverse]; exact hl), List.reverse_reverse]

theorem xexprSrc_strip (st : Bool) (x : XExpr) (h : xexprOk st x = true) :
    Genshi.Py.Lex.stripAscii (xexprSrc x) = xexprSrc x :=
  stripAscii_id (fun c hc => edgeCh_not_strip (toksSrc_head_fine (xexprToks_bal st x h).fine c hc))
    (fun c hc => edgeCh_not_strip (toksSrc_last _ (xexprToks_bal st x h).fine c hc))

theorem okCh_spec {c : Char} (h : okCh c = true) : c ≠ '\\' ∧ c ≠ '%' ∧ c ≠ '#' ∧ c ≠ '\n' := by
  simp only [okCh, Bool.and_eq_true, bne_iff_ne, ne_eq] at h
  exact ⟨h.1.1.1, h.1.1.2, h.1.2, h.2⟩

/-- no character of the printed source of `${…}` could start a delimiter or an escape -/
theorem xexprSrc_chars (st : Bool) (x : XExpr) (h : xexprOk st x = true) :
    ∀ c ∈ xexprSrc x, c ≠ '\\' ∧ c ≠ '%' ∧ c ≠ '#' := by
  intro c hc
  have := okCh_spec (toksSrc_ok _ (xexprToks_bal st x h).fine c hc)
  exact ⟨this.1, this.2.1, this.2.2.1⟩

/-- no character of the printed source of `${…}` is a line end -/
theorem xexprSrc_no_nl (st : Bool) (x : XExpr) (h : xexprOk st x = true) : ∀ c ∈ xexprSrc x, c ≠ '\n' :=
  fun c hc => (okCh_spec (toksSrc_ok _ (xexprToks_bal st x h).fine c hc)).2.2.2

/-- no character of a printed directive value could start / end a delimiter, an escape or the line -/
theorem dirSrc_chars (st : Bool) (d : Dir) (h : dirOk st d = true) :
    ∀ c ∈ dirSrc d, c ≠ '\\' ∧ c ≠ '%' ∧ c ≠ '#' ∧ c ≠ '\n' :=
  fun c hc => okCh_spec (toksSrc_ok _ (dirToks_bal st d h).fine c hc)

/-- a printed directive value does not begin with a `\s` character -/
theorem dirSrc_head (st : Bool) (d : Dir) (h : dirOk st d = true) :
    ∀ c, (dirSrc d).head? = some c → Genshi.San.isReSpace c = false :=
  fun c hc => edgeCh_not_reSpace (toksSrc_head_fine (dirToks_bal st d h).fine c hc)

/-- a printed directive value does not end with a `\s` character -/
theorem dirSrc_last (st : Bool) (d : Dir) (h : dirOk st d = true) :
    ∀ c, (dirSrc d).getLast? = some c → Genshi.San.isReSpace c = false :=
  fun c hc => edgeCh_not_reSpace (toksSrc_last _ (dirToks_bal st d h).fine c hc)

/-- a printed directive value is scannable as well (no braces out of balance) -/
theorem dirSrc_scannable (st : Bool) (d : Dir) (h : dirOk st d = true) : Genshi.Py.Lex.Scannable (dirSrc d) := by
  have := (dirToks_bal st d h).scannable Scannable.nil
  simpa [dirSrc] using this

end Genshi.Tmpl.Print

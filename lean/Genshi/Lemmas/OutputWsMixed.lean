/-
  Helper lemmas for C08: `strip_whitespace=True` on forests that MIX namespaces — the simulation of
  Lemmas/OutputWsSpec (`wsSim_forest`) and the render-level lemmas of Lemmas/OutputWsRender
  transcribed from the flattened forest in one namespace (`forestFu u s`) to the flattened forest
  with the current default namespace as parameter (`forestFm cur`, Lemmas/OutputTreeMixed).  The
  proofs use the flattened forest only through: it distributes over `++`, an element is
  START (declaration ++ attributes) :: children ++ END, a leaf is itself.  Mathlib-free.
-/
import Genshi.Lemmas.OutputWsRender
import Genshi.Lemmas.ReaderDocMixed
namespace Genshi.Output
open Genshi Genshi.Escape Genshi.Reader

theorem forestFm_appO (cur : Str) (a b : List Node) : forestFm cur (a ++ b) = forestFm cur a ++ forestFm cur b :=
  forestFm_app cur a b

/-- both forests are written alike from context `c` and leave the same context -/
def OutEqM (m : Method) (o : Opts) (cur : Str) (c : Ctx) (X Y : List Node) : Prop :=
  serSpec m o c (forestFm cur X) = serSpec m o c (forestFm cur Y) ∧
  wsCtxEnd m o c (forestFm cur X) = wsCtxEnd m o c (forestFm cur Y)

theorem OutEqM.append {m : Method} {o : Opts} {cur : Str} {c : Ctx} {X Y X2 Y2 : List Node}
    (h1 : OutEqM m o cur c X Y) (h2 : OutEqM m o cur (wsCtxEnd m o c (forestFm cur X)) X2 Y2) :
    OutEqM m o cur c (X ++ X2) (Y ++ Y2) := by
  obtain ⟨a1, b1⟩ := h1
  obtain ⟨a2, b2⟩ := h2
  refine ⟨?_, ?_⟩
  · rw [forestFm_appO, forestFm_appO, wsf_serSpec_append, wsf_serSpec_append, a1, ← b1, a2]
  · rw [forestFm_appO, forestFm_appO, wsf_ctxEnd_append, wsf_ctxEnd_append, ← b1, b2]

/-- the flushed text: one Markup text from the filter, one plain text from the specification -/
theorem flush_outEqM (m : Method) (o : Opts) (cur : Str) (st : WsSt) (buf : Option Str) (pn : Nat)
    (rawP : Bool) (c : Ctx) (h : WsSim st buf pn rawP) (hc : c.raw = rawP) :
    OutEqM m o cur c (wsFlushN stdNorm st) (flushS (pn != 0) buf) ∧
      wsCtxEnd m o c (forestFm cur (wsFlushN stdNorm st)) = c := by
  obtain ⟨hp, _, _, he, ht, hf⟩ := h
  cases buf with
  | none =>
    have : st.textbuf.isEmpty = true := by simpa using he
    simp [OutEqM, wsFlushN, this, flushS, forestFm, wsCtxEnd]
  | some b =>
    have hne : st.textbuf.isEmpty = false := by simpa using he
    have hb : st.textbuf.flatMap (fun p => p.1) = b := by simpa using ht
    simp only [OutEqM, wsFlushN, hne, Bool.false_eq_true, ↓reduceIte, flushS, forestFm, treeFm, leafF,
      Option.toList_some, List.append_nil, serSpec, emit, wsCtxEnd, List.foldl_cons, List.foldl_nil, ctxAfter, hp,
      and_true]
    cases rawP with
    | true =>
      rw [wsf_bufOut_raw _ hf, hb]; simp [hc]
    | false =>
      rw [wsf_bufOut_plain _ hf, hb, wsf_stdNorm_escape]; simp [hc]

/-- what the simulation delivers for a piece of the forest -/
structure SimOutM (m : Method) (o : Opts) (cur : Str) (c : Ctx) (pn : Nat) (rawP : Bool)
    (r : List Node × WsSt) (r' : List Node × Option Str) : Prop where
  sim : WsSim r.2 r'.2 pn rawP
  emp : r.1.isEmpty = r'.1.isEmpty
  out : OutEqM m o cur c r.1 r'.1
  raw : (wsCtxEnd m o c (forestFm cur r.1)).raw = rawP

/-- a complete node behind the flushed text -/
theorem simOut_nodeM (m : Method) (o : Opts) (cur : Str) (c : Ctx) (pn : Nat) (st st' : WsSt)
    (buf : Option Str) (x y : Node) (h : WsSim st buf pn false) (hc : c.raw = false)
    (h' : WsSim st' none pn false)
    (hxy : OutEqM m o cur c [x] [y]) (hraw : (wsCtxEnd m o c (forestFm cur [x])).raw = false) :
    SimOutM m o cur c pn false (wsFlushN stdNorm st ++ [x], st') (flushS (pn != 0) buf ++ [y], none) := by
  have hfl := flush_outEqM m o cur st buf pn false c h hc
  refine ⟨h', by simp [wsf_isEmpty_app], OutEqM.append hfl.1 (by rw [hfl.2]; exact hxy), ?_⟩
  show (wsCtxEnd m o c (forestFm cur (wsFlushN stdNorm st ++ [x]))).raw = false
  rw [forestFm_appO, wsf_ctxEnd_append, hfl.2]; exact hraw

/-- an element with children: written alike when the children are -/
theorem outEq_elemM (m : Method) (o : Opts) (cur : Str) (c : Ctx) (t : QName) (a : AttrList)
    (X Y : List Node) (hX : X.isEmpty = false) (hY : Y.isEmpty = false)
    (h : OutEqM m o t.ns (ctxAfter m o c (.start t.loc (declM cur t.ns ++ fAttrs a))) X Y)
    (hraw : (wsCtxEnd m o (ctxAfter m o c (.start t.loc (declM cur t.ns ++ fAttrs a))) (forestFm t.ns X)).raw = rawOf m t) :
    OutEqM m o cur c [.elem t a X] [.elem t a Y] ∧ (wsCtxEnd m o c (forestFm cur [.elem t a X])).raw = false := by
  obtain ⟨h1, h2⟩ := h
  have eX : forestFm cur [.elem t a X] =
      [.start t.loc (declM cur t.ns ++ fAttrs a)] ++ (forestFm t.ns X ++ [.end_ t.loc]) := by
    simp [forestFm, treeFm, hX]
  have eY : forestFm cur [.elem t a Y] =
      [.start t.loc (declM cur t.ns ++ fAttrs a)] ++ (forestFm t.ns Y ++ [.end_ t.loc]) := by
    simp [forestFm, treeFm, hY]
  have hs : ∀ l, wsCtxEnd m o c ([XEv.start t.loc (declM cur t.ns ++ fAttrs a)] ++ l) =
      wsCtxEnd m o (ctxAfter m o c (.start t.loc (declM cur t.ns ++ fAttrs a))) l := by
    intro l; simp [wsCtxEnd]
  have hs1 : wsCtxEnd m o c [XEv.start t.loc (declM cur t.ns ++ fAttrs a)] =
      ctxAfter m o c (.start t.loc (declM cur t.ns ++ fAttrs a)) := rfl
  refine ⟨⟨?_, ?_⟩, ?_⟩
  · rw [eX, eY, wsf_serSpec_append, wsf_serSpec_append, wsf_serSpec_append m o _ (forestFm t.ns Y ++ _),
      wsf_serSpec_append m o (forestFm t.ns Y), hs1, h1, h2]
  · rw [eX, eY, hs, hs, wsf_ctxEnd_append, wsf_ctxEnd_append, h2]
  · rw [eX, hs, wsf_ctxEnd_append]
    show (ctxAfter m o (wsCtxEnd m o _ (forestFm t.ns X)) (.end_ t.loc)).raw = false
    rw [wsf_ctxAfter_end_raw, hraw]
    by_cases hm : m = .html <;> simp [hm, rawOf]

mutual
  theorem wsSim_treeM (m : Method) (o : Opts) : ∀ (n : Node) (st : WsSt) (buf : Option Str) (pn : Nat)
      (rawP : Bool) (c : Ctx) (cur : Str), WsSim st buf pn rawP → c.raw = rawP → wsDomT m rawP n = true →
      SimOutM m o cur c pn rawP (wsTreeG stdNorm (wsCfg m) st n) (normTreeA m (pn != 0) buf n)
    | .elem t a ks, st, buf, pn, rawP, c, cur, h, hc, hd => by
        simp only [wsDomT, Bool.and_eq_true, Bool.not_eq_true', beq_iff_eq] at hd
        obtain ⟨⟨hr, hag⟩, hk⟩ := hd
        subst hr
        have hcl := wsSim_cleared st pn false h.pres h.noesc h.cd
        cases ks with
        | nil =>
          simp only [wsTreeG, normTreeA, List.isEmpty_nil, ↓reduceIte]
          refine simOut_nodeM m o cur c pn st _ buf _ _ h hc hcl ?_ ?_
          · exact ⟨rfl, rfl⟩
          · simp [forestFm, treeFm, wsCtxEnd, ctxAfter, hc]
        | cons k ks' =>
          simp only [wsTreeG, normTreeA, List.isEmpty_cons, Bool.false_eq_true, ↓reduceIte]
          -- the state behind START
          have hfl := wsUpdate_start_flags (wsCfg m) { st with textbuf := [] } t a
          have hpr := wsUpdate_start_preserve (wsCfg m) { st with textbuf := [] } t a
          have htb := wsUpdate_textbuf (wsCfg m) { st with textbuf := [] } (.start t a)
          have hpn1 : ((if pn != 0 || presTrig m t a then pn + 1 else pn) != 0) = (pn != 0 || presTrig m t a) := by
            by_cases hx : (pn != 0 || presTrig m t a) = true
            · simp [hx]
            · have hx' : (pn != 0 || presTrig m t a) = false := by simpa using hx
              simp only [hx', Bool.false_eq_true, ↓reduceIte]
              simp only [Bool.or_eq_false_iff] at hx'
              exact hx'.1
          have hsim1 : WsSim (wsUpdate (wsCfg m) { st with textbuf := [] } (.start t a)) none
              (if pn != 0 || presTrig m t a then pn + 1 else pn) (rawOf m t) := by
            refine ⟨?_, ?_, ?_, ?_, ?_, ?_⟩
            · rw [hpr]; simp only [h.pres, presTrig, wsCfg_preserve, Bool.or_assoc]; congr
            · rw [hfl.1]; simp [h.noesc, hag]
            · rw [hfl.2]; exact h.cd
            · rw [htb]; rfl
            · rw [htb]; rfl
            · rw [htb]; intro p hp; cases hp
          -- the context behind START
          have hc1 : (ctxAfter m o c (.start t.loc (declM cur t.ns ++ fAttrs a))).raw = rawOf m t := by
            simp only [ctxAfter, rawOf]
            cases m <;> simp [hc] <;> split <;> simp_all
          have ih := wsSim_forestM m o (k :: ks') _ none _ (rawOf m t)
            (ctxAfter m o c (.start t.loc (declM cur t.ns ++ fAttrs a))) t.ns hsim1 hc1 hk
          rw [hpn1] at ih
          revert ih
          have hliveG := wsForestG_live stdNorm (wsCfg m) (k :: ks')
            (wsUpdate (wsCfg m) { st with textbuf := [] } (.start t a)) (Or.inl (by simp))
          revert hliveG
          generalize wsForestG stdNorm (wsCfg m) (wsUpdate (wsCfg m) { st with textbuf := [] } (.start t a)) (k :: ks') = r
          generalize normForestA m (pn != 0 || presTrig m t a) none (k :: ks') = r'
          intro hliveG ih
          have hlive : wsLive r → (r.1 ++ wsFlushN stdNorm r.2).isEmpty = false := by
            intro hl
            have : r.1 ++ wsFlushN stdNorm r.2 ≠ [] := by
              intro he
              rw [List.append_eq_nil_iff, wsFlushN_eq_nil] at he
              rcases hl with h1 | h1
              · exact h1 he.1
              · exact h1 he.2
            simpa using this
          have hsimK := ih.sim
          have hWne := hlive hliveG
          have hYne : (r'.1 ++ flushS (pn != 0 || presTrig m t a) r'.2).isEmpty = false := by
            have he1 := ih.emp
            have he2 := hsimK.emp
            rw [wsf_isEmpty_app] at hWne ⊢
            have hf1 : (wsFlushN stdNorm r.2).isEmpty = r.2.textbuf.isEmpty := by
              unfold wsFlushN; split <;> simp_all
            have hf2 : (flushS (pn != 0 || presTrig m t a) r'.2).isEmpty = r'.2.isNone := by
              cases r'.2 <;> simp [flushS]
            rw [hf1] at hWne
            rw [hf2, ← he1, ← he2]; exact hWne
          have hflK := flush_outEqM m o t.ns r.2 r'.2 _ (rawOf m t)
            (wsCtxEnd m o (ctxAfter m o c (.start t.loc (declM cur t.ns ++ fAttrs a))) (forestFm t.ns r.1)) hsimK ih.raw
          rw [hpn1] at hflK
          have hkids : OutEqM m o t.ns (ctxAfter m o c (.start t.loc (declM cur t.ns ++ fAttrs a)))
              (r.1 ++ wsFlushN stdNorm r.2) (r'.1 ++ flushS (pn != 0 || presTrig m t a) r'.2) :=
            OutEqM.append ih.out hflK.1
          have hrawK : (wsCtxEnd m o (ctxAfter m o c (.start t.loc (declM cur t.ns ++ fAttrs a)))
              (forestFm t.ns (r.1 ++ wsFlushN stdNorm r.2))).raw = rawOf m t := by
            rw [forestFm_appO, wsf_ctxEnd_append, hflK.2]; exact ih.raw
          have hel := outEq_elemM m o cur c t a _ _ hWne hYne hkids hrawK
          have hend := wsUpdate_end_preserve (wsCfg m) { r.2 with textbuf := [] } t
          have hsimE : WsSim (wsUpdate (wsCfg m) { r.2 with textbuf := [] } (.end_ t)) none pn false := by
            refine ⟨?_, hend.2.1, ?_, ?_, ?_, ?_⟩
            · rw [hend.1]
              show (if r.2.preserve != 0 then r.2.preserve - 1 else 0) = pn
              rw [hsimK.pres]
              by_cases hx : (pn != 0 || presTrig m t a) = true
              · simp [hx]
              · have hx' : (pn != 0 || presTrig m t a) = false := by simpa using hx
                simp only [hx', Bool.false_eq_true, ↓reduceIte]
                simp only [Bool.or_eq_false_iff] at hx'
                have : pn = 0 := by simpa using hx'.1
                simp [this]
            · rw [hend.2.2.1]; exact hsimK.cd
            · rw [hend.2.2.2]; rfl
            · rw [hend.2.2.2]; rfl
            · rw [hend.2.2.2]; intro p hp; cases hp
          exact simOut_nodeM m o cur c pn st _ buf _ _ h hc hsimE hel.1 hel.2
    | .leaf e, st, buf, pn, rawP, c, cur, h, hc, hd => by
        cases e with
        | text x f =>
          have hf : f = false := by simpa [wsDomT] using hd
          subst hf
          simp only [wsTreeG, normTreeA]
          refine ⟨⟨h.pres, h.noesc, h.cd, by simp, ?_, ?_⟩, rfl, ⟨rfl, rfl⟩, by simpa [forestFm, wsCtxEnd] using hc⟩
          · simp [List.flatMap_append, h.txt]
          · intro p hp
            simp only [List.mem_append, List.mem_singleton] at hp
            rcases hp with hp | hp
            · exact h.flags p hp
            · subst hp; simp [h.noesc, h.cd]
        | comment x =>
          have hr : rawP = false := by simpa [wsDomT] using hd
          subst hr
          simp only [wsTreeG, normTreeA]
          refine simOut_nodeM m o cur c pn st _ buf _ _ h hc (wsSim_cleared st pn false h.pres h.noesc h.cd) ⟨rfl, rfl⟩ ?_
          simp [forestFm, treeFm, leafF, wsCtxEnd, ctxAfter, hc]
        | pi x y =>
          have hr : rawP = false := by simpa [wsDomT] using hd
          subst hr
          simp only [wsTreeG, normTreeA]
          refine simOut_nodeM m o cur c pn st _ buf _ _ h hc (wsSim_cleared st pn false h.pres h.noesc h.cd) ⟨rfl, rfl⟩ ?_
          simp [forestFm, treeFm, leafF, wsCtxEnd, ctxAfter, hc]
        | doctype x y z =>
          have hr : rawP = false := by simpa [wsDomT] using hd
          subst hr
          simp only [wsTreeG, normTreeA]
          refine simOut_nodeM m o cur c pn st _ buf _ _ h hc (wsSim_cleared st pn false h.pres h.noesc h.cd) ⟨rfl, rfl⟩ ?_
          simp [forestFm, treeFm, leafF, wsCtxEnd, ctxAfter, hc]
        | xmlDecl x y z =>
          have hr : rawP = false := by simpa [wsDomT] using hd
          subst hr
          simp only [wsTreeG, normTreeA]
          refine simOut_nodeM m o cur c pn st _ buf _ _ h hc (wsSim_cleared st pn false h.pres h.noesc h.cd) ⟨rfl, rfl⟩ ?_
          simp only [forestFm, treeFm, leafF, Option.toList_some, List.append_nil, wsCtxEnd, List.foldl_cons,
            List.foldl_nil, ctxAfter]
          split <;> simp [hc]
        | _ => simp [wsDomT] at hd
  theorem wsSim_forestM (m : Method) (o : Opts) : ∀ (ns : List Node) (st : WsSt) (buf : Option Str) (pn : Nat)
      (rawP : Bool) (c : Ctx) (cur : Str), WsSim st buf pn rawP → c.raw = rawP → wsDomF m rawP ns = true →
      SimOutM m o cur c pn rawP (wsForestG stdNorm (wsCfg m) st ns) (normForestA m (pn != 0) buf ns)
    | [], st, buf, pn, rawP, c, cur, h, hc, _ => by
        simp only [wsForestG, normForestA]
        exact ⟨h, rfl, ⟨rfl, rfl⟩, by simpa [forestFm, wsCtxEnd] using hc⟩
    | n :: ns, st, buf, pn, rawP, c, cur, h, hc, hd => by
        simp only [wsDomF, Bool.and_eq_true] at hd
        simp only [wsForestG, normForestA]
        have h1 := wsSim_treeM m o n st buf pn rawP c cur h hc hd.1
        have h2 := wsSim_forestM m o ns _ _ pn rawP _ cur h1.sim h1.raw hd.2
        refine ⟨h2.sim, ?_, OutEqM.append h1.out h2.out, ?_⟩
        · simp only [wsf_isEmpty_app, h1.emp, h2.emp]
        · show (wsCtxEnd m o c (forestFm cur (_ ++ _))).raw = rawP
          rw [forestFm_appO, wsf_ctxEnd_append]; exact h2.raw
end


/-! ### the filter and the normalisation keep the forest inside the domain of the flattener lemma -/

theorem mixedOk_flushN (norm : Bool → Str → Str) (st : WsSt) :
    forestMixedOk (wsFlushN norm st) = true := by
  unfold wsFlushN
  split <;> simp [forestMixedOk, mixedOk, leafF]

theorem forestMixedOk_app_dup (a b : List Node) :
    forestMixedOk (a ++ b) = (forestMixedOk a && forestMixedOk b) := by
  induction a with
  | nil => simp [forestMixedOk]
  | cons n ns ih => simp [forestMixedOk, ih, Bool.and_assoc]

mutual
  theorem mixedOk_wsTreeG (norm : Bool → Str → Str) (cfg : WsCfg) : ∀ (n : Node) (st : WsSt),
      mixedOk n = true → forestMixedOk (wsTreeG norm cfg st n).1 = true
    | .elem t a ks, st, h => by
        simp only [mixedOk, Bool.and_eq_true] at h
        cases ks with
        | nil =>
          simp [wsTreeG, forestMixedOk_app, mixedOk_flushN, forestMixedOk, mixedOk, h.1.1, h.1.2]
        | cons k ks' =>
          have := mixedOk_wsForestG norm cfg (k :: ks') (wsUpdate cfg { st with textbuf := [] } (.start t a)) h.2
          simp [wsTreeG, forestMixedOk_app, mixedOk_flushN, forestMixedOk, mixedOk, h.1.1, h.1.2, this]
    | .leaf e, st, h => by
        cases e <;> simp [mixedOk, leafF] at h <;>
          simp [wsTreeG, forestMixedOk_app, mixedOk_flushN, forestMixedOk, mixedOk, leafF]
  theorem mixedOk_wsForestG (norm : Bool → Str → Str) (cfg : WsCfg) : ∀ (ns : List Node) (st : WsSt),
      forestMixedOk ns = true → forestMixedOk (wsForestG norm cfg st ns).1 = true
    | [], st, _ => by simp [wsForestG, forestMixedOk]
    | n :: ns, st, h => by
        simp only [forestMixedOk, Bool.and_eq_true] at h
        simp [wsForestG, forestMixedOk_app, mixedOk_wsTreeG norm cfg n st h.1,
          mixedOk_wsForestG norm cfg ns _ h.2]
end

theorem mixedOk_wsForest (cfg : WsCfg) (ns : List Node) (h : forestMixedOk ns = true) :
    forestMixedOk (wsForest cfg ns) = true := by
  simp [wsForest, forestMixedOk_app, mixedOk_flushN, mixedOk_wsForestG stdNorm cfg ns {} h]


theorem mixedOk_flushS (p : Bool) (b : Option Str) : forestMixedOk (flushS p b) = true := by
  cases b <;> simp [flushS, forestMixedOk, mixedOk, leafF]

mutual
  theorem mixedOk_normTreeA (m : Method) : ∀ (n : Node) (p : Bool) (b : Option Str),
      mixedOk n = true → forestMixedOk (normTreeA m p b n).1 = true
    | .elem t a ks, p, b, h => by
        simp only [mixedOk, Bool.and_eq_true] at h
        cases ks with
        | nil =>
          simp [normTreeA, forestMixedOk_app, mixedOk_flushS, forestMixedOk, mixedOk, h.1.1, h.1.2]
        | cons k ks' =>
          have := mixedOk_normForestA m (k :: ks') (p || presTrig m t a) none h.2
          simp [normTreeA, forestMixedOk_app, mixedOk_flushS, forestMixedOk, mixedOk, h.1.1, h.1.2, this]
    | .leaf e, p, b, h => by
        cases e <;> simp [mixedOk, leafF] at h <;>
          simp [normTreeA, forestMixedOk_app, mixedOk_flushS, forestMixedOk, mixedOk, leafF]
  theorem mixedOk_normForestA (m : Method) : ∀ (ns : List Node) (p : Bool) (b : Option Str),
      forestMixedOk ns = true → forestMixedOk (normForestA m p b ns).1 = true
    | [], p, b, _ => by simp [normForestA, forestMixedOk]
    | n :: ns, p, b, h => by
        simp only [forestMixedOk, Bool.and_eq_true] at h
        simp [normForestA, forestMixedOk_app, mixedOk_normTreeA m n p b h.1,
          mixedOk_normForestA m ns p _ h.2]
end

theorem mixedOk_normForest (m : Method) (ns : List Node) (h : forestMixedOk ns = true) :
    forestMixedOk (normForest m ns) = true := by
  simp [normForest, forestMixedOk_app, mixedOk_flushS, mixedOk_normForestA m ns false none h]

theorem wsSim_initM : WsSim {} none 0 false := ⟨rfl, rfl, rfl, rfl, rfl, by intro p hp; cases hp⟩

theorem serSpec_ws_eqM (m : Method) (o : Opts) (c : Ctx) (hc : c.raw = false) (ns : List Node)
    (hd : wsDom m ns = true) :
    serSpec m o c (forestFm [] (wsForest (wsCfg m) ns)) = serSpec m o c (forestFm [] (normForest m ns)) := by
  have h := wsSim_forestM m o ns {} none 0 false c [] wsSim_initM hc hd
  have hfl := flush_outEqM m o [] _ _ 0 false _ h.sim h.raw
  exact (OutEqM.append h.out hfl.1).1

/-! ### the filter chain with `WhitespaceFilter` on a forest that mixes namespaces -/

theorem filtered_strip_forestM (m : Method) (dropd : Bool) (dopt : Option DocTypeT)
    (ns : List Node) (hok : okList ns = true) (hns : forestMixedOk ns = true) :
    filtered m { strip := true, cache := false, doctype := dopt, dropXmlDecl := dropd } (flattenList ns) =
      some (withDoctype dopt (forestFm [] (wsForest (wsCfg m) ns))) := by
  have := flatten_forestM (wsForest (wsCfg m) ns) [] [] [] (mixedOk_wsForest (wsCfg m) ns hns) rfl
  simp only [List.append_nil, flatten, Option.map_some] at this
  have h0 : mSt [] [] = flatInit m := rfl
  rw [h0] at this
  simp [filtered, preFlat, emptyTag_flattenList ns hok, wsFilter_forestQ _ ns hok, this, defaultNs]

theorem notXdHead_goodHeadM (cur : Str) (X : List Node) (h : goodHead X = true) :
    notXdHead (forestFm cur X) = true := by
  cases X with
  | nil => rfl
  | cons n rest =>
    cases n with
    | elem t a ks =>
      cases ks <;> simp [forestFm, treeFm, notXdHead]
    | leaf e => cases e <;> simp [goodHead] at h <;> simp [forestFm, treeFm, leafF, notXdHead]

/-- the main loop behind `DocTypeInserter` -/
theorem serSpec_ws_dt_eqM (m : Method) (o : Opts) (dopt : Option DocTypeT) (ns : List Node)
    (hd : wsDom m ns = true) :
    serSpec m o {} (withDoctype dopt (forestFm [] (wsForest (wsCfg m) ns))) =
      serSpec m o {} (withDoctype dopt (forestFm [] (normForest m ns))) := by
  cases dopt with
  | none => exact serSpec_ws_eqM m o {} rfl ns hd
  | some d =>
    simp only [withDoctype]
    cases ns with
    | nil => rfl
    | cons n rest =>
      by_cases hx : ∃ v e s, n = .leaf (.xmlDecl v e s)
      · obtain ⟨v, e, s, rfl⟩ := hx
        have hd' : wsDom m rest = true := by
          simp only [wsDom, wsDomF, Bool.and_eq_true] at hd; exact hd.2
        rw [wsForest_xmlDecl, normForest_xmlDecl]
        simp only [forestFm, treeFm, leafF, Option.toList_some, List.singleton_append, docTypeInsert, serSpec]
        rw [serSpec_ws_eqM m o _ (by simp only [ctxAfter]; split <;> rfl) rest hd']
      · have hx' : ∀ v e s, n ≠ .leaf (.xmlDecl v e s) := fun v e s h => hx ⟨v, e, s, h⟩
        rw [docTypeInsert_notXd d _ (notXdHead_goodHeadM [] _ (goodHead_wsForest m n rest hd hx')),
          docTypeInsert_notXd d _ (notXdHead_goodHeadM [] _ (goodHead_normForest m n rest hd hx'))]
        simp only [serSpec]
        rw [serSpec_ws_eqM m o _ rfl (n :: rest) hd]

end Genshi.Output

/-
  C05 stage 1 / 3 for single steps: the nodes SingleStepStrategy reports while
  the stream of a tree goes by are exactly the nodes the XPath step selects from
  the context node, in document order — positional predicates included.
-/
import Genshi.Lemmas.PathSingle
import Genshi.Lemmas.PathFilter
import Genshi.Lemmas.PathEval
namespace Genshi.Path
open Genshi Genshi.Path.Ref

/-! ## Events of a tree with their located nodes -/

mutual
  /-- parallel to `Node.flatten`: the located node an event stands for (`none` for END) -/
  def eventLocs : Node → List Nat → List (Option LNode)
    | .elem t a ks, loc => some ⟨loc, .elem t a ks⟩ :: (eventLocsList ks loc 0 ++ [none])
    | .leaf e, loc => [some ⟨loc, .leaf e⟩]
  def eventLocsList : List Node → List Nat → Nat → List (Option LNode)
    | [], _, _ => []
    | k :: ks, loc, i => eventLocs k (loc ++ [i]) ++ eventLocsList ks loc (i + 1)
end

/-- the located nodes at whose event the matcher reported a (truthy) result -/
def matched : List Val → List (Option LNode) → List LNode
  | v :: vs, l :: ls => (if v.truthy then l.toList else []) ++ matched vs ls
  | _, _ => []

theorem matched_append (v1 v2 : List Val) (l1 l2 : List (Option LNode)) (h : v1.length = l1.length) :
    matched (v1 ++ v2) (l1 ++ l2) = matched v1 l1 ++ matched v2 l2 := by
  induction v1 generalizing l1 with
  | nil => cases l1 with
    | nil => simp [matched]
    | cons _ _ => simp at h
  | cons v vs ih => cases l1 with
    | nil => simp at h
    | cons l ls =>
      simp only [List.cons_append, matched, List.append_assoc]
      rw [ih ls (by simpa using h)]

theorem runOne_length {σ : Type} (step : σ → Event → σ × Val) (s : σ) (es : List Event) :
    (runOne step s es).1.length = es.length := by
  induction es generalizing s with
  | nil => rfl
  | cons e es ih => simp [runOne, ih]

mutual
  theorem eventLocs_length : ∀ (n : Node) (loc : List Nat), (eventLocs n loc).length = n.flatten.length
    | .elem t a ks, loc => by
        simp only [eventLocs, Node.flatten, List.length_cons, List.length_append, List.length_nil]
        rw [eventLocsList_length ks loc 0]
    | .leaf e, loc => by simp [eventLocs, Node.flatten]
  theorem eventLocsList_length : ∀ (ks : List Node) (loc : List Nat) (i : Nat),
      (eventLocsList ks loc i).length = (flattenList ks).length
    | [], _, _ => by simp [eventLocsList, Genshi.flattenList]
    | k :: ks, loc, i => by
        simp only [eventLocsList, Genshi.flattenList, List.length_append]
        rw [eventLocs_length k _, eventLocsList_length ks loc (i + 1)]
end

/-! ## Candidates of a step in a subtree, in document order -/

/-- is a node at depth `d` below the context node on the step's axis -/
def cand (a : Axis) (d : Nat) : Bool :=
  match a with
  | .self => d == 0
  | .child => d == 1
  | .descendant => decide (1 ≤ d)
  | .descendantOrSelf => true
  | .attribute => false

def candHere (s : Step) (ns : NsMap) (d : Nat) (n : LNode) : List LNode :=
  if cand s.axis d && s.test.matches (nodeEvent n.node) ns then [n] else []

mutual
  def candNode (s : Step) (ns : NsMap) : Nat → List Nat → Node → List LNode
    | d, loc, .elem t a ks => candHere s ns d ⟨loc, .elem t a ks⟩ ++ candList s ns (d + 1) loc 0 ks
    | d, loc, .leaf e => candHere s ns d ⟨loc, .leaf e⟩
  def candList (s : Step) (ns : NsMap) : Nat → List Nat → Nat → List Node → List LNode
    | _, _, _, [] => []
    | d, loc, i, k :: ks => candNode s ns d (loc ++ [i]) k ++ candList s ns d loc (i + 1) ks
end

-- trees without namespace / CDATA marker leaves (and without START / END leaves)
mutual
  def _root_.Genshi.Node.clean : Node → Bool
    | .elem _ _ ks => cleanList ks
    | .leaf e => !e.isStartEnd && !e.isNsOrCdata
  def cleanList : List Node → Bool
    | [] => true
    | n :: ns => n.clean && cleanList ns
end

theorem sOutside_eq (s : Step) (h : s.axis ≠ .attribute) (d : Nat) :
    sOutside false s (d : Int) = !cand s.axis d := by
  cases hax : s.axis <;> simp_all [sOutside, cand]
  · cases hd : (d == 1) <;> simp_all [bne] <;> omega
  · cases hd : decide (1 ≤ d) <;> simp_all <;> omega
  · cases hd : (d == 0) <;> simp_all [bne] <;> omega

/-! ## SingleStepStrategy over a tree = the one-pass filter over the step's candidates -/

abbrev evOf : LNode → Event := fun m => nodeEvent m.node

/-- one non-END, non-marker event `e` of a node at depth `d` -/
theorem single_visit (s : Step) (ns : NsMap) (vs : Vars) (hna : s.axis ≠ .attribute)
    (d : Nat) (cs : List Nat) (n : LNode) (e : Event) (hev : nodeEvent n.node = e) (he : e.isEnd = false)
    (hm : e.isNsOrCdata = false) :
    (if (sStep [s] false ns vs ⟨cs, d⟩ e).2.truthy then [n] else [])
        = (sfilter ns vs evOf s.preds cs (candHere s ns d n)).1 ∧
    (sStep [s] false ns vs ⟨cs, d⟩ e).1
        = ⟨(sfilter ns vs evOf s.preds cs (candHere s ns d n)).2, if e.isStart then (d : Int) + 1 else d⟩ := by
  have hna' : (s.axis == Axis.attribute) = false := by simpa using hna
  simp only [sStep_run [s] s s rfl rfl false ns vs ⟨cs, d⟩ _ he hm, sOutside_eq s hna d, candHere, hev]
  by_cases hc : cand s.axis d = true <;> by_cases ht : s.test.matches e ns = true <;>
    by_cases hp : (sPreds e ns vs s.preds 0 cs).1 = true <;>
    by_cases hs : e.isStart = true <;>
    simp [hc, ht, hp, hs, sfilter, sBump, Val.truthy, hna', evOf, hev]

mutual
  theorem single_tree (s : Step) (ns : NsMap) (vs : Vars) (hna : s.axis ≠ .attribute) :
      ∀ (n : Node), n.clean = true → ∀ (d : Nat) (cs : List Nat) (loc : List Nat),
        matched (runOne (sStep [s] false ns vs) ⟨cs, d⟩ n.flatten).1 (eventLocs n loc)
          = (sfilter ns vs evOf s.preds cs (candNode s ns d loc n)).1 ∧
        (runOne (sStep [s] false ns vs) ⟨cs, d⟩ n.flatten).2
          = ⟨(sfilter ns vs evOf s.preds cs (candNode s ns d loc n)).2, d⟩
    | .elem t a ks, hcl, d, cs, loc => by
        obtain ⟨hv1, hv2⟩ := single_visit s ns vs hna d cs ⟨loc, .elem t a ks⟩ (.start t a) rfl rfl rfl
        simp only [Event.isStart, if_true] at hv2
        have hk := single_forest s ns vs hna ks (by simpa [Node.clean] using hcl) (d + 1)
          (sfilter ns vs evOf s.preds cs (candHere s ns d ⟨loc, .elem t a ks⟩)).2 loc 0
        simp only [Node.flatten, eventLocs, candNode, runOne_cons, runOne_append, sfilter_append]
        rw [hv2]
        have hd1 : ((d : Int) + 1) = ((d + 1 : Nat) : Int) := by simp
        rw [hd1]
        simp only [matched, Option.toList]
        rw [matched_append _ _ _ _ (by rw [runOne_length, eventLocsList_length])]
        rw [hk.1, hk.2]
        refine ⟨?_, ?_⟩
        · rw [hv1]; simp [runOne, matched, sStep_end, Val.truthy]
        · simp [runOne, sStep_end]
    | .leaf e, hcl, d, cs, loc => by
        simp only [Node.clean, Bool.and_eq_true, Bool.not_eq_true'] at hcl
        obtain ⟨hend, hstart⟩ := isEnd_of_not_startEnd hcl.1
        obtain ⟨hv1, hv2⟩ := single_visit s ns vs hna d cs ⟨loc, .leaf e⟩ e rfl hend hcl.2
        simp only [hstart, Bool.false_eq_true, if_false] at hv2
        simp only [Node.flatten, eventLocs, candNode, runOne, matched, Option.toList, List.append_nil]
        exact ⟨hv1, hv2⟩
  theorem single_forest (s : Step) (ns : NsMap) (vs : Vars) (hna : s.axis ≠ .attribute) :
      ∀ (ks : List Node), cleanList ks = true → ∀ (d : Nat) (cs : List Nat) (loc : List Nat) (i : Nat),
        matched (runOne (sStep [s] false ns vs) ⟨cs, d⟩ (flattenList ks)).1 (eventLocsList ks loc i)
          = (sfilter ns vs evOf s.preds cs (candList s ns d loc i ks)).1 ∧
        (runOne (sStep [s] false ns vs) ⟨cs, d⟩ (flattenList ks)).2
          = ⟨(sfilter ns vs evOf s.preds cs (candList s ns d loc i ks)).2, d⟩
    | [], _, d, cs, loc, i => by simp [Genshi.flattenList, eventLocsList, candList, runOne, matched, sfilter]
    | k :: ks, hcl, d, cs, loc, i => by
        simp only [cleanList, Bool.and_eq_true] at hcl
        have h1 := single_tree s ns vs hna k hcl.1 d cs (loc ++ [i])
        have h2 := single_forest s ns vs hna ks hcl.2 d
          (sfilter ns vs evOf s.preds cs (candNode s ns d (loc ++ [i]) k)).2 loc (i + 1)
        simp only [Genshi.flattenList, eventLocsList, candList, runOne_append, sfilter_append]
        rw [matched_append _ _ _ _ (by rw [runOne_length, eventLocs_length])]
        rw [h1.1, h1.2, h2.1, h2.2]
        exact ⟨rfl, rfl⟩
end

/-! ## The candidates are the nodes of the XPath axis, in document order -/

def mtest (s : Step) (ns : NsMap) (n : LNode) : Bool := s.test.matches (nodeEvent n.node) ns

mutual
  theorem cand_all (s : Step) (ns : NsMap) :
      ∀ (n : Node) (d : Nat) (loc : List Nat), (∀ d', d ≤ d' → cand s.axis d' = true) →
        candNode s ns d loc n = (⟨loc, n⟩ :: descOf n loc).filter (mtest s ns)
    | .elem t a ks, d, loc, h => by
        have := cand_all_list s ns ks (d + 1) loc 0 (fun d' hd => h d' (by omega))
        simp only [candNode, candHere, h d (Nat.le_refl _), Bool.true_and, descOf, List.filter_cons, mtest, this]
        split <;> simp_all
    | .leaf e, d, loc, h => by
        simp only [candNode, candHere, h d (Nat.le_refl _), Bool.true_and, descOf, List.filter_cons, mtest]
        split <;> simp_all
  theorem cand_all_list (s : Step) (ns : NsMap) :
      ∀ (ks : List Node) (d : Nat) (loc : List Nat) (i : Nat), (∀ d', d ≤ d' → cand s.axis d' = true) →
        candList s ns d loc i ks = (descList ks loc i).filter (mtest s ns)
    | [], _, _, _, _ => by simp [candList, descList]
    | k :: ks, d, loc, i, h => by
        simp only [candList, descList]
        rw [cand_all s ns k d (loc ++ [i]) h, cand_all_list s ns ks d loc (i + 1) h]
        by_cases hm : mtest s ns ⟨loc ++ [i], k⟩ = true <;> simp [List.filter_cons, hm]
end

mutual
  theorem cand_none (s : Step) (ns : NsMap) :
      ∀ (n : Node) (d : Nat) (loc : List Nat), (∀ d', d ≤ d' → cand s.axis d' = false) →
        candNode s ns d loc n = []
    | .elem t a ks, d, loc, h => by
        simp [candNode, candHere, h d (Nat.le_refl _),
          cand_none_list s ns ks (d + 1) loc 0 (fun d' hd => h d' (by omega))]
    | .leaf e, d, loc, h => by simp [candNode, candHere, h d (Nat.le_refl _)]
  theorem cand_none_list (s : Step) (ns : NsMap) :
      ∀ (ks : List Node) (d : Nat) (loc : List Nat) (i : Nat), (∀ d', d ≤ d' → cand s.axis d' = false) →
        candList s ns d loc i ks = []
    | [], _, _, _, _ => by simp [candList]
    | k :: ks, d, loc, i, h => by
        simp [candList, cand_none s ns k d (loc ++ [i]) h, cand_none_list s ns ks d loc (i + 1) h]
end

theorem candList_child (s : Step) (ns : NsMap) (hax : s.axis = .child) (loc : List Nat) :
    ∀ (ks : List Node) (i : Nat),
      candList s ns 1 loc i ks = ((ks.zipIdx i).map fun (k, j) => (⟨loc ++ [j], k⟩ : LNode)).filter (mtest s ns) := by
  intro ks
  induction ks with
  | nil => intro i; simp [candList]
  | cons k ks ih =>
    intro i
    have hnone : ∀ d', 2 ≤ d' → cand s.axis d' = false := by
      intro d' hd; simp [cand, hax]; omega
    simp only [candList, List.zipIdx_cons, List.map_cons, List.filter_cons, ih (i + 1)]
    cases k with
    | elem t a kk =>
      simp only [candNode, candHere, cand, hax, beq_self_eq_true, Bool.true_and, mtest,
        cand_none_list s ns kk 2 (loc ++ [i]) 0 hnone, List.append_nil]
      split <;> simp_all
    | leaf e =>
      simp only [candNode, candHere, cand, hax, beq_self_eq_true, Bool.true_and, mtest]
      split <;> simp_all

/-- the candidates collected along the traversal are the axis nodes passing the node test -/
theorem candNode_root (s : Step) (ns : NsMap) (hna : s.axis ≠ .attribute) (root : Node) :
    candNode s ns 0 [] root = (axisNodes s.axis ⟨[], root⟩).filter (mtest s ns) := by
  cases hax : s.axis with
  | «attribute» => exact absurd hax hna
  | descendantOrSelf =>
    rw [cand_all s ns root 0 [] (fun d' _ => by simp [cand, hax])]
    simp [axisNodes, descendants]
  | self =>
    have hnone : ∀ d', 1 ≤ d' → cand s.axis d' = false := by
      intro d' hd; simp [cand, hax]; omega
    cases root with
    | elem t a ks =>
      simp [candNode, candHere, cand, hax, axisNodes, mtest, cand_none_list s ns ks 1 [] 0 hnone, List.filter_cons]
      split <;> simp_all
    | leaf e =>
      simp [candNode, candHere, cand, hax, axisNodes, mtest, List.filter_cons]
      split <;> simp_all
  | descendant =>
    cases root with
    | elem t a ks =>
      simp only [candNode, candHere, cand, hax, axisNodes, descendants, descOf]
      rw [cand_all_list s ns ks 1 [] 0 (fun d' hd => by simp [cand, hax]; omega)]
      simp
    | leaf e => simp [candNode, candHere, cand, hax, axisNodes, descendants, descOf]
  | child =>
    cases root with
    | elem t a ks =>
      simp only [candNode, candHere, cand, hax, axisNodes, childrenOf]
      rw [candList_child s ns hax [] ks 0]
      simp
    | leaf e => simp [candNode, candHere, cand, hax, axisNodes, childrenOf]

/-! ## Node tests: the model's truth value is the reference's `testNode` -/

/-- node tests as the parser builds them for the element axes: no attribute flag, prefixes
    bound, names hygienic -/
def NodeTest.elemWf (ns : NsMap) : NodeTest → Prop
  | .principal a => a = false
  | .qprincipal a pfx => a = false ∧ (lookup pfx ns).isSome
  | .localName a _ => a = false
  | .qname a pfx name => a = false ∧ (∃ u, lookup pfx ns = some u ∧ '}' ∉ u) ∧ nameOk name = true
  | _ => True

def tagsOk : Node → Prop
  | .elem t _ _ => qnOk t
  | .leaf _ => True

theorem mtest_eq_testNode (s : Step) (ns : NsMap) (hwf : s.test.elemWf ns) (n : LNode)
    (hcl : (match n.node with | .leaf e => e.isStartEnd = false | _ => True)) (htag : tagsOk n.node) :
    mtest s ns n = testNode s.test n.node ns := by
  unfold mtest NodeTest.matches
  obtain ⟨loc, node⟩ := n
  cases node with
  | elem t a ks =>
    cases hst : s.test with
    | principal f => rw [hst] at hwf; simp [NodeTest.elemWf] at hwf; subst hwf
                     simp [nodeEvent, NodeTest.apply, testNode, Val.truthy]
    | qprincipal f pfx =>
      rw [hst] at hwf; simp only [NodeTest.elemWf] at hwf
      obtain ⟨hf, hb⟩ := hwf; subst hf
      obtain ⟨u, hu⟩ := Option.isSome_iff_exists.mp hb
      simp [nodeEvent, NodeTest.apply, testNode, Val.truthy, nsOf, hu]
    | localName f name => rw [hst] at hwf; simp [NodeTest.elemWf] at hwf; subst hwf
                          simp [nodeEvent, NodeTest.apply, testNode, Val.truthy]
    | qname f pfx name =>
      rw [hst] at hwf; simp only [NodeTest.elemWf] at hwf
      obtain ⟨hf, ⟨u, hu, hnu⟩, hname⟩ := hwf; subst hf
      simp only [nodeEvent, NodeTest.apply, testNode, Val.truthy, nsOf, hu, Option.getD_some,
        Bool.false_eq_true, if_false]
      have hti := text_inj (q := t) (r := ⟨u, name⟩) htag ⟨hname, hnu⟩
      by_cases heq : t = ⟨u, name⟩
      · subst heq; simp
      · have h1 : (t.text == (⟨u, name⟩ : QName).text) = false := by
          simpa using fun h => heq (hti.mp h)
        rw [h1]
        obtain ⟨tn, tl⟩ := t
        by_cases h2 : tn = u <;> by_cases h3 : tl = name <;> simp_all
    | comment => simp [nodeEvent, NodeTest.apply, testNode, Val.truthy]
    | node => simp [nodeEvent, NodeTest.apply, testNode, Val.truthy]
    | pi tg => cases tg <;> simp [nodeEvent, NodeTest.apply, testNode, Val.truthy]
    | text => simp [nodeEvent, NodeTest.apply, testNode, Val.truthy]
  | leaf e =>
    simp only at hcl
    cases hst : s.test with
    | pi tg => cases tg <;> cases e <;> simp_all [nodeEvent, NodeTest.apply, testNode, Val.truthy, Event.isStartEnd]
    | _ => cases e <;> simp_all [nodeEvent, NodeTest.apply, testNode, Val.truthy, Event.isStartEnd]

/-! ## Assembly: SingleStepStrategy designates `stepNodes` -/

/-- whether a predicate is a position test is static -/
def Expr.numTyped (vs : Vars) : Expr → Bool
  | .num _ => true
  | .var n => (match lookup n vs with
      | some (.num _) => true
      | _ => false)
  | .fn1 f _ => f == .number || f == .ceiling || f == .floor || f == .round || f == .stringLength
  | _ => false

theorem isNum_eval (e : Expr) (ev : Event) (ns : NsMap) (vs : Vars) :
    (e.eval ev ns vs).isNum = e.numTyped vs := by
  cases e with
  | test t =>
    simp only [Expr.eval, Expr.numTyped]
    cases t <;> cases ev <;> simp only [NodeTest.apply] <;> (try rfl) <;> (repeat' split) <;> rfl
  | var n => simp only [Expr.eval, Expr.numTyped]; cases lookup n vs with
    | none => rfl
    | some v => cases v <;> rfl
  | fn0 f => cases f <;> cases ev <;> rfl
  | fn1 f a => cases f <;> rfl
  | fn2 f a b => cases f <;> rfl
  | fn3 f a b c => cases f <;> rfl
  | _ => rfl

/-- hypotheses about the candidates of a step: hygienic nodes, predicates inside the typed
    fragment and clear of the pinned absent-attribute comparison -/
def CandOk (s : Step) (ns : NsMap) (vs : Vars) (n : LNode) : Prop :=
  nodeOk n.node ∧ tagsOk n.node ∧ ∀ p ∈ s.preds, p.absentFree (nodeEvent n.node) ns vs = true

theorem single_matches (s : Step) (ns : NsMap) (vs : Vars) (root : Node)
    (hna : s.axis ≠ .attribute) (hcl : root.clean = true) (hwf : s.test.elemWf ns)
    (htyped : ∀ p ∈ s.preds, p.typed ns vs = true)
    (hcand : ∀ n ∈ axisNodes s.axis ⟨[], root⟩, CandOk s ns vs n) :
    matched (runOne (sStep [s] false ns vs) ⟨[], 0⟩ root.flatten).1 (eventLocs root [])
      = stepNodes s ns (toXVars vs) ⟨[], root⟩ := by
  have h1 : matched (runOne (sStep [s] false ns vs) ⟨[], 0⟩ root.flatten).1 (eventLocs root [])
      = (sfilter ns vs evOf s.preds [] (candNode s ns 0 [] root)).1 := (single_tree s ns vs hna root hcl 0 [] []).1
  rw [h1, candNode_root s ns hna root]
  -- the model's node test is the reference's on the axis nodes
  have hleaf : ∀ n ∈ axisNodes s.axis ⟨[], root⟩,
      (match n.node with | .leaf e => e.isStartEnd = false | _ => True) := by
    intro n hn
    have := (hcand n hn).1
    cases hnode : n.node with
    | elem t a ks => trivial
    | leaf e => rw [hnode] at this; exact this
  have hfil : (axisNodes s.axis ⟨[], root⟩).filter (mtest s ns)
      = (axisNodes s.axis ⟨[], root⟩).filter fun n => testNode s.test n.node ns := by
    apply List.filter_congr
    intro n hn
    exact mtest_eq_testNode s ns hwf n (hleaf n hn) (hcand n hn).2.1
  rw [hfil]
  unfold stepNodes
  have hsub : ∀ n ∈ (axisNodes s.axis ⟨[], root⟩).filter (fun n => testNode s.test n.node ns),
      n ∈ axisNodes s.axis ⟨[], root⟩ := fun n hn => (List.mem_filter.mp hn).1
  rw [sfilter_eq_fpreds ns vs evOf (Expr.numTyped vs) s.preds _
        (fun n _ p _ => isNum_eval p (evOf n) ns vs) []]
  simp only [List.getD_nil]
  exact fpreds_eq_filterPreds ns (toXVars vs) vs evOf (Expr.numTyped vs) s.preds 0 _
    (fun n hn p hp pos => by
      have hc := hcand n (hsub n hn)
      have := Genshi.Path.eval_toX n.node hc.1 ns vs p (htyped p hp) (hc.2.2 p hp)
      unfold predHoldsM predHolds evOf
      cases hv : p.eval (nodeEvent n.node) ns vs <;> rw [hv] at this <;> simp [Val.toX] at this <;>
        rw [← this] <;> simp [Val.truthy, xBoolean])
    (fun n _ p _ => isNum_eval p (evOf n) ns vs)

end Genshi.Path

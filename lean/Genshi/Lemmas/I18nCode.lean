/-
  C19 — the gettext calls made by template code (expressions, code blocks, interpolated
  attribute values) are extracted: `Translator.extract` reports what `extract_from_code`
  finds in every EXPR / EXEC event, whatever the nesting of directives, also inside the
  content of a message directive (as repaired), and in the interpolated attributes of every
  element that is not excluded.
-/
import Genshi.Lemmas.I18nLookups2
namespace Genshi.I18n
open Genshi

def partsCode : List APart → List CodeMsg
  | [] => []
  | .text _ :: ps => partsCode ps
  | .expr ms :: ps => ms ++ partsCode ps

/-- the gettext calls in the interpolated values of an attribute list -/
def attrsCode : TAttrs → List CodeMsg
  | [] => []
  | (_, .str _) :: rest => attrsCode rest
  | (_, .parts ps) :: rest => partsCode ps ++ attrsCode rest

/-- what the content of a message directive contributes, event by event -/
def evCode : TEvent → List CodeMsg
  | .start _ a => attrsCode a
  | .expr _ cm => cm
  | _ => []

mutual
  /-- the gettext calls of the template code: all EXPR / EXEC events and the interpolated
      attributes of all START events, excluded elements included; for a plain message directive
      the attributes and expressions of its content -/
  def codeSub (cfg : Cfg) : TEvent → List CodeMsg
    | .sub ds body =>
        if hasExtractable ds then
          match ds, body with
          | [.msg _], .start _ a :: rest => attrsCode a ++ rest.dropLast.flatMap evCode
          | [.msg _], first :: rest => (first :: rest).flatMap evCode      -- element form
          | _, _ => []
        else codeList cfg body
    | _ => []
  def codeList (cfg : Cfg) : List TEvent → List CodeMsg
    | [] => []
    | .start _ attrs :: es => attrsCode attrs ++ codeList cfg es
    | .expr _ cm :: es => cm ++ codeList cfg es
    | .exec cm :: es => cm ++ codeList cfg es
    | .sub ds body :: es => codeSub cfg (.sub ds body) ++ codeList cfg es
    | _ :: es => codeList cfg es
end

def codeMessage (c : CodeMsg) : Message := ⟨some c.func, c.val, []⟩

/-- all these calls are among the extracted messages -/
def HasCode (ms : List Message) (cs : List CodeMsg) : Prop := ∀ c ∈ cs, codeMessage c ∈ ms

theorem HasCode.nil (ms : List Message) : HasCode ms [] := fun _ h => by simp at h

theorem HasCode.append {a b : List Message} {ca cb : List CodeMsg} (ha : HasCode a ca) (hb : HasCode b cb) :
    HasCode (a ++ b) (ca ++ cb) := by
  intro c hc
  simp only [List.mem_append] at hc ⊢
  rcases hc with h | h
  · exact Or.inl (ha c h)
  · exact Or.inr (hb c h)

theorem HasCode.right {a b : List Message} {cs : List CodeMsg} (hb : HasCode b cs) : HasCode (a ++ b) cs := by
  have := HasCode.append (HasCode.nil a) hb; simpa using this

theorem HasCode.left {a b : List Message} {cs : List CodeMsg} (ha : HasCode a cs) : HasCode (a ++ b) cs := by
  have := HasCode.append ha (HasCode.nil b); simpa using this

theorem HasCode.cons {m : Message} {b : List Message} {cs : List CodeMsg} (hb : HasCode b cs) : HasCode (m :: b) cs :=
  HasCode.right (a := [m]) hb

theorem HasCode.mono {a b : List Message} {cs : List CodeMsg} (ha : HasCode a cs) (hab : ∀ x ∈ a, x ∈ b) : HasCode b cs :=
  fun c hc => hab _ (ha c hc)

theorem hasCode_codeMessages (cm : List CodeMsg) : HasCode (codeMessages cm) cm := by
  intro c hc
  simp only [codeMessages, List.mem_map]
  exact ⟨c, hc, rfl⟩

theorem hasCode_parts : ∀ (ps : List APart), HasCode (partsMessages ps) (partsCode ps)
  | [] => HasCode.nil _
  | .text _ :: ps => by simpa [partsMessages, partsCode] using hasCode_parts ps
  | .expr ms :: ps => by
      simp only [partsMessages, partsCode]
      exact HasCode.append (hasCode_codeMessages ms) (hasCode_parts ps)

theorem hasCode_attrs (cfg : Cfg) (st : Bool) : ∀ (a : TAttrs), HasCode (extractAttrs cfg st a) (attrsCode a)
  | [] => HasCode.nil _
  | (n, .str v) :: rest => by
      simp only [extractAttrs, attrsCode]
      exact HasCode.right (hasCode_attrs cfg st rest)
  | (n, .parts ps) :: rest => by
      simp only [extractAttrs, attrsCode]
      exact HasCode.append (hasCode_parts ps) (hasCode_attrs cfg st rest)

theorem hasCode_evMessages (cfg : Cfg) (st : Bool) (e : TEvent) : HasCode (evMessages cfg st e) (evCode e) := by
  cases e with
  | start t a => exact hasCode_attrs cfg st a
  | expr i cm => exact hasCode_codeMessages cm
  | _ => exact HasCode.nil _

theorem hasCode_flatMap (cfg : Cfg) (st : Bool) : ∀ (evs : List TEvent),
    HasCode (evs.flatMap (evMessages cfg st)) (evs.flatMap evCode)
  | [] => HasCode.nil _
  | e :: es => by
      simp only [List.flatMap_cons]
      exact HasCode.append (hasCode_evMessages cfg st e) (hasCode_flatMap cfg st es)

/-- the plain message directive: the calls in its content are reported -/
theorem msg_sub_code (cfg : Cfg) (ps : List Str) (body : List TEvent) (hg : goodMsgBody ps body = true)
    (st : Bool) (cs xs : List Str) (ms : List Message)
    (h : exSub cfg st cs xs (.sub [.msg ps] body) = .ok ms) :
    HasCode ms (codeSub cfg (.sub [.msg ps] body)) := by
  rw [exSub_msg] at h
  match body, hg with
  | .start t a :: rest, hg =>
    simp only [goodMsgBody] at hg
    cases hl : rest.getLast? with
    | none => simp [hl] at hg
    | some last =>
      have hrne : rest ≠ [] := by intro h'; subst h'; simp at hl
      simp only [codeSub, hasExtractable, List.any_cons, Dir.isExtractable, List.any_nil, Bool.or_false, ↓reduceIte]
      unfold msgExtract at h
      simp only [TEvent.isStart, ↓reduceIte] at h
      cases hr : rest with
      | nil => exact absurd hr hrne
      | cons x y =>
        rw [hr] at h
        rw [← hr] at h ⊢
        simp only [bind, Except.bind] at h
        cases ha : appendAll cfg st (MB.new ps) rest.dropLast with
        | error err => simp [ha] at h
        | ok r =>
          have hattr := startAttrs_of_appendAll cfg st rest.dropLast (MB.new ps) r ha
          simp only [ha] at h
          cases hctx : contextify none (.one (some r.2.format)) (lastSlice cs) (lastSlice xs) with
          | none => simp [hctx] at h
          | some m =>
            simp only [hctx, pure, Except.pure, Except.ok.injEq] at h
            rw [← h, hattr]
            have h1 : HasCode (startAttrs cfg st (.start t a)) (attrsCode a) := hasCode_attrs cfg st a
            have h2 := hasCode_flatMap cfg st rest.dropLast
            exact HasCode.left (b := [m]) (HasCode.append h1 h2)

mutual
  theorem code_sub (cfg : Cfg) : ∀ (e : TEvent), okMsgEv e = true → ∀ (st : Bool) (cs xs : List Str),
      ∃ ms, exSub cfg st cs xs e = .ok ms ∧ HasCode ms (codeSub cfg e)
    | .sub dirs body, h, st, cs, xs => by
        simp only [okMsgEv, Bool.or_eq_true, Bool.and_eq_true, Bool.not_eq_true'] at h
        rcases h with h | h
        · match dirs, h with
          | [.msg ps], h =>
            simp only [Bool.or_eq_true] at h
            rcases h with h | h
            · obtain ⟨ms, hms, _, _⟩ := msg_sub cfg ps body h st cs xs
              exact ⟨ms, hms, msg_sub_code cfg ps body h st cs xs ms hms⟩
            · cases body with
              | nil => simp [goodElemBody] at h
              | cons first rest =>
                obtain ⟨B, m, _, _, _, hex, _⟩ := msgExtract_elem cfg ps first rest h st cs xs
                refine ⟨_, by rw [exSub_msg]; exact hex, ?_⟩
                have hf : first.isStart = false := by
                  simp only [goodElemBody, Bool.and_eq_true, Bool.not_eq_true'] at h; exact h.1.1.1.1
                have hcs : codeSub cfg (.sub [.msg ps] (first :: rest)) = (first :: rest).flatMap evCode := by
                  cases first <;> simp_all [codeSub, hasExtractable, Dir.isExtractable, TEvent.isStart]
                rw [hcs]
                exact HasCode.left (hasCode_flatMap cfg st (first :: rest))
        · have ih := code_list cfg body h.2
          have hex : Total (fun cs' xs' => exList cfg (cfg.extractText && st) cs' xs' 0 body) := fun cs' xs' => by
            obtain ⟨m, hm, _⟩ := ih 0 (cfg.extractText && st) cs' xs'; exact ⟨m, hm⟩
          obtain ⟨out, hout, cs', xs', m, hm, hsub⟩ := exSub_cover cfg st cs xs dirs body h.1 hex
          obtain ⟨m', hm', hcode⟩ := ih 0 (cfg.extractText && st) cs' xs'
          have hm2 : exList cfg (cfg.extractText && st) cs' xs' 0 body = .ok m := hm
          have hmm : m' = m := by rw [hm'] at hm2; exact Except.ok.inj hm2
          subst hmm
          refine ⟨out, hout, ?_⟩
          simp only [codeSub, h.1, Bool.false_eq_true, ↓reduceIte]
          exact HasCode.mono hcode hsub
    | .start _ _, _, _, _, _ => ⟨[], rfl, by simp [codeSub, HasCode.nil]⟩
    | .end_ _, _, _, _, _ => ⟨[], rfl, by simp [codeSub, HasCode.nil]⟩
    | .text _, _, _, _, _ => ⟨[], rfl, by simp [codeSub, HasCode.nil]⟩
    | .expr _ _, _, _, _, _ => ⟨[], rfl, by simp [codeSub, HasCode.nil]⟩
    | .exec _, _, _, _, _ => ⟨[], rfl, by simp [codeSub, HasCode.nil]⟩
    | .other _, _, _, _, _ => ⟨[], rfl, by simp [codeSub, HasCode.nil]⟩
  theorem code_list (cfg : Cfg) : ∀ (s : List TEvent), okMsgList s = true → ∀ (skip : Nat) (st : Bool) (cs xs : List Str),
      ∃ ms, exList cfg st cs xs skip s = .ok ms ∧ HasCode ms (codeList cfg s)
    | [], _, skip, st, cs, xs => ⟨[], by simp [exList, pure, Except.pure], by simp [codeList, HasCode.nil]⟩
    | e :: es, h, skip, st, cs, xs => by
        simp only [okMsgList, Bool.and_eq_true] at h
        have ihs := code_list cfg es h.2
        cases skip with
        | succ k =>
          cases e with
          | start tag attrs =>
            obtain ⟨ms, hms, hc⟩ := ihs (k + 2) st cs xs
            refine ⟨extractAttrs cfg false attrs ++ ms, by simp [exList, hms, bind, Except.bind, pure, Except.pure], ?_⟩
            simp only [codeList]
            exact HasCode.append (hasCode_attrs cfg false attrs) hc
          | end_ tag =>
            obtain ⟨ms, hms, hc⟩ := ihs k st cs xs
            exact ⟨ms, by simp [exList, hms], by simpa [codeList] using hc⟩
          | text t =>
            obtain ⟨ms, hms, hc⟩ := ihs (k + 1) st cs xs
            exact ⟨ms, by simp [exList, hms, bind, Except.bind, pure, Except.pure], by simpa [codeList] using hc⟩
          | expr i cm =>
            obtain ⟨ms, hms, hc⟩ := ihs (k + 1) st cs xs
            refine ⟨codeMessages cm ++ ms, by simp [exList, hms, bind, Except.bind, pure, Except.pure], ?_⟩
            simp only [codeList]
            exact HasCode.append (hasCode_codeMessages cm) hc
          | exec cm =>
            obtain ⟨ms, hms, hc⟩ := ihs (k + 1) st cs xs
            refine ⟨codeMessages cm ++ ms, by simp [exList, hms, bind, Except.bind, pure, Except.pure], ?_⟩
            simp only [codeList]
            exact HasCode.append (hasCode_codeMessages cm) hc
          | sub dirs body =>
            obtain ⟨ms, hms, hc⟩ := ihs (k + 1) st cs xs
            obtain ⟨ms0, hms0, hc0⟩ := code_sub cfg (.sub dirs body) h.1 false cs xs
            refine ⟨ms0 ++ ms, by simp only [exList]; simp [hms, hms0, bind, Except.bind, pure, Except.pure], ?_⟩
            simp only [codeList]
            exact HasCode.append hc0 hc
          | other l =>
            obtain ⟨ms, hms, hc⟩ := ihs (k + 1) st cs xs
            exact ⟨ms, by simp [exList, hms], by simpa [codeList] using hc⟩
        | zero =>
          cases e with
          | start tag attrs =>
            by_cases hx : excluded cfg tag attrs = true
            · obtain ⟨ms, hms, hc⟩ := ihs 1 st cs xs
              refine ⟨extractAttrs cfg false attrs ++ ms, by simp [exList, hx, hms, bind, Except.bind, pure, Except.pure], ?_⟩
              simp only [codeList]
              exact HasCode.append (hasCode_attrs cfg false attrs) hc
            · obtain ⟨ms, hms, hc⟩ := ihs 0 st cs xs
              refine ⟨extractAttrs cfg st attrs ++ ms, by simp [exList, hx, hms, bind, Except.bind, pure, Except.pure], ?_⟩
              simp only [codeList]
              exact HasCode.append (hasCode_attrs cfg st attrs) hc
          | end_ tag =>
            obtain ⟨ms, hms, hc⟩ := ihs 0 st cs xs
            exact ⟨ms, by simp [exList, hms], by simpa [codeList] using hc⟩
          | text t =>
            obtain ⟨ms, hms, hc⟩ := ihs 0 st cs xs
            by_cases hcnd : (st && !(strip t).isEmpty && hasLetter (strip t)) = true
            · obtain ⟨m, hm, _⟩ := contextify_none_ok (strip t) (lastSlice cs) (lastSlice xs)
              refine ⟨m :: ms, ?_, by simpa [codeList] using HasCode.cons hc⟩
              simp only [Bool.and_eq_true] at hcnd
              have hst1 := hcnd.1.1
              subst hst1
              simp [exList, hms, bind, Except.bind, pure, Except.pure, hcnd.1.2, hcnd.2, hm]
            · refine ⟨ms, ?_, by simpa [codeList] using hc⟩
              simp only [exList]
              simp [hms, bind, Except.bind, pure, Except.pure]
              intro h1 h2 h3
              simp [h1, h2, h3] at hcnd
          | expr i cm =>
            obtain ⟨ms, hms, hc⟩ := ihs 0 st cs xs
            refine ⟨codeMessages cm ++ ms, by simp [exList, hms, bind, Except.bind, pure, Except.pure], ?_⟩
            simp only [codeList]
            exact HasCode.append (hasCode_codeMessages cm) hc
          | exec cm =>
            obtain ⟨ms, hms, hc⟩ := ihs 0 st cs xs
            refine ⟨codeMessages cm ++ ms, by simp [exList, hms, bind, Except.bind, pure, Except.pure], ?_⟩
            simp only [codeList]
            exact HasCode.append (hasCode_codeMessages cm) hc
          | sub dirs body =>
            obtain ⟨ms, hms, hc⟩ := ihs 0 st cs xs
            obtain ⟨ms0, hms0, hc0⟩ := code_sub cfg (.sub dirs body) h.1 st cs xs
            refine ⟨ms0 ++ ms, by simp only [exList]; simp [hms, hms0, bind, Except.bind, pure, Except.pure], ?_⟩
            simp only [codeList]
            exact HasCode.append hc0 hc
          | other l =>
            obtain ⟨ms, hms, hc⟩ := ihs 0 st cs xs
            exact ⟨ms, by simp [exList, hms], by simpa [codeList] using hc⟩
end

/-- **the gettext calls of template code are extracted** -/
theorem code_calls_extracted (cfg : Cfg) (s : TStream) (h : okMsgList s = true) :
    ∃ ms, extract cfg s = .ok ms ∧ ∀ c ∈ codeList cfg s, codeMessage c ∈ ms :=
  code_list cfg s h 0 cfg.extractText [] []

end Genshi.I18n

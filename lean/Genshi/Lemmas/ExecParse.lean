/-
  Lemmas about the two guarded parsers of `Genshi/Model/ExecParse.lean`.
-/
import Genshi.Model.ExecParse
namespace Genshi.Exec.Parse

theorem hasExecList_append (a b : List TEv) : hasExecList (a ++ b) = (hasExecList a || hasExecList b) := by
  induction a with
  | nil => simp [hasExecList]
  | cons x xs ih => simp [hasExecList, ih, Bool.or_assoc]

theorem hasExecList_take_drop (l : List TEv) (n : Nat) (d v : List Char) :
    hasExecList (l.take n ++ [.sub d v (l.drop n)]) = hasExecList l := by
  rw [hasExecList_append]
  simp only [hasExecList, TEv.hasExec, Bool.or_false]
  rw [← hasExecList_append, List.take_append_drop]

/-- `interpolate` produces text and expressions, never code blocks -/
def InterpPure (env : Env) : Prop := ∀ s evs, env.interp s = .ok evs → hasExecList evs = false

/-! ### MarkupTemplate._parse -/

theorem parseMarkup_flag (env : Env) (src : List XEv) (hsrc : ∀ ev ∈ src, ev.isCode = false) :
    ∀ acc, parseMarkup env true src acc = parseMarkup env false src acc := by
  induction src with
  | nil => intro acc; rfl
  | cons ev rest ih =>
      intro acc
      have hrest : ∀ e ∈ rest, e.isCode = false := fun e he => hsrc e (List.mem_cons_of_mem _ he)
      cases ev with
      | text s =>
          simp only [parseMarkup]
          cases env.interp s with
          | error e => rfl
          | ok evs => exact ih hrest _
      | pi target data =>
          have hne : ¬ target = python := by
            have := hsrc (.pi target data) List.mem_cons_self
            simpa [XEv.isCode] using this
          simp only [parseMarkup, if_neg hne]
          exact ih hrest _
      | comment s =>
          simp only [parseMarkup]
          by_cases hb : bangComment s = true
          · rw [if_pos hb, if_pos hb]; exact ih hrest _
          · rw [if_neg hb, if_neg hb]; exact ih hrest _
      | other tag => simp only [parseMarkup]; exact ih hrest _

theorem parseMarkup_off_no_exec (env : Env) (hp : InterpPure env) (src : List XEv) :
    ∀ acc out, hasExecList acc = false → parseMarkup env false src acc = .ok out → hasExecList out = false := by
  induction src with
  | nil => intro acc out hacc h; simp only [parseMarkup] at h; cases h; exact hacc
  | cons ev rest ih =>
      intro acc out hacc h
      cases ev with
      | text s =>
          simp only [parseMarkup] at h
          cases hi : env.interp s with
          | error e => rw [hi] at h; cases h
          | ok evs =>
              rw [hi] at h
              exact ih _ out (by rw [hasExecList_append, hacc, hp s evs hi]; rfl) h
      | pi target data =>
          simp only [parseMarkup] at h
          by_cases ht : target = python
          · rw [if_pos ht] at h; simp at h
          · rw [if_neg ht] at h
            exact ih _ out (by rw [hasExecList_append, hacc]; rfl) h
      | comment s =>
          simp only [parseMarkup] at h
          by_cases hb : bangComment s = true
          · rw [if_pos hb] at h; exact ih _ out hacc h
          · rw [if_neg hb] at h
            exact ih _ out (by rw [hasExecList_append, hacc]; rfl) h
      | other tag =>
          simp only [parseMarkup] at h
          exact ih _ out (by rw [hasExecList_append, hacc]; rfl) h

theorem parseMarkup_off_rejects (env : Env) (src : List XEv) (hcode : ∃ ev ∈ src, ev.isCode = true) :
    ∀ acc out, parseMarkup env false src acc ≠ .ok out := by
  induction src with
  | nil => obtain ⟨ev, hev, _⟩ := hcode; cases hev
  | cons ev rest ih =>
      intro acc out h
      obtain ⟨e, he, hc⟩ := hcode
      -- either `ev` is the code block, or it is further on
      by_cases hev : ev.isCode = true
      · cases ev with
        | pi target data =>
            have ht : target = python := by simpa [XEv.isCode] using hev
            simp [parseMarkup, ht] at h
        | text s => simp [XEv.isCode] at hev
        | comment s => simp [XEv.isCode] at hev
        | other tag => simp [XEv.isCode] at hev
      · have hrest : ∃ e ∈ rest, e.isCode = true := by
          cases he with
          | head => exact absurd hc hev
          | tail _ h' => exact ⟨e, h', hc⟩
        cases ev with
        | text s =>
            simp only [parseMarkup] at h
            cases hi : env.interp s with
            | error e => rw [hi] at h; cases h
            | ok evs => rw [hi] at h; exact ih hrest _ out h
        | pi target data =>
            have ht : ¬ target = python := by simpa [XEv.isCode] using hev
            simp only [parseMarkup, if_neg ht] at h
            exact ih hrest _ out h
        | comment s =>
            simp only [parseMarkup] at h
            by_cases hb : bangComment s = true
            · rw [if_pos hb] at h; exact ih hrest _ out h
            · rw [if_neg hb] at h; exact ih hrest _ out h
        | other tag =>
            simp only [parseMarkup] at h
            exact ih hrest _ out h

/-- with the flag off the only errors are "code blocks not allowed" and those of `interpolate`:
    the guard comes before the compilation of the block, `Suite(...)` is never reached -/
theorem parseMarkup_off_error_kind (env : Env) (src : List XEv) :
    ∀ acc e, parseMarkup env false src acc = .error e → e = .notAllowed ∨ ∃ s, env.interp s = .error e := by
  induction src with
  | nil => intro acc e h; simp [parseMarkup] at h
  | cons ev rest ih =>
      intro acc e h
      cases ev with
      | text s =>
          simp only [parseMarkup] at h
          cases hi : env.interp s with
          | error e' => rw [hi] at h; cases h; exact Or.inr ⟨s, hi⟩
          | ok evs => rw [hi] at h; exact ih _ e h
      | pi target data =>
          simp only [parseMarkup] at h
          by_cases ht : target = python
          · rw [if_pos ht] at h; simp at h; exact Or.inl h.symm
          · rw [if_neg ht] at h; exact ih _ e h
      | comment s =>
          simp only [parseMarkup] at h
          by_cases hb : bangComment s = true
          · rw [if_pos hb] at h; exact ih _ e h
          · rw [if_neg hb] at h; exact ih _ e h
      | other tag => simp only [parseMarkup] at h; exact ih _ e h

/-! ### NewTextTemplate._parse -/

theorem parseText_flag (env : Env) (src : List Seg) (hsrc : ∀ sg ∈ src, sg.isCode = false) :
    ∀ stream dm depth, parseText env true src stream dm depth = parseText env false src stream dm depth := by
  induction src with
  | nil => intro stream dm depth; rfl
  | cons sg rest ih =>
      intro stream dm depth
      have hrest : ∀ e ∈ rest, e.isCode = false := fun e he => hsrc e (List.mem_cons_of_mem _ he)
      cases sg with
      | text s =>
          simp only [parseText]
          cases env.interp s with
          | error e => rfl
          | ok evs => exact ih hrest _ _ _
      | comment => simp only [parseText]; exact ih hrest _ _ _
      | dir command value =>
          have hne : ¬ command = python := by
            have := hsrc (.dir command value) List.mem_cons_self
            simpa [Seg.isCode] using this
          simp only [parseText, if_neg hne]
          by_cases h1 : command = kwInclude
          · rw [if_pos h1, if_pos h1]
            cases env.interp value with
            | error e => rfl
            | ok evs => exact ih hrest _ _ _
          · rw [if_neg h1, if_neg h1]
            by_cases h2 : command = kwEnd
            · rw [if_pos h2, if_pos h2]
              cases dm.lookup (depth - 1) with
              | none => exact ih hrest _ _ _
              | some v => obtain ⟨d, v', off⟩ := v; exact ih hrest _ _ _
            · rw [if_neg h2, if_neg h2]
              by_cases h3 : env.knownDirective command = true
              · rw [if_pos h3, if_pos h3]; exact ih hrest _ _ _
              · rw [if_neg h3, if_neg h3]

theorem parseText_off_no_exec (env : Env) (hp : InterpPure env) (src : List Seg) :
    ∀ stream dm depth out, hasExecList stream = false →
      parseText env false src stream dm depth = .ok out → hasExecList out = false := by
  induction src with
  | nil => intro stream dm depth out hs h; simp only [parseText] at h; cases h; exact hs
  | cons sg rest ih =>
      intro stream dm depth out hs h
      cases sg with
      | text s =>
          simp only [parseText] at h
          cases hi : env.interp s with
          | error e => rw [hi] at h; cases h
          | ok evs =>
              rw [hi] at h
              exact ih _ _ _ out (by rw [hasExecList_append, hs, hp s evs hi]; rfl) h
      | comment => simp only [parseText] at h; exact ih _ _ _ out hs h
      | dir command value =>
          simp only [parseText] at h
          by_cases h1 : command = kwInclude
          · rw [if_pos h1] at h
            cases hi : env.interp value with
            | error e => rw [hi] at h; cases h
            | ok evs =>
                rw [hi] at h
                exact ih _ _ _ out (by rw [hasExecList_append, hs]; rfl) h
          · rw [if_neg h1] at h
            by_cases hpy : command = python
            · rw [if_pos hpy] at h; simp at h
            · rw [if_neg hpy] at h
              by_cases h2 : command = kwEnd
              · rw [if_pos h2] at h
                cases hl : dm.lookup (depth - 1) with
                | none => rw [hl] at h; exact ih _ _ _ out hs h
                | some v =>
                    obtain ⟨d, v', off⟩ := v
                    rw [hl] at h
                    exact ih _ _ _ out (by rw [hasExecList_take_drop]; exact hs) h
              · rw [if_neg h2] at h
                by_cases h3 : env.knownDirective command = true
                · rw [if_pos h3] at h; exact ih _ _ _ out hs h
                · rw [if_neg h3] at h; cases h

theorem parseText_off_rejects (env : Env) (src : List Seg) (hcode : ∃ sg ∈ src, sg.isCode = true) :
    ∀ stream dm depth out, parseText env false src stream dm depth ≠ .ok out := by
  induction src with
  | nil => obtain ⟨sg, hsg, _⟩ := hcode; cases hsg
  | cons sg rest ih =>
      intro stream dm depth out h
      obtain ⟨e, he, hc⟩ := hcode
      by_cases hsg : sg.isCode = true
      · cases sg with
        | dir command value =>
            have ht : command = python := by simpa [Seg.isCode] using hsg
            have hni : ¬ python = kwInclude := by decide
            simp [parseText, ht, hni] at h
        | text s => simp [Seg.isCode] at hsg
        | comment => simp [Seg.isCode] at hsg
      · have hrest : ∃ e ∈ rest, e.isCode = true := by
          cases he with
          | head => exact absurd hc hsg
          | tail _ h' => exact ⟨e, h', hc⟩
        cases sg with
        | text s =>
            simp only [parseText] at h
            cases hi : env.interp s with
            | error e => rw [hi] at h; cases h
            | ok evs => rw [hi] at h; exact ih hrest _ _ _ out h
        | comment => simp only [parseText] at h; exact ih hrest _ _ _ out h
        | dir command value =>
            have hpy : ¬ command = python := by simpa [Seg.isCode] using hsg
            simp only [parseText, if_neg hpy] at h
            by_cases h1 : command = kwInclude
            · rw [if_pos h1] at h
              cases hi : env.interp value with
              | error e => rw [hi] at h; cases h
              | ok evs => rw [hi] at h; exact ih hrest _ _ _ out h
            · rw [if_neg h1] at h
              by_cases h2 : command = kwEnd
              · rw [if_pos h2] at h
                cases hl : dm.lookup (depth - 1) with
                | none => rw [hl] at h; exact ih hrest _ _ _ out h
                | some v => obtain ⟨d, v', off⟩ := v; rw [hl] at h; exact ih hrest _ _ _ out h
              · rw [if_neg h2] at h
                by_cases h3 : env.knownDirective command = true
                · rw [if_pos h3] at h; exact ih hrest _ _ _ out h
                · rw [if_neg h3] at h; cases h

end Genshi.Exec.Parse

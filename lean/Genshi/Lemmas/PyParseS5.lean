/-
  C13 — statement layer, part 5: the induction over statements, the fuel bound and the
  round trip `pyParseS (genBody 0 ss) = some ss`.
-/
import Genshi.Lemmas.PyParseS4
namespace Genshi.Py
open Genshi.Gen

/-- what `handlers_ok` needs from one `except` clause -/
def HandlerOK1 (s : PyStmt) : Prop := ∃ t b, s = .handler t none b ∧ SupportedO t ∧ BlockOK b

theorem noHandlers_cons {s : PyStmt} {ss : List PyStmt} (h : noHandlers (s :: ss) = true) :
    isHandler s = false ∧ noHandlers ss = true := by
  simpa [noHandlers] using h

theorem allHandlers_cons {s : PyStmt} {ss : List PyStmt} (h : (s :: ss).all isHandler = true) :
    isHandler s = true ∧ ss.all isHandler = true := by
  simpa using h

mutual
theorem stmt_ok : ∀ (s : PyStmt), WFS s → isHandler s = false → StmtOK s
  | .expr e, h, _ => simple_stmt_ok _ h rfl
  | .assign ts v, h, _ => simple_stmt_ok _ h rfl
  | .augAssign t op v, h, _ => simple_stmt_ok _ h rfl
  | .return_ v, h, _ => simple_stmt_ok _ h rfl
  | .pass_, h, _ => simple_stmt_ok _ h rfl
  | .break_, h, _ => simple_stmt_ok _ h rfl
  | .continue_, h, _ => simple_stmt_ok _ h rfl
  | .assert_ t m, h, _ => simple_stmt_ok _ h rfl
  | .raise_ e c, h, _ => simple_stmt_ok _ h rfl
  | .if_ t b o, h, _ => by
      simp only [WFS] at h
      exact if_ok t b o h.1 (block_ok b h.2.1 h.2.2.2.1) (block_ok o h.2.2.1 h.2.2.2.2)
  | .while_ t b o, h, _ => by
      simp only [WFS] at h
      exact while_ok t b o h.1 (block_ok b h.2.1 h.2.2.2.1) (block_ok o h.2.2.1 h.2.2.2.2)
  | .for_ t it b o, h, _ => by
      simp only [WFS] at h
      exact for_ok t it b o h.1 h.2.1 (block_ok b h.2.2.1 h.2.2.2.2.1) (block_ok o h.2.2.2.1 h.2.2.2.2.2)
  | .with_ items b, h, _ => by
      simp only [WFS] at h
      exact with_ok items b h.1 h.2.1 (block_ok b h.2.2.1 h.2.2.2)
  | .try_ b hs o f, h, _ => by
      simp only [WFS] at h
      obtain ⟨h1, h2, h3, h4, h5, h6, h7, h8⟩ := h
      exact try_ok b hs o f (block_ok b h1 h6) (handlers_ok hs h2 h3) h3 (block_ok o h4 h7) (block_ok f h5 h8)
  | .handler _ _ _, _, hh => by simp [isHandler] at hh
  | .functionDef name po ar va ko ka body decos ret tp, h, _ => by
      simp only [WFS] at h
      obtain ⟨_, hp, hb, hnh, hd, hret, rfl⟩ := h
      exact def_ok name po ar va ko ka body decos ret hp hret hd (block_ok body hb hnh)
  | .classDef name bases kws body decos tp, h, _ => by
      simp only [WFS] at h
      obtain ⟨_, hb0, hbe, hk, hke, hb, hnh, hd, rfl⟩ := h
      exact class_ok name bases kws body decos hb0 hbe hk hke hd (block_ok body hb hnh)
  | .delete _, h, _ => simple_stmt_ok _ h rfl
  | .global_ _, h, _ => by simp [WFS] at h
  | .import_ _, h, _ => simple_stmt_ok _ h rfl
  | .importFrom _ _ _, h, _ => simple_stmt_ok _ h rfl
  | .unsupported _, h, _ => by simp [WFS] at h
theorem handler_ok : ∀ (s : PyStmt), WFS s → isHandler s = true → HandlerOK1 s
  | .handler t n b, h, _ => by
      simp only [WFS] at h
      obtain ⟨ht, rfl, hb, hnh⟩ := h
      exact ⟨t, b, rfl, ht, block_ok b hb hnh⟩
  | .expr _, _, hh => by simp [isHandler] at hh
  | .assign _ _, _, hh => by simp [isHandler] at hh
  | .augAssign _ _ _, _, hh => by simp [isHandler] at hh
  | .return_ _, _, hh => by simp [isHandler] at hh
  | .pass_, _, hh => by simp [isHandler] at hh
  | .break_, _, hh => by simp [isHandler] at hh
  | .continue_, _, hh => by simp [isHandler] at hh
  | .assert_ _ _, _, hh => by simp [isHandler] at hh
  | .raise_ _ _, _, hh => by simp [isHandler] at hh
  | .if_ _ _ _, _, hh => by simp [isHandler] at hh
  | .while_ _ _ _, _, hh => by simp [isHandler] at hh
  | .for_ _ _ _ _, _, hh => by simp [isHandler] at hh
  | .with_ _ _, _, hh => by simp [isHandler] at hh
  | .try_ _ _ _ _, _, hh => by simp [isHandler] at hh
  | .functionDef _ _ _ _ _ _ _ _ _ _, _, hh => by simp [isHandler] at hh
  | .classDef _ _ _ _ _ _, _, hh => by simp [isHandler] at hh
  | .delete _, _, hh => by simp [isHandler] at hh
  | .global_ _, _, hh => by simp [isHandler] at hh
  | .import_ _, _, hh => by simp [isHandler] at hh
  | .importFrom _ _ _, _, hh => by simp [isHandler] at hh
  | .unsupported _, _, hh => by simp [isHandler] at hh
theorem block_ok : ∀ (ss : List PyStmt), WFSL ss → noHandlers ss = true → BlockOK ss
  | [], _, _ => block_nil
  | s :: ss, h, hh => by
      simp only [WFSL] at h
      have hh' := noHandlers_cons hh
      exact block_cons s ss (stmt_ok s h.1 hh'.1) (block_ok ss h.2 hh'.2) (fun ind => genStmt_head s h.1 hh'.1 ind)
        (fun ind => head_body ind ss h.2 hh'.2)
theorem handlers_ok : ∀ (hs : List PyStmt), WFSL hs → hs.all isHandler = true → HandlersOK hs
  | [], _, _ => handlers_nil
  | s :: hs, h, hall => by
      simp only [WFSL] at h
      have hall' := allHandlers_cons hall
      obtain ⟨t, b, rfl, ht, hb⟩ := handler_ok s h.1 hall'.1
      exact handlers_cons t b hs ht hb (handlers_ok hs h.2 hall'.2) hall'.2
end

/-! ### the fuel of `pyParseS` suffices -/

theorem genElse_len (ind : Nat) (o : List PyStmt) : (genBody (ind + 1) o).length ≤ (genElse ind o).length := by
  cases o with
  | nil => simp [genBody, genElse]
  | cons s ss => rw [genElse_cons]; simp

theorem simple_len (s : PyStmt) (h : WFS s) (hs : isSimple s = true) (ind : Nat) :
    szS s + 2 ≤ 8 * (genStmt ind s).length := by
  obtain ⟨toks, hg, _⟩ := simple_ok s h hs ind
  rw [hg]
  cases s <;> simp [isSimple] at hs <;> simp [szS]

mutual
theorem szS_le : ∀ (s : PyStmt), WFS s → ∀ ind, szS s + 2 ≤ 8 * (genStmt ind s).length
  | .expr e, h, ind => simple_len _ h rfl ind
  | .assign ts v, h, ind => simple_len _ h rfl ind
  | .augAssign t op v, h, ind => simple_len _ h rfl ind
  | .return_ v, h, ind => simple_len _ h rfl ind
  | .pass_, h, ind => simple_len _ h rfl ind
  | .break_, h, ind => simple_len _ h rfl ind
  | .continue_, h, ind => simple_len _ h rfl ind
  | .assert_ t m, h, ind => simple_len _ h rfl ind
  | .raise_ e c, h, ind => simple_len _ h rfl ind
  | .if_ t b o, h, ind => by
      simp only [WFS] at h
      have h1 := szSL_le b h.2.1 (ind + 1)
      have h2 := szSL_le o h.2.2.1 (ind + 1)
      have h3 := genElse_len ind o
      simp only [szS, genStmt, List.length_cons, List.length_append]
      omega
  | .while_ t b o, h, ind => by
      simp only [WFS] at h
      have h1 := szSL_le b h.2.1 (ind + 1)
      have h2 := szSL_le o h.2.2.1 (ind + 1)
      have h3 := genElse_len ind o
      simp only [szS, genStmt, List.length_cons, List.length_append]
      omega
  | .for_ t it b o, h, ind => by
      simp only [WFS] at h
      have h1 := szSL_le b h.2.2.1 (ind + 1)
      have h2 := szSL_le o h.2.2.2.1 (ind + 1)
      have h3 := genElse_len ind o
      simp only [szS, genStmt, List.length_cons, List.length_append]
      omega
  | .with_ items b, h, ind => by
      simp only [WFS] at h
      have h1 := szSL_le b h.2.2.1 (ind + 1)
      simp only [szS, genStmt, List.length_cons]
      omega
  | .try_ b hs o f, h, ind => by
      simp only [WFS] at h
      obtain ⟨h1, h2, _, h4, h5, _⟩ := h
      have l1 := szSL_le b h1 (ind + 1)
      have l2 := szSL_le hs h2 ind
      have l3 := szSL_le o h4 (ind + 1)
      have l4 := szSL_le f h5 (ind + 1)
      have l5 := genElse_len ind o
      cases f with
      | nil =>
        simp only [szS, genStmt, List.length_cons, List.length_append, List.length_nil, genBody] at l4 ⊢
        omega
      | cons x xs =>
        simp only [szS, genStmt, List.length_cons, List.length_append] at l4 ⊢
        omega
  | .handler t n b, h, ind => by
      simp only [WFS] at h
      have h1 := szSL_le b h.2.2.1 (ind + 1)
      simp only [szS, genStmt, List.length_cons]
      omega
  | .functionDef name po ar va ko ka body decos ret tp, h, ind => by
      simp only [WFS] at h
      have h1 := szSL_le body h.2.2.1 (ind + 1)
      simp only [szS, genStmt, List.length_cons, List.length_append]
      omega
  | .classDef name bases kws body decos tp, h, ind => by
      simp only [WFS] at h
      have h1 := szSL_le body h.2.2.2.2.2.1 (ind + 1)
      simp only [szS, genStmt, List.length_cons, List.length_append]
      omega
  | .delete _, h, ind => simple_len _ h rfl ind
  | .global_ _, h, _ => by simp [WFS] at h
  | .import_ _, h, ind => simple_len _ h rfl ind
  | .importFrom _ _ _, h, ind => simple_len _ h rfl ind
  | .unsupported _, h, _ => by simp [WFS] at h
theorem szSL_le : ∀ (ss : List PyStmt), WFSL ss → ∀ ind, szSL ss ≤ 8 * (genBody ind ss).length + 1
  | [], _, _ => by simp [szSL]
  | s :: ss, h, ind => by
      simp only [WFSL] at h
      have h1 := szS_le s h.1 ind
      have h2 := szSL_le ss h.2 ind
      simp only [szSL, genBody, List.length_append]
      omega
end

/-- **statement layer round trip**: the lines written for a supported module body are read back as that body -/
theorem parseS_genBody (ss : List PyStmt) (h : WFSL ss) (hh : noHandlers ss = true) :
    pyParseS (genBody 0 ss) = some ss := by
  have hfuel : szSL ss ≤ stmtFuel (genBody 0 ss) := by
    have := szSL_le ss h 0
    simp only [stmtFuel]
    omega
  have := block_ok ss h hh 0 (stmtFuel (genBody 0 ss)) hfuel [] (fun l r e => by simp at e)
  simp only [List.append_nil] at this
  simp [pyParseS, this]

/-! ### supported statements are accepted by the generator -/

theorem genOkList_sup (es : List PyExpr) (h : ∀ e ∈ es, Supported e) : genOkList es = true := by
  induction es with
  | nil => rfl
  | cons e es ih => simp [genOkList, wf_genOk e (h e (by simp)).1, ih (fun x hx => h x (by simp [hx]))]

theorem genOkOpt_sup (o : Option PyExpr) (h : SupportedO o) : genOkOpt o = true := by
  cases o with
  | none => rfl
  | some e => simp [genOkOpt, wf_genOk e (h e rfl).1]

theorem hvS :
    hasVisitor cs!"Expr" = true ∧ hasVisitor cs!"Assign" = true ∧ hasVisitor cs!"AugAssign" = true
    ∧ hasVisitor cs!"Return" = true ∧ hasVisitor cs!"Pass" = true ∧ hasVisitor cs!"Break" = true
    ∧ hasVisitor cs!"Continue" = true ∧ hasVisitor cs!"Assert" = true ∧ hasVisitor cs!"Raise" = true
    ∧ hasVisitor cs!"If" = true ∧ hasVisitor cs!"While" = true ∧ hasVisitor cs!"For" = true
    ∧ hasVisitor cs!"With" = true ∧ hasVisitor cs!"Try" = true ∧ hasVisitor cs!"ExceptHandler" = true
    ∧ hasVisitor cs!"FunctionDef" = true ∧ hasVisitor cs!"ClassDef" = true ∧ hasVisitor cs!"arguments" = true := by
  decide

theorem hvS2 :
    hasVisitor cs!"Delete" = true ∧ hasVisitor cs!"Import" = true ∧ hasVisitor cs!"ImportFrom" = true
    ∧ hasVisitor cs!"alias" = true := by
  decide

mutual
theorem wfs_genOk : ∀ (s : PyStmt), WFS s → genOkS s = true
  | .expr e, h => by simp only [WFS] at h; simp [genOkS, hvS, wf_genOk e h.1]
  | .assign ts v, h => by
      simp only [WFS] at h
      simp [genOkS, hvS, genOkList_sup ts h.2.1, wf_genOk v h.2.2.1]
  | .augAssign t op v, h => by
      simp only [WFS] at h
      simp [genOkS, hvS, h.1, wf_genOk t h.2.1.1, wf_genOk v h.2.2.1]
  | .return_ v, h => by simp only [WFS] at h; simp [genOkS, hvS, genOkOpt_sup v h]
  | .pass_, _ => by simp [genOkS, hvS]
  | .break_, _ => by simp [genOkS, hvS]
  | .continue_, _ => by simp [genOkS, hvS]
  | .assert_ t m, h => by simp only [WFS] at h; simp [genOkS, hvS, wf_genOk t h.1.1, genOkOpt_sup m h.2]
  | .raise_ e c, h => by simp only [WFS] at h; simp [genOkS, hvS, genOkOpt_sup e h.1, genOkOpt_sup c h.2.1]
  | .if_ t b o, h => by
      simp only [WFS] at h
      simp [genOkS, hvS, wf_genOk t h.1.1, wfsl_genOk b h.2.1, wfsl_genOk o h.2.2.1]
  | .while_ t b o, h => by
      simp only [WFS] at h
      simp [genOkS, hvS, wf_genOk t h.1.1, wfsl_genOk b h.2.1, wfsl_genOk o h.2.2.1]
  | .for_ t it b o, h => by
      simp only [WFS] at h
      simp [genOkS, hvS, wf_genOk t h.1.1, wf_genOk it h.2.1.1, wfsl_genOk b h.2.2.1, wfsl_genOk o h.2.2.2.1]
  | .with_ items b, h => by
      simp only [WFS] at h
      have : items.all (fun i => genOk i.1 && genOkOpt i.2) = true := by
        apply List.all_eq_true.mpr
        intro i hi
        have := h.2.1 i hi
        simp [wf_genOk i.1 this.1.1, genOkOpt_sup i.2 this.2]
      simp [genOkS, hvS, this, wfsl_genOk b h.2.2.1]
  | .try_ b hs o f, h => by
      simp only [WFS] at h
      obtain ⟨h1, h2, _, h4, h5, _⟩ := h
      simp [genOkS, hvS, wfsl_genOk b h1, wfsl_genOk hs h2, wfsl_genOk o h4, wfsl_genOk f h5]
  | .handler t n b, h => by
      simp only [WFS] at h
      simp [genOkS, hvS, genOkOpt_sup t h.1, wfsl_genOk b h.2.2.1]
  | .functionDef name po ar va ko ka body decos ret tp, h => by
      simp only [WFS] at h
      obtain ⟨_, ⟨p1, p2, p3, p4, p5, _⟩, hb, _, hd, hret, _⟩ := h
      simp [genOkS, hvS, wf_genOkL po p1, wf_genOkL ar p2, wf_genOkO va p3, wf_genOkL ko p4, wf_genOkO ka p5,
        wfsl_genOk body hb, genOkList_sup decos hd, genOkOpt_sup ret hret]
  | .classDef name bases kws body decos tp, h => by
      simp only [WFS] at h
      obtain ⟨_, hb0, _, hk, _, hb, _, hd, _⟩ := h
      simp [genOkS, hvS, wf_genOkL bases hb0, wf_genOkL kws hk, wfsl_genOk body hb, genOkList_sup decos hd]
  | .delete ts, h => by
      simp only [WFS] at h
      have : ts.isEmpty = false := by cases ts <;> simp_all
      simp [genOkS, hvS2, this, genOkList_sup ts h.2]
  | .global_ _, h => by simp [WFS] at h
  | .import_ ns, h => by
      simp only [WFS] at h
      have : ns.isEmpty = false := by cases ns <;> simp_all
      simp [genOkS, hvS2, this]
  | .importFrom m ns _, h => by
      simp only [WFS] at h
      obtain ⟨⟨mod, rfl, _⟩, hne⟩ := h
      have : ns.isEmpty = false := by cases ns <;> simp_all
      simp [genOkS, hvS2, this]
  | .unsupported _, h => by simp [WFS] at h
theorem wfsl_genOk : ∀ (ss : List PyStmt), WFSL ss → genOkBody ss = true
  | [], _ => rfl
  | s :: ss, h => by
      simp only [WFSL] at h
      simp [genOkBody, wfs_genOk s h.1, wfsl_genOk ss h.2]
end

end Genshi.Py

/-
  C13 — the supported trees (`WF`, `WFS`) are inside the domain `leafOK` / `leafOKS` of the leaf
  theorem, so it applies to every program for which faithful regeneration is claimed.
-/
import Genshi.Lemmas.PyLeaves
import Genshi.Lemmas.PyParseS2
namespace Genshi.Py
open Genshi.Gen

theorem startsNum_of_wordNum (t : Str) (h : wordNum t = [.num t]) : startsNum t = true := by
  cases t with
  | nil => simp [wordNum] at h
  | cons c r =>
    simp only [wordNum] at h
    simp only [startsNum]
    split at h
    · assumption
    · simp at h

theorem constOK_leafOK (c : Const) (h : ConstOK c) : constLeafOK c = true := by
  obtain ⟨k, t⟩ := c
  cases k <;> simp only [ConstOK] at h <;> simp only [constLeafOK, Bool.and_eq_true, beq_iff_eq]
  · exact startsNum_of_wordNum t h.1
  · exact ⟨startsNum_of_wordNum t h.1, h.2.2.2⟩
  · exact ⟨startsNum_of_wordNum t h.1, h.2.2.2⟩

theorem isIntLit_eq (e : PyExpr) : isIntLit e = isIntConst e := by
  cases e with
  | const c => obtain ⟨k, t⟩ := c; cases k <;> rfl
  | _ => rfl

mutual
theorem wf_leafOK : ∀ (e : PyExpr), WF e → leafOK e = true
  | .name _, _ => rfl
  | .const c, h => by simp only [WF] at h; simp only [leafOK]; exact constOK_leafOK c h
  | .boolOp _ vs, h => by simp only [WF] at h; simp only [leafOK]; exact wfl_leafOK vs h.2.2.1
  | .binOp l _ r, h => by simp only [WF] at h; simp [leafOK, wf_leafOK l h.2.1, wf_leafOK r h.2.2.1]
  | .unaryOp _ e, h => by simp only [WF] at h; simp [leafOK, wf_leafOK e h.2.1]
  | .lambda po ar va ko ka body, h => by
      simp only [WF] at h
      obtain ⟨h1, h2, h3, h4, h5, h6, _⟩ := h
      simp [leafOK, wfl_leafOK po h1, wfl_leafOK ar h2, wfo_leafOK va h3, wfl_leafOK ko h4, wfo_leafOK ka h5, wf_leafOK body h6]
  | .ifExp t b o, h => by
      simp only [WF] at h; simp [leafOK, wf_leafOK t h.1, wf_leafOK b h.2.1, wf_leafOK o h.2.2.1]
  | .dict items, h => by simp only [WF] at h; simp only [leafOK]; exact wfl_leafOK items h.1
  | .listComp elt gens, h => by simp only [WF] at h; simp [leafOK, wf_leafOK elt h.1, wfl_leafOK gens h.2.2.1]
  | .genExp elt gens, h => by simp only [WF] at h; simp [leafOK, wf_leafOK elt h.1, wfl_leafOK gens h.2.2.1]
  | .yield_ v, h => by simp only [WF] at h; simp only [leafOK]; exact wfo_leafOK v h.1
  | .compare l rest, h => by simp only [WF] at h; simp [leafOK, wf_leafOK l h.1, wfl_leafOK rest h.2.2.1]
  | .call f args kws, h => by
      simp only [WF] at h; simp [leafOK, wf_leafOK f h.1, wfl_leafOK args h.2.2.1, wfl_leafOK kws h.2.2.2.2.1]
  | .attribute v _, h => by
      simp only [WF] at h; simp [leafOK, wf_leafOK v h.1, isIntLit_eq, h.2.2.2]
  | .subscript v s, h => by simp only [WF] at h; simp [leafOK, wf_leafOK v h.1, wf_leafOK s h.2.2.1]
  | .slice l u st, h => by
      simp only [WF] at h; simp [leafOK, wfo_leafOK l h.1, wfo_leafOK u h.2.1, wfo_leafOK st h.2.2.1]
  | .starred e, h => by simp only [WF] at h; simp [leafOK, wf_leafOK e h.1]
  | .list elts, h => by simp only [WF] at h; simp only [leafOK]; exact wfl_leafOK elts h.1
  | .tuple elts, h => by simp only [WF] at h; simp only [leafOK]; exact wfl_leafOK elts h.1
  | .unsupported _, _ => rfl
  | .keyword _ v, h => by simp only [WF] at h; simp [leafOK, wf_leafOK v h.2.1]
  | .comp t it ifs _, h => by
      simp only [WF] at h; simp [leafOK, wf_leafOK t h.1, wf_leafOK it h.2.2.1, wfl_leafOK ifs h.2.2.2.2.1]
  | .param _ ann d, h => by simp only [WF] at h; simp [leafOK, wfo_leafOK ann h.2.1, wfo_leafOK d h.2.2.1]
  | .dictItem k v, h => by simp only [WF] at h; simp [leafOK, wfo_leafOK k h.1, wf_leafOK v h.2.2.1]
  | .cmpRhs _ e, h => by simp only [WF] at h; simp [leafOK, wf_leafOK e h.2.1]
theorem wfl_leafOK : ∀ (es : List PyExpr), WFL es → leafOKL es = true
  | [], _ => rfl
  | e :: es, h => by simp only [WFL] at h; simp [leafOKL, wf_leafOK e h.1, wfl_leafOK es h.2]
theorem wfo_leafOK : ∀ (o : Option PyExpr), WFO o → leafOKO o = true
  | none, _ => rfl
  | some e, h => by simp only [WFO] at h; simp only [leafOKO]; exact wf_leafOK e h
end

theorem supportedO_leafOK (o : Option PyExpr) (h : SupportedO o) : leafOKO o = true := by
  cases o with
  | none => rfl
  | some e => exact wf_leafOK e (h e rfl).1

theorem supportedL_leafOK (es : List PyExpr) (h : ∀ e ∈ es, Supported e) : leafOKL es = true := by
  induction es with
  | nil => rfl
  | cons e r ih => simp [leafOKL, wf_leafOK e (h e (by simp)).1, ih (fun y hy => h y (by simp [hy]))]

theorem items_leafOK (items : List (PyExpr × Option PyExpr)) (h : ∀ i ∈ items, Supported i.1 ∧ SupportedO i.2) :
    leafOKItems items = true := by
  induction items with
  | nil => rfl
  | cons x r ih =>
    obtain ⟨c, v⟩ := x
    have hx := h (c, v) (by simp)
    simp [leafOKItems, wf_leafOK c hx.1.1, supportedO_leafOK v hx.2, ih (fun y hy => h y (by simp [hy]))]

mutual
theorem wfs_leafOKS : ∀ (s : PyStmt), WFS s → leafOKS s = true
  | .expr e, h => by simp only [WFS] at h; simp only [leafOKS]; exact wf_leafOK e h.1
  | .assign ts v, h => by simp only [WFS] at h; simp [leafOKS, supportedL_leafOK ts h.2.1, wf_leafOK v h.2.2.1]
  | .augAssign t _ v, h => by simp only [WFS] at h; simp [leafOKS, wf_leafOK t h.2.1.1, wf_leafOK v h.2.2.1]
  | .return_ v, h => by simp only [WFS] at h; simp only [leafOKS]; exact supportedO_leafOK v h
  | .delete ts, h => by simp only [WFS] at h; simp only [leafOKS]; exact supportedL_leafOK ts h.2
  | .pass_, _ => rfl
  | .break_, _ => rfl
  | .continue_, _ => rfl
  | .assert_ t m, h => by simp only [WFS] at h; simp [leafOKS, wf_leafOK t h.1.1, supportedO_leafOK m h.2]
  | .raise_ e c, h => by simp only [WFS] at h; simp [leafOKS, supportedO_leafOK e h.1, supportedO_leafOK c h.2.1]
  | .global_ _, h => by simp [WFS] at h
  | .import_ _, _ => rfl
  | .importFrom _ _ _, _ => rfl
  | .if_ t b o, h => by
      simp only [WFS] at h; simp [leafOKS, wf_leafOK t h.1.1, wfsl_leafOKB b h.2.1, wfsl_leafOKB o h.2.2.1]
  | .while_ t b o, h => by
      simp only [WFS] at h; simp [leafOKS, wf_leafOK t h.1.1, wfsl_leafOKB b h.2.1, wfsl_leafOKB o h.2.2.1]
  | .for_ t it b o, h => by
      simp only [WFS] at h
      simp [leafOKS, wf_leafOK t h.1.1, wf_leafOK it h.2.1.1, wfsl_leafOKB b h.2.2.1, wfsl_leafOKB o h.2.2.2.1]
  | .with_ items b, h => by
      simp only [WFS] at h; simp [leafOKS, items_leafOK items h.2.1, wfsl_leafOKB b h.2.2.1]
  | .try_ b hs o f, h => by
      simp only [WFS] at h
      simp [leafOKS, wfsl_leafOKB b h.1, wfsl_leafOKB hs h.2.1, wfsl_leafOKB o h.2.2.2.1, wfsl_leafOKB f h.2.2.2.2.1]
  | .handler t n b, h => by
      simp only [WFS] at h; simp [leafOKS, supportedO_leafOK t h.1, h.2.1, wfsl_leafOKB b h.2.2.1]
  | .functionDef _ po ar va ko ka body decos ret _, h => by
      simp only [WFS, ParamsOK] at h
      obtain ⟨_, ⟨h1, h2, h3, h4, h5, _⟩, h6, _, h7, h8, _⟩ := h
      simp [leafOKS, wfl_leafOK po h1, wfl_leafOK ar h2, wfo_leafOK va h3, wfl_leafOK ko h4, wfo_leafOK ka h5,
        wfsl_leafOKB body h6, supportedL_leafOK decos h7, supportedO_leafOK ret h8]
  | .classDef _ bases kws body decos _, h => by
      simp only [WFS] at h
      simp [leafOKS, wfl_leafOK bases h.2.1, wfl_leafOK kws h.2.2.2.1, wfsl_leafOKB body h.2.2.2.2.2.1,
        supportedL_leafOK decos h.2.2.2.2.2.2.2.1]
  | .unsupported _, _ => rfl
theorem wfsl_leafOKB : ∀ (ss : List PyStmt), WFSL ss → leafOKB ss = true
  | [], _ => rfl
  | s :: ss, h => by simp only [WFSL] at h; simp [leafOKB, wfs_leafOKS s h.1, wfsl_leafOKB ss h.2]
end

end Genshi.Py

/-
  Helper lemmas for C08: the filter chain on a forest all of whose elements are in
  one namespace `u` (e.g. XHTML; `u = []` is the namespace-free case): the repaired
  flattener declares `u` as default namespace on every outermost element and
  nowhere else.
-/
import Genshi.Lemmas.OutputTree
namespace Genshi.Output
open Genshi

mutual
  /-- every element in namespace `u`, attributes without namespace or in the XML namespace,
      no namespace events -/
  def uniformNs (u : Str) : Node → Bool
    | .elem t a ks => (t.ns == u) && attrNsOk a && forestUniformNs u ks
    | .leaf e => (leafF e).isSome
  def forestUniformNs (u : Str) : List Node → Bool
    | [] => true
    | n :: ns => uniformNs u n && forestUniformNs u ns
end

/-- the `xmlns` attribute an element outside any declared scope receives -/
def declAttr (u : Str) (inScope : Bool) : FAttrs := if u.isEmpty || inScope then [] else [(xmlns, u)]

mutual
  /-- what reaches the main loop for a tree in namespace `u` -/
  def treeFu (u : Str) (inScope : Bool) : Node → List FEv
    | .elem t a ks =>
        if ks.isEmpty then [.empty t.loc (declAttr u inScope ++ fAttrs a)]
        else .start t.loc (declAttr u inScope ++ fAttrs a) :: (forestFu u true ks ++ [.end_ t.loc])
    | .leaf e => (leafF e).toList
  def forestFu (u : Str) (inScope : Bool) : List Node → List FEv
    | [] => []
    | n :: ns => treeFu u inScope n ++ forestFu u inScope ns
end

/-- default-namespace declarations in scope -/
def scopeB (u : Str) (inScope : Bool) : List (Str × Bool) := if !u.isEmpty && inScope then [(u, true)] else []

def nsSt (u : Str) (inScope : Bool) (E : List (Str × Nat)) : FlatSt := ⟨scopeB u inScope, none, E, []⟩

theorem flatStartCore_uniform (u : Str) (hu : u ≠ xmlNs) (inScope : Bool) (t : QName) (a : AttrList)
    (ht : t.ns = u) (ha : attrNsOk a = true) :
    flatStartCore (scopeB u inScope) none t a =
      some (if u.isEmpty || inScope then [] else [(u, true)], t.loc, declAttr u inScope ++ fAttrs a) := by
  subst ht
  by_cases he : t.ns.isEmpty = true
  · have he' : t.ns = [] := by simpa using he
    have hx : ¬ (([] : Str) = xmlNs) := by decide
    simp [flatStartCore, flatD1, flatD2, he', hx, scopeB, defaultNs, declAttr, flatAttrs_nsOk a ha]
  · cases inScope with
    | true =>
      simp [flatStartCore, flatD1, flatD2, he, hu, scopeB, defaultNs, declAttr, flatAttrs_nsOk a ha]
    | false =>
      have hne : t.ns ≠ [] := by simpa using he
      simp [flatStartCore, flatD1, flatD2, he, hu, scopeB, defaultNs, declAttr, flatAttrs_nsOk a ha, hne, Ne.symm hne]

mutual
  theorem flatten_treeU (u : Str) (hu : u ≠ xmlNs) : ∀ (n : Node) (rest : List QEv) (s : Bool) (E : List (Str × Nat)),
      uniformNs u n = true →
      flatten false (nsSt u s E) (treeQ n ++ rest) = (flatten false (nsSt u s E) rest).map (treeFu u s n ++ ·)
    | .elem t a ks, rest, s, E, h => by
        simp only [uniformNs, Bool.and_eq_true, beq_iff_eq] at h
        obtain ⟨⟨ht, ha⟩, hk⟩ := h
        have hcore := flatStartCore_uniform u hu s t a ht ha
        cases ks with
        | nil =>
          have hs : flatStep false (nsSt u s E) (.empty t a) =
              some (nsSt u s E, [.empty t.loc (declAttr u s ++ fAttrs a)]) := by
            simp only [flatStep, Bool.false_and, Bool.false_eq_true, ↓reduceIte, flatEmptyMiss, nsSt, hcore]
            by_cases hd : (u.isEmpty || s) = true <;> simp [hd]
          simp only [treeQ, List.isEmpty_nil, ↓reduceIte, List.singleton_append, treeFu]
          rw [flatten_cons_some false _ _ _ _ hs]
          cases hf : flatten false (nsSt u s E) rest <;> simp [hf]
        | cons k ks' =>
          by_cases hd : (u.isEmpty || s) = true
          · -- nothing to declare: the state stays as it is
            have hsame : scopeB u true = scopeB u s := by
              simp only [Bool.or_eq_true] at hd
              rcases hd with hd | hd
              · simp [scopeB, hd]
              · simp [hd]
            have hs : flatStep false (nsSt u s E) (.start t a) =
                some (nsSt u true ((t.loc, 0) :: E), [.start t.loc (declAttr u s ++ fAttrs a)]) := by
              simp only [flatStep, Bool.false_and, Bool.false_eq_true, ↓reduceIte, flatStartMiss, nsSt, hcore, hd]
              simp [hsame]
            have he : flatStep false (nsSt u true ((t.loc, 0) :: E)) (.end_ t) = some (nsSt u s E, [.end_ t.loc]) := by
              simp [flatStep, nsSt, hsame]
            simp only [treeQ, List.isEmpty_cons, Bool.false_eq_true, ↓reduceIte, List.cons_append, List.append_assoc,
              List.singleton_append, treeFu]
            rw [flatten_cons_some false _ _ _ _ hs, flatten_forestU u hu (k :: ks') _ _ _ hk,
              flatten_cons_some false _ _ _ _ he]
            cases hf : flatten false (nsSt u s E) rest <;> simp [hf]
          · -- outermost element of namespace `u`: declares it, the declaration ends with the element
            have hd' : u.isEmpty = false ∧ s = false := by simpa using hd
            have hs : flatStep false (nsSt u s E) (.start t a) =
                some (nsSt u true ((t.loc, 1) :: E), [.start t.loc (declAttr u s ++ fAttrs a)]) := by
              simp only [flatStep, Bool.false_and, Bool.false_eq_true, ↓reduceIte, flatStartMiss, nsSt, hcore, hd]
              simp [scopeB, hd'.1, hd'.2]
            have he : flatStep false (nsSt u true ((t.loc, 1) :: E)) (.end_ t) = some (nsSt u s E, [.end_ t.loc]) := by
              simp [flatStep, nsSt, scopeB, hd'.1, hd'.2]
            simp only [treeQ, List.isEmpty_cons, Bool.false_eq_true, ↓reduceIte, List.cons_append, List.append_assoc,
              List.singleton_append, treeFu]
            rw [flatten_cons_some false _ _ _ _ hs, flatten_forestU u hu (k :: ks') _ _ _ hk,
              flatten_cons_some false _ _ _ _ he]
            cases hf : flatten false (nsSt u s E) rest <;> simp [hf]
    | .leaf e, rest, s, E, h => by
        cases e <;> simp [uniformNs, leafF] at h <;>
          simp [treeQ, treeFu, leafF, ofEvent, flatten, flatStep, nsSt] <;>
          cases flatten false ⟨scopeB u s, none, E, []⟩ rest <;> simp
  theorem flatten_forestU (u : Str) (hu : u ≠ xmlNs) : ∀ (ns : List Node) (rest : List QEv) (s : Bool)
      (E : List (Str × Nat)), forestUniformNs u ns = true →
      flatten false (nsSt u s E) (forestQ ns ++ rest) = (flatten false (nsSt u s E) rest).map (forestFu u s ns ++ ·)
    | [], rest, s, E, _ => by simp [forestQ, forestFu]
    | n :: ns, rest, s, E, h => by
        simp only [forestUniformNs, Bool.and_eq_true] at h
        simp only [forestQ, forestFu, List.append_assoc]
        rw [flatten_treeU u hu n _ s E h.1, flatten_forestU u hu ns rest s E h.2]
        cases hf : flatten false (nsSt u s E) rest <;> simp [hf]
end

/-- the filter chain without whitespace filter and doctype option on a forest in namespace `u` -/
theorem filtered_forestU (m : Method) (dropd : Bool) (u : Str) (hu : u ≠ xmlNs) (ns : List Node)
    (hok : okList ns = true) (hns : forestUniformNs u ns = true) :
    filtered m { strip := false, cache := false, doctype := none, dropXmlDecl := dropd } (flattenList ns) =
      some (forestFu u false ns) := by
  have := flatten_forestU u hu ns [] false [] hns
  simp only [List.append_nil, flatten, Option.map_some] at this
  have h0 : nsSt u false [] = flatInit m := by simp [nsSt, scopeB, flatInit]
  rw [h0] at this
  simp [filtered, preFlat, withDoctype, emptyTag_flattenList ns hok, this]

end Genshi.Output

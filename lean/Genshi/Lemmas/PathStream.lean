/-
  Running a matcher over the event stream of a tree: `runOne`, its behaviour on
  appended streams and on `Node.flatten`, and the simulation principle used for
  C17 (two machines whose states are related depth by depth report the same,
  event by event, on every tree).
-/
import Genshi.Model.Core
import Genshi.Lemmas.Core
import Genshi.Model.PathStrategy
namespace Genshi.Path
open Genshi

/-- run a step function over a stream: the per-event results and the final state -/
def runOne {σ : Type} (step : σ → Event → σ × Val) : σ → List Event → List Val × σ
  | s, [] => ([], s)
  | s, e :: es =>
      let r := step s e
      let rest := runOne step r.1 es
      (r.2 :: rest.1, rest.2)

theorem runOne_append {σ : Type} (step : σ → Event → σ × Val) (s : σ) (a b : List Event) :
    runOne step s (a ++ b) =
      ((runOne step s a).1 ++ (runOne step (runOne step s a).2 b).1, (runOne step (runOne step s a).2 b).2) := by
  induction a generalizing s with
  | nil => simp [runOne]
  | cons e es ih => simp [runOne, ih]

/-- depth-indexed simulation between two machines (from depth `d0` on) -/
structure Sim {σ τ : Type} (stepA : σ → Event → σ × Val) (stepB : τ → Event → τ × Val)
    (R : Nat → σ → τ → Prop) (d0 : Nat) : Prop where
  start : ∀ d, d0 ≤ d → ∀ s t tag attrs, R d s t →
    (stepA s (.start tag attrs)).2 = (stepB t (.start tag attrs)).2 ∧
    R (d + 1) (stepA s (.start tag attrs)).1 (stepB t (.start tag attrs)).1
  end_ : ∀ d, d0 ≤ d → ∀ s t tag, R (d + 1) s t →
    (stepA s (.end_ tag)).2 = (stepB t (.end_ tag)).2 ∧
    R d (stepA s (.end_ tag)).1 (stepB t (.end_ tag)).1
  leaf : ∀ d, d0 ≤ d → ∀ s t e, e.isStartEnd = false → R d s t →
    (stepA s e).2 = (stepB t e).2 ∧ R d (stepA s e).1 (stepB t e).1

mutual
  theorem Sim.flatten {σ τ : Type} {stepA : σ → Event → σ × Val} {stepB : τ → Event → τ × Val}
      {R : Nat → σ → τ → Prop} {d0 : Nat} (h : Sim stepA stepB R d0) :
      ∀ (n : Node), n.ok = true → ∀ d, d0 ≤ d → ∀ s t, R d s t →
        (runOne stepA s n.flatten).1 = (runOne stepB t n.flatten).1 ∧
        R d (runOne stepA s n.flatten).2 (runOne stepB t n.flatten).2
    | .elem tag a ks, hok, d, hd, s, t, hr => by
        have h1 := h.start d hd s t tag a hr
        have h2 := Sim.flattenList h ks (by simpa [Node.ok] using hok) (d + 1) (Nat.le_succ_of_le hd) _ _ h1.2
        have h3 := h.end_ d hd _ _ tag h2.2
        simp only [Node.flatten, runOne, runOne_append]
        refine ⟨?_, ?_⟩
        · simp only [List.cons.injEq]
          exact ⟨h1.1, by rw [h2.1]; simp [h3.1]⟩
        · simpa using h3.2
    | .leaf e, hok, d, hd, s, t, hr => by
        have := h.leaf d hd s t e (by simpa [Node.ok] using hok) hr
        simp only [Node.flatten, runOne]
        exact ⟨by simp [this.1], this.2⟩
  theorem Sim.flattenList {σ τ : Type} {stepA : σ → Event → σ × Val} {stepB : τ → Event → τ × Val}
      {R : Nat → σ → τ → Prop} {d0 : Nat} (h : Sim stepA stepB R d0) :
      ∀ (ns : List Node), okList ns = true → ∀ d, d0 ≤ d → ∀ s t, R d s t →
        (runOne stepA s (flattenList ns)).1 = (runOne stepB t (flattenList ns)).1 ∧
        R d (runOne stepA s (flattenList ns)).2 (runOne stepB t (flattenList ns)).2
    | [], _, d, _, s, t, hr => by simp only [Genshi.flattenList, runOne]; exact ⟨trivial, hr⟩
    | n :: ns, hok, d, hd, s, t, hr => by
        simp only [okList, Bool.and_eq_true] at hok
        have h1 := Sim.flatten h n hok.1 d hd s t hr
        have h2 := Sim.flattenList h ns hok.2 d hd _ _ h1.2
        simp only [Genshi.flattenList, runOne_append]
        exact ⟨by rw [h1.1, h2.1], h2.2⟩
end

end Genshi.Path

/-
  Lemmas about the eager model of `_match` (Genshi/Model/Match.lean).
-/
import Genshi.Model.Match
import Genshi.Lemmas.Core
namespace Genshi.Match
open Genshi

variable {σ : Type}

/-- the events of an item list (registrations dropped): what `_flatten` yields -/
def evs : List (Item σ) → List Event
  | [] => []
  | .ev e :: r => e :: evs r
  | .reg _ :: r => evs r

@[simp] theorem evs_nil : evs ([] : List (Item σ)) = [] := rfl
@[simp] theorem evs_ev (e : Event) (r : List (Item σ)) : evs (.ev e :: r) = e :: evs r := rfl
@[simp] theorem evs_reg (t : MT σ) (r : List (Item σ)) : evs (.reg t :: r) = evs r := rfl

theorem evs_append (a b : List (Item σ)) : evs (a ++ b) = evs a ++ evs b := by
  induction a with
  | nil => rfl
  | cons x xs ih => cases x <;> simp [ih]

@[simp] theorem evs_evItems (es : List Event) : evs (evItems es : List (Item σ)) = es := by
  induction es with
  | nil => rfl
  | cons e es ih => simp [evItems] at ih ⊢; exact ih

/-- a template whose test never answers True, in any state -/
def NeverFires (t : MT σ) : Prop := ∀ st e u, (t.step st e u).2 = false

@[simp] theorem test_step (t : MT σ) (e : Event) (u : Bool) : (t.test e u).1.step = t.step := by
  unfold MT.test; split <;> rfl

theorem test_neverFires {t : MT σ} (h : NeverFires t) (e : Event) (u : Bool) :
    (t.test e u).2 = false ∧ NeverFires (t.test e u).1 := by
  constructor
  · unfold MT.test; split
    · rfl
    · exact h _ _ _
  · intro st e' u'; rw [test_step]; exact h st e' u'

theorem scan_neverFires (e : Event) (start : Nat) (end_ : Option Nat) :
    ∀ (i : Nat) (mts : List (MT σ)), (∀ t ∈ mts, NeverFires t) →
      (scan e start end_ i mts).2 = none ∧ ∀ t ∈ (scan e start end_ i mts).1, NeverFires t := by
  intro i mts
  induction mts generalizing i with
  | nil => intro _; simp [scan]
  | cons t ts ih =>
    intro h
    have ht := h t (by simp)
    have hts : ∀ x ∈ ts, NeverFires x := fun x hx => h x (by simp [hx])
    have := ih (i + 1) hts
    unfold scan
    by_cases hw : inWindow start end_ i = true
    · simp only [hw, ↓reduceIte]
      have h2 := test_neverFires ht e false
      simp only [h2.1]
      refine ⟨this.1, ?_⟩
      intro x hx
      simp at hx
      rcases hx with rfl | hx
      · exact h2.2
      · exact this.2 x hx
    · simp only [hw]
      refine ⟨this.1, ?_⟩
      intro x hx
      simp at hx
      rcases hx with rfl | hx
      · exact ht
      · exact this.2 x hx

theorem scanEnd_neverFires (e : Event) (start : Nat) (end_ : Option Nat) :
    ∀ (i : Nat) (mts : List (MT σ)), (∀ t ∈ mts, NeverFires t) →
      ∀ t ∈ scanEnd e start end_ i mts, NeverFires t := by
  intro i mts
  induction mts generalizing i with
  | nil => intro _ t ht; simp [scanEnd] at ht
  | cons t ts ih =>
    intro h x hx
    unfold scanEnd at hx
    simp at hx
    rcases hx with rfl | hx
    · split
      · exact (test_neverFires (h t (by simp)) e false).2
      · exact h t (by simp)
    · exact ih (i + 1) (fun y hy => h y (by simp [hy])) x hx

theorem emit_some {e : Event} {r : Option (List (MT σ) × List Event)} {q : List (MT σ) × List Event}
    (h : emit e r = some q) : ∃ p, r = some p ∧ q = (p.1, e :: p.2) := by
  cases r with
  | none => simp [emit] at h
  | some p => simp [emit] at h; exact ⟨p, rfl, h.symm⟩

/-- **Pass-through**: when no template ever fires, `_match` yields the stream unchanged. -/
theorem run_neverFires : ∀ (f start : Nat) (end_ : Option Nat) (items : List (Item σ)) (mts : List (MT σ))
    (r : List (MT σ) × List Event),
    (∀ t ∈ mts, NeverFires t) → (∀ t, Item.reg t ∈ items → NeverFires t) →
    run f start end_ items mts = some r → r.2 = evs items ∧ ∀ t ∈ r.1, NeverFires t := by
  intro f
  induction f with
  | zero => intro start end_ items mts r _ _ h; simp [run] at h
  | succ f ih =>
    intro start end_ items mts r hm hi h
    cases items with
    | nil => simp [run] at h; subst h; exact ⟨rfl, hm⟩
    | cons it rest =>
      cases it with
      | reg t =>
        simp only [run] at h
        have := ih start end_ rest (mts ++ [t]) r
          (by intro x hx; simp at hx; rcases hx with hx | rfl
              · exact hm x hx
              · exact hi x (by simp))
          (by intro x hx; exact hi x (by simp [hx])) h
        simpa using this
      | ev e =>
        have hi' : ∀ t, Item.reg t ∈ rest → NeverFires t := fun x hx => hi x (by simp [hx])
        simp only [run] at h
        by_cases hS : isStart e = true
        · simp only [hS, ↓reduceIte] at h
          have hs := scan_neverFires e start end_ 0 mts hm
          revert h
          generalize scan e start end_ 0 mts = sc at hs
          obtain ⟨m1, hit⟩ := sc
          simp only at hs
          obtain ⟨h1, h2⟩ := hs
          subst h1
          simp only
          intro h
          obtain ⟨q, hr, rfl⟩ := emit_some h
          have := ih start end_ rest m1 q h2 hi' hr
          simp [this.1]
          exact this.2
        · simp only [hS] at h
          by_cases hE : isEnd e = true
          · simp only [hE, ↓reduceIte] at h
            obtain ⟨q, hr, rfl⟩ := emit_some h
            have := ih start end_ rest _ q (scanEnd_neverFires _ start end_ 0 mts hm) hi' hr
            simp [this.1]
            exact this.2
          · simp only [hE] at h
            obtain ⟨q, hr, rfl⟩ := emit_some h
            have := ih start end_ rest mts q hm hi' hr
            simp [this.1]
            exact this.2

end Genshi.Match

namespace Genshi.Match
open Genshi
variable {σ : Type}

/-! ### what the filter never changes in a template: everything but the matcher state,
    the retired flag and the ghost counter -/

def Shape (t t' : MT σ) : Prop :=
  t'.step = t.step ∧ t'.body = t.body ∧ t'.once = t.once ∧ t'.recursive = t.recursive ∧ t'.buffered = t.buffered

theorem Shape.refl (t : MT σ) : Shape t t := ⟨rfl, rfl, rfl, rfl, rfl⟩

theorem Shape.trans {a b c : MT σ} (h1 : Shape a b) (h2 : Shape b c) : Shape a c := by
  obtain ⟨a1, a2, a3, a4, a5⟩ := h1
  obtain ⟨b1, b2, b3, b4, b5⟩ := h2
  exact ⟨b1.trans a1, b2.trans a2, b3.trans a3, b4.trans a4, b5.trans a5⟩

theorem test_shape (t : MT σ) (e : Event) (u : Bool) : Shape t (t.test e u).1 := by
  unfold MT.test; split
  · exact Shape.refl t
  · exact ⟨rfl, rfl, rfl, rfl, rfl⟩

theorem retire_shape (t : MT σ) : Shape t t.retire := ⟨rfl, rfl, rfl, rfl, rfl⟩

/-- a property of templates that only reads the unchanging fields -/
def Static (P : MT σ → Prop) : Prop := ∀ t t', Shape t t' → P t → P t'

theorem scan_forall {P : MT σ → Prop} (hP : Static P) (e : Event) (start : Nat) (end_ : Option Nat) :
    ∀ (i : Nat) (mts : List (MT σ)), (∀ t ∈ mts, P t) → ∀ t ∈ (scan e start end_ i mts).1, P t := by
  intro i mts
  induction mts generalizing i with
  | nil => intro _ t ht; simp [scan] at ht
  | cons t ts ih =>
    intro h x hx
    have hts : ∀ y ∈ ts, P y := fun y hy => h y (by simp [hy])
    unfold scan at hx
    by_cases hw : inWindow start end_ i = true
    · simp only [hw, ↓reduceIte] at hx
      by_cases hf : (t.test e false).2 = true
      · simp only [hf, ↓reduceIte, List.mem_cons] at hx
        rcases hx with rfl | hx
        · exact hP t _ ⟨(test_shape t e false).1, (test_shape t e false).2.1, (test_shape t e false).2.2.1,
            (test_shape t e false).2.2.2.1, (test_shape t e false).2.2.2.2⟩ (h t (by simp))
        · exact hts x hx
      · simp only [hf, Bool.false_eq_true, ↓reduceIte, List.mem_cons] at hx
        rcases hx with rfl | hx
        · exact hP t _ (test_shape t e false) (h t (by simp))
        · exact ih (i + 1) hts x hx
    · simp only [hw, Bool.false_eq_true, ↓reduceIte, List.mem_cons] at hx
      rcases hx with rfl | hx
      · exact h _ (by simp)
      · exact ih (i + 1) hts x hx

theorem scanEnd_forall {P : MT σ → Prop} (hP : Static P) (e : Event) (start : Nat) (end_ : Option Nat) :
    ∀ (i : Nat) (mts : List (MT σ)), (∀ t ∈ mts, P t) → ∀ t ∈ scanEnd e start end_ i mts, P t := by
  intro i mts
  induction mts generalizing i with
  | nil => intro _ t ht; simp [scanEnd] at ht
  | cons t ts ih =>
    intro h x hx
    unfold scanEnd at hx
    simp only [List.mem_cons] at hx
    rcases hx with rfl | hx
    · split
      · exact hP t _ (test_shape t e false) (h t (by simp))
      · exact h t (by simp)
    · exact ih (i + 1) (fun y hy => h y (by simp [hy])) x hx

theorem updRange_forall {P : MT σ → Prop} (hP : Static P) (e : Event) (lo hi : Nat) :
    ∀ (i : Nat) (mts : List (MT σ)), (∀ t ∈ mts, P t) → ∀ t ∈ updRange e lo hi i mts, P t := by
  intro i mts
  induction mts generalizing i with
  | nil => intro _ t ht; simp [updRange] at ht
  | cons t ts ih =>
    intro h x hx
    unfold updRange at hx
    simp only [List.mem_cons] at hx
    rcases hx with rfl | hx
    · split
      · exact hP t _ (test_shape t e true) (h t (by simp))
      · exact h t (by simp)
    · exact ih (i + 1) (fun y hy => h y (by simp [hy])) x hx

theorem retireAt_forall {P : MT σ → Prop} (hP : Static P) :
    ∀ (i : Nat) (mts : List (MT σ)), (∀ t ∈ mts, P t) → ∀ t ∈ retireAt i mts, P t := by
  intro i mts
  induction mts generalizing i with
  | nil => intro _ t ht; simp [retireAt] at ht
  | cons t ts ih =>
    intro h x hx
    cases i with
    | zero =>
      simp only [retireAt, List.mem_cons] at hx
      rcases hx with rfl | hx
      · exact hP t _ (retire_shape t) (h t (by simp))
      · exact h x (by simp [hx])
    | succ i =>
      simp only [retireAt, List.mem_cons] at hx
      rcases hx with rfl | hx
      · exact h _ (by simp)
      · exact ih i (fun y hy => h y (by simp [hy])) x hx

theorem static_neverFires : Static (NeverFires (σ := σ)) := by
  intro t t' hs h st e u; rw [hs.1]; exact h st e u

end Genshi.Match

/-
  C18 — model of `genshi.core.Markup` (escape / unescape / operators) in both
  implementations (`genshi/core.py`, `genshi/_speedups.c`) and of `Attrs`.

  The model mirrors the code as it is:
    * `escapePy`   = the `str.replace` chain of `Markup.escape` in core.py
    * `escapeC`    = the two-pass UTF-8 byte scan of `_speedups.c` (length
                     pre-computation, early copy of the rest once every special
                     byte has been replaced)
    * `unescape`   = the four `replace` calls, in the order of the code
  The specification (`escapeSpec`) is the character-wise map.
-/
import Genshi.Model.Str
namespace Genshi.Escape
open Genshi.Str

def amp : List Char := ['&', 'a', 'm', 'p', ';']
def lt  : List Char := ['&', 'l', 't', ';']
def gt  : List Char := ['&', 'g', 't', ';']
def qt  : List Char := ['&', '#', '3', '4', ';']

/-- specification: what one character becomes -/
def escC (q : Bool) (c : Char) : List Char :=
  if c = '&' then amp
  else if c = '<' then lt
  else if c = '>' then gt
  else if c = '"' then (if q then qt else [c])
  else [c]

def escapeSpec (q : Bool) (s : List Char) : List Char := s.flatMap (escC q)

/-- `Markup.escape` in core.py (string branch). -/
def escapePy (q : Bool) (s : List Char) : List Char :=
  let t := replace ['>'] gt (replace ['<'] lt (replace ['&'] amp s))
  if q then replace ['"'] qt t else t

/-- `Markup.unescape` (core.py and `Markup_unescape` in C): same order. -/
def unescape (s : List Char) : List Char :=
  replace amp ['&'] (replace lt ['<'] (replace gt ['>'] (replace qt ['"'] s)))

/-- recogniser of well-formed escaped text: no raw `<` `>`, and every `&` starts one of
    the four entities `escape` writes (what any reader of the output relies on).
    `skip` = characters of the current entity still to be passed over. -/
def entWf : Nat → List Char → Bool
  | _, [] => true
  | k + 1, _ :: cs => entWf k cs
  | 0, c :: cs =>
      if c = '&' then
        if amp.isPrefixOf (c :: cs) then entWf 4 cs
        else if lt.isPrefixOf (c :: cs) then entWf 3 cs
        else if gt.isPrefixOf (c :: cs) then entWf 3 cs
        else if qt.isPrefixOf (c :: cs) then entWf 4 cs
        else false
      else if c = '<' ∨ c = '>' then false
      else entWf 0 cs

/-! ### UTF-8 (bytes as `Nat` < 256) -/

def utf8Char (c : Char) : List Nat :=
  let v := c.toNat
  if v < 0x80 then [v]
  else if v < 0x800 then [0xC0 + v / 64, 0x80 + v % 64]
  else if v < 0x10000 then [0xE0 + v / 4096, 0x80 + (v / 64) % 64, 0x80 + v % 64]
  else [0xF0 + v / 262144, 0x80 + (v / 4096) % 64, 0x80 + (v / 64) % 64, 0x80 + v % 64]

def utf8 (s : List Char) : List Nat := s.flatMap utf8Char

/-! ### the C scan -/

def bAmp : List Nat := [38, 97, 109, 112, 59]
def bLt  : List Nat := [38, 108, 116, 59]
def bGt  : List Nat := [38, 103, 116, 59]
def bQt  : List Nat := [38, 35, 51, 52, 59]

/-- first pass: `(len, inn)` -/
def cCount (q : Bool) : List Nat → Nat × Nat
  | [] => (0, 0)
  | b :: bs =>
      let (len, inn) := cCount q bs
      if b = 38 then (len + 5, inn + 1)
      else if b = 34 then (if q then (len + 5, inn + 1) else (len + 1, inn))
      else if b = 60 ∨ b = 62 then (len + 4, inn + 1)
      else (len + 1, inn)

/-- second pass with the `outn == inn` shortcut -/
def cLoop (q : Bool) (inn : Nat) : Nat → List Nat → List Nat
  | _, [] => []
  | outn, b :: bs =>
      if outn = inn then b :: bs
      else if b = 38 then bAmp ++ cLoop q inn (outn + 1) bs
      else if b = 34 then (if q then bQt ++ cLoop q inn (outn + 1) bs else b :: cLoop q inn outn bs)
      else if b = 60 then bLt ++ cLoop q inn (outn + 1) bs
      else if b = 62 then bGt ++ cLoop q inn (outn + 1) bs
      else b :: cLoop q inn outn bs

/-- `escape()` of `_speedups.c` on the UTF-8 bytes: the bytes written and the
    size of the buffer that was allocated for them. -/
def escapeCBytes (q : Bool) (bs : List Nat) : List Nat × Nat :=
  let (len, inn) := cCount q bs
  if inn = 0 then (bs, bs.length) else (cLoop q inn 0 bs, len)

/-- what one byte becomes (specification on bytes) -/
def escB (q : Bool) (b : Nat) : List Nat :=
  if b = 38 then bAmp
  else if b = 60 then bLt
  else if b = 62 then bGt
  else if b = 34 then (if q then bQt else [b])
  else [b]

/-! ### operands and operators -/

/-- An operand of a `Markup` operator: an ordinary string, a `Markup`
    instance, or an object whose `__html__()` returns the given text. -/
inductive Opnd where
  | plain : List Char → Opnd
  | safe  : List Char → Opnd
  | html  : List Char → Opnd
  deriving Repr, DecidableEq

/-- `escape(x, quotes)` on an operand, parametric in the string escaper. -/
def escOpnd (esc : Bool → List Char → List Char) (q : Bool) : Opnd → List Char
  | .plain s => esc q s
  | .safe s => s
  | .html s => s

/-- `str(x)` of an operand as `%s` / `join` see it after escaping. -/
def Opnd.isSafe : Opnd → Bool
  | .plain _ => false
  | _ => true

/-- `Markup.__add__` : result is always Markup -/
def mAdd (esc : Bool → List Char → List Char) (self : List Char) (o : Opnd) : List Char :=
  self ++ escOpnd esc true o

/-- `Markup.__radd__` -/
def mRadd (esc : Bool → List Char → List Char) (self : List Char) (o : Opnd) : List Char :=
  escOpnd esc true o ++ self

def mMul (self : List Char) : Nat → List Char
  | 0 => []
  | n + 1 => self ++ mMul self n

def mJoin (esc : Bool → List Char → List Char) (sep : List Char) (q : Bool) (xs : List Opnd) : List Char :=
  Str.join sep (xs.map (escOpnd esc q))

/-- pieces of a `%`-format string in the supported fragment -/
inductive Piece where
  | lit : List Char → Piece
  | pct : Piece                 -- `%%`
  | arg : Piece                 -- `%s`
  | key : List Char → Piece     -- `%(k)s`
  deriving Repr, DecidableEq

/-- read `k)s` after `%(`; `none` = outside the fragment -/
def takeKey : List Char → List Char → Option (List Char × List Char)
  | [], _ => none
  | ')' :: 's' :: rest, acc => some (acc.reverse, rest)
  | ')' :: _, _ => none
  | c :: rest, acc => if c = '(' then none else takeKey rest (c :: acc)

/-- parse a format string; `none` = uses a conversion outside `%s %% %(k)s` -/
def parseFmt : Nat → List Char → List Char → Option (List Piece)
  | 0, _, _ => none
  | _ + 1, [], acc => some (if acc.isEmpty then [] else [.lit acc.reverse])
  | fuel + 1, '%' :: rest, acc =>
      let pre := if acc.isEmpty then [] else [Piece.lit acc.reverse]
      match rest with
      | '%' :: r => (parseFmt fuel r []).map (pre ++ [.pct] ++ ·)
      | 's' :: r => (parseFmt fuel r []).map (pre ++ [.arg] ++ ·)
      | '(' :: r =>
          match takeKey r [] with
          | some (k, r') => (parseFmt fuel r' []).map (pre ++ [.key k] ++ ·)
          | none => none
      | _ => none
  | fuel + 1, c :: rest, acc => parseFmt fuel rest (c :: acc)

inductive FmtErr where
  | unsupported  -- outside the modelled fragment
  | typeError    -- wrong number of positional arguments / mapping required
  | keyError
  deriving Repr, DecidableEq

/-- positional formatting: consume `args` left to right -/
def fmtPos : List Piece → List (List Char) → Except FmtErr (List Char)
  | [], [] => .ok []
  | [], _ :: _ => .error .typeError
  | .lit s :: ps, as => (fmtPos ps as).map (s ++ ·)
  | .pct :: ps, as => (fmtPos ps as).map ('%' :: ·)
  | .arg :: _, [] => .error .typeError
  | .arg :: ps, a :: as => (fmtPos ps as).map (a ++ ·)
  | .key _ :: _, _ => .error .typeError

def lookupKey (k : List Char) : List (List Char × List Char) → Option (List Char)
  | [] => none
  | (k', v) :: rest => if k = k' then some v else lookupKey k rest

def fmtMap : List Piece → List (List Char × List Char) → Except FmtErr (List Char)
  | [], _ => .ok []
  | .lit s :: ps, m => (fmtMap ps m).map (s ++ ·)
  | .pct :: ps, m => (fmtMap ps m).map ('%' :: ·)
  | .arg :: _, _ => .error .unsupported   -- `'%s' % {..}` prints the dict: outside the fragment
  | .key k :: ps, m =>
      match lookupKey k m with
      | none => .error .keyError
      | some v => (fmtMap ps m).map (v ++ ·)

inductive ModArg where
  | one : Opnd → ModArg
  | tup : List Opnd → ModArg
  | map : List (List Char × Opnd) → ModArg
  deriving Repr

/-- `Markup.__mod__` on the fragment (mapping, tuple, single string) -/
def mMod (esc : Bool → List Char → List Char) (fmt : List Char) (a : ModArg) :
    Except FmtErr (List Char) :=
  match parseFmt (fmt.length + 1) fmt [] with
  | none => .error .unsupported
  | some ps =>
    match a with
    | .one o => fmtPos ps [escOpnd esc true o]
    | .tup os => fmtPos ps (os.map (escOpnd esc true))
    | .map kvs => fmtMap ps (kvs.map fun (k, o) => (k, escOpnd esc true o))

/-! ### Attrs -/

abbrev Name := List Char
abbrev Attrs := List (Name × List Char)

def Attrs.has (a : Attrs) (n : Name) : Bool := a.any (fun p => p.1 == n)

def Attrs.get (a : Attrs) (n : Name) : Option (List Char) :=
  match a with
  | [] => none
  | (k, v) :: rest => if k = n then some v else Attrs.get rest n

/-- `dict([...])` lookup: the last pair for a key wins -/
def lastVal (n : Name) : List (Name × List Char) → Option (List Char)
  | [] => none
  | (k, v) :: rest =>
      match lastVal n rest with
      | some w => some w
      | none => if k = n then some v else none

/-- `remove = set([an for an, av in attrs if av is None])` -/
def orRemove (attrs : List (Name × Option (List Char))) : List Name :=
  attrs.filterMap fun p => if p.2.isNone then some p.1 else none

/-- `replace = dict([(an, av) for an, av in attrs if an in self and av is not None])` -/
def orRepl (self : Attrs) (attrs : List (Name × Option (List Char))) : List (Name × List Char) :=
  attrs.filterMap fun p =>
    match p.2 with
    | some v => if self.has p.1 then some (p.1, v) else none
    | none => none

/-- `[(sn, replace.get(sn, sv)) for sn, sv in self if sn not in remove]` -/
def orKept (self : Attrs) (attrs : List (Name × Option (List Char))) : Attrs :=
  self.filterMap fun p =>
    if (orRemove attrs).contains p.1 then none
    else some (p.1, (lastVal p.1 (orRepl self attrs)).getD p.2)

/-- the inner `for … else` of `Attrs.__or__`: overwrite the value at the first
    occurrence of the name, or append -/
def upsert (n : Name) (v : List Char) : Attrs → Attrs
  | [] => [(n, v)]
  | (k, w) :: rest => if k = n then (n, v) :: rest else (k, w) :: upsert n v rest

/-- one iteration of the `new` loop -/
def orNewStep (self : Attrs) (remove : List Name) (acc : Attrs) (p : Name × Option (List Char)) : Attrs :=
  match p.2 with
  | some v => if self.has p.1 || remove.contains p.1 then acc else upsert p.1 v acc
  | none => acc

/-- the `new` list built by the loop in `Attrs.__or__` -/
def orNew (self : Attrs) (attrs : List (Name × Option (List Char))) : Attrs :=
  attrs.foldl (orNewStep self (orRemove attrs)) []

/-- `Attrs.__or__` exactly as the comprehensions and the loop in core.py -/
def Attrs.or (self : Attrs) (attrs : List (Name × Option (List Char))) : Attrs :=
  orKept self attrs ++ orNew self attrs

/-- `Attrs.__sub__` -/
def Attrs.sub (self : Attrs) (names : List Name) : Attrs :=
  self.filter fun (n, _) => !names.contains n

end Genshi.Escape

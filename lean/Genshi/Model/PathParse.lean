/-
  genshi/path.py `PathParser`: the tokenizer regex and the recursive-descent
  parser, function by function, including its habit of never consuming the last
  token (`at_end` is "position = last index").  The tables the code is driven
  by (`_TOKENS`, `_operator_map`, `_function_map`, `_nodetest_map`) come from
  `Genshi/Gen/Path.lean`, regenerated from the code on every run.

  All functions are fuel-structural so that `decide` evaluates them.
-/
import Genshi.Model.Path
import Genshi.Gen.Path
namespace Genshi.Path
open Genshi

/-! ## Tokenizer -/

/-- Python's `\s` restricted to ASCII (the driver answers `unmodelled` for non-ASCII
    characters outside string literals) -/
def isReSpace (c : Char) : Bool :=
  c == ' ' || c == '\t' || c == '\n' || c == '\r' || c == '\x0b' || c == '\x0c' ||
  c == '\x1c' || c == '\x1d' || c == '\x1e' || c == '\x1f'

/-- first characters of `_TOKENS`: excluded from names -/
def tokenHeads : List Char := Gen.Path.tokens.filterMap List.head?

def isNameChar (c : Char) : Bool := !(tokenHeads.contains c) && !isReSpace c

/-- `[^q]*q` after an opening quote: the body and the rest after the closing quote -/
def spanQuote (q : Char) : Str → Option (Str × Str)
  | [] => none
  | c :: cs => if c == q then some ([], cs) else
      match spanQuote q cs with
      | some (b, r) => some (c :: b, r)
      | none => none

def firstToken (s : Str) : List Str → Option Str
  | [] => none
  | t :: ts => if t.isPrefixOf s then some t else firstToken s ts

/-- one step of `findall`: the token matched at the head of `s` (none for whitespace or a
    skipped character) and the number of characters consumed -/
def tokStep (s : Str) : Option Str × Nat :=
  match s with
  | [] => (none, 0)
  | c :: cs =>
    let dq := if c == '"' then spanQuote '"' cs else none
    match dq with
    | some (b, _) => (some ('"' :: b ++ ['"']), b.length + 2)
    | none =>
    let sq := if c == '\'' then spanQuote '\'' cs else none
    match sq with
    | some (b, _) => (some ('\'' :: b ++ ['\'']), b.length + 2)
    | none =>
    -- (?:\d+)?\.\d+
    let ds := s.takeWhile XNum.isDigit
    let num : Option Str :=
      match s.drop ds.length with
      | '.' :: r =>
          let fr := r.takeWhile XNum.isDigit
          if fr.isEmpty then none else some (ds ++ '.' :: fr)
      | _ => none
    match num with
    | some n => (some n, n.length)
    | none =>
    match firstToken s Gen.Path.tokens with
    | some t => (some t, t.length)
    | none =>
    let nm := s.takeWhile isNameChar
    if !nm.isEmpty then (some nm, nm.length)
    else
      let ws := s.takeWhile isReSpace
      if !ws.isEmpty then (none, ws.length) else (none, 1)

def tokenizeAux : Nat → Str → List Str
  | 0, _ => []
  | _, [] => []
  | fuel + 1, s =>
      let (t, n) := tokStep s
      let rest := tokenizeAux fuel (s.drop (max n 1))
      match t with
      | some t => t :: rest
      | none => rest

def tokenize (s : Str) : List Str := tokenizeAux (s.length + 1) s

/-! ## Parser -/

/-! class names of path.py as character lists (`"…".toList` does not reduce under `decide`) -/
def cBooleanFunction : Str := ['B', 'o', 'o', 'l', 'e', 'a', 'n', 'F', 'u', 'n', 'c', 't', 'i', 'o', 'n']
def cCeilingFunction : Str := ['C', 'e', 'i', 'l', 'i', 'n', 'g', 'F', 'u', 'n', 'c', 't', 'i', 'o', 'n']
def cCommentNodeTest : Str := ['C', 'o', 'm', 'm', 'e', 'n', 't', 'N', 'o', 'd', 'e', 'T', 'e', 's', 't']
def cConcatFunction : Str := ['C', 'o', 'n', 'c', 'a', 't', 'F', 'u', 'n', 'c', 't', 'i', 'o', 'n']
def cContainsFunction : Str := ['C', 'o', 'n', 't', 'a', 'i', 'n', 's', 'F', 'u', 'n', 'c', 't', 'i', 'o', 'n']
def cEqualsOperator : Str := ['E', 'q', 'u', 'a', 'l', 's', 'O', 'p', 'e', 'r', 'a', 't', 'o', 'r']
def cFalseFunction : Str := ['F', 'a', 'l', 's', 'e', 'F', 'u', 'n', 'c', 't', 'i', 'o', 'n']
def cFloorFunction : Str := ['F', 'l', 'o', 'o', 'r', 'F', 'u', 'n', 'c', 't', 'i', 'o', 'n']
def cGreaterThanOperator : Str := ['G', 'r', 'e', 'a', 't', 'e', 'r', 'T', 'h', 'a', 'n', 'O', 'p', 'e', 'r', 'a', 't', 'o', 'r']
def cGreaterThanOrEqualOperator : Str := ['G', 'r', 'e', 'a', 't', 'e', 'r', 'T', 'h', 'a', 'n', 'O', 'r', 'E', 'q', 'u', 'a', 'l', 'O', 'p', 'e', 'r', 'a', 't', 'o', 'r']
def cLessThanOperator : Str := ['L', 'e', 's', 's', 'T', 'h', 'a', 'n', 'O', 'p', 'e', 'r', 'a', 't', 'o', 'r']
def cLessThanOrEqualOperator : Str := ['L', 'e', 's', 's', 'T', 'h', 'a', 'n', 'O', 'r', 'E', 'q', 'u', 'a', 'l', 'O', 'p', 'e', 'r', 'a', 't', 'o', 'r']
def cLocalNameFunction : Str := ['L', 'o', 'c', 'a', 'l', 'N', 'a', 'm', 'e', 'F', 'u', 'n', 'c', 't', 'i', 'o', 'n']
def cMatchesFunction : Str := ['M', 'a', 't', 'c', 'h', 'e', 's', 'F', 'u', 'n', 'c', 't', 'i', 'o', 'n']
def cNameFunction : Str := ['N', 'a', 'm', 'e', 'F', 'u', 'n', 'c', 't', 'i', 'o', 'n']
def cNamespaceUriFunction : Str := ['N', 'a', 'm', 'e', 's', 'p', 'a', 'c', 'e', 'U', 'r', 'i', 'F', 'u', 'n', 'c', 't', 'i', 'o', 'n']
def cNodeTest : Str := ['N', 'o', 'd', 'e', 'T', 'e', 's', 't']
def cNormalizeSpaceFunction : Str := ['N', 'o', 'r', 'm', 'a', 'l', 'i', 'z', 'e', 'S', 'p', 'a', 'c', 'e', 'F', 'u', 'n', 'c', 't', 'i', 'o', 'n']
def cNotEqualsOperator : Str := ['N', 'o', 't', 'E', 'q', 'u', 'a', 'l', 's', 'O', 'p', 'e', 'r', 'a', 't', 'o', 'r']
def cNotFunction : Str := ['N', 'o', 't', 'F', 'u', 'n', 'c', 't', 'i', 'o', 'n']
def cNumberFunction : Str := ['N', 'u', 'm', 'b', 'e', 'r', 'F', 'u', 'n', 'c', 't', 'i', 'o', 'n']
def cProcessingInstructionNodeTest : Str := ['P', 'r', 'o', 'c', 'e', 's', 's', 'i', 'n', 'g', 'I', 'n', 's', 't', 'r', 'u', 'c', 't', 'i', 'o', 'n', 'N', 'o', 'd', 'e', 'T', 'e', 's', 't']
def cRoundFunction : Str := ['R', 'o', 'u', 'n', 'd', 'F', 'u', 'n', 'c', 't', 'i', 'o', 'n']
def cStartsWithFunction : Str := ['S', 't', 'a', 'r', 't', 's', 'W', 'i', 't', 'h', 'F', 'u', 'n', 'c', 't', 'i', 'o', 'n']
def cStringLengthFunction : Str := ['S', 't', 'r', 'i', 'n', 'g', 'L', 'e', 'n', 'g', 't', 'h', 'F', 'u', 'n', 'c', 't', 'i', 'o', 'n']
def cSubstringAfterFunction : Str := ['S', 'u', 'b', 's', 't', 'r', 'i', 'n', 'g', 'A', 'f', 't', 'e', 'r', 'F', 'u', 'n', 'c', 't', 'i', 'o', 'n']
def cSubstringBeforeFunction : Str := ['S', 'u', 'b', 's', 't', 'r', 'i', 'n', 'g', 'B', 'e', 'f', 'o', 'r', 'e', 'F', 'u', 'n', 'c', 't', 'i', 'o', 'n']
def cSubstringFunction : Str := ['S', 'u', 'b', 's', 't', 'r', 'i', 'n', 'g', 'F', 'u', 'n', 'c', 't', 'i', 'o', 'n']
def cTextNodeTest : Str := ['T', 'e', 'x', 't', 'N', 'o', 'd', 'e', 'T', 'e', 's', 't']
def cTranslateFunction : Str := ['T', 'r', 'a', 'n', 's', 'l', 'a', 't', 'e', 'F', 'u', 'n', 'c', 't', 'i', 'o', 'n']
def cTrueFunction : Str := ['T', 'r', 'u', 'e', 'F', 'u', 'n', 'c', 't', 'i', 'o', 'n']

inductive PErr where
  | syntax       -- PathSyntaxError
  | index        -- IndexError (running off the token list)
  | type         -- TypeError (wrong number of arguments for a function / node type)
  | key          -- KeyError (`_operator_map[token]`)
  | attribute    -- AttributeError (`MatchesFunction.flag_map`) -- reported as TypeError by CPython here
  | fuel         -- the model ran out of fuel (driver: `unmodelled`)
  | unmodelled   -- a construct the AST cannot represent (`concat()` with no argument)
  deriving DecidableEq, Repr, Inhabited


instance {ε α : Type} [DecidableEq ε] [DecidableEq α] : DecidableEq (Except ε α) := fun a b =>
  match a, b with
  | .ok x, .ok y => if h : x = y then isTrue (by rw [h]) else isFalse (by intro h'; cases h'; exact h rfl)
  | .error x, .error y => if h : x = y then isTrue (by rw [h]) else isFalse (by intro h'; cases h'; exact h rfl)
  | .ok _, .error _ => isFalse (by intro h; cases h)
  | .error _, .ok _ => isFalse (by intro h; cases h)

def cur (ts : List Str) (pos : Nat) : Except PErr Str :=
  match ts[pos]? with
  | some t => .ok t
  | none => .error .index

def next (ts : List Str) (pos : Nat) : Except PErr (Str × Nat) :=
  match ts[pos + 1]? with
  | some t => .ok (t, pos + 1)
  | none => .error .index

def atEnd (ts : List Str) (pos : Nat) : Bool := pos + 1 == ts.length

def peek (ts : List Str) (pos : Nat) : Except PErr (Option Str) :=
  if atEnd ts pos then .ok none else
  match ts[pos + 1]? with
  | some t => .ok (some t)
  | none => .error .index

def upperAscii (c : Char) : Char := if 'a' ≤ c && c ≤ 'z' then Char.ofNat (c.toNat - 32) else c

/-- `Axis.forname`: `getattr(Axis, name.upper().replace('-', '_'), None)` -/
def axisForName (name : Str) : Option Axis :=
  let n := (name.map upperAscii).map fun c => if c == '-' then '_' else c
  if n == ['A','T','T','R','I','B','U','T','E'] then some .attribute
  else if n == ['C','H','I','L','D'] then some .child
  else if n == ['D','E','S','C','E','N','D','A','N','T'] then some .descendant
  else if n == ['D','E','S','C','E','N','D','A','N','T','_','O','R','_','S','E','L','F'] then some .descendantOrSelf
  else if n == ['S','E','L','F'] then some .self
  else none

def isQuoted (t : Str) : Bool :=
  match t.head?, t.getLast? with
  | some a, some b => (a == '\'' && b == '\'') || (a == '"' && b == '"')
  | _, _ => false

/-- `string[1:-1]` -/
def unquote (t : Str) : Str := (t.drop 1).dropLast

def cmpOfClass (cls : Str) : Option CmpOp :=
  if cls == cEqualsOperator then some .eq
  else if cls == cNotEqualsOperator then some .ne
  else if cls == cGreaterThanOperator then some .gt
  else if cls == cGreaterThanOrEqualOperator then some .ge
  else if cls == cLessThanOperator then some .lt
  else if cls == cLessThanOrEqualOperator then some .le
  else none

/-- `_operator_map[token]` -/
def opOfToken (tok : Str) : Option CmpOp := (lookup tok Gen.Path.operatorMap).bind cmpOfClass

/-- `_nodetest_map.get(name)` applied to the arguments found -/
def nodeTypeOf (name : Str) (args : List Str) : Except PErr NodeTest :=
  match lookup name Gen.Path.nodetestMap with
  | none => .error .syntax
  | some cls =>
    if cls == cCommentNodeTest then (if args.isEmpty then .ok .comment else .error .type)
    else if cls == cNodeTest then (if args.isEmpty then .ok .node else .error .type)
    else if cls == cTextNodeTest then (if args.isEmpty then .ok .text else .error .type)
    else if cls == cProcessingInstructionNodeTest then
      match args with
      | [] => .ok (.pi none)
      | [a] => .ok (.pi (some a))
      | _ => .error .type
    else .error .unmodelled

def mkConcat : List Expr → Option Expr
  | [] => none
  | [a] => some (.concat1 a)
  | a :: r => (mkConcat r).map (.concat a)

/-- `cls(*args)` for `_function_map.get(name)` -/
def functionOf (name : Str) (args : List Expr) : Except PErr Expr :=
  match lookup name Gen.Path.functionMap with
  | none => .error .syntax
  | some (cls, lo, hi) =>
    if args.length < lo || args.length > hi then .error .type else
    let c (s : Str) : Bool := cls == s
    match args with
    | [] =>
        if c cFalseFunction then .ok (.fn0 .false_)
        else if c cTrueFunction then .ok (.fn0 .true_)
        else if c cLocalNameFunction then .ok (.fn0 .localName)
        else if c cNameFunction then .ok (.fn0 .name)
        else if c cNamespaceUriFunction then .ok (.fn0 .namespaceUri)
        else .error .unmodelled
    | [a] =>
        if c cBooleanFunction then .ok (.fn1 .boolean a)
        else if c cCeilingFunction then .ok (.fn1 .ceiling a)
        else if c cFloorFunction then .ok (.fn1 .floor a)
        else if c cNormalizeSpaceFunction then .ok (.fn1 .normalizeSpace a)
        else if c cNotFunction then .ok (.fn1 .not a)
        else if c cNumberFunction then .ok (.fn1 .number a)
        else if c cRoundFunction then .ok (.fn1 .round a)
        else if c cStringLengthFunction then .ok (.fn1 .stringLength a)
        else if c cConcatFunction then .ok (.concat1 a)
        else .error .unmodelled
    | [a, b] =>
        if c cContainsFunction then .ok (.fn2 .contains a b)
        else if c cStartsWithFunction then .ok (.fn2 .startsWith a b)
        else if c cSubstringAfterFunction then .ok (.fn2 .substringAfter a b)
        else if c cSubstringBeforeFunction then .ok (.fn2 .substringBefore a b)
        else if c cSubstringFunction then .ok (.fn2 .substring a b)
        else if c cMatchesFunction then .ok (.fn2 .matches a b)
        else if c cConcatFunction then .ok (.concat a (.concat1 b))
        else .error .unmodelled
    | [a, b, d] =>
        if c cTranslateFunction then .ok (.fn3 .translate a b d)
        else if c cSubstringFunction then .ok (.fn3 .substring a b d)
        else if c cMatchesFunction then .error .type     -- `_map_flags` iterates a literal node
        else if c cConcatFunction then .ok (.concat a (.concat b (.concat1 d)))
        else .error .unmodelled
    | _ =>
        if c cConcatFunction then
          match mkConcat args with
          | some e => .ok e
          | none => .error .unmodelled
        else .error .unmodelled

/-- `_node_type` -/
def nodeType (ts : List Str) (pos : Nat) : Except PErr (NodeTest × Nat) := do
  let name ← cur ts pos
  let (t, pos) ← next ts pos
  if t == ['(', ')'] then
    let nt ← nodeTypeOf name []
    pure (nt, pos)
  else
    let (t, pos) ← next ts pos      -- (
    if t != [')'] then
      let arg := if isQuoted t then unquote t else t
      let (_, pos) ← next ts pos    -- )
      let nt ← nodeTypeOf name [arg]
      pure (nt, pos)
    else
      let nt ← nodeTypeOf name []
      pure (nt, pos)

/-- `_node_test(axis)`; `attr` = "axis is ATTRIBUTE" -/
def nodeTest (ts : List Str) (pos : Nat) (attr : Bool) : Except PErr (NodeTest × Nat) := do
  let nx ← peek ts pos
  let (test, pos) ←
    if nx == some ['('] || nx == some ['(', ')'] then nodeType ts pos
    else if nx == some [':'] then do
      let pfx ← cur ts pos
      let (_, pos) ← next ts pos
      let (loc, pos) ← next ts pos
      if loc == ['*'] then pure (NodeTest.qprincipal attr pfx, pos)
      else pure (NodeTest.qname attr pfx loc, pos)
    else do
      let t ← cur ts pos
      if t == ['*'] then pure (NodeTest.principal attr, pos)
      else if t == ['.'] then pure (NodeTest.node, pos)
      else pure (NodeTest.localName attr t, pos)
  if !atEnd ts pos then
    let (_, pos) ← next ts pos
    pure (test, pos)
  else pure (test, pos)

mutual

/-- `_or_expr` -/
def orExpr (ts : List Str) : Nat → Nat → Except PErr (Expr × Nat)
  | 0, _ => .error .fuel
  | fuel + 1, pos => do
      let (e, pos) ← andExpr ts fuel pos
      orLoop ts fuel pos e

def orLoop (ts : List Str) : Nat → Nat → Expr → Except PErr (Expr × Nat)
  | 0, _, _ => .error .fuel
  | fuel + 1, pos, e => do
      let t ← cur ts pos
      if t == ['o', 'r'] then
        let (_, pos) ← next ts pos
        let (r, pos) ← andExpr ts fuel pos
        orLoop ts fuel pos (.or_ e r)
      else pure (e, pos)

/-- `_and_expr` -/
def andExpr (ts : List Str) : Nat → Nat → Except PErr (Expr × Nat)
  | 0, _ => .error .fuel
  | fuel + 1, pos => do
      let (e, pos) ← eqExpr ts fuel pos
      andLoop ts fuel pos e

def andLoop (ts : List Str) : Nat → Nat → Expr → Except PErr (Expr × Nat)
  | 0, _, _ => .error .fuel
  | fuel + 1, pos, e => do
      let t ← cur ts pos
      if t == ['a', 'n', 'd'] then
        let (_, pos) ← next ts pos
        let (r, pos) ← eqExpr ts fuel pos
        andLoop ts fuel pos (.and_ e r)
      else pure (e, pos)

/-- `_equality_expr` -/
def eqExpr (ts : List Str) : Nat → Nat → Except PErr (Expr × Nat)
  | 0, _ => .error .fuel
  | fuel + 1, pos => do
      let (e, pos) ← relExpr ts fuel pos
      eqLoop ts fuel pos e

def eqLoop (ts : List Str) : Nat → Nat → Expr → Except PErr (Expr × Nat)
  | 0, _, _ => .error .fuel
  | fuel + 1, pos, e => do
      let t ← cur ts pos
      if t == ['='] || t == ['!', '='] then
        match opOfToken t with
        | none => .error .key
        | some op =>
          let (_, pos) ← next ts pos
          let (r, pos) ← relExpr ts fuel pos
          eqLoop ts fuel pos (.cmp op e r)
      else pure (e, pos)

/-- `_relational_expr` -/
def relExpr (ts : List Str) : Nat → Nat → Except PErr (Expr × Nat)
  | 0, _ => .error .fuel
  | fuel + 1, pos => do
      let (e, pos) ← subExpr ts fuel pos
      relLoop ts fuel pos e

def relLoop (ts : List Str) : Nat → Nat → Expr → Except PErr (Expr × Nat)
  | 0, _, _ => .error .fuel
  | fuel + 1, pos, e => do
      let t ← cur ts pos
      if t == ['>'] || t == ['>', '='] || t == ['<'] || t == ['<', '='] then
        match opOfToken t with
        | none => .error .key
        | some op =>
          let (_, pos) ← next ts pos
          let (r, pos) ← subExpr ts fuel pos
          relLoop ts fuel pos (.cmp op e r)
      else pure (e, pos)

/-- `_sub_expr` -/
def subExpr (ts : List Str) : Nat → Nat → Except PErr (Expr × Nat)
  | 0, _ => .error .fuel
  | fuel + 1, pos => do
      let t ← cur ts pos
      if t != ['('] then primaryExpr ts fuel pos
      else
        let (_, pos) ← next ts pos
        let (e, pos) ← orExpr ts fuel pos
        let t ← cur ts pos
        if t != [')'] then .error .syntax
        else
          let (_, pos) ← next ts pos
          pure (e, pos)

/-- `_primary_expr` -/
def primaryExpr (ts : List Str) : Nat → Nat → Except PErr (Expr × Nat)
  | 0, _ => .error .fuel
  | fuel + 1, pos => do
      let t ← cur ts pos
      if t.length > 1 && isQuoted t then
        let (_, pos) ← next ts pos
        pure (.str (unquote t), pos)
      else if (t.head?.map XNum.isDigit).getD false || t.head? == some '.' then
        let (_, pos) ← next ts pos
        match XNum.parse t with
        | .nan => .error .syntax
        | x => pure (.num x, pos)
      else if t == ['$'] then
        let (name, pos) ← next ts pos
        let (_, pos) ← next ts pos
        pure (.var name, pos)
      else
        let nx ← (if atEnd ts pos then .ok none else peek ts pos)
        if (nx.map fun n => n.head? == some '(').getD false then functionCall ts fuel pos
        else if t == ['@'] then
          let (_, pos) ← next ts pos
          let (nt, pos) ← nodeTest ts pos true
          pure (.test nt, pos)
        else
          let (nt, pos) ← nodeTest ts pos false
          pure (.test nt, pos)

/-- `_function_call` -/
def functionCall (ts : List Str) : Nat → Nat → Except PErr (Expr × Nat)
  | 0, _ => .error .fuel
  | fuel + 1, pos => do
      let name ← cur ts pos
      let (t, pos) ← next ts pos
      if t == ['(', ')'] then
        let (_, pos) ← next ts pos
        let e ← functionOf name []
        pure (e, pos)
      else
        let (_, pos) ← next ts pos
        let (a, pos) ← orExpr ts fuel pos
        let (args, pos) ← argLoop ts fuel pos [a]
        let t ← cur ts pos
        if t != [')'] then .error .syntax
        else
          let (_, pos) ← next ts pos
          let e ← functionOf name args
          pure (e, pos)

def argLoop (ts : List Str) : Nat → Nat → List Expr → Except PErr ((List Expr) × Nat)
  | 0, _, _ => .error .fuel
  | fuel + 1, pos, acc => do
      let t ← cur ts pos
      if t == [','] then
        let (_, pos) ← next ts pos
        let (a, pos) ← orExpr ts fuel pos
        argLoop ts fuel pos (acc ++ [a])
      else pure (acc, pos)

end

/-- `_predicate` -/
def predicate (ts : List Str) (fuel : Nat) (pos : Nat) : Except PErr (Expr × Nat) := do
  let (_, pos) ← next ts pos
  let (e, pos) ← orExpr ts fuel pos
  let t ← cur ts pos
  if t != [']'] then .error .syntax
  else if !atEnd ts pos then
    let (_, pos) ← next ts pos
    pure (e, pos)
  else pure (e, pos)

def predLoop (ts : List Str) : Nat → Nat → List Expr → Except PErr ((List Expr) × Nat)
  | 0, _, _ => .error .fuel
  | fuel + 1, pos, acc => do
      let t ← cur ts pos
      if t == ['['] then
        let (e, pos) ← predicate ts fuel pos
        predLoop ts fuel pos (acc ++ [e])
      else pure (acc, pos)

/-- `_location_step`: (axis or None, node test, predicates) -/
def locationStep (ts : List Str) (fuel : Nat) (pos : Nat) : Except PErr ((Option Axis × NodeTest × List Expr) × Nat) := do
  let t ← cur ts pos
  let (axis, pos) ←
    if t == ['@'] then do
      let (_, pos) ← next ts pos
      pure (some Axis.attribute, pos)
    else if t == ['.'] then pure (some Axis.self, pos)
    else if t == ['.', '.'] then .error .syntax
    else do
      let nx ← peek ts pos
      if nx == some [':', ':'] then
        match axisForName t with
        | none => .error .syntax
        | some a =>
          let (_, pos) ← next ts pos
          let (_, pos) ← next ts pos
          pure (some a, pos)
      else pure (none, pos)
  let (nt, pos) ← nodeTest ts pos (axis == some Axis.attribute)
  let (preds, pos) ← predLoop ts fuel pos []
  pure ((axis, nt, preds), pos)

def startsWithSlash (t : Str) : Bool := t.head? == some '/'

/-- the `while True` loop of `_location_path` -/
def locLoop (ts : List Str) : Nat → Nat → List Step → Except PErr ((List Step) × Nat)
  | 0, _, _ => .error .fuel
  | fuel + 1, pos, steps => do
      let t ← cur ts pos
      let lead : Except PErr (Option (List Step × Nat) × List Step × Nat) :=
        if startsWithSlash t then
          if steps.isEmpty then
            if t == ['/', '/'] then do
              let (_, pos) ← next ts pos
              let ((axis, nt, preds), pos) ← locationStep ts fuel pos
              let steps :=
                if axis == some Axis.attribute then
                  [⟨.descendantOrSelf, .node, []⟩, ⟨.attribute, nt, preds⟩]
                else [⟨.descendantOrSelf, nt, preds⟩]
              pure (some (steps, pos), steps, pos)
            else .error .syntax
          else do
            let steps := if t == ['/', '/'] then steps ++ [⟨.descendantOrSelf, .node, []⟩] else steps
            let (_, pos) ← next ts pos
            pure (none, steps, pos)
        else pure (none, steps, pos)
      let (done, steps, pos) ← lead
      match done with
      | some (steps, pos) =>
          -- the leading `//step` branch: `if at_end or not cur.startswith('/'): break; continue`
          let t ← cur ts pos
          if atEnd ts pos || !startsWithSlash t then pure (steps, pos)
          else locLoop ts fuel pos steps
      | none =>
          let ((axis, nt, preds), pos) ← locationStep ts fuel pos
          let steps := steps ++ [⟨axis.getD .child, nt, preds⟩]
          let t ← cur ts pos
          if atEnd ts pos || !startsWithSlash t then pure (steps, pos)
          else locLoop ts fuel pos steps

def unionLoop (ts : List Str) : Nat → Nat → List LocPath → Except PErr ((List LocPath) × Nat)
  | 0, _, _ => .error .fuel
  | fuel + 1, pos, acc => do
      let t ← cur ts pos
      if t == ['|'] then
        let (_, pos) ← next ts pos
        let (p, pos) ← locLoop ts fuel pos []
        unionLoop ts fuel pos (acc ++ [p])
      else pure (acc, pos)

/-- `PathParser(text).parse()` -/
def parseTokens (ts : List Str) : Except PErr (List LocPath) := do
  let fuel := 16 * (ts.length + 2)
  let (p, pos) ← locLoop ts fuel 0 []
  let (paths, pos) ← unionLoop ts fuel pos [p]
  if !atEnd ts pos then .error .syntax else pure paths

def parse (text : Str) : Except PErr (List LocPath) := parseTokens (tokenize text)

end Genshi.Path

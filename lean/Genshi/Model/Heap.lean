/-
  C10 — the template as a heap object.

  Python objects that matter for "rendering never modifies a template":

  * the parsed template stream `Template._stream`: a Python list of event tuples; a SUB
    event is the (immutable) tuple `(SUB, (directives, substream), pos)` holding references
    to two MUTABLE lists (`genshi/template/base.py` `_prepare`);
  * directive objects (immutable after `attach`, identified by `id`);
  * per render: the `Context` (frames, `_choice_stack`) and whatever lists the filters
    allocate for that render (`Translator.__call__` copies every sub-stream).

  A heap is a list of cells addressed by position.  There are two address spaces: the
  template's (`Ref.tmpl`, shared by every render and every API call) and one private space
  per render (`Ref.priv`).  Whether private objects can be reached from another render is
  not a theorem of this model but its shape; the harness checks it on the real code by
  snapshotting every other render's context around each `next()`.

  Import-free (linked into gdrv).
-/
import Genshi.Model.Core
import Genshi.Model.Str
namespace Genshi.Heap
open Genshi

/-! ## values of the expression fragment -/

inductive Atom where
  | none
  | bool (b : Bool)
  | int (n : Int)
  | str (s : Str)
  deriving DecidableEq, Repr, Inhabited

/-- Python truthiness -/
def Atom.truthy : Atom → Bool
  | .none => false
  | .bool b => b
  | .int n => n != 0
  | .str s => !s.isEmpty

/-- numeric view of bool/int (Python: `True == 1`) -/
def Atom.num? : Atom → Option Int
  | .bool b => some (if b then 1 else 0)
  | .int n => some n
  | _ => Option.none

/-- Python `==` on atoms -/
def Atom.pyEq (a b : Atom) : Bool :=
  match a.num?, b.num? with
  | some x, some y => x == y
  | Option.none, Option.none =>
    (match a, b with
     | .none, .none => true
     | .str s, .str t => s == t
     | _, _ => false)
  | _, _ => false

def atomsEq : List Atom → List Atom → Bool
  | [], [] => true
  | a :: as, b :: bs => a.pyEq b && atomsEq as bs
  | _, _ => false

def digitsOfInt (n : Int) : Str :=
  if n < 0 then '-' :: Nat.toDigits 10 n.natAbs else Nat.toDigits 10 n.natAbs

/-- `str(x)` for atoms -/
def Atom.text : Atom → Str
  | .none => ['N', 'o', 'n', 'e']
  | .bool true => ['T', 'r', 'u', 'e']
  | .bool false => ['F', 'a', 'l', 's', 'e']
  | .int n => digitsOfInt n
  | .str s => s

/-! ## expressions -/

/-- literal values of the expression fragment -/
inductive Lit where
  | atom (a : Atom)
  | list (xs : List Atom)
  deriving DecidableEq, Repr, Inhabited

inductive Expr where
  | var (n : Str)
  | lit (v : Lit)
  | eq (a b : Expr)
  | not (a : Expr)
  | call0 (f : Str)                 -- `f()`
  | call1 (f : Str) (a : Expr)      -- `f(a)`
  | fmt1 (s0 : Str) (a : Expr) (s1 : Str)                         -- `'s0%ss1' % a`
  | fmt2 (s0 : Str) (a : Expr) (s1 : Str) (b : Expr) (s2 : Str)   -- `'s0%ss1%ss2' % (a, b)`
  | genexp (body : Expr) (x : Str) (src : Expr)
                                    -- `(body for x in src)`: a NESTED scope.  `src` is evaluated (and `iter()`
                                    -- applied) where the expression stands; `body` is code of the nested scope
                                    -- and runs at each `next()` of the generator object, reading every name but
                                    -- `x` through `__data__` of the globals of its `eval` — the render's Context
                                    -- as it is THEN.  `map(lambda x: body, src)` (lazy in Python 3) is the same.
  | lam (x : Str) (body : Expr)     -- `lambda x: body`: the body is code of a nested scope as well
  deriving DecidableEq, Repr, Inhabited

inductive Err where
  | undefined          -- UndefinedError (strict lookup)
  | typeError          -- TypeError (`iter(5)`, calling a non-callable)
  | attribute          -- AttributeError (a macro parameter without argument and without default)
  | runtime            -- TemplateRuntimeError (`py:when` outside `py:choose`)
  | stopIter           -- RuntimeError: generator raised StopIteration
  | notFound           -- TemplateNotFound (include without fallback)
  | unmodelled         -- construct outside the modelled fragment
  | fuel               -- the step did not finish within the fuel given
  deriving DecidableEq, Repr, Inhabited

/-! ## template events, directive objects, the heap -/

/-- a reference to a Python list: in the template's own heap or in the private heap of the
    render that allocated it -/
inductive Ref where
  | tmpl (a : Nat)
  | priv (a : Nat)
  deriving DecidableEq, Repr, Inhabited

/-- the expression of `py:attrs` -/
inductive AttrsSpec where
  | dict (kvs : List (Str × Expr))     -- a dict display with string keys `{'k': e, …}`
  | pairs (kvs : List (Str × Expr))    -- a list display of pairs `[('k', e), …]`
  | expr (e : Expr)                    -- any other expression of the fragment
  deriving DecidableEq, Repr, Inhabited

inductive DirKind where
  | pyIf (e : Expr)
  | pyFor (var : Str) (e : Expr)
  | pyWith (binds : List (Str × Expr))
  | pyChoose (e : Option Expr)
  | pyWhen (e : Option Expr)
  | pyOtherwise
  | pyStrip (e : Option Expr)
  | pyDef (name : Str) (params : List (Str × Option Expr))   -- positional parameters, optional defaults
  | pyMatch (name : Str) (once : Bool)   -- `py:match` with a one-step element-name path; hint `match_once`
  | pyAttrs (spec : AttrsSpec)
  | i18nDomain (d : Str)
  | i18nComment (c : Str)
  | i18nCtxt (c : Str)
  | i18nMsg                     -- ExtractableI18NDirective; rendering is outside the step model
  | i18nChoose                  -- ExtractableI18NDirective
  | i18nBranch                  -- i18n:singular / i18n:plural (I18NDirective, not extractable)
  | pyOther                     -- any other non-i18n directive (def, match, attrs, …)
  deriving DecidableEq, Repr, Inhabited

/-- a directive object; `id` stands for Python object identity -/
structure Dir where
  id : Nat
  kind : DirKind
  deriving DecidableEq, Repr, Inhabited

def DirKind.isI18n : DirKind → Bool
  | .i18nDomain _ | .i18nComment _ | .i18nCtxt _ | .i18nMsg | .i18nChoose | .i18nBranch => true
  | _ => false

def DirKind.isExtractable : DirKind → Bool
  | .i18nMsg | .i18nChoose => true
  | _ => false

/-- the value of an attribute in a template START event: a string, or (interpolated: `title="T$a"`) a
    reference to the Python list of TEXT / EXPR events `interpolate` built — a list owned by the template -/
inductive AVal where
  | plain (s : Str)
  | interp (r : Ref)
  deriving DecidableEq, Repr, Inhabited

def AVal.isInterp : AVal → Bool
  | .interp _ => true
  | .plain _ => false

inductive TEv where
  | out (e : Event)                 -- START (plain attribute values), END, TEXT, COMMENT, …
  | startI (tag : QName) (attrs : List (QName × AVal))
                                    -- START with at least one interpolated attribute value (or the START
                                    -- `py:attrs` re-yields)
  | expr (e : Expr)                 -- EXPR
  | sub (dirs : Ref) (body : Ref)   -- SUB: references to the directive list and the sub-stream list
  | incl (t : Option Nat) (fb : Option Ref)
                                    -- INCLUDE with a static href: the template the loader finds for it
                                    -- (`none`: TemplateNotFound) and the prepared fallback list
  | execGen (name x : Str) (src body : Expr)
                                    -- EXEC whose suite is one generator function
                                    -- `def name():` / `for x in src:` / `yield body`
  | other                           -- other EXEC, INCLUDE with a computed href:
                                    -- outside the step model
  deriving DecidableEq, Repr, Inhabited

inductive Cell where
  | evs (l : List TEv)
  | dirs (l : List Dir)
  deriving DecidableEq, Repr, Inhabited

abbrev Heap := List Cell

/-- what a piece of code may do differently before / after the `fix:` commits; the values that
    describe the code under test are regenerated into `Genshi/Gen/Heap.lean` by the translator
    (behavioural probes of `Translator.__call__` and `Translator.extract`) -/
structure Variant where
  callCopies : Bool        -- `Translator.__call__` reorders a copy of the directive list
  extractCopies : Bool     -- `Translator.extract` pops from a copy of the directive list
  deriving DecidableEq, Repr, Inhabited

def Variant.fixed : Variant := ⟨true, true⟩
def Variant.original : Variant := ⟨false, false⟩

/-- the two address spaces a render can read -/
def readEvs (h ph : Heap) : Ref → Option (List TEv)
  | .tmpl a => match h[a]? with | some (.evs l) => some l | _ => none
  | .priv a => match ph[a]? with | some (.evs l) => some l | _ => none

def readDirs (h ph : Heap) : Ref → Option (List Dir)
  | .tmpl a => match h[a]? with | some (.dirs l) => some l | _ => none
  | .priv a => match ph[a]? with | some (.dirs l) => some l | _ => none


/-- an entry of `Context._match_templates`: `(test, path, list(stream), hints, namespaces, directives)` -/
structure MatchT where
  name : Str
  body : List TEv
  once : Bool
  rest : List Dir
  /-- a `once` template that has fired: its test was replaced by one that never matches, the slot stays
      (genshi fix "py:match once retires the template without shifting the others") -/
  retired : Bool := false
  deriving DecidableEq, Repr, Inhabited

/-! ## run-time values -/

/-- what `py:def` stores in the context: the function closes over the copy of its sub-stream and the
    directives that follow `py:def` on the element (its context is the render's own) -/
structure Macro where
  name : Str
  params : List (Str × Option Expr)
  body : List TEv
  rest : List Dir
  deriving DecidableEq, Repr, Inhabited

inductive Val where
  | atom (a : Atom)
  | list (xs : List Atom)
  | opaque (tag : Str)        -- functions put into the context (`defined`, `_i18n.gettext`, …)
  | macro (m : Macro)         -- a function defined by `py:def`
  | gen0 (m : Macro)          -- the generator object `f()` returns: nothing has run yet
  | gen1 (m : Macro) (a : Val)
  | genx (x : Str) (items : List Atom) (body : Expr)
                              -- the generator object of `(body for x in src)`: the items `iter(src)` still has,
                              -- nothing of `body` has run for them.  A mutable object: the model lets it live only
                              -- in the iterator that consumes it (`It.genexp`, `It.forNextG`), storing it in the
                              -- context is outside the model
  | genfn (name x : Str) (src body : Expr)
                              -- the generator function a `<?python ?>` block defined (stored in the context by the
                              -- `exec`); its globals hold `__data__` = the render's Context
  | genf (x : Str) (src body : Expr)
                              -- the generator object `name()` returned: nothing has run, not even `src`
  | lam (x : Str) (body : Expr)
                              -- a function made by `lambda` (immutable; its globals hold `__data__` = the Context)
  deriving DecidableEq, Repr, Inhabited

/-- generator objects (consumed by iteration: value semantics would be wrong once two places hold one) -/
def Val.isGenerator : Val → Bool
  | .gen0 _ | .gen1 _ _ | .genx _ _ _ | .genf _ _ _ => true
  | _ => false

/-- `iter(value)` for the data values of the fragment -/
def iterItems : Val → Option (List Atom)
  | .list xs => some xs
  | .atom (.str s) => some (s.map fun ch => .str [ch])
  | _ => none

def Lit.val : Lit → Val
  | .atom a => .atom a
  | .list xs => .list xs

def Val.truthy : Val → Bool
  | .atom a => a.truthy
  | .list xs => !xs.isEmpty
  | _ => true

def Val.pyEq : Val → Val → Bool
  | .atom a, .atom b => a.pyEq b
  | .list xs, .list ys => atomsEq xs ys
  | .opaque s, .opaque t => s == t
  | _, _ => false

/-! ## the context (`genshi/template/base.py` `Context`) -/

/-- a frame is a dict in insertion order -/
abbrev Frame := List (Str × Val)

def Frame.get? : Frame → Str → Option Val
  | [], _ => none
  | (k, v) :: rest, key => if k = key then some v else Frame.get? rest key

/-- `d[key] = v`: an existing key keeps its position -/
def Frame.set : Frame → Str → Val → Frame
  | [], key, v => [(key, v)]
  | (k, w) :: rest, key, v => if k = key then (k, v) :: rest else (k, w) :: Frame.set rest key v

/-- `[matched, has_test, value]` on `Context._choice_stack` -/
structure Choice where
  matched : Bool
  hasTest : Bool
  value : Option Val
  deriving DecidableEq, Repr, Inhabited

structure Ctx where
  frames : List Frame        -- head = `frames[0]`, the innermost scope (`push = appendleft`)
  choice : List Choice       -- head = `_choice_stack[-1]`
  mts : List MatchT := []      -- `_match_templates`, in registration order
  deriving DecidableEq, Repr, Inhabited

def sDefined : Str := ['d', 'e', 'f', 'i', 'n', 'e', 'd']
def sValueOf : Str := ['v', 'a', 'l', 'u', 'e', '_', 'o', 'f']

/-- `Context(**data)`: one frame; `defined` / `value_of` are added with `setdefault` -/
def Ctx.new (data : Frame) : Ctx :=
  let d1 := if (Frame.get? data sDefined).isSome then data else data ++ [(sDefined, .opaque sDefined)]
  let d2 := if (Frame.get? d1 sValueOf).isSome then d1 else d1 ++ [(sValueOf, .opaque sValueOf)]
  { frames := [d2], choice := [], mts := [] }

/-- `Context.get` / `_find`: innermost frame that has the key -/
def lookupFrames : List Frame → Str → Option Val
  | [], _ => none
  | f :: fs, key =>
    match Frame.get? f key with
    | some v => some v
    | none => lookupFrames fs key

def Ctx.push (c : Ctx) (f : Frame) : Ctx := { c with frames := f :: c.frames }
/-- `ctxt.pop()` = `frames.popleft()` -/
def Ctx.pop (c : Ctx) : Ctx := { c with frames := c.frames.tail }
/-- `ctxt[key] = v` writes `frames[0]` -/
def Ctx.setTop (c : Ctx) (key : Str) (v : Val) : Ctx :=
  match c.frames with
  | [] => c
  | f :: fs => { c with frames := Frame.set f key v :: fs }

/-- `ctxt.frames[-1][key] = v` (where `py:def` stores its function) -/
def setBottom : List Frame → Str → Val → List Frame
  | [], _, _ => []
  | [f], key, v => [Frame.set f key v]
  | f :: fs, key, v => f :: setBottom fs key v

/-! ## evaluation -/

/-- calling what the name is bound to -/
def callVal (f : Option Val) (arg : Option Val) : Except Err Val :=
  match f with
  | none => .error .undefined
  | some (.macro m) =>
    (match arg with
     | none => .ok (.gen0 m)
     | some a => if a.isGenerator then .error .unmodelled else .ok (.gen1 m a))
  | some (.opaque _) => .error .unmodelled
  | some (.genfn _ x src body) =>
    (match arg with
     | none => .ok (.genf x src body)
     | some _ => .error .typeError)            -- takes 0 positional arguments
  | some (.lam _ _) =>
    (match arg with
     | none => .error .typeError               -- missing 1 required positional argument
     | some _ => .error .unmodelled)           -- a call of a lambda below the top of an expression: see `eval`
  | some _ => .error .typeError

def evalBase (fs : List Frame) : Expr → Except Err Val
  | .var n =>
    match lookupFrames fs n with
    | some v => .ok v
    | none => .error .undefined
  | .lit v => .ok v.val
  | .eq a b =>
    match evalBase fs a with
    | .error e => .error e
    | .ok x =>
      match evalBase fs b with
      | .error e => .error e
      | .ok y => .ok (.atom (.bool (x.pyEq y)))
  | .not a =>
    match evalBase fs a with
    | .error e => .error e
    | .ok x => .ok (.atom (.bool (!x.truthy)))
  | .call0 f =>
    match lookupFrames fs f with
    | none => .error .undefined
    | some fv => callVal (some fv) none
  | .call1 f a =>
    match lookupFrames fs f with
    | none => .error .undefined
    | some fv =>
      match evalBase fs a with
      | .error e => .error e
      | .ok x => callVal (some fv) (some x)
  | .fmt1 s0 a s1 =>
    match evalBase fs a with
    | .error e => .error e
    | .ok (.atom x) => .ok (.atom (.str (s0 ++ x.text ++ s1)))
    | .ok _ => .error .unmodelled
  | .fmt2 s0 a s1 b s2 =>
    match evalBase fs a with
    | .error e => .error e
    | .ok x =>
      match evalBase fs b with
      | .error e => .error e
      | .ok y =>
        match x, y with
        | .atom x, .atom y => .ok (.atom (.str (s0 ++ x.text ++ s1 ++ y.text ++ s2)))
        | _, _ => .error .unmodelled
  | .genexp body x src =>
    -- the outermost iterable is evaluated, and `iter()` called on it, at once; the body not at all
    match evalBase fs src with
    | .error e => .error e
    | .ok v =>
      match v with
      | .atom _ | .list _ =>
        (match iterItems v with
         | some items => .ok (.genx x items body)
         | none => .error .typeError)
      | .opaque _ | .macro _ | .genfn _ _ _ _ | .lam _ _ => .error .typeError
      | _ => .error .unmodelled
  | .lam x body => .ok (.lam x body)

/-- evaluation of a template expression.  A function made by `lambda` can be called at the top of an
    expression (`${g(y)}`): its body runs with the argument as its local and every other name looked up in the
    Context as it is NOW (not as it was when the lambda was made).  (The two layers keep the recursion
    structural: the body is not a sub-term of the call.) -/
def eval (fs : List Frame) (e : Expr) : Except Err Val :=
  match e with
  | .call1 f a =>
    (match lookupFrames fs f with
     | some (.lam x body) =>
       (match evalBase fs a with
        | .error er => .error er
        | .ok arg => if arg.isGenerator then .error .unmodelled else evalBase ([(x, arg)] :: fs) body)
     | _ => evalBase fs e)
  | _ => evalBase fs e

end Genshi.Heap

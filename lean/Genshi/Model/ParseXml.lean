/-
  C07 — `genshi.input.XMLParser`: the Expat handlers (`_handle_*`), the `except
  expat.ExpatError` clause, and the document trees the property compares with.
-/
import Genshi.Model.Parse
import Genshi.Model.ParseHtml
namespace Genshi.Parse
open Genshi

/-- what Expat may call (handlers installed in `XMLParser.__init__`) -/
inductive XmlCb where
  | startElement (name : Str) (attrs : List (Str × Str))
  | endElement (name : Str)
  | characterData (s : Str)
  | xmlDecl (version : Str) (encoding : Option Str) (standalone : Int)
  | startDoctype (name : Str) (sysid pubid : Option Str) (hasInternal : Bool)
  | startNs (pfx uri : Option Str)
  | endNs (pfx : Option Str)
  | startCdata
  | endCdata
  | pi (target data : Str)
  | comment (s : Str)
  | default_ (s : Str) (line col : Int)   -- `DefaultHandlerExpand`, with Expat's current position
  deriving Repr, DecidableEq

/-- `text[1:-1]` -/
def innerName (s : Str) : Str := (s.drop 1).dropLast

/-- `_handle_other`: text starting with `&` is an entity reference Expat could not resolve:
    an HTML entity becomes TEXT, anything else raises `expat.error` with the current position -/
def handleOther (s : Str) (line col : Int) : Except PyExc Stream :=
  match s with
  | '&' :: _ =>
    match lookupEntity (innerName s) with
    | some cp => .ok [.text [Char.ofNat cp] false]
    | none => .error (.expat line col)
  | _ => .ok []

def xmlStep (_ : Unit) : XmlCb → Except PyExc (Unit × Stream)
  | .startElement name attrs => .ok ((), [.start (mkQName name) (attrs.map fun p => (mkQName p.1, p.2))])
  | .endElement name => .ok ((), [.end_ (mkQName name)])
  | .characterData s => .ok ((), [.text s false])
  | .xmlDecl v e s => .ok ((), [.xmlDecl v e s])
  | .startDoctype name sysid pubid _ => .ok ((), [.doctype name pubid sysid])
  | .startNs p u => .ok ((), [.startNs (p.getD []) (u.getD [])])
  | .endNs p => .ok ((), [.endNs (p.getD [])])
  | .startCdata => .ok ((), [.startCdata])
  | .endCdata => .ok ((), [.endCdata])
  | .pi t d => .ok ((), [.pi t d])
  | .comment s => .ok ((), [.comment s])
  | .default_ s line col =>
    match handleOther s line col with
    | .error e => .error e
    | .ok evs => .ok ((), evs)

def xmlLayer : Layer Unit XmlCb where
  step := xmlStep
  finish := fun _ => []

/-- what leaves `_generate` for an exception raised inside it:
    `except expat.ExpatError as e: raise ParseError(str(e), self.filename, e.lineno, e.offset)`, and the
    clause of `XMLParser._parse` around every `Parse` call,
    `except (LookupError, ValueError) as e: if <Expat's error code is UNKNOWN_ENCODING>: raise ParseError(…,
    self.expat.ErrorLineNumber, self.expat.ErrorColumnNumber)` (a `ParseError` is no `ExpatError` and passes the
    outer clause). Everything else is not touched. -/
def xmlHandler : PyExc → Raised
  | .expat l c => .parseError l c
  | .codec l c => .parseError l c
  | .exc n => .propagate n
  | .base n => .propagate n

/-- a chunk handed out by `source.read()`. A `str` chunk is always handed on: lone surrogates are encoded
    with `surrogatepass` and rejected by Expat itself (an `ExpatError` item of the batch). -/
inductive XmlReadG (cb : Type) where
  | chunk (items : List (Item cb))      -- bytes, or a `str` encoded as UTF-8: given to `Parse`
  | fail (e : PyExc)                    -- `read()` raised
  deriving Repr

abbrev XmlRead := XmlReadG XmlCb

def XmlReadG.toRead {cb : Type} : XmlReadG cb → Read cb
  | .chunk l => .items l
  | .fail e => .fail e

/-- iterating `XMLParser(source)` -/
def xmlParse (reads : List XmlRead) (close : List (Item XmlCb)) : Stream × Option Raised :=
  parse xmlLayer xmlHandler () (reads.map XmlReadG.toRead) close

/-! ### with positions: `_enqueue`

Every handler stamps `(CurrentLineNumber, CurrentColumnNumber)`; for TEXT Expat reports the *end*
of the text, which `_enqueue` moves back: by the length for single-line text, to the first line
(offset unknown, -1) for text containing a line feed. -/

def pyLineBreak (c : Char) : Bool :=
  c = '\n' || c = '\r' || c = '\x0b' || c = '\x0c' || c = '\x1c' || c = '\x1d' || c = '\x1e' ||
  c = '\x85' || c = '\u2028' || c = '\u2029'

/-- `len(data.splitlines())`: `inLine` — characters seen since the last line end; `afterCR` — the
    previous character was a carriage return (a line feed right after it belongs to the same line end) -/
def lineCountGo : Bool → Bool → Str → Nat
  | inLine, _, [] => if inLine then 1 else 0
  | _, afterCR, c :: cs =>
    if c = '\n' && afterCR then lineCountGo false false cs
    else if c = '\r' then 1 + lineCountGo false true cs
    else if pyLineBreak c then 1 + lineCountGo false false cs
    else lineCountGo true false cs

def lineCount (s : Str) : Nat := lineCountGo false false s

/-- the position `_enqueue` gives a TEXT event reported at `p` -/
def textPos (data : Str) (p : Pos) : Pos :=
  if data.any (· = '\n') then (p.1 - (lineCount data : Int) + 1, -1)
  else (p.1, p.2 - (data.length : Int))

def stampXml (p : Pos) (e : Event) : PEvent :=
  match e with
  | .text s _ => (e, textPos s p)
  | _ => (e, p)

def xmlStepP (_ : Unit) (c : XmlCb × Pos) : Except PyExc (Unit × PStream) :=
  match xmlStep () c.1 with
  | .error e => .error e
  | .ok (_, evs) => .ok ((), evs.map (stampXml c.2))

def xmlLayerP : LayerG Unit (XmlCb × Pos) PEvent where
  step := xmlStepP
  finish := fun _ => []

abbrev XmlReadP := XmlReadG (XmlCb × Pos)

def xmlParseP (reads : List XmlReadP) (close : List (Item (XmlCb × Pos))) : PStream × Option Raised :=
  parseP xmlLayerP xmlHandler () (reads.map XmlReadG.toRead) close

def XmlReadG.map {α β : Type} (g : α → β) : XmlReadG α → XmlReadG β
  | .chunk l => .chunk (l.map (Item.map g))
  | .fail e => .fail e

/-! ### documents as trees, and the callbacks their traversal makes -/

/-- an XML document fragment as Expat walks it. Character data arrives in pieces (Expat splits
    it at buffer ends, entity references and line ends). -/
inductive XNode where
  | elem (name : Str) (attrs : List (Str × Str)) (decls : List (Option Str × Option Str)) (kids : List XNode)
  | chars (pieces : List Str)
  | cdata (pieces : List Str)
  | comment (s : Str)
  | pi (target data : Str)
  | decl (version : Str) (encoding : Option Str) (standalone : Int)
  | doctype (name : Str) (sysid pubid : Option Str) (hasInternal : Bool)
  | ignorable (s : Str) (line col : Int)   -- what Expat hands to the default handler and is not a reference:
                                           -- white space outside the root element, the internal DTD subset

mutual
  /-- the handler calls Expat makes for a node: namespace declarations bracket the element -/
  def XNode.callbacks : XNode → List XmlCb
    | .elem name attrs decls kids =>
      decls.map (fun d => XmlCb.startNs d.1 d.2) ++
      (XmlCb.startElement name attrs :: (callbacksList kids ++
        (XmlCb.endElement name :: decls.reverse.map (fun d => XmlCb.endNs d.1))))
    | .chars ps => ps.map XmlCb.characterData
    | .cdata ps => XmlCb.startCdata :: (ps.map XmlCb.characterData ++ [XmlCb.endCdata])
    | .comment s => [XmlCb.comment s]
    | .pi t d => [XmlCb.pi t d]
    | .decl v e s => [XmlCb.xmlDecl v e s]
    | .doctype n sy pb h => [XmlCb.startDoctype n sy pb h]
    | .ignorable s l c => [XmlCb.default_ s l c]
  def callbacksList : List XNode → List XmlCb
    | [] => []
    | n :: ns => n.callbacks ++ callbacksList ns
end

mutual
  /-- the same node as a forest of `Genshi.Node`s: what the stream should be the flattening of -/
  def XNode.toNodes : XNode → List Node
    | .elem name attrs decls kids =>
      decls.map (fun d => Node.leaf (.startNs (d.1.getD []) (d.2.getD []))) ++
      (Node.elem (mkQName name) (attrs.map fun p => (mkQName p.1, p.2)) (toNodesList kids) ::
        decls.reverse.map (fun d => Node.leaf (.endNs (d.1.getD []))))
    | .chars ps => ps.map fun s => Node.leaf (.text s false)
    | .cdata ps => Node.leaf .startCdata :: (ps.map (fun s => Node.leaf (.text s false)) ++ [Node.leaf .endCdata])
    | .comment s => [Node.leaf (.comment s)]
    | .pi t d => [Node.leaf (.pi t d)]
    | .decl v e s => [Node.leaf (.xmlDecl v e s)]
    | .doctype n sy pb _ => [Node.leaf (.doctype n pb sy)]
    | .ignorable _ _ _ => []
  def toNodesList : List XNode → List Node
    | [] => []
    | n :: ns => n.toNodes ++ toNodesList ns
end

mutual
  /-- the text of an `ignorable` node is not a reference (does not begin with `&`) -/
  def XNode.wf : XNode → Bool
    | .elem _ _ _ kids => wfList kids
    | .ignorable s _ _ => s.head? != some '&'
    | _ => true
  def wfList : List XNode → Bool
    | [] => true
    | n :: ns => n.wf && wfList ns
end

end Genshi.Parse

/-
  C10 — one template object, its open renders, and every API operation as a transition.

  (the template object is template 0 of its loader; run-time includes reach the others)

    access     `template.stream`            (`_prepare_self` on first use)
    open d     `template.generate(**d)`     (accesses `.stream`, creates the Context; lazy)
    step i     `next()` on the i-th open output stream
    extract    `Translator.extract(template.stream)`
    pickle     `pickle.dumps(template)`     (`__getstate__`; the copy is `World.unpickled`)
    register   the object is put into / served from a `TemplateLoader` cache

  plus the line-granularity model of two threads inside `Template.stream` / `_prepare_self`
  (`raceStep`).
-/
import Genshi.Model.HeapStep
namespace Genshi.Heap
open Genshi

/-- `_stream` / `_prepared` of one template object of the loader; `root` = address of its prepared
    `_stream` list -/
structure TState where
  root : Nat
  streamPrepared : Bool    -- `_stream` already holds the prepared list
  prepared : Bool          -- `_prepared`
  deriving DecidableEq, Repr, Inhabited

/-- The template object (index 0), the other templates its loader serves (included at run time),
    and the open renders.  `heap` holds the prepared lists of ALL templates from the start: `_prepare`
    is a function of the source, what it will build is fixed; the flags say whether the object
    already holds it.  (Which cells exist before preparation is not observable: every reader goes
    through `.stream`.) -/
structure World where
  heap : Heap
  tmpls : List TState
  translator : Bool        -- `filters[0]` is a Translator (set up by the loader callback / before any operation)
  renders : List Render
  registered : Nat         -- loader cache entries that refer to the object
  deriving Repr, Inhabited

def World.init (image : Heap) (roots : List Nat) (translator : Bool) : World :=
  { heap := image, tmpls := roots.map fun r => ⟨r, false, false⟩,
    translator := translator, renders := [], registered := 0 }

def World.roots (w : World) : List Nat := w.tmpls.map (·.root)

/-- `Template.stream` of template `t` executed without interruption; `false` = `_prepare` met an already
    prepared stream (TypeError) — unreachable without the race -/
def accessT (ts : List TState) (t : Nat) : List TState × Bool :=
  match ts[t]? with
  | none => (ts, true)
  | some x =>
    if x.prepared then (ts, true)
    else if x.streamPrepared then (ts, false)
    else (ts.set t { x with streamPrepared := true, prepared := true }, true)

def World.access (w : World) : World × Bool :=
  let (ts, ok) := accessT w.tmpls 0
  ({ w with tmpls := ts }, ok)

/-- the templates a `next()` loaded and rendered are prepared afterwards -/
def markPrepared (ts : List TState) : List Nat → List TState
  | [] => ts
  | t :: rest => markPrepared (accessT ts t).1 rest

/-- `_prepared` of the template object itself -/
def World.prepared (w : World) : Bool := match w.tmpls[0]? with | some x => x.prepared | none => true

/-! ## `Translator.extract` -/

structure PopSt where
  ds : List Dir
  inComment : Bool
  inContext : Bool
  recs : Nat               -- recursive extractions started inside the loop (`len(directives) == 1`)
  deriving Repr, Inhabited

/-- `for idx, directive in enumerate(directives): … directives.pop(idx)` -/
def popLoop : Nat → Nat → PopSt → PopSt
  | 0, _, s => s
  | n + 1, i, s =>
    match s.ds[i]? with
    | none => s
    | some d =>
      match d.kind with
      | .i18nComment _ =>
        popLoop n (i + 1) { s with ds := s.ds.eraseIdx i, inComment := true,
                                   recs := s.recs + (if s.ds.length == 1 then 1 else 0) }
      | .i18nCtxt _ =>
        popLoop n (i + 1) { s with ds := s.ds.eraseIdx i, inContext := true,
                                   recs := s.recs + (if s.ds.length == 1 then 1 else 0) }
      | k =>
        if k.isI18n then popLoop n (i + 1) s
        else popLoop n (i + 1) { s with ds := s.ds.eraseIdx i }

structure XRes where
  h : Heap
  trace : List Nat         -- addresses of the directive lists of the SUB events handled, in order
  err : Option Err
  deriving Repr, Inhabited

def firstErr : Option Err → Option Err → Option Err
  | some e, _ => some e
  | none, x => x

/-- the traversal of `Translator.extract` (messages themselves are C19's business).  The trace
    lists the sub-streams `extract` was called on recursively, in call order. -/
def extractEvs (v : Variant) : Nat → Heap → List TEv → XRes
  | 0, h, _ => ⟨h, [], some .fuel⟩
  | _ + 1, h, [] => ⟨h, [], none⟩
  | fuel + 1, h, t :: ts =>
    match t with
    | .sub (.tmpl da) (.tmpl ba) =>
      match readDirs h [] (.tmpl da), readEvs h [] (.tmpl ba) with
      | some ds, some body =>
        let s := popLoop ds.length 0 ⟨ds, false, false, 0⟩
        let h1 := if v.extractCopies then h else h.set da (.dirs s.ds)
        let recurse : Heap → XRes := fun h =>
          let r := extractEvs v fuel h body
          ⟨r.h, ba :: r.trace, r.err⟩
        let r1 : XRes := if s.recs > 0 then recurse h1 else ⟨h1, [], none⟩
        let r2 : XRes :=
          if s.ds.isEmpty && !s.inComment && !s.inContext then recurse r1.h else ⟨r1.h, [], none⟩
        let r3 : XRes := s.ds.foldl (fun acc d =>
            if d.kind.isExtractable then acc
            else
              let r := recurse acc.h
              ⟨r.h, acc.trace ++ r.trace, firstErr acc.err r.err⟩) ⟨r2.h, [], none⟩
        let rest := extractEvs v fuel r3.h ts
        ⟨rest.h, r1.trace ++ r2.trace ++ r3.trace ++ rest.trace,
         firstErr r1.err (firstErr r2.err (firstErr r3.err rest.err))⟩
      | _, _ => ⟨h, [], some .unmodelled⟩
    | .sub _ _ => ⟨h, [], some .unmodelled⟩
    | _ => extractEvs v fuel h ts

/-! ## actions -/

inductive Act where
  | access
  | open (d : Frame)
  | step (i : Nat)
  | extract
  | pickle
  | register
  deriving Repr, Inhabited

inductive Obs where
  | unit
  | raised (e : Err)
  | opened (i : Nat)
  | out (i : Nat) (o : StepOut)
  | extracted (trace : List Nat) (err : Option Err)
  deriving Repr, Inhabited

def exec (v : Variant) (fuel : Nat) (w : World) : Act → World × Obs
  | .access =>
    let (w1, ok) := w.access
    (w1, if ok then .unit else .raised .typeError)
  | .open d =>
    let (w1, ok) := w.access
    if ok then
      ({ w1 with renders := w1.renders ++ [Render.new w1.translator (w1.roots.headD 0) d] },
       .opened w1.renders.length)
    else (w1, .raised .typeError)
  | .step i =>
    match w.renders[i]? with
    | none => (w, .out i .stopped)
    | some r =>
      let s := stepR v w.translator w.roots fuel w.heap r
      ({ w with heap := s.h, renders := w.renders.set i s.r, tmpls := markPrepared w.tmpls s.touched },
       .out i s.out)
  | .extract =>
    let (w1, ok) := w.access
    if ok then
      match readEvs w1.heap [] (.tmpl (w1.roots.headD 0)) with
      | none => (w1, .extracted [] (some .unmodelled))
      | some root =>
        let r := extractEvs v fuel w1.heap root
        ({ w1 with heap := r.h }, .extracted (w1.roots.headD 0 :: r.trace) r.err)
    else (w1, .raised .typeError)
  | .pickle => (w, .unit)             -- `__getstate__` copies `__dict__`; the pickler only reads
  | .register => ({ w with registered := w.registered + 1 }, .unit)

/-- `pickle.loads(pickle.dumps(t))`: a structurally equal object graph with the default filters
    (`__setstate__` calls `_init_filters`) and no open renders -/
def World.unpickled (w : World) : World :=
  { w with translator := false, renders := [], registered := 0 }

def run (v : Variant) (fuel : Nat) : World → List Act → World × List Obs
  | w, [] => (w, [])
  | w, a :: as =>
    let (w1, o) := exec v fuel w a
    let (w2, os) := run v fuel w1 as
    (w2, o :: os)

/-- the outputs a schedule produced for render `i` -/
def outputsOf (i : Nat) : List Obs → List StepOut
  | [] => []
  | .out j o :: rest => if j = i then o :: outputsOf i rest else outputsOf i rest
  | _ :: rest => outputsOf i rest

/-- `n` times `next()` on one render with nothing else going on -/
def soloSteps (v : Variant) (translator : Bool) (roots : List Nat) (fuel : Nat) (h : Heap) :
    Nat → Render → List StepOut
  | 0, _ => []
  | n + 1, r =>
    let s := stepR v translator roots fuel h r
    s.out :: soloSteps v translator roots fuel h n s.r

/-- render alone: a fresh `generate(**d)` on the object in state `w`, `n` times `next()` -/
def solo (v : Variant) (fuel : Nat) (w : World) (d : Frame) (n : Nat) : List StepOut :=
  soloSteps v w.translator w.roots fuel w.heap n (Render.new w.translator (w.roots.headD 0) d)

def countSteps (i : Nat) : List Act → Nat
  | [] => 0
  | .step j :: rest => (if j = i then 1 else 0) + countSteps i rest
  | _ :: rest => countSteps i rest

/-! ## threads inside `Template.stream` / `_prepare_self`

    455  if not self._prepared:                    (property `stream`)
    474  if not self._prepared:                    (`_prepare_self`)
    475      self._stream = list(self._prepare(self._stream, inlined))
    476      self._prepared = True

  One source line at a time, except line 475 which is split where it matters: the argument
  `self._stream` is read first (`l475`), `_prepare` then runs over that value and the result is
  assigned (`l475run`).
-/

inductive Pc where
  | l455 | l474
  | l475                           -- about to read `self._stream`
  | l475run (sawPrepared : Bool)   -- `_prepare` running over the value read; then the assignment
  | l476
  | finished                -- returned `self._stream`
  | raised                  -- `_prepare` met directive objects where it expects tuples: TypeError
  deriving DecidableEq, Repr, Inhabited

structure RaceSt where
  streamPrepared : Bool
  prepared : Bool
  pcs : List Pc
  deriving DecidableEq, Repr, Inhabited

def raceStep (s : RaceSt) (t : Nat) : RaceSt :=
  match s.pcs[t]? with
  | none => s
  | some pc =>
    match pc with
    | .l455 => { s with pcs := s.pcs.set t (if s.prepared then .finished else .l474) }
    | .l474 => { s with pcs := s.pcs.set t (if s.prepared then .finished else .l475) }
    | .l475 => { s with pcs := s.pcs.set t (.l475run s.streamPrepared) }
    | .l475run saw =>
      if saw then { s with pcs := s.pcs.set t .raised }
      else { s with streamPrepared := true, pcs := s.pcs.set t .l476 }
    | .l476 => { s with prepared := true, pcs := s.pcs.set t .finished }
    | .finished => s
    | .raised => s

def raceRun (s : RaceSt) : List Nat → RaceSt
  | [] => s
  | t :: ts => raceRun (raceStep s t) ts

def RaceSt.init (n : Nat) : RaceSt := ⟨false, false, List.replicate n .l455⟩

end Genshi.Heap

/-
  C06 — specification side: how a browser reads what the sanitizer emits.  These definitions
  do not mention the sanitizer's functions; the Python oracle has its own copies
  (`browser_scheme`, `css_decode` in harness/props/c06.py) and the two are compared by the
  correspondence check.  No Mathlib: linked into `gdrv`.
-/
import Genshi.Model.SanChars
namespace Genshi.San.Spec
open Genshi Genshi.San

/-- whitespace and control characters, which a browser discards when it looks for a scheme:
    `str.isspace` characters and the C0/C1 controls (category Cc) -/
def isWsCtl (c : Char) : Bool :=
  isSpace c || c.toNat < 32 || (127 ≤ c.toNat && c.toNat ≤ 159)

def isAsciiAlpha (c : Char) : Bool := ('a' ≤ c && c ≤ 'z') || ('A' ≤ c && c ≤ 'Z')
def isAsciiDigit (c : Char) : Bool := '0' ≤ c && c ≤ '9'
/-- characters of a URI scheme after the first: ALPHA / DIGIT / "+" / "-" / "." -/
def isSchemeChar (c : Char) : Bool := isAsciiAlpha c || isAsciiDigit c || c = '+' || c = '-' || c = '.'

def isScheme : Str → Bool
  | [] => false
  | c :: cs => isAsciiAlpha c && cs.all isSchemeChar

/-- the scheme a browser sees in a URI value: whitespace and control characters removed, the
    text before the first colon if it has the syntax of a scheme, ASCII case folded -/
def browserScheme (v : Str) : Option Str :=
  let s := v.filter (fun c => !isWsCtl c)
  match split1 ':' s with
  | (_, none) => none
  | (p, some _) => if isScheme p then some (p.map Genshi.Str.lower) else none

/-! ### CSS as the browser decodes it -/

def isHex (c : Char) : Bool := isAsciiDigit c || ('a' ≤ c && c ≤ 'f') || ('A' ≤ c && c ≤ 'F')

def hexDigitVal (c : Char) : Nat :=
  if isAsciiDigit c then c.toNat - 48 else if 'a' ≤ c && c ≤ 'f' then c.toNat - 87 else c.toNat - 55

def hexNum (s : Str) : Nat := s.foldl (fun a c => a * 16 + hexDigitVal c) 0

/-- delimiters that stay escaped: an escaped delimiter is not a delimiter -/
def keepEscaped (c : Char) : Bool :=
  c = '\\' || c = '\'' || c = '"' || c = '{' || c = '}' || c = ';' || c = ':' || c = '(' || c = ')' || c = '#' || c = '*'

def isCssNewline (c : Char) : Bool := c = '\n' || c = '\r' || c = '\x0c'
def isCssSpace (c : Char) : Bool := c = ' ' || c = '\t' || isCssNewline c

def takeHex : Nat → Str → Str × Str
  | 0, s => ([], s)
  | _ + 1, [] => ([], [])
  | n + 1, c :: cs => if isHex c then let (a, b) := takeHex n cs; (c :: a, b) else ([], c :: cs)

/-- one optional white space after a hex escape (`\r\n` counts as one) -/
def dropCssSpace : Str → Str
  | '\r' :: '\n' :: r => r
  | c :: r => if isCssSpace c then r else c :: r
  | [] => []

def cssChar (n : Nat) : Char :=
  if n < 0x110000 ∧ ¬ (0xD800 ≤ n ∧ n ≤ 0xDFFF) then Char.ofNat n else Char.ofNat 0xFFFD

def unescapeOnceGo : Nat → Str → Str
  | 0, s => s
  | _ + 1, [] => []
  | f + 1, c :: cs =>
    if c = '\\' then
      match cs with
      | [] => [c]
      | d :: r =>
        let hr := takeHex 6 cs
        if !hr.1.isEmpty then cssChar (hexNum hr.1) :: unescapeOnceGo f (dropCssSpace hr.2)
        else if isCssNewline d then c :: unescapeOnceGo f cs
        else if keepEscaped d then c :: d :: unescapeOnceGo f r
        else d :: unescapeOnceGo f r
    else c :: unescapeOnceGo f cs

def unescapeOnce (s : Str) : Str := unescapeOnceGo (s.length + 1) s

def afterStarSlash : Str → Option Str
  | [] => none
  | c :: r =>
    match c, r with
    | '*', '/' :: r' => some r'
    | _, _ => afterStarSlash r

def stripOnceGo : Nat → Str → Str
  | 0, s => s
  | _ + 1, [] => []
  | f + 1, c :: r =>
    match c, r with
    | '/', '*' :: r' =>
      match afterStarSlash r' with
      | some rest => stripOnceGo f rest
      | none => c :: stripOnceGo f r
    | _, _ => c :: stripOnceGo f r

def stripOnce (s : Str) : Str := stripOnceGo (s.length + 1) s

def cssDecodeGo : Nat → Str → Str
  | 0, s => s
  | f + 1, s =>
    let t := stripOnce (unescapeOnce s)
    if t = s then s else cssDecodeGo f t

/-- escape decoding and comment removal, repeated until nothing changes -/
def cssDecode (s : Str) : Str := cssDecodeGo (s.length + 2) s

/-! ### what a browser would object to in a decoded style text -/

def smallCap : Char → List Nat
  | 'r' => [0x280]
  | 'i' => [0x26A]
  | 'n' => [0x274]
  | 'l' => [0x29F]
  | _ => []

/-- the spellings of an ASCII lower-case letter that (old) browsers accept in a keyword: the
    letter, its capital, its small capital (U+0280 U+026A U+0274 U+029F) and, when `wide`, the
    two full-width forms -/
def letterVariants (wide : Bool) (x : Char) : List Nat :=
  [x.toNat, x.toNat - 32] ++ smallCap x ++
    (if wide then [x.toNat + 0xFEE0, x.toNat - 32 + 0xFEE0] else [])

def expressionWord : Str := ['e', 'x', 'p', 'r', 'e', 's', 's', 'i', 'o', 'n']
def urlWord : Str := ['u', 'r', 'l']

def wordClasses (wide : Bool) (w : Str) : List (List Nat) := w.map (letterVariants wide)

/-- the text starts with the keyword (in any accepted spelling), optional white space and `(`:
    the text after the parenthesis -/
def callAt (wide : Bool) (word : Str) (s : Str) : Option Str :=
  if matchClasses (wordClasses wide word) s then
    match (dropClasses (wordClasses wide word) s).dropWhile isSpace with
    | '(' :: r => some r
    | _ => none
  else none

/-- `expression(` somewhere in the text -/
def hasExpression : Str → Bool
  | [] => false
  | c :: cs => (callAt true expressionWord (c :: cs)).isSome || hasExpression cs

def urlArgsGo : Nat → Str → List Str
  | 0, _ => []
  | _ + 1, [] => []
  | f + 1, c :: cs =>
    match callAt false urlWord (c :: cs) with
    | some r =>
      if (r.takeWhile (· ≠ ')')).isEmpty then urlArgsGo f cs
      else r.takeWhile (· ≠ ')') :: urlArgsGo f (r.dropWhile (· ≠ ')'))
    | none => urlArgsGo f cs

/-- the arguments of the `url(` tokens of the text, read left to right: an argument runs to the
    closing parenthesis (or the end) and is skipped as a whole; `url()` holds no URI -/
def urlArgs (s : Str) : List Str := urlArgsGo (s.length + 1) s

def isQuote (c : Char) : Bool := c = '"' || c = '\''

/-- white space and quotes around a `url()` argument are CSS syntax, not part of the URI -/
def trimArg (a : Str) : Str := pyStrip (Genshi.Str.stripBy isQuote (pyStrip a))

def schemeOk (schemes : List Str) (v : Str) : Bool :=
  match browserScheme v with
  | none => true
  | some s => schemes.contains s

/-- the text of a style attribute, read as a browser reads it, holds no `expression(` and no
    `url(` with a scheme outside `schemes` -/
def cssOk (schemes : List Str) (style : Str) : Bool :=
  let d := cssDecode style
  !hasExpression d && (urlArgs d).all (fun a => schemeOk schemes (trimArg a))

end Genshi.San.Spec

/-
  C04 — template directives.  Shared vocabulary of the two semantics:
  values, the mini expression language, the template AST, rendering of values.

  Values and expressions mirror what CPython / genshi.template.eval do for the
  fragment: names, None / bool / int / str / list / dict literals, `==`, `not`,
  `len`, indexing, with lookup='lenient' (an unbound name is an `Undefined`).
-/
import Genshi.Model.Core
import Genshi.Model.Str
import Genshi.Model.Escape
namespace Genshi.Tmpl

abbrev Name := List Char

inductive Atom where
  | none
  | bool (b : Bool)
  | int (i : Int)
  | str (s : Str)
  deriving DecidableEq, Repr, Inhabited

/-- run-time values.  `macro id`: the function object created by the `id`-th
    executed `py:def`; `undef`: genshi's `Undefined` (lenient lookup). -/
inductive Val where
  | atom (a : Atom)
  | list (xs : List Atom)
  | dict (kv : List (Str × Atom))
  | undef
  | macro (id : Nat)
  deriving DecidableEq, Repr, Inhabited

inductive Err where
  | type | index | key | undefined | runtime | attribute | value | stopiter
  | fuel          -- the model ran out of fuel (never a statement about the code)
  | unmodelled    -- outside the modelled fragment (counted, never defaulted)
  deriving DecidableEq, Repr, Inhabited

/-- numeric view: `bool` is a subclass of `int` -/
def Atom.num? : Atom → Option Int
  | .bool b => some (if b then 1 else 0)
  | .int i => some i
  | _ => Option.none

/-- Python `==` on atoms -/
def Atom.pyEq (a b : Atom) : Bool :=
  match a.num?, b.num? with
  | some x, some y => x == y
  | Option.none, Option.none => a == b
  | _, _ => false

def listEq : List Atom → List Atom → Bool
  | [], [] => true
  | a :: as, b :: bs => a.pyEq b && listEq as bs
  | _, _ => false

def dictGet (kv : List (Str × Atom)) (k : Str) : Option Atom :=
  match kv with
  | [] => Option.none
  | (k', v) :: rest => if k' = k then some v else dictGet rest k

/-- dict equality ignores order (keys are unique in the literals and data we build) -/
def dictEq (a b : List (Str × Atom)) : Bool :=
  a.length == b.length &&
  a.all fun (k, v) => match dictGet b k with
    | some v' => v.pyEq v'
    | Option.none => false

/-- Python `==` on values; `Undefined` defines no `__eq__` and every lookup makes a new one -/
def Val.pyEq : Val → Val → Bool
  | .atom a, .atom b => a.pyEq b
  | .list a, .list b => listEq a b
  | .dict a, .dict b => dictEq a b
  | .macro i, .macro j => i == j
  | _, _ => false

/-- `==` as the model can decide it: two `Undefined` compare by object identity
    (the same object when it was bound to a name by `py:with` / a macro
    parameter), which the value universe does not track → unmodelled -/
def pyEqM (x y : Val) : Except Err Bool :=
  match x, y with
  | .undef, .undef => .error .unmodelled
  | _, _ => .ok (x.pyEq y)

def Atom.truthy : Atom → Bool
  | .none => false
  | .bool b => b
  | .int i => i != 0
  | .str s => !s.isEmpty

def Val.truthy : Val → Bool
  | .atom a => a.truthy
  | .list xs => !xs.isEmpty
  | .dict kv => !kv.isEmpty
  | .undef => false
  | .macro _ => true

def natStr (n : Nat) : Str := Nat.toDigits 10 n

def intStr (i : Int) : Str :=
  match i with
  | .ofNat n => natStr n
  | .negSucc n => '-' :: natStr (n + 1)

/-- `six.text_type(atom)` -/
def Atom.text : Atom → Str
  | .none => ['N', 'o', 'n', 'e']
  | .bool true => ['T', 'r', 'u', 'e']
  | .bool false => ['F', 'a', 'l', 's', 'e']
  | .int i => intStr i
  | .str s => s

/-! ### expressions -/

inductive Expr where
  | var (n : Name)          -- a name under lookup='lenient'
  | svar (n : Name)         -- a name under lookup='strict' (the default): unbound → UndefinedError
  | lit (v : Val)
  | eq (a b : Expr)
  | not (a : Expr)
  | len (a : Expr)
  | ix (a i : Expr)
  | six (a i : Expr)        -- indexing under lookup='strict': the missing-member fallback raises UndefinedError
  deriving DecidableEq, Repr, Inhabited

def vbool (b : Bool) : Val := .atom (.bool b)
def vint (i : Int) : Val := .atom (.int i)

/-- sequence indexing with Python's negative indices -/
def seqIx {α : Type} (xs : List α) (i : Int) : Option α :=
  let n : Int := xs.length
  let j := if i < 0 then i + n else i
  if j < 0 then Option.none else xs[j.toNat]?

/-- `LookupBase.lookup_item(obj, key)`: `obj[key]`; when that raises
    AttributeError/KeyError/IndexError/TypeError and the key is a string the
    attribute of that name is tried, which for our values never exists, giving
    `Undefined` under lenient lookup; otherwise the error propagates. -/
def lookupItem (obj key : Val) : Except Err Val :=
  match obj with
  | .undef => .error .undefined          -- Undefined.__getitem__ dies (not one of the caught classes)
  | _ =>
    match key with
    | .atom (.str k) =>
        match obj with
        | .dict kv => match dictGet kv k with
            | some v => .ok (.atom v)
            | Option.none => .ok .undef
        | _ => .ok .undef
    | .atom a =>
        match obj, a.num? with
        | .list xs, some i => match seqIx xs i with
            | some v => .ok (.atom v)
            | Option.none => .error .index
        | .atom (.str s), some i => match seqIx s i with
            | some c => .ok (.atom (.str [c]))
            | Option.none => .error .index
        | .dict _, _ => .error .key
        | _, _ => .error .type
    | .undef | .macro _ =>
        -- hashable objects that are neither indices nor present keys
        match obj with
        | .dict _ => .error .key
        | _ => .error .type
    | _ => .error .type       -- list / dict keys: unhashable, not indices

def pyLen : Val → Except Err Val
  | .atom (.str s) => .ok (vint s.length)
  | .list xs => .ok (vint xs.length)
  | .dict kv => .ok (vint kv.length)
  | _ => .error .type

/-- evaluation over a name lookup (the frame stack of the implementation, the
    scoped environment of the documentation semantics) -/
def eval (look : Name → Val) : Expr → Except Err Val
  | .var n => .ok (look n)
  | .svar n =>
      match look n with
      | .undef => .error .undefined
      | v => .ok v
  | .lit v => .ok v
  | .eq a b => do
      let x ← eval look a
      let y ← eval look b
      let r ← pyEqM x y
      pure (vbool r)
  | .not a => do
      let x ← eval look a
      pure (vbool (!x.truthy))
  | .len a => do
      let x ← eval look a
      pyLen x
  | .ix a i => do
      let x ← eval look a
      let k ← eval look i
      lookupItem x k
  | .six a i => do
      let x ← eval look a
      let k ← eval look i
      match lookupItem x k with
      | .ok .undef => .error .undefined     -- StrictLookup.undefined raises
      | r => r

/-- an argument of a macro call: positional, or passed by keyword (`name=expr`) -/
abbrev Arg := Option Name × Expr
/-- a parameter of a macro: a name, with a default expression or without -/
abbrev Param := Name × Option Expr

/-- the arguments of `f(a, b, k=c)` are evaluated from left to right -/
def evalArgs (look : Name → Val) : List Arg → Except Err (List (Option Name × Val))
  | [] => .ok []
  | (k, e) :: es => do
      let v ← eval look e
      let vs ← evalArgs look es
      pure ((k, v) :: vs)

/-- `kwargs.pop(name)` -/
def kwPop (p : Name) : List (Name × Val) → Option (Val × List (Name × Val))
  | [] => none
  | (k, v) :: r =>
      if k = p then some (v, r)
      else match kwPop p r with
        | some (w, r') => some (w, (k, v) :: r')
        | none => none

/-- the loop of `DefDirective.__call__.function` over `self.args`: a parameter takes the next
    positional argument; when these are used up, the keyword argument of its name, whatever its
    value; else its default, evaluated now in the context of the call (the parameters bound so far
    are not visible to it); else — no default — `None.evaluate` → AttributeError.  Surplus
    positional and keyword arguments are dropped (no `*args` / `**kwargs` parameters here). -/
def bindGo (look : Name → Val) : List Param → List Val → List (Name × Val) → Except Err (List (Name × Val))
  | [], _, _ => .ok []
  | (p, _) :: ps, v :: vs, kw => do
      let rest ← bindGo look ps vs kw
      pure ((p, v) :: rest)
  | (p, dflt) :: ps, [], kw =>
      match kwPop p kw with
      | some (v, kw') => do
          let rest ← bindGo look ps [] kw'
          pure ((p, v) :: rest)
      | none =>
          match dflt with
          | some e => do
              let v ← eval look e
              let rest ← bindGo look ps [] kw
              pure ((p, v) :: rest)
          | none => .error .attribute

def positional : List (Option Name × Val) → List Val
  | [] => []
  | (none, v) :: r => v :: positional r
  | (some _, _) :: r => positional r

def keywords : List (Option Name × Val) → List (Name × Val)
  | [] => []
  | (none, _) :: r => keywords r
  | (some k, v) :: r => (k, v) :: keywords r

/-- bind the parameters of a macro to the evaluated arguments of a call -/
def bindParams (look : Name → Val) (params : List Param) (args : List (Option Name × Val)) :
    Except Err (List (Name × Val)) :=
  bindGo look params (positional args) (keywords args)

/-- `iter(x)` as `py:for` uses it -/
def iterItems : Val → Except Err (List Val)
  | .list xs => .ok (xs.map Val.atom)
  | .atom (.str s) => .ok (s.map fun c => Val.atom (.str [c]))
  | .dict kv => .ok (kv.map fun p => Val.atom (.str p.1))
  | .undef => .ok []
  | _ => .error .type

/-! ### templates -/

/-- what may stand in `${…}`, `py:content`, `py:replace`: an expression or a macro call -/
inductive XExpr where
  | pure (e : Expr)
  | call (f : Expr) (args : List Arg)     -- the callee expression (a name) is evaluated first; positional / keyword arguments
  deriving DecidableEq, Repr, Inhabited

inductive Dir where
  | def_ (name : Name) (params : List Param)   -- `f(a, b, c='x')`: parameters, the last ones with defaults
  | when (e : Option Expr)
  | otherwise
  | for_ (v : Name) (e : Expr)
  | if_ (e : Expr)
  | choose (e : Option Expr)
  | with_ (binds : List (Name × Expr))
  | replace (x : XExpr)
  | content (x : XExpr)
  | attrs (e : Expr)
  | strip (e : Option Expr)
  deriving DecidableEq, Repr, Inhabited

/-- the name under which the directive is registered (`directives` lists) -/
def Dir.name : Dir → Str
  | .def_ _ _ => ['d', 'e', 'f']
  | .when _ => ['w', 'h', 'e', 'n']
  | .otherwise => ['o', 't', 'h', 'e', 'r', 'w', 'i', 's', 'e']
  | .for_ _ _ => ['f', 'o', 'r']
  | .if_ _ => ['i', 'f']
  | .choose _ => ['c', 'h', 'o', 'o', 's', 'e']
  | .with_ _ => ['w', 'i', 't', 'h']
  | .replace _ => ['r', 'e', 'p', 'l', 'a', 'c', 'e']
  | .content _ => ['c', 'o', 'n', 't', 'e', 'n', 't']
  | .attrs _ => ['a', 't', 't', 'r', 's']
  | .strip _ => ['s', 't', 'r', 'i', 'p']

/-- template AST.  `elem`: an element with static attributes and its `py:`
    attributes in source order; `delem`: a directive in element form
    (`<py:for each=…>`), which is also a text-template block. -/
inductive TNode where
  | text (s : Str)
  | expr (x : XExpr)
  | elem (tag : Name) (attrs : List (Name × Str)) (dirs : List Dir) (kids : List TNode)
  | delem (d : Dir) (kids : List TNode)
  deriving Repr, Inhabited

/-! ### rendering of values (`Template._flatten`, EXPR branch) -/

def tx (s : Str) (safe : Bool := false) : Event := .text s safe

/-- the events an evaluated `${…}` contributes: `None` and `Undefined` nothing,
    a string one TEXT, a number (bool included) one plain TEXT of its `str()` (genshi fix 26d934c:
    `MarkupTemplate._number_conv` no longer marks it as `Markup`), an iterable
    one TEXT per item through `_ensure`.  A function object has an address in
    its text: unmodelled. -/
def renderVal : Val → Except Err (List Event)
  | .atom .none => .ok []
  | .atom (.str s) => .ok [tx s]
  | .atom a => .ok [tx a.text]
  | .list xs => .ok (xs.map fun a => tx a.text)
  | .dict kv => .ok (kv.map fun p => tx p.1)
  | .undef => .ok []
  | .macro _ => .error .unmodelled

def startEv (tag : Name) (attrs : List (Name × Str)) : Event :=
  .start (QName.plain tag) (attrs.map fun p => (QName.plain p.1, p.2))

def endEv (tag : Name) : Event := .end_ (QName.plain tag)

/-- the pairs `py:attrs` merges into the start tag: only `None` removes, other values are
    `str(v).strip()` (an empty result is kept as an empty value since genshi fix ec9dd78;
    before it `… or None` removed the attribute) -/
def attrPair (p : Str × Atom) : Name × Option Str :=
  match p.2 with
  | .none => (p.1, Option.none)
  | a => (p.1, some (Str.stripBy Str.isAsciiSpace a.text))

/-- value of a `py:attrs` expression → the pairs to merge (falsy: nothing).
    A list must hold (name, value) pairs, which the mini language cannot build. -/
def attrsPairs : Val → Except Err (List (Name × Option Str))
  | .dict kv => .ok (kv.map attrPair)
  | .list [] => .ok []
  | .list _ => .error .unmodelled
  | .macro _ => .error .attribute          -- a function has no `.items`
  | v => if v.truthy then .error .attribute else .ok []

/-- documented processing order (doc/xml-templates.rst, "Processing Order") -/
def docOrder : List Str := [
  ['d', 'e', 'f'], ['m', 'a', 't', 'c', 'h'], ['w', 'h', 'e', 'n'],
  ['o', 't', 'h', 'e', 'r', 'w', 'i', 's', 'e'], ['f', 'o', 'r'], ['i', 'f'],
  ['c', 'h', 'o', 'o', 's', 'e'], ['w', 'i', 't', 'h'], ['r', 'e', 'p', 'l', 'a', 'c', 'e'],
  ['c', 'o', 'n', 't', 'e', 'n', 't'], ['a', 't', 't', 'r', 's'], ['s', 't', 'r', 'i', 'p']]

/-- position of a name in an order list (`len` when absent, as `get_directive_index`) -/
def indexIn (order : List Str) (n : Str) : Nat :=
  match order with
  | [] => 0
  | x :: rest => if x = n then 0 else indexIn rest n + 1

/-- stable insertion sort by a key (Python's `list.sort(key=…)` is stable) -/
def insertBy {α : Type} (key : α → Nat) (x : α) : List α → List α
  | [] => [x]
  | y :: ys => if key y < key x then y :: insertBy key x ys else x :: y :: ys

def sortBy {α : Type} (key : α → Nat) : List α → List α
  | [] => []
  | x :: xs => insertBy key x (sortBy key xs)

end Genshi.Tmpl

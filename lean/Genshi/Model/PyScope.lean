/-
  C13 / C03 — specification side of statement mode: **Python's own scoping rules**, written
  independently of genshi's scope stack (language reference 4.2 "Naming and binding", as CPython's
  `symtable` module computes them):

  * a scope is the module, a class body, or a function (a `def`, a lambda, a comprehension);
  * the names *bound* in a scope are fixed before anything runs: parameters, assignment / augmented
    assignment / `for` / `with … as` / `del` targets, `import` (first component of a dotted name, or
    the `as` name), `def` and `class` names, `except … as` names — anywhere in the body, not
    descending into nested scopes;
  * a name loaded in a function is local if bound there, free if bound in an enclosing *function*
    (class bodies and the module are skipped), global otherwise; in a class body likewise, except
    that the names bound in the class body are looked up in the class namespace; in the module
    every name is global.

  `specS` rewrites exactly the loads that resolve to a global into `_lookup_name(__data__, 'x')`
  (no state is threaded: every scope gets its complete set of bound names up front).
  `scopeTree` reads the result back as, per scope, the set of names referenced as globals — the
  form in which the harness compares it with `symtable`.
-/
import Genshi.Model.PyStmtX
namespace Genshi.Py

inductive ScopeKind where
  | module | function | class_
  deriving DecidableEq, Repr, Inhabited

structure SEnv where
  kind : ScopeKind
  /-- the names bound in this scope -/
  bound : List Str
  /-- the names bound in the enclosing function scopes -/
  encl : List Str
  deriving Repr, Inhabited

/-- what a function nested in this scope sees as its enclosing function names -/
def SEnv.visible (env : SEnv) : List Str :=
  match env.kind with
  | .function => env.bound ++ env.encl
  | _ => env.encl

def SEnv.isGlobal (env : SEnv) (id : Str) : Bool :=
  match env.kind with
  | .module => true
  | _ => !env.bound.contains id && !env.encl.contains id

def SEnv.child (env : SEnv) (kind : ScopeKind) (bound : List Str) : SEnv := ⟨kind, bound, env.visible⟩

def moduleEnv : SEnv := ⟨.module, [], []⟩

def pyOps : NameOps SEnv where
  dec := fun env id => !env.isGlobal id
  push := fun env ns => env.child .function ns

/-- `import a.b.c` binds `a`; `import a.b as c` and `from m import a as c` bind `c` -/
def importBinds : Str × Option Str → Str
  | (n, none) => n.takeWhile (· != '.')
  | (_, some a) => a

def handlerBinds : Option Str → List Str
  | none => []
  | some n => [n]

mutual
/-- the names a statement binds in the scope it stands in -/
def bindsS : PyStmt → List Str
  | .assign ts _ => targetNamesL ts
  | .augAssign t _ _ => targetNames t
  | .delete ts => targetNamesL ts
  | .import_ ns => ns.map importBinds
  | .importFrom _ ns _ => ns.map importBinds
  | .if_ _ b o => bindsB b ++ bindsB o
  | .while_ _ b o => bindsB b ++ bindsB o
  | .for_ t _ b o => targetNames t ++ (bindsB b ++ bindsB o)
  | .with_ items b => (items.map fun i => targetNamesO i.2).flatten ++ bindsB b
  | .try_ b hs o f => bindsB b ++ (bindsB hs ++ (bindsB o ++ bindsB f))
  | .handler _ n b => handlerBinds n ++ bindsB b
  | .functionDef name _ _ _ _ _ _ _ _ _ => [name]
  | .classDef name _ _ _ _ _ => [name]
  | _ => []
def bindsB : List PyStmt → List Str
  | [] => []
  | s :: ss => bindsS s ++ bindsB ss
end

def specItems (env : SEnv) : List (PyExpr × Option PyExpr) → List (PyExpr × Option PyExpr)
  | [] => []
  | (c, none) :: r => (ml pyOps env c, none) :: specItems env r
  | (c, some v) :: r => (ml pyOps env c, some (mlT pyOps env v)) :: specItems env r

mutual
def specS (env : SEnv) : PyStmt → PyStmt
  | .expr e => .expr (ml pyOps env e)
  | .assign ts v => .assign (mlTL pyOps env ts) (ml pyOps env v)
  | .augAssign t op v => .augAssign (mlT pyOps env t) op (ml pyOps env v)
  | .return_ v => .return_ (mlO pyOps env v)
  | .delete ts => .delete (mlTL pyOps env ts)
  | .pass_ => .pass_
  | .break_ => .break_
  | .continue_ => .continue_
  | .assert_ t m => .assert_ (ml pyOps env t) (mlO pyOps env m)
  | .raise_ e c => .raise_ (mlO pyOps env e) (mlO pyOps env c)
  | .global_ ns => .global_ ns
  | .import_ ns => .import_ ns
  | .importFrom m ns lvl => .importFrom m ns lvl
  | .if_ t b o => .if_ (ml pyOps env t) (specB env b) (specB env o)
  | .while_ t b o => .while_ (ml pyOps env t) (specB env b) (specB env o)
  | .for_ t it b o => .for_ (mlT pyOps env t) (ml pyOps env it) (specB env b) (specB env o)
  | .with_ items b => .with_ (specItems env items) (specB env b)
  | .try_ b hs o f => .try_ (specB env b) (specB env hs) (specB env o) (specB env f)
  | .handler t n b => .handler (mlO pyOps env t) n (specB env b)
  | .functionDef name po ar va ko ka body decos ret tp =>
      -- parameter defaults / annotations, decorators and the return annotation belong to the
      -- enclosing scope; the body is a function scope
      .functionDef name (mlL pyOps env po) (mlL pyOps env ar) (mlO pyOps env va) (mlL pyOps env ko) (mlO pyOps env ka)
        (specB (env.child .function (paramNames po ar va ko ka ++ bindsB body)) body)
        (mlL pyOps env decos) (mlO pyOps env ret) tp
  | .classDef name bases kws body decos tp =>
      .classDef name (mlL pyOps env bases) (mlL pyOps env kws)
        (specB (env.child .class_ (bindsB body)) body) (mlL pyOps env decos) tp
  | .unsupported k => .unsupported k
def specB (env : SEnv) : List PyStmt → List PyStmt
  | [] => []
  | s :: ss => specS env s :: specB env ss
end

/-- the module body with exactly the loads of global names rewritten -/
def specModule (body : List PyStmt) : List PyStmt := specB moduleEnv body

/-! ### the domain of the comparison

`loadsOk p q e`: every name loaded by `e` in the scope `e` stands in satisfies `p`, every name
loaded in a scope nested in `e` (lambda body, comprehension) satisfies `q`. -/

mutual
def loadsOk (p q : Str → Bool) : PyExpr → Bool
  | .name id => p id
  | .const _ => true
  | .boolOp _ vs => loadsOkL p q vs
  | .binOp l _ r => loadsOk p q l && loadsOk p q r
  | .unaryOp _ e => loadsOk p q e
  | .lambda po ar va ko ka body =>
      loadsOkL p q po && loadsOkL p q ar && loadsOkO p q va && loadsOkL p q ko && loadsOkO p q ka
        && loadsOk q q body
  | .ifExp t b o => loadsOk p q t && loadsOk p q b && loadsOk p q o
  | .dict items => loadsOkL p q items
  | .listComp elt gens => loadsOk q q elt && loadsOkGens p q gens
  | .genExp elt gens => loadsOk q q elt && loadsOkGens p q gens
  | .yield_ v => loadsOkO p q v
  | .compare l rest => loadsOk p q l && loadsOkL p q rest
  | .call f args kws => loadsOk p q f && loadsOkL p q args && loadsOkL p q kws
  | .attribute v _ => loadsOk p q v
  | .subscript v sl => loadsOk p q v && loadsOk p q sl
  | .slice l u st => loadsOkO p q l && loadsOkO p q u && loadsOkO p q st
  | .starred e => loadsOk p q e
  | .list elts => loadsOkL p q elts
  | .tuple elts => loadsOkL p q elts
  | .unsupported _ => true
  | .keyword _ v => loadsOk p q v
  | .comp t it ifs _ => loadsOkT p q t && loadsOk p q it && loadsOkL p q ifs
  | .param _ ann d => loadsOkO p q ann && loadsOkO p q d
  | .dictItem k v => loadsOkO p q k && loadsOk p q v
  | .cmpRhs _ e => loadsOk p q e
def loadsOkL (p q : Str → Bool) : List PyExpr → Bool
  | [] => true
  | e :: es => loadsOk p q e && loadsOkL p q es
def loadsOkO (p q : Str → Bool) : Option PyExpr → Bool
  | none => true
  | some e => loadsOk p q e
def loadsOkGens (p q : Str → Bool) : List PyExpr → Bool
  | [] => true
  | .comp t it ifs _ :: r => loadsOkT q q t && loadsOk p q it && loadsOkL q q ifs && loadsOkGens q q r
  | e :: r => loadsOk q q e && loadsOkGens q q r
def loadsOkT (p q : Str → Bool) : PyExpr → Bool
  | .name _ => true
  | .tuple elts => loadsOkTL p q elts
  | .list elts => loadsOkTL p q elts
  | .starred e => loadsOkT p q e
  | .attribute v _ => loadsOk p q v
  | .subscript v sl => loadsOk p q v && loadsOk p q sl
  | _ => true
def loadsOkTL (p q : Str → Bool) : List PyExpr → Bool
  | [] => true
  | e :: es => loadsOkT p q e && loadsOkTL p q es
end

/-- names with a documented special treatment in genshi: `CONSTANTS` (known finding
    C03-constant-names) and `super` / `__class__` (kept plain inside classes so that the compiler
    creates the `__class__` cell) -/
def reservedNames : List Str := constantNames ++ superNames

def plainName (id : Str) : Bool := !reservedNames.contains id

/-- a load standing directly in scope `env`: not reserved, and — known finding
    C13-class-body-rebinding — not a name the class body itself binds (Python resolves those at
    run time: class namespace, then globals) -/
def directOk (env : SEnv) (id : Str) : Bool :=
  plainName id && !(env.kind == .class_ && env.bound.contains id)

def okItems (env : SEnv) : List (PyExpr × Option PyExpr) → Bool
  | [] => true
  | (c, none) :: r => loadsOk (directOk env) plainName c && okItems env r
  | (c, some v) :: r => loadsOk (directOk env) plainName c && loadsOkT (directOk env) plainName v && okItems env r

mutual
/-- the statement is in the domain of the comparison theorem: loads as in `directOk`, and none
    of the statement forms whose regenerated text is rejected anyway (`global`, `except … as`) -/
def okS (env : SEnv) : PyStmt → Bool
  | .expr e => loadsOk (directOk env) plainName e
  | .assign ts v => loadsOkTL (directOk env) plainName ts && loadsOk (directOk env) plainName v
  | .augAssign t _ v => loadsOkT (directOk env) plainName t && loadsOk (directOk env) plainName v
  | .return_ v => loadsOkO (directOk env) plainName v
  | .delete ts => loadsOkTL (directOk env) plainName ts
  | .pass_ => true
  | .break_ => true
  | .continue_ => true
  | .assert_ t m => loadsOk (directOk env) plainName t && loadsOkO (directOk env) plainName m
  | .raise_ e c => loadsOkO (directOk env) plainName e && loadsOkO (directOk env) plainName c
  | .global_ _ => false
  | .import_ _ => true
  | .importFrom _ ns _ => !isStarImport ns
  | .if_ t b o => loadsOk (directOk env) plainName t && okB env b && okB env o
  | .while_ t b o => loadsOk (directOk env) plainName t && okB env b && okB env o
  | .for_ t it b o =>
      loadsOkT (directOk env) plainName t && loadsOk (directOk env) plainName it && okB env b && okB env o
  | .with_ items b => okItems env items && okB env b
  | .try_ b hs o f => okB env b && okB env hs && okB env o && okB env f
  | .handler t n b => n.isNone && loadsOkO (directOk env) plainName t && okB env b
  | .functionDef _ po ar va ko ka body decos ret _ =>
      loadsOkL (directOk env) plainName po && loadsOkL (directOk env) plainName ar
        && loadsOkO (directOk env) plainName va && loadsOkL (directOk env) plainName ko
        && loadsOkO (directOk env) plainName ka && loadsOkL (directOk env) plainName decos
        && loadsOkO (directOk env) plainName ret
        && okB (env.child .function (paramNames po ar va ko ka ++ bindsB body)) body
  | .classDef _ bases kws body decos _ =>
      loadsOkL (directOk env) plainName bases && loadsOkL (directOk env) plainName kws
        && loadsOkL (directOk env) plainName decos
        && okB (env.child .class_ (bindsB body)) body
  | .unsupported _ => true
def okB (env : SEnv) : List PyStmt → Bool
  | [] => true
  | s :: ss => okS env s && okB env ss
end

def okModule (body : List PyStmt) : Bool := okB moduleEnv body

/-! ### reading the rewritten tree back: which names does each scope reference as globals -/

inductive ScopeTree where
  | node (kind : Str) (name : Str) (globals : List Str) (children : List ScopeTree)
  deriving Repr, Inhabited

/-- the identifier of a `_lookup_name(__data__, 'x')` call -/
def lookupNameOf : PyExpr → Option Str
  | .call (.name n) [.name d, .const ⟨.str, q⟩] [] =>
      if n = cs!"_lookup_name" && d = cs!"__data__" then some (unquote q) else none
  | _ => none

abbrev Refs := List Str × List ScopeTree

def Refs.add (a b : Refs) : Refs := (a.1 ++ b.1, a.2 ++ b.2)

/-- a nested function-like scope -/
def Refs.scope (name : Str) (a : Refs) : Refs := ([], [.node cs!"function" name a.1 a.2])

mutual
/-- the global references of an expression standing in some scope: those of that scope itself, and
    the scopes nested in the expression -/
def glE : PyExpr → Refs
  | .name _ => ([], [])
  | .const _ => ([], [])
  | .boolOp _ vs => glL vs
  | .binOp l _ r => (glE l).add (glE r)
  | .unaryOp _ e => glE e
  | .lambda po ar va ko ka body =>
      (((((glL po).add (glL ar)).add (glO va)).add (glL ko)).add (glO ka)).add ((glE body).scope cs!"lambda")
  | .ifExp t b o => ((glE t).add (glE b)).add (glE o)
  | .dict items => glL items
  | .listComp elt gens => let r := glGens true gens; r.1.add ((r.2.add (glE elt)).scope cs!"listcomp")
  | .genExp elt gens => let r := glGens true gens; r.1.add ((r.2.add (glE elt)).scope cs!"genexpr")
  | .yield_ v => glO v
  | .compare l rest => (glE l).add (glL rest)
  | .call f args kws =>
      match lookupNameOf (.call f args kws) with
      | some id => ([id], [])
      | none => ((glE f).add (glL args)).add (glL kws)
  | .attribute v _ => glE v
  | .subscript v sl => (glE v).add (glE sl)
  | .slice l u st => ((glO l).add (glO u)).add (glO st)
  | .starred e => glE e
  | .list elts => glL elts
  | .tuple elts => glL elts
  | .unsupported _ => ([], [])
  | .keyword _ v => glE v
  | .comp t it ifs _ => ((glE t).add (glE it)).add (glL ifs)
  | .param _ ann d => (glO ann).add (glO d)
  | .dictItem k v => (glO k).add (glE v)
  | .cmpRhs _ e => glE e
def glL : List PyExpr → Refs
  | [] => ([], [])
  | e :: es => (glE e).add (glL es)
def glO : Option PyExpr → Refs
  | none => ([], [])
  | some e => glE e
/-- the clauses of a comprehension: (references of the enclosing scope = the first iterable,
    references of the comprehension's own scope) -/
def glGens (first : Bool) : List PyExpr → Refs × Refs
  | [] => (([], []), ([], []))
  | .comp t it ifs _ :: r =>
      let rest := glGens false r
      if first then (glE it, ((glE t).add (glL ifs)).add rest.2)
      else (([], []), (((glE t).add (glE it)).add (glL ifs)).add rest.2)
  | e :: r => let rest := glGens false r; (([], []), (glE e).add rest.2)
end

def glItems : List (PyExpr × Option PyExpr) → Refs
  | [] => ([], [])
  | (c, v) :: r => ((glE c).add (glO v)).add (glItems r)

mutual
def glS : PyStmt → Refs
  | .expr e => glE e
  | .assign ts v => (glL ts).add (glE v)
  | .augAssign t _ v => (glE t).add (glE v)
  | .return_ v => glO v
  | .delete ts => glL ts
  | .assert_ t m => (glE t).add (glO m)
  | .raise_ e c => (glO e).add (glO c)
  | .if_ t b o => ((glE t).add (glB b)).add (glB o)
  | .while_ t b o => ((glE t).add (glB b)).add (glB o)
  | .for_ t it b o => (((glE t).add (glE it)).add (glB b)).add (glB o)
  | .with_ items b => (glItems items).add (glB b)
  | .try_ b hs o f => (((glB b).add (glB hs)).add (glB o)).add (glB f)
  | .handler t _ b => (glO t).add (glB b)
  | .functionDef name po ar va ko ka body decos ret _ =>
      ((((((glL po).add (glL ar)).add (glO va)).add (glL ko)).add (glO ka)).add (glL decos)).add (glO ret)
        |>.add ((glB body).scope name)
  | .classDef name bases kws body decos _ =>
      let b := glB body
      (((glL bases).add (glL kws)).add (glL decos)).add ([], [.node cs!"class" name b.1 b.2])
  | _ => ([], [])
def glB : List PyStmt → Refs
  | [] => ([], [])
  | s :: ss => (glS s).add (glB ss)
end

/-- per scope, the names that are referenced as globals in a rewritten module body -/
def scopeTree (body : List PyStmt) : ScopeTree :=
  let r := glB body
  .node cs!"module" cs!"top" r.1 r.2

/-- `freeGlobals`: Python's rule, per scope -/
def freeGlobals (body : List PyStmt) : ScopeTree := scopeTree (specModule body)

end Genshi.Py

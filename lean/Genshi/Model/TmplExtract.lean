/-
  C04 — `MarkupTemplate._extract_directives` as the code runs it: one pass over the
  *flat* parsed stream with a depth counter and the dictionary `dirmap` keyed by
  `(depth, tag)`; at the END event whose key is in `dirmap` the events since the
  recorded offset are moved into a SUB event (minus the first and last when the
  element is itself a directive).  `extractTree` is the same thing by recursion
  on the template tree; `Lemmas/TmplExtract.lean` proves they agree.
  The text templates' `_parse` builds its SUB events the same way with the
  dictionary keyed by depth only (`extractText`).
-/
import Genshi.Model.TmplImpl
namespace Genshi.Tmpl

/-- tag of a parsed event: `py = true` for names in the directive namespace -/
structure PTag where
  py : Bool
  name : Name
  deriving DecidableEq, Repr, Inhabited

/-- parsed stream (output of `_parse`): START carries the element's `py:` attributes in
    source order and, for a directive element, the directive built from its attributes -/
inductive PEv where
  | start (tag : PTag) (attrs : List (Name × Str)) (dirs : List Dir) (dirElem : Option Dir)
  | end_ (tag : PTag)
  | text (s : Str)
  | xexpr (x : XExpr)
  deriving Repr, Inhabited

/-- stream after extraction, before `attach` -/
inductive REv where
  | start (tag : PTag) (attrs : List (Name × Str))
  | end_ (tag : PTag)
  | text (s : Str)
  | xexpr (x : XExpr)
  | sub (ds : List Dir) (body : List REv)
  deriving Repr, Inhabited

def pyTag (d : Dir) : PTag := ⟨true, d.name⟩
def plainTag (n : Name) : PTag := ⟨false, n⟩

mutual
  /-- the parsed stream of a template -/
  def toStream : TNode → List PEv
    | .text s => [.text s]
    | .expr x => [.xexpr x]
    | .elem tag attrs dirs kids =>
        .start (plainTag tag) attrs dirs none :: (toStreams kids ++ [.end_ (plainTag tag)])
    | .delem d kids => .start (pyTag d) [] [] (some d) :: (toStreams kids ++ [.end_ (pyTag d)])
  def toStreams : List TNode → List PEv
    | [] => []
    | n :: ns => toStream n ++ toStreams ns
end

mutual
  /-- extraction by recursion on the tree -/
  def extractTree : TNode → List REv
    | .text s => [.text s]
    | .expr x => [.xexpr x]
    | .elem tag attrs dirs kids =>
        let body := .start (plainTag tag) attrs :: (extractTrees kids ++ [.end_ (plainTag tag)])
        if dirs.isEmpty then body else [.sub (sortBy Dir.implIdx dirs) body]
    | .delem d kids => [.sub [d] (extractTrees kids)]
  def extractTrees : List TNode → List REv
    | [] => []
    | n :: ns => extractTree n ++ extractTrees ns
end

/-! ### the flat pass -/

abbrev DirMap := List ((Nat × PTag) × (List Dir × Nat × Bool))

def DirMap.get? (m : DirMap) (k : Nat × PTag) : Option (List Dir × Nat × Bool) :=
  match m with
  | [] => none
  | (k', v) :: rest => if k' = k then some v else DirMap.get? rest k

def DirMap.erase (m : DirMap) (k : Nat × PTag) : DirMap := m.filter (fun p => p.1 ≠ k)

/-- `dirmap[k] = v` -/
def DirMap.put (m : DirMap) (k : Nat × PTag) (v : List Dir × Nat × Bool) : DirMap :=
  (k, v) :: m.erase k

structure XSt where
  depth : Nat
  dirmap : DirMap
  out : List REv
  deriving Repr, Inhabited

/-- `substream[1:-1]` -/
def trimEnds {α : Type} (l : List α) : List α := (l.drop 1).dropLast

def extractStep (s : XSt) : PEv → XSt
  | .start tag attrs dirs dirElem =>
      let directives := (match dirElem with | some d => [d] | none => []) ++ dirs
      let sorted := sortBy Dir.implIdx directives
      let dm := if directives.isEmpty then s.dirmap
                else s.dirmap.put (s.depth, tag) (sorted, s.out.length, dirElem.isSome)
      ⟨s.depth + 1, dm, s.out ++ [.start tag attrs]⟩
  | .end_ tag =>
      let depth := s.depth - 1
      let out := s.out ++ [.end_ tag]
      match s.dirmap.get? (depth, tag) with
      | some (ds, offset, strip) =>
          let substream := out.drop offset
          let substream := if strip then trimEnds substream else substream
          ⟨depth, s.dirmap.erase (depth, tag), out.take offset ++ [.sub ds substream]⟩
      | none => ⟨depth, s.dirmap, out⟩
  | .text t => { s with out := s.out ++ [.text t] }
  | .xexpr x => { s with out := s.out ++ [.xexpr x] }

def extractFlatFrom (s : XSt) (evs : List PEv) : XSt := evs.foldl extractStep s

/-- `_extract_directives(stream)` -/
def extractFlat (evs : List PEv) : List REv := (extractFlatFrom ⟨0, [], []⟩ evs).out

/-! ### `Template._prepare` on the extracted stream -/

def attachR : List Dir → List REv → List Dir × List REv
  | [], body => ([], body)
  | .replace x :: ds, _ => attachR ds [.xexpr x]
  | .content x :: ds, body =>
      match body with
      | .start t a :: _ => attachR ds [.start t a, .xexpr x, body.getLast?.getD (.start t a)]
      | _ => attachR ds body
  | d :: ds, body =>
      let r := attachR ds body
      (d :: r.1, r.2)

def mkSubR (ds : List Dir) (body : List REv) : List REv :=
  if ds.isEmpty then body else [.sub ds body]

/- nested streams first, then `attach` on the SUB's own directives (the code attaches first and
    recurses into the result; `attach` only looks at whether the first event is a START and keeps
    the first and last events, which the recursion does not change for streams cut from a
    template) -/

mutual
  def prepareR : REv → List REv
    | .sub ds body =>
        let r := attachR ds (prepareRs body)
        mkSubR r.1 r.2
    | .start t a => [.start t a]
    | .end_ t => [.end_ t]
    | .text s => [.text s]
    | .xexpr x => [.xexpr x]
  def prepareRs : List REv → List REv
    | [] => []
    | e :: es => prepareR e ++ prepareRs es
end

mutual
  /-- forget the namespace flag of tags (prepared streams of well-formed templates have no
      directive-namespace elements left) -/
  def toCEv : REv → CEv
    | .start t a => .start t.name a
    | .end_ t => .end_ t.name
    | .text s => .text s
    | .xexpr x => .xexpr x
    | .sub ds body => .sub ds (toCEvs body)
  def toCEvs : List REv → List CEv
    | [] => []
    | e :: es => toCEv e :: toCEvs es
end

/-- the whole construction-time pipeline on the parsed stream -/
def compileFlat (ns : List TNode) : List CEv := toCEvs (prepareRs (extractFlat (toStreams ns)))

end Genshi.Tmpl

/-
  C01 — substitution sites: how a value taken from the template context reaches the
  output stream.  The model mirrors the code as it is:

    * `flattenVal`   = the EXPR branch of `Template._flatten` (genshi/template/base.py)
                       with `_ensure` (genshi/core.py) for iterables
    * `attrValue`    = the START branch of `_flatten` for interpolated attribute values
                       (`''.join(values)`, `None` parts dropped, nothing left → attribute dropped)
    * `applyPyAttrs` = `AttrsDirective.__call__` (genshi/template/directives.py):
                       `str(v).strip() or None`, merged with `Attrs.__or__`
    * `evalSite`     = the expression forms of the grammar: `Markup` operators (C18 model),
                       `escape`, the element builder (`Fragment.append/_generate`,
                       `_kwargs_to_attrs`, genshi/builder.py)
    * `renderNode`   = template bodies: literal text, `${…}`/`py:content`/`py:replace` sites,
                       elements, `py:for`, `py:with`/macro calls, `py:if`

  Expressions are not evaluated here (that is C03): a case carries the *values* the
  expressions evaluate to.  Events are START / END / TEXT(plain|safe) without namespaces.
-/
import Genshi.Model.Escape
import Genshi.Gen.Subst
namespace Genshi.Subst
open Genshi.Escape Genshi.Str

abbrev Name := List Char

/-- a scalar context value, as the substitution sites distinguish them -/
inductive Scalar where
  | none                                             -- `None`
  | str (s : List Char)                              -- `str`
  | markup (s : List Char)                           -- `Markup` instance (marked safe)
  | num (s : List Char)                              -- `int`/`float`/`bool` (also subclasses); `s = str(n)`
  | obj (s : List Char) (html : Option (List Char))  -- object: `__str__() = s`, optional `__html__()`
  deriving Repr, DecidableEq, Inhabited

/-- a context value: a scalar, or a list / generator of scalars -/
inductive Val where
  | one (x : Scalar)
  | many (xs : List Scalar)
  deriving Repr, DecidableEq, Inhabited

/-- `six.text_type(x)` -/
def pyStr : Scalar → List Char
  | .none => ['N', 'o', 'n', 'e']
  | .str s => s
  | .markup s => s
  | .num s => s
  | .obj s _ => s

/-- output events of the model (no namespaces) -/
inductive Ev where
  | start (tag : Name) (attrs : List (Name × List Char))
  | end_ (tag : Name)
  | text (s : List Char) (safe : Bool)       -- `safe`: the data is a `Markup` instance
  deriving Repr, DecidableEq, Inhabited

/-! ### text sites: `Template._flatten`, EXPR branch -/

/-- `_number_conv(result)`: `Markup` (marked safe) or plain text, as the class under test says -/
def numberEv (s : List Char) : Ev := .text s Genshi.Gen.Subst.numberConvSafe

/-- the events produced for the result of an EXPR -/
def flattenVal : Val → List Ev
  | .one .none => []                                   -- `if result is not None`
  | .one (.str s) => [.text s false]                   -- string → TEXT
  | .one (.markup s) => [.text s true]                 -- a Markup instance is a string: kept as it is
  | .one (.num s) => [numberEv s]                      -- number → TEXT via `_number_conv`
  | .one (.obj s _) => [.text s false]                 -- no `__iter__` → `six.text_type(result)`
  | .many xs => xs.map fun x => .text (pyStr x) false  -- `__iter__` → `_ensure`: `TEXT, six.text_type(item)`

/-! ### attribute-value sites -/

/-- scalar-valued expression: a context value or a loop / with / macro variable -/
inductive Atom where
  | lit (x : Scalar)
  | var (i : Nat)
  deriving Repr, DecidableEq, Inhabited

/-- value expression -/
inductive VExpr where
  | val (v : Val)                  -- a context variable holding `v`
  | var (i : Nat)                  -- loop / with / macro variable (0 = innermost)
  | listOf (items : List Atom)     -- `[a, b]`, `(z for z in [a, b])`
  deriving Repr, DecidableEq, Inhabited

abbrev Env := List Scalar

def evalAtom (env : Env) : Atom → Scalar
  | .lit x => x
  | .var i => env.getD i .none

def evalV (env : Env) : VExpr → Val
  | .val v => v
  | .var i => .one (env.getD i .none)
  | .listOf items => .many (items.map (evalAtom env))

inductive APart where
  | lit (s : List Char)
  | expr (e : VExpr)
  deriving Repr, DecidableEq, Inhabited

/-- an attribute in a template start tag -/
inductive AttrSpec where
  | static (s : List Char)          -- no expression: stays a string
  | interp (parts : List APart)     -- `interpolate` produced a list of TEXT / EXPR events
  deriving Repr, DecidableEq, Inhabited

def textData : Ev → Option (List Char)
  | .text s _ => some s
  | _ => none

/-- `[event[1] for event in self._flatten(value, …) if event[0] is TEXT and event[1] is not None]` -/
def partValues (env : Env) : APart → List (List Char)
  | .lit s => [s]
  | .expr e => (flattenVal (evalV env e)).filterMap textData

/-- the START branch of `_flatten`: `None` = `if not values: continue` (attribute dropped);
    `''.join(values)` returns a plain `str` whatever the parts were -/
def attrValue (env : Env) : AttrSpec → Option (List Char)
  | .static s => some s
  | .interp parts =>
      let vs := parts.flatMap (partValues env)
      if vs.isEmpty then none else some vs.flatten

/-! ### `py:attrs` -/

def isPySpace (c : Char) : Bool := Genshi.Gen.Subst.pySpace.contains c.toNat

/-- `str.strip()` -/
def pyStrip (s : List Char) : List Char := stripBy isPySpace s

/-- `None if v is None else six.text_type(v).strip()`: only `None` removes an attribute
    (after fix ce82919; before it a value that was empty after trimming removed it as well) -/
def stripValue : Scalar → Option (List Char)
  | .none => none
  | x => some (pyStrip (pyStr x))

/-! `Attrs.__or__` of core.py, as in `Genshi.Escape.Attrs.or`, generic in the value type
    (the directive runs before interpolated values are evaluated, so values are `AttrSpec`s) -/
section Or
variable {α : Type}

def hasName (a : List (Name × α)) (n : Name) : Bool := a.any (fun p => p.1 == n)

def gLastVal (n : Name) : List (Name × α) → Option α
  | [] => none
  | (k, v) :: rest =>
      match gLastVal n rest with
      | some w => some w
      | none => if k = n then some v else none

def gRemove (attrs : List (Name × Option α)) : List Name :=
  attrs.filterMap fun p => if p.2.isNone then some p.1 else none

def gRepl (self : List (Name × α)) (attrs : List (Name × Option α)) : List (Name × α) :=
  attrs.filterMap fun p =>
    match p.2 with
    | some v => if hasName self p.1 then some (p.1, v) else none
    | none => none

def gKept (self : List (Name × α)) (attrs : List (Name × Option α)) : List (Name × α) :=
  self.filterMap fun p =>
    if (gRemove attrs).contains p.1 then none
    else some (p.1, (gLastVal p.1 (gRepl self attrs)).getD p.2)

def gUpsert (n : Name) (v : α) : List (Name × α) → List (Name × α)
  | [] => [(n, v)]
  | (k, w) :: rest => if k = n then (n, v) :: rest else (k, w) :: gUpsert n v rest

def gNewStep (self : List (Name × α)) (remove : List Name) (acc : List (Name × α))
    (p : Name × Option α) : List (Name × α) :=
  match p.2 with
  | some v => if hasName self p.1 || remove.contains p.1 then acc else gUpsert p.1 v acc
  | none => acc

def gNew (self : List (Name × α)) (attrs : List (Name × Option α)) : List (Name × α) :=
  attrs.foldl (gNewStep self (gRemove attrs)) []

/-- `Attrs.__or__` -/
def gOr (self : List (Name × α)) (attrs : List (Name × Option α)) : List (Name × α) :=
  gKept self attrs ++ gNew self attrs
end Or

/-- `AttrsDirective.__call__`: `attrib |= [(QName(n), None if v is None else str(v).strip()) for n, v in attrs]`;
    a falsy value of the expression leaves the attributes alone -/
def applyPyAttrs (env : Env) (attrib : List (Name × AttrSpec)) (items : List (Name × Atom)) :
    List (Name × AttrSpec) :=
  if items.isEmpty then attrib
  else gOr attrib (items.map fun (n, a) => (n, (stripValue (evalAtom env a)).map AttrSpec.static))

/-- the attributes of a START event after the directive and `_flatten` -/
def evalAttrs (env : Env) (attrib : List (Name × AttrSpec)) : List (Name × List Char) :=
  attrib.filterMap fun (n, a) => (attrValue env a).map fun v => (n, v)

/-! ### expression forms at text sites -/

/-- operand of a `Markup` operator (C18 domain: str, Markup, object with `__html__`; the
    other scalars are mapped as the C implementation does — they are outside the domain the
    driver answers for, see `opndOk`) -/
def toOpnd : Scalar → Opnd
  | .none => .plain []
  | .str s => .plain s
  | .markup s => .safe s
  | .num s => .plain s
  | .obj s none => .plain s
  | .obj _ (some h) => .html h

def opndOk : Scalar → Bool
  | .str _ => true
  | .markup _ => true
  | .obj _ (some _) => true
  | _ => false

inductive FArgs where
  | one (a : Atom)
  | tup (as : List Atom)
  | map (kvs : List (List Char × Atom))
  deriving Repr, Inhabited

def evalFArgs (env : Env) : FArgs → ModArg
  | .one a => .one (toOpnd (evalAtom env a))
  | .tup as => .tup (as.map fun a => toOpnd (evalAtom env a))
  | .map kvs => .map (kvs.map fun (k, a) => (k, toOpnd (evalAtom env a)))

/-- the element builder: a child argument of `tag.x(...)` -/
inductive BKid where
  | arg (e : VExpr)                                                  -- a value
  | el (tag : Name) (attrs : List (Name × Atom)) (kids : List BKid)   -- a nested `tag.y(...)`
  deriving Repr, Inhabited

/-- `Fragment.append` + `Fragment._generate` for one scalar child: `None` is skipped, strings
    (a `Markup` stays a `Markup`) are TEXT, anything else is `six.text_type(child)` -/
def bchildEvents : Scalar → List Ev
  | .none => []
  | .str s => [.text s false]
  | .markup s => [.text s true]
  | .num s => [.text s false]
  | .obj s _ => [.text s false]

def bvalEvents : Val → List Ev
  | .one x => bchildEvents x
  | .many xs => xs.flatMap bchildEvents

/-- `_kwargs_to_attrs`: `None` values and repeated names are skipped, values are `six.text_type(value)` -/
def kwAttrs (env : Env) : List (Name × Atom) → List Name → List (Name × Option (List Char))
  | [], _ => []
  | (n, a) :: rest, seen =>
      match evalAtom env a with
      | .none => kwAttrs env rest seen
      | x => if seen.contains n then kwAttrs env rest seen
             else (n, some (pyStr x)) :: kwAttrs env rest (n :: seen)

mutual
  /-- `Element._generate` (attributes: `Attrs() | _kwargs_to_attrs(kwargs)`) -/
  def bkidEvents (env : Env) : BKid → List Ev
    | .arg e => bvalEvents (evalV env e)
    | .el t attrs kids =>
        .start t (Attrs.or [] (kwAttrs env attrs [])) :: (bkidsEvents env kids ++ [.end_ t])
  def bkidsEvents (env : Env) : List BKid → List Ev
    | [] => []
    | k :: ks => bkidEvents env k ++ bkidsEvents env ks
end

/-! markup written by the template author with holes, as `Markup('<b title="%s">%s</b>') % (a, b)` uses it:
    the pieces and the format string they are written as -/

inductive FAttr where
  | lit (v : List Char)      -- a literal attribute value (its text, not yet escaped)
  | hole                     -- `%s`
  deriving Repr, DecidableEq, Inhabited

inductive FPiece where
  | text (s : List Char)     -- literal character data (its text, not yet escaped)
  | hole                     -- `%s` in text position
  | open (tag : Name) (attrs : List (Name × FAttr))
  | close (tag : Name)
  deriving Repr, Inhabited

/-- a literal `%` is written `%%` in a format string -/
def pctDouble (s : List Char) : List Char := s.flatMap fun c => if c = '%' then ['%', '%'] else [c]

def fmtAttr (p : Name × FAttr) : List Char :=
  match p.2 with
  | .lit v => ' ' :: (p.1 ++ ('=' :: '"' :: (pctDouble (escapePy true v) ++ ['"'])))
  | .hole => ' ' :: (p.1 ++ ['=', '"', '%', 's', '"'])

/-- the format string the author writes for the pieces -/
def fmtString : List FPiece → List Char
  | [] => []
  | .text s :: rest => pctDouble (escapePy false s) ++ fmtString rest
  | .hole :: rest => '%' :: 's' :: fmtString rest
  | .open t attrs :: rest => '<' :: (t ++ (attrs.flatMap fmtAttr ++ '>' :: fmtString rest))
  | .close t :: rest => '<' :: '/' :: (t ++ '>' :: fmtString rest)

/-- fill the attribute holes from the operands; `none`: not enough operands -/
def fillAttrs : List (Name × FAttr) → List (List Char) → Option (List (Name × List Char) × List (List Char))
  | [], as => some ([], as)
  | (n, .lit v) :: rest, as => (fillAttrs rest as).map fun r => ((n, v) :: r.1, r.2)
  | (_, .hole) :: _, [] => none
  | (n, .hole) :: rest, a :: as => (fillAttrs rest as).map fun r => ((n, a) :: r.1, r.2)

/-- expression at a text site -/
inductive SExpr where
  | v (e : VExpr)                                   -- `${e}`
  | add (m : List Char) (a : Atom)                  -- `Markup(m) + a`
  | radd (m : List Char) (a : Atom)                 -- `a + Markup(m)`
  | join (sep : List Char) (items : List Atom)      -- `Markup(sep).join([…])`
  | esc (a : Atom) (q : Bool)                       -- `escape(a, quotes=q)`
  | fmt (f : List Char) (args : FArgs)              -- `Markup(f) % args`
  | fmtp (pieces : List FPiece) (args : List Atom)  -- `Markup(fmtString pieces) % (a, b, …)`
  | build (b : BKid)                                -- `tag.x(…)`
  | frag (kids : List BKid)                         -- `tag(…)`
  deriving Repr, Inhabited

/-- value of a `Markup` operator expression: always a `Markup` (`none`: the operator raises) -/
def markupOp (env : Env) : SExpr → Option (List Char)
  | .add m a => some (mAdd escapePy m (toOpnd (evalAtom env a)))
  | .radd m a => some (mRadd escapePy m (toOpnd (evalAtom env a)))
  | .join sep items => some (mJoin escapePy sep true (items.map fun a => toOpnd (evalAtom env a)))
  | .esc a q => some (escOpnd escapePy q (toOpnd (evalAtom env a)))
  | .fmt f args =>
      match mMod escapePy f (evalFArgs env args) with
      | .ok s => some s
      | .error _ => none
  | .fmtp ps as =>
      match mMod escapePy (fmtString ps) (.tup (as.map fun a => toOpnd (evalAtom env a))) with
      | .ok s => some s
      | .error _ => none
  | _ => none

/-- the events an EXPR with this expression contributes (`_flatten`; builder objects and
    streams are iterables of events and pass through `_ensure` unchanged) -/
def evalSite (env : Env) : SExpr → List Ev
  | .v e => flattenVal (evalV env e)
  | .build b => bkidEvents env b
  | .frag kids => bkidsEvents env kids
  | e => match markupOp env e with
      | some s => [.text s true]
      | none => []

/-! ### template bodies -/

inductive Node where
  | lit (s : List Char)                         -- literal text of the template
  | site (e : SExpr)                            -- `${e}`, `$e`, `py:replace`, (inside an element) `py:content`
  | el (tag : Name) (attrs : List (Name × AttrSpec)) (pyattrs : Option (List (Name × Atom)))
       (kids : List Node)
  | loop (e : VExpr) (kids : List Node)         -- `py:for each="x in e"`
  | bind (a : Atom) (kids : List Node)          -- `py:with vars="y=a"`, macro call `f(a)`
  | cond (b : Bool) (kids : List Node)          -- `py:if`, the chosen `py:when`
  deriving Repr, Inhabited

def itemsOf : Val → List Scalar
  | .many xs => xs
  | .one _ => []

mutual
  def renderNode (env : Env) : Node → List Ev
    | .lit s => [.text s false]
    | .site e => evalSite env e
    | .el t attrs pa kids =>
        let attrib := match pa with
          | none => attrs
          | some items => applyPyAttrs env attrs items
        .start t (evalAttrs env attrib) :: (renderList env kids ++ [.end_ t])
    | .loop e kids => (itemsOf (evalV env e)).flatMap fun x => renderList (x :: env) kids
    | .bind a kids => renderList (evalAtom env a :: env) kids
    | .cond b kids => if b then renderList env kids else []
  def renderList (env : Env) : List Node → List Ev
    | [] => []
    | n :: ns => renderNode env n ++ renderList env ns
end

/-! ### the domain the model answers for

  Operands of `Markup` operators outside `str` / `Markup` / `__html__` objects make the two
  `Markup` implementations differ (C18); a `%` that raises has no output at all. -/

def atomOk (env : Env) (a : Atom) : Bool := opndOk (evalAtom env a)

def fargsAtomsOk (env : Env) : FArgs → Bool
  | .one a => atomOk env a
  | .tup as => as.all (atomOk env)
  | .map kvs => kvs.all fun p => atomOk env p.2

def siteOk (env : Env) : SExpr → Bool
  | .add _ a => atomOk env a
  | .radd _ a => atomOk env a
  | .join _ items => items.all (atomOk env)
  | .esc a _ => atomOk env a
  | .fmt f args =>
      fargsAtomsOk env args &&
      (match mMod escapePy f (evalFArgs env args) with
        | .ok _ => true
        | .error _ => false)
  | .fmtp ps as =>
      as.all (atomOk env) &&
      (match mMod escapePy (fmtString ps) (.tup (as.map fun a => toOpnd (evalAtom env a))) with
        | .ok _ => true
        | .error _ => false)
  | _ => true

mutual
  def nodeOk (env : Env) : Node → Bool
    | .lit _ => true
    | .site e => siteOk env e
    | .el _ _ _ kids => listOk env kids
    | .loop e kids => (itemsOf (evalV env e)).all fun x => listOk (x :: env) kids
    | .bind a kids => listOk (evalAtom env a :: env) kids
    | .cond b kids => if b then listOk env kids else true
  def listOk (env : Env) : List Node → Bool
    | [] => true
    | n :: ns => nodeOk env n && listOk env ns
end

end Genshi.Subst

/-
  C04 — the *documentation* semantics of templates (reference half).

  Written from doc/xml-templates.rst (each directive's section and "Processing
  Order"), doc/text-templates.rst and doc/templates.rst: a direct interpretation
  of the template AST.  Directives of one element are applied in the documented
  order, outermost first; variables live in a scoped environment that is passed
  down and never handed back, so a loop, `with` or macro-parameter binding cannot
  outlive its directive by construction.  What a directive may legitimately
  change for what follows is returned explicitly: the global names (`py:def`
  defines a macro "that can be inserted in other places") and the matched flag
  of the innermost enclosing `py:choose`.

  Where the documentation is silent the reference follows the engine's evident
  intent: a macro body sees the variables visible where it is *called*;
  `py:when` refers to the innermost `py:choose` being rendered.
-/
import Genshi.Model.Tmpl
namespace Genshi.Tmpl

abbrev Env := List (Name × Val)

def Env.look? : Env → Name → Option Val
  | [], _ => none
  | (k, v) :: rest, n => if k = n then some v else Env.look? rest n

/-- replace the binding of `n` or add one -/
def Env.set : Env → Name → Val → Env
  | [], n, v => [(n, v)]
  | (k, w) :: rest, n, v => if k = n then (k, v) :: rest else (k, w) :: Env.set rest n v

/-- state of the innermost `py:choose` -/
structure Choice where
  matched : Bool
  hasTest : Bool
  value : Val
  deriving DecidableEq, Repr, Inhabited

/-- what a directive list is applied to: an element, or (for a directive in
    element form / a text-template block / a stripped element) just content -/
inductive Target where
  | elem (tag : Name) (attrs : List (Name × Str)) (kids : List TNode)
  | frag (kids : List TNode)
  deriving Repr, Inhabited

def Target.stripped : Target → Target
  | .elem _ _ kids => .frag kids
  | t => t

structure DMacro where
  params : List Param
  dirs : List Dir
  target : Target
  deriving Repr, Inhabited

structure DSt where
  glob : Env                  -- context data and macro names
  macros : List DMacro
  ch : Option Choice          -- innermost choose being rendered
  deriving Repr, Inhabited

/-- result of rendering: output events and the state afterwards -/
abbrev Res (σ : Type) := Except Err (List Event × σ)

/-- render one thing, then another from the state the first left: outputs concatenate -/
def seq {σ : Type} (r : Res σ) (k : σ → Res σ) : Res σ :=
  match r with
  | .error e => .error e
  | .ok (o1, s1) =>
    match k s1 with
    | .error e => .error e
    | .ok (o2, s2) => .ok (o1 ++ o2, s2)

/-- adjust the final state -/
def mapSt {σ : Type} (f : σ → σ) (r : Res σ) : Res σ :=
  match r with
  | .error e => .error e
  | .ok (o, s) => .ok (o, f s)

/-- wrap the output between two events -/
def wrapOut {σ : Type} (a b : Event) (r : Res σ) : Res σ :=
  match r with
  | .error e => .error e
  | .ok (o, s) => .ok (a :: o ++ [b], s)

abbrev DRes := Except Err (List Event × DSt)

def dlook (loc : Env) (st : DSt) (n : Name) : Val :=
  match loc.look? n with
  | some v => v
  | none => (st.glob.look? n).getD .undef

def Dir.docIdx (d : Dir) : Nat := indexIn docOrder d.name

/-- does this `py:when` match?  (`c` is the innermost choose, not yet matched) -/
def whenMatches (look : Name → Val) (c : Choice) (e : Option Expr) : Except Err Bool :=
  match c.hasTest, e with
  | false, none => .error .runtime
  | true, none => .ok c.value.truthy
  | true, some e => do
      let v ← eval look e
      pyEqM c.value v
  | false, some e => do
      let v ← eval look e
      pure v.truthy

def stripCond (look : Name → Val) : Option Expr → Except Err Bool
  | none => .ok true
  | some e => do
      let v ← eval look e
      pure v.truthy

inductive DTask where
  | nodes (ns : List TNode)
  | node (n : TNode)
  | dirs (ds : List Dir) (t : Target)
  | loop (v : Name) (items : List Val) (ds : List Dir) (t : Target)
  | xexpr (x : XExpr)
  | binds (bs : List (Name × Expr)) (ds : List Dir) (t : Target)
  deriving Repr, Inhabited

def evalOpt (look : Name → Val) : Option Expr → Except Err Val
  | some e => eval look e
  | none => .ok (.atom .none)

/-- the callee of `${f(…)}` -/
def getDMacro (st : DSt) : Val → Except Err DMacro
  | .undef => .error .undefined
  | .macro i => match st.macros[i]? with
      | some m => .ok m
      | none => .error .unmodelled
  | _ => .error .type

def DSt.setMatched (st : DSt) (c : Choice) (m : Bool) : DSt :=
  { st with ch := some { c with matched := m } }

def DSt.define (st : DSt) (name : Name) (m : DMacro) : DSt :=
  { st with macros := st.macros ++ [m], glob := st.glob.set name (.macro st.macros.length) }

/-- the documentation semantics.  Fuel bounds the total nesting; `Err.fuel` is
    never a statement about a template. -/
def doc : Nat → DTask → Env → DSt → DRes
  | 0, _, _, _ => .error .fuel
  | _ + 1, .nodes [], _, st => .ok ([], st)
  | n + 1, .nodes (nd :: rest), loc, st =>
      seq (doc n (.node nd) loc st) (fun s1 => doc n (.nodes rest) loc s1)
  | _ + 1, .node (.text s), _, st => .ok ([tx s], st)
  | n + 1, .node (.expr x), loc, st => doc n (.xexpr x) loc st
  | n + 1, .node (.elem tag attrs dirs kids), loc, st =>
      doc n (.dirs (sortBy Dir.docIdx dirs) (.elem tag attrs kids)) loc st
  | n + 1, .node (.delem d kids), loc, st => doc n (.dirs [d] (.frag kids)) loc st
  | _ + 1, .xexpr (.pure e), loc, st => do
      let v ← eval (dlook loc st) e
      let out ← renderVal v
      pure (out, st)
  | n + 1, .xexpr (.call f args), loc, st => do
      let fv ← eval (dlook loc st) f
      let vs ← evalArgs (dlook loc st) args
      let m ← getDMacro st fv
      let scope ← bindParams (dlook loc st) m.params vs
      doc n (.dirs m.dirs m.target) (scope ++ loc) st
  | n + 1, .dirs [] (.elem tag attrs kids), loc, st =>
      wrapOut (startEv tag attrs) (endEv tag) (doc n (.nodes kids) loc st)
  | n + 1, .dirs [] (.frag kids), loc, st => doc n (.nodes kids) loc st
  | _ + 1, .dirs (.def_ name params :: ds) t, _, st => .ok ([], st.define name ⟨params, ds, t⟩)
  | n + 1, .dirs (.when e :: ds) t, loc, st =>
      match st.ch with
      | none => .error .runtime
      | some c =>
          if c.matched then .ok ([], st) else do
            let m ← whenMatches (dlook loc st) c e
            if m then doc n (.dirs ds t) loc (st.setMatched c true) else pure ([], st.setMatched c false)
  | n + 1, .dirs (.otherwise :: ds) t, loc, st =>
      match st.ch with
      | none => .error .runtime
      | some c =>
          if c.matched then .ok ([], st) else doc n (.dirs ds t) loc (st.setMatched c true)
  | n + 1, .dirs (.for_ v e :: ds) t, loc, st => do
      let it ← eval (dlook loc st) e
      let items ← iterItems it
      doc n (.loop v items ds t) loc st
  | n + 1, .dirs (.if_ e :: ds) t, loc, st => do
      let v ← eval (dlook loc st) e
      if v.truthy then doc n (.dirs ds t) loc st else pure ([], st)
  | n + 1, .dirs (.choose e :: ds) t, loc, st => do
      let v ← evalOpt (dlook loc st) e
      mapSt (fun s1 => { s1 with ch := st.ch })
        (doc n (.dirs ds t) loc { st with ch := some ⟨false, e.isSome, v⟩ })
  | n + 1, .dirs (.with_ bs :: ds) t, loc, st => doc n (.binds bs ds t) loc st
  | n + 1, .dirs (.replace x :: _) _, loc, st =>
      doc n (.xexpr x) loc st       -- the element is replaced: nothing is left for the rest
  | n + 1, .dirs (.content x :: ds) (.elem tag attrs _), loc, st =>
      doc n (.dirs ds (.elem tag attrs [.expr x])) loc st
  | n + 1, .dirs (.content _ :: ds) (.frag kids), loc, st => doc n (.dirs ds (.frag kids)) loc st
  | n + 1, .dirs (.attrs e :: ds) (.elem tag attrs kids), loc, st => do
      let v ← eval (dlook loc st) e
      let ps ← attrsPairs v
      doc n (.dirs ds (.elem tag (Genshi.Escape.Attrs.or attrs ps) kids)) loc st
  | n + 1, .dirs (.attrs _ :: ds) (.frag kids), loc, st => doc n (.dirs ds (.frag kids)) loc st
  | n + 1, .dirs (.strip c :: ds) (.elem tag attrs kids), loc, st => do
      let b ← stripCond (dlook loc st) c
      doc n (.dirs ds (if b then .frag kids else .elem tag attrs kids)) loc st
  | n + 1, .dirs (.strip _ :: ds) (.frag kids), loc, st => doc n (.dirs ds (.frag kids)) loc st
  | _ + 1, .loop _ [] _ _, _, st => .ok ([], st)
  | n + 1, .loop v (item :: items) ds t, loc, st =>
      seq (doc n (.dirs ds t) ((v, item) :: loc) st) (fun s1 => doc n (.loop v items ds t) loc s1)
  | n + 1, .binds [] ds t, loc, st => doc n (.dirs ds t) loc st
  | n + 1, .binds ((x, e) :: bs) ds t, loc, st => do
      let v ← eval (dlook loc st) e
      doc n (.binds bs ds t) ((x, v) :: loc) st

/-- render a whole template over the context data -/
def docRender (fuel : Nat) (ns : List TNode) (data : Env) : Except Err (List Event) := do
  let (o, _) ← doc fuel (.nodes ns) [] ⟨data, [], none⟩
  pure o

end Genshi.Tmpl

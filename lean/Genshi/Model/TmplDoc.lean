/-
  C04 — the *documentation* semantics of templates (reference half).

  Written from doc/xml-templates.rst (each directive's section and "Processing
  Order"), doc/text-templates.rst and doc/templates.rst: a direct interpretation
  of the template AST.  Directives of one element are applied in the documented
  order, outermost first; variables live in a scoped environment that is passed
  down and never handed back, so a loop, `with` or macro-parameter binding cannot
  outlive its directive by construction.  What a directive may legitimately
  change for what follows is returned explicitly: the global names (`py:def`
  defines a macro "that can be inserted in other places") and the matched flag
  of the innermost enclosing `py:choose`.

  Where the documentation is silent the reference follows the engine's evident
  intent: a macro body sees the variables visible where it is *called*;
  `py:when` refers to the innermost `py:choose` being rendered.
-/
import Genshi.Model.Tmpl
namespace Genshi.Tmpl

abbrev Env := List (Name × Val)

def Env.look? : Env → Name → Option Val
  | [], _ => none
  | (k, v) :: rest, n => if k = n then some v else Env.look? rest n

/-- replace the binding of `n` or add one -/
def Env.set : Env → Name → Val → Env
  | [], n, v => [(n, v)]
  | (k, w) :: rest, n, v => if k = n then (k, v) :: rest else (k, w) :: Env.set rest n v

/-- state of the innermost `py:choose` -/
structure Choice where
  matched : Bool
  hasTest : Bool
  value : Val
  deriving DecidableEq, Repr, Inhabited

/-- what a directive list is applied to: an element, or (for a directive in
    element form / a text-template block / a stripped element) just content -/
inductive Target where
  | elem (tag : Name) (attrs : List (Name × Str)) (kids : List Node)
  | frag (kids : List Node)
  deriving Repr, Inhabited

def Target.stripped : Target → Target
  | .elem _ _ kids => .frag kids
  | t => t

structure DMacro where
  params : List Name
  dirs : List Dir
  target : Target
  deriving Repr, Inhabited

structure DSt where
  glob : Env                  -- context data and macro names
  macros : List DMacro
  ch : Option Choice          -- innermost choose being rendered
  deriving Repr, Inhabited

abbrev DRes := Except Err (List Event × DSt)

def dlook (loc : Env) (st : DSt) (n : Name) : Val :=
  match loc.look? n with
  | some v => v
  | none => (st.glob.look? n).getD .undef

def Dir.docIdx (d : Dir) : Nat := indexIn docOrder d.name

/-- bind macro parameters positionally; a missing argument has no default
    (`None.evaluate` → AttributeError), surplus arguments are dropped -/
def bindParams : List Name → List Val → Except Err Env
  | [], _ => .ok []
  | _ :: _, [] => .error .attribute
  | p :: ps, v :: vs => do
      let rest ← bindParams ps vs
      pure ((p, v) :: rest)

/-- does this `py:when` match?  (`c` is the innermost choose, not yet matched) -/
def whenMatches (look : Name → Val) (c : Choice) (e : Option Expr) : Except Err Bool :=
  match c.hasTest, e with
  | false, none => .error .runtime
  | true, none => .ok c.value.truthy
  | true, some e => do
      let v ← eval look e
      pyEqM c.value v
  | false, some e => do
      let v ← eval look e
      pure v.truthy

inductive DTask where
  | nodes (ns : List Node)
  | dirs (ds : List Dir) (t : Target)
  | loop (v : Name) (items : List Val) (ds : List Dir) (t : Target)
  | xexpr (x : XExpr)
  | binds (bs : List (Name × Expr)) (ds : List Dir) (t : Target)
  deriving Repr, Inhabited

/-- the documentation semantics.  Fuel bounds the total nesting; `Err.fuel` is
    never a statement about a template. -/
def doc : Nat → DTask → Env → DSt → DRes
  | 0, _, _, _ => .error .fuel
  | _ + 1, .nodes [], _, st => .ok ([], st)
  | n + 1, .nodes (nd :: rest), loc, st => do
      let (o1, s1) ← match nd with
        | .text s => (.ok ([tx s], st) : DRes)
        | .expr x => doc n (.xexpr x) loc st
        | .elem tag attrs dirs kids => doc n (.dirs (sortBy Dir.docIdx dirs) (.elem tag attrs kids)) loc st
        | .delem d kids => doc n (.dirs [d] (.frag kids)) loc st
      let (o2, s2) ← doc n (.nodes rest) loc s1
      pure (o1 ++ o2, s2)
  | _ + 1, .xexpr (.pure e), loc, st => do
      let v ← eval (dlook loc st) e
      let out ← renderVal v
      pure (out, st)
  | n + 1, .xexpr (.call f args), loc, st => do
      let fv := dlook loc st f
      let vs ← evalArgs (dlook loc st) args
      match fv with
      | .undef => .error .undefined
      | .macro i =>
          match st.macros[i]? with
          | none => .error .unmodelled
          | some m => do
              let scope ← bindParams m.params vs
              doc n (.dirs m.dirs m.target) (scope ++ loc) st
      | _ => .error .type
  | n + 1, .dirs [] (.elem tag attrs kids), loc, st => do
      let (o, s1) ← doc n (.nodes kids) loc st
      pure (startEv tag attrs :: o ++ [endEv tag], s1)
  | n + 1, .dirs [] (.frag kids), loc, st => doc n (.nodes kids) loc st
  | n + 1, .dirs (d :: ds) t, loc, st =>
      match d with
      | .def_ name params =>
          .ok ([], { st with macros := st.macros ++ [⟨params, ds, t⟩],
                             glob := st.glob.set name (.macro st.macros.length) })
      | .when e =>
          match st.ch with
          | none => .error .runtime
          | some c =>
              if c.matched then .ok ([], st) else do
                let m ← whenMatches (dlook loc st) c e
                let st' := { st with ch := some { c with matched := m } }
                if m then doc n (.dirs ds t) loc st' else pure ([], st')
      | .otherwise =>
          match st.ch with
          | none => .error .runtime
          | some c =>
              if c.matched then .ok ([], st)
              else doc n (.dirs ds t) loc { st with ch := some { c with matched := true } }
      | .for_ v e => do
          let it ← eval (dlook loc st) e
          let items ← iterItems it
          doc n (.loop v items ds t) loc st
      | .if_ e => do
          let v ← eval (dlook loc st) e
          if v.truthy then doc n (.dirs ds t) loc st else pure ([], st)
      | .choose e => do
          let v ← match e with
            | some e => eval (dlook loc st) e
            | none => pure (.atom .none)
          let (o, s1) ← doc n (.dirs ds t) loc { st with ch := some ⟨false, e.isSome, v⟩ }
          pure (o, { s1 with ch := st.ch })
      | .with_ bs => doc n (.binds bs ds t) loc st
      | .replace x => doc n (.xexpr x) loc st       -- the element is replaced: nothing is left for ds
      | .content x =>
          match t with
          | .elem tag attrs _ => doc n (.dirs ds (.elem tag attrs [.expr x])) loc st
          | .frag _ => doc n (.dirs ds t) loc st
      | .attrs e =>
          match t with
          | .elem tag attrs kids => do
              let v ← eval (dlook loc st) e
              let ps ← attrsPairs v
              doc n (.dirs ds (.elem tag (Genshi.Escape.Attrs.or attrs ps) kids)) loc st
          | .frag _ => doc n (.dirs ds t) loc st
      | .strip c =>
          match t with
          | .elem _ _ _ => do
              let b ← match c with
                | none => pure true
                | some e => do
                    let v ← eval (dlook loc st) e
                    pure v.truthy
              doc n (.dirs ds (if b then t.stripped else t)) loc st
          | .frag _ => doc n (.dirs ds t) loc st
  | _ + 1, .loop _ [] _ _, _, st => .ok ([], st)
  | n + 1, .loop v (item :: items) ds t, loc, st => do
      let (o1, s1) ← doc n (.dirs ds t) ((v, item) :: loc) st
      let (o2, s2) ← doc n (.loop v items ds t) loc s1
      pure (o1 ++ o2, s2)
  | n + 1, .binds [] ds t, loc, st => doc n (.dirs ds t) loc st
  | n + 1, .binds ((x, e) :: bs) ds t, loc, st => do
      let v ← eval (dlook loc st) e
      doc n (.binds bs ds t) ((x, v) :: loc) st

/-- render a whole template over the context data -/
def docRender (fuel : Nat) (ns : List Node) (data : Env) : Except Err (List Event) := do
  let (o, _) ← doc fuel (.nodes ns) [] ⟨data, [], none⟩
  pure o

end Genshi.Tmpl

/-
  C20 — the lazily evaluated transformation chain.

  `Transformer.__call__` builds a pipeline of generators: every link pulls one item at a
  time from the link before it.  Between two `buffer()` barriers (`iter(list(stream))`, run
  when the chain is built) the links of a chain therefore run *interleaved*, and the
  interleaving is observable through the `StreamBuffer`s they share: `copy()` / `cut()`
  append to (and reset) a buffer event by event, an injector (`replace/before/after/
  prepend/append(buffer)`) iterates the buffer's live event list.

  The model: every link is a transducer (`stepOp` = the code between two `next()` calls of
  its input, as a list of actions: yield an item, reset / append to a buffer, inject a
  content; `finOp` = the code after the input is exhausted; `proOf` = the code before the
  first `next()`).  A pulled generator pipeline with a consumer that drains it runs its side
  effects in the same order as the push pipeline `pushItem`: an item yielded by link k is
  processed by link k+1 (up to its next `next()`) before link k continues.  Injecting a buffer
  iterates it by index over its *current* content (`injLoop`; a Python list iterator), which
  may grow under the iteration — the only place that needs fuel (`F` = growth allowance).

  `runLazy F ops` is the chain as the code runs it; `Genshi.Tf.runChain` (Model/Tf.lean) is
  its stage-wise reading.  `stagewise` says when the two agree (theorem
  `lazy_agrees_stagewise`, Lemmas/TfLazy*.lean).

  Import-free apart from the transformer model: linked into `gdrv`.
-/
import Genshi.Model.Tf
namespace Genshi.Tf

/-! ### buffers as functions, results -/

abbrev BufF := Nat → List MEv

def BufF.set (b : BufF) (id : Nat) (v : List MEv) : BufF := fun i => if i = id then v else b i

def ofBufs (b : Bufs) : BufF := fun i => b.get i

inductive Out (α : Type) where
  | ok (a : α)
  | err            -- an exception of the code
  | div            -- out of fuel: the code does not terminate
  deriving Repr, Inhabited

def Out.map {α β : Type} (f : α → β) : Out α → Out β
  | .ok a => .ok (f a)
  | .err => .err
  | .div => .div

def Out.bind {α β : Type} (x : Out α) (f : α → Out β) : Out β :=
  match x with
  | .ok a => f a
  | .err => .err
  | .div => .div

/-! ### links as transducers -/

inductive Act where
  | out (x : MItem)                 -- `yield mark, event`
  | reset (id : Nat)                -- `buffer.reset()`
  | app (id : Nat) (x : MEv)        -- `buffer.append(event)`
  | inj (c : Content)               -- `for subevent in self._inject(): yield subevent`
  deriving Inhabited

def outs (s : MStream) : List Act := s.map .out

/-- the control state of a link between two `next()` calls on its input -/
inductive Ctl where
  | unit
  | flag (b : Bool)                                         -- empty
  | names (n : List QName)                                  -- remove
  | last (l : Option MItem)                                 -- append
  | run (st : RunSt)                                        -- replace / before / after / wrap
  | copy (st : RunSt) (pend : MStream)
  | cut (st : RunSt) (broken : Bool) (names : List QName)
  | fil (st : FilSt) (q : List MEv)
  | sel (d : Nat) (rs : List Res) (ok : Bool)               -- `ok`: the results so far fit their events (`selOk`)
  deriving Inhabited

def selStep : Nat → List Res → Bool → MItem → Ctl × List Act
  | 0, rs, ok, (none, x) => (.sel 0 rs ok, [.out (none, x)])
  | 0, rs, ok, (some _, x) =>
      match rs.headD .none with
      | .hit =>
          if x.isStart then (.sel 1 rs.tail (ok && !x.isEnd), [.out (some .enter, x)])
          else (.sel 0 rs.tail (ok && !x.isEnd), [.out (some .outside, x)])
      | .attrs a => (.sel 0 rs.tail ok, [.out (some .attr, .attr (attrTag x) a), .out (none, x)])
      | .self => (.sel 0 rs.tail (ok && !x.isStart && !x.isEnd), [.out (some .outside, x)])
      | .event e => (.sel 0 rs.tail false, [.out (some .outside, e)])
      | .text t => (.sel 0 rs.tail false, [.out (none, .ev (.text t false))])
      | .none => (.sel 0 rs.tail ok, [.out (none, x)])
  | d + 1, rs, ok, (_, x) =>
      if subDepth d x = 0 then (.sel 0 rs ok, [.out (some .exit, x)])
      else (.sel (subDepth d x) rs ok, [.out (some .inside, x)])

def keepAct (keep : Bool) (p : MItem) : List Act := if keep then [.out p] else []

/-- the loop shared by replace / before / after / wrap (`runGo`) -/
def runStep (pre post : List Act) (keep : Bool) : RunSt → MItem → RunSt × List Act
  | .idle, (none, x) => (.idle, [.out (none, x)])
  | .idle, (some m, x) => (startSt m, pre ++ keepAct keep (some m, x))
  | .inEnter, (m, x) =>
      if m = some .exit then (.idle, keepAct keep (m, x) ++ post) else (.inEnter, keepAct keep (m, x))
  | .inRun m0, (m, x) =>
      if m = some m0 then (.inRun m0, keepAct keep (m, x))
      else match m with
        | none => (.idle, post ++ [.out (none, x)])
        | some m' => (startSt m', post ++ (pre ++ keepAct keep (some m', x)))

def runFin (post : List Act) : RunSt → List Act
  | .idle => []
  | _ => post

def newSel (id : Nat) (acc : Bool) (x : MEv) : List Act :=
  (if acc then [] else [.reset id]) ++ [.app id x]

def copyStep (id : Nat) (acc : Bool) : RunSt → MStream → MItem → Ctl × List Act
  | .idle, _, (none, x) => (.copy .idle [], [.out (none, x)])
  | .idle, _, (some m, x) => (.copy (startSt m) [(some m, x)], newSel id acc x)
  | .inEnter, pend, (m, x) =>
      if m = some .exit then (.copy .idle [], .app id x :: outs (pend ++ [(m, x)]))
      else (.copy .inEnter (pend ++ [(m, x)]), [.app id x])
  | .inRun m0, pend, (m, x) =>
      if m = some m0 then (.copy (.inRun m0) (pend ++ [(m, x)]), [.app id x])
      else match m with
        | none => (.copy .idle [], outs pend ++ [.out (none, x)])
        | some m' => (.copy (startSt m') [(some m', x)], outs pend ++ newSel id acc x)

/-- BREAK (unless the last thing yielded was one), reset, append: the start of a selection in `cut` -/
def cutSel (id : Nat) (acc broken : Bool) (x : MEv) : List Act :=
  (if acc then [] else (if broken then [] else [.out brkItem]) ++ [.reset id]) ++ [.app id x]

def cutStep (id : Nat) (acc : Bool) : RunSt → Bool → List QName → MItem → Option (Ctl × List Act)
  | .idle, _, names, (none, x) => some (.cut .idle true names, [.out (none, x)])
  | .idle, broken, names, (some m, x) =>
      some (.cut (startSt m) false (if m = .attr then names ++ attrNames x else names), cutSel id acc broken x)
  | .inEnter, _, names, (m, x) =>
      some (.cut (if m = some .exit then .idle else .inEnter) false names, [.app id x])
  | .inRun m0, _, names, (m, x) =>
      let names1 := if m0 = .attr && m = some .attr then names ++ attrNames x else names
      if m = some m0 then some (.cut (.inRun m0) false names1, [.app id x])
      else if m0 = .attr && !x.isStart then none
      else
        let x' := if m0 = .attr then stripAttrs names1 x else x
        let names2 := if m0 = .attr then [] else names1
        match m with
        | none => some (.cut .idle true names2, [.out (none, x')])
        | some m' =>
            -- (the buffer gets the event as `cutBuf` has it; an ATTR run is never followed by a
            -- marked event in a stream `select` made)
            some (.cut (startSt m') false (if m' = .attr then names2 ++ attrNames x' else names2),
                  cutSel id acc false x)

def filStep (f : List MEv → List MEv) : FilSt → List MEv → MItem → Ctl × List Act
  | .idle, q, (m, x) =>
      if m = some .enter then (.fil .inEnter (q ++ [x]), [])
      else if m = some .outside then (.fil .inOutside (q ++ [x]), [])
      else (.fil .idle q, [.out (m, x)])
  | .inEnter, q, (m, x) =>
      if m = some .exit then (.fil .idle [], outs (flush f (q ++ [x])))
      else (.fil .inEnter (q ++ [x]), [])
  | .inOutside, q, (m, x) =>
      if m = some .outside then (.fil .inOutside (q ++ [x]), [])
      else (.fil .idle [], outs (flush f q) ++ [.out (m, x)])

def initCtl : Op → Ctl
  | .select rs => .sel 0 rs true
  | .empty => .flag false
  | .remove => .names []
  | .append _ => .last none
  | .replace _ => .run .idle
  | .before _ => .run .idle
  | .after _ => .run .idle
  | .wrap _ _ _ => .run .idle
  | .copy _ _ => .copy .idle []
  | .cut _ _ => .cut .idle false []
  | .filter _ => .fil .idle []
  | _ => .unit

/-- the code before the first `next()` on the input (buffer effects only) -/
def proOf : Op → List Act
  | .cut id false => [.reset id]
  | _ => []

def mapStep (g : MItem → MItem) : Ctl → MItem → Option (Ctl × List Act)
  | .unit, p => some (.unit, [.out (g p)])
  | _, _ => none

def runStepC (pre post : List Act) (keep : Bool) : Ctl → MItem → Option (Ctl × List Act)
  | .run st, p => some (.run (runStep pre post keep st p).1, (runStep pre post keep st p).2)
  | _, _ => none

def wrapPre (t : QName) (a : AttrList) (kids : Stream) : List Act :=
  outs (inj ((Event.start t a :: kids).map .ev))

/-- the code of a link from one `next()` on its input to the following one; `none` = it raises -/
def stepOp : Op → Ctl → MItem → Option (Ctl × List Act)
  | .select _, c, p =>
      (match c with
       | .sel d rs ok => some (selStep d rs ok p)
       | _ => none)
  | .selectFail, _, _ => none
  | .invert, c, p => mapStep (fun (m, x) => (if m.isSome then none else some .outside, x)) c p
  | .endSel, c, p => mapStep (fun (_, x) => (some .outside, x)) c p
  | .rename n, c, p => mapStep (renameEv n) c p
  | .attr n v, c, p => mapStep (attrEv n v) c p
  | .attrFn n f, c, p => mapStep (attrFnEv n f) c p
  | .mapBang all, c, p => mapStep (mapBangEv all) c p
  | .subst pt r n, c, p => mapStep (substEv pt r n) c p
  | .buffer, c, p => mapStep id c p
  | .trace, c, p => mapStep id c p
  | .mapText f, c, p => mapStep (mapTextEv f) c p
  | .empty, c, (m, x) =>
      (match c with
       | .flag false => some (.flag (m = some .enter), [.out (m, x)])
       | .flag true => if m = some .exit then some (.flag false, [.out (m, x)]) else some (.flag true, [])
       | _ => none)
  | .remove, c, (m, x) =>
      (match c with
       | .names names =>
           (match m with
            | some .attr => some (.names (names ++ attrNames x), [])
            | some _ => some (.names names, [])
            | none =>
                if !names.isEmpty && x.isStart then some (.names [], [.out (none, stripAttrs names x)])
                else some (.names names, [.out (none, x)]))
       | _ => none)
  | .unwrap, c, (m, x) =>
      (match c with
       | .unit => some (.unit, if !(m = some .enter || m = some .exit) then [.out (m, x)] else [])
       | _ => none)
  | .prepend ct, c, (m, x) =>
      (match c with
       | .unit => some (.unit, if m = some .enter then [.out (m, x), .inj ct] else [.out (m, x)])
       | _ => none)
  | .append ct, c, (m, x) =>
      (match c with
       | .last none => some (.last (if m = some .enter then some (m, x) else none), [.out (m, x)])
       | .last (some _) =>
           if m = some .exit then some (.last none, [.inj ct, .out (m, x)])
           else some (.last (some (m, x)), [.out (m, x)])
       | _ => none)
  | .replace ct, c, p => runStepC [.inj ct] [] false c p
  | .before ct, c, p => runStepC [.inj ct] [] true c p
  | .after ct, c, p => runStepC [] [.inj ct] true c p
  | .wrap t a kids, c, p => runStepC (wrapPre t a kids) [.out (none, .ev (.end_ t))] true c p
  | .copy id acc, c, p =>
      (match c with
       | .copy st pend => some (copyStep id acc st pend p)
       | _ => none)
  | .cut id acc, c, p =>
      (match c with
       | .cut st broken names => cutStep id acc st broken names p
       | _ => none)
  | .filter f, c, p =>
      (match c with
       | .fil st q => some (filStep f st q p)
       | _ => none)

def runFinC (post : List Act) : Ctl → Option (List Act)
  | .run st => some (runFin post st)
  | _ => none

/-- the code of a link after its input is exhausted; `none` = it raises (`StopIteration` inside
    the generator of `select`) -/
def finOp : Op → Ctl → Option (List Act)
  | .select _, c =>
      (match c with
       | .sel d _ _ => if d = 0 then some [] else none
       | _ => none)
  | .selectFail, _ => none
  | .append ct, c =>
      (match c with
       | .last (some l) => some [.inj ct, .out l]
       | .last none => some []
       | _ => none)
  | .replace _, c => runFinC [] c
  | .before _, c => runFinC [] c
  | .after ct, c => runFinC [.inj ct] c
  | .wrap t _ _, c => runFinC [.out (none, .ev (.end_ t))] c
  | .copy _ _, c =>
      (match c with
       | .copy _ pend => some (outs pend)
       | _ => none)
  | .cut _ _, c =>
      (match c with
       | .cut _ broken _ => some (if broken then [] else [.out brkItem])
       | _ => none)
  | .filter f, c =>
      (match c with
       | .fil _ q => some (if q.isEmpty then [] else outs (flush f q))
       | _ => none)
  | _, _ => some []

/-! ### the pipeline -/

abbrev R := Out (List Ctl × BufF × MStream)

/-- run `r`, then `k` on its state; the outputs are concatenated -/
def seqR (r : R) (k : List Ctl → BufF → R) : R :=
  match r with
  | .ok (cs, b, o1) =>
      (match k cs b with
       | .ok (cs', b', o2) => .ok (cs', b', o1 ++ o2)
       | .err => .err
       | .div => .div)
  | .err => .err
  | .div => .div

/-- push a list of items, one after the other -/
def pushList (push : List Ctl → BufF → MItem → R) : List MItem → List Ctl → BufF → R
  | [], cs, b => .ok (cs, b, [])
  | x :: xs, cs, b => seqR (push cs b x) (pushList push xs)

/-- iterate buffer `id` from index `i` over its current content (a Python list iterator) -/
def injLoop (push : List Ctl → BufF → MItem → R) (id : Nat) : Nat → Nat → List Ctl → BufF → R
  | 0, _, _, _ => .div
  | n + 1, i, cs, b =>
      match (b id)[i]? with
      | none => .ok (cs, b, [])
      | some x => seqR (push cs b (none, x)) (injLoop push id n (i + 1))

/-- run the actions of one link; `push` feeds an item to the links after it -/
def execActs (F : Nat) (push : List Ctl → BufF → MItem → R) : List Act → List Ctl → BufF → R
  | [], cs, b => .ok (cs, b, [])
  | .out x :: as, cs, b => seqR (push cs b x) (execActs F push as)
  | .reset id :: as, cs, b => execActs F push as cs (b.set id [])
  | .app id x :: as, cs, b => execActs F push as cs (b.set id (b id ++ [x]))
  | .inj (.buf id) :: as, cs, b =>
      seqR (injLoop push id (F + ((b id).length + 1)) 0 cs b) (execActs F push as)
  | .inj c :: as, cs, b =>
      seqR (pushList push (inj (content [] c)) cs b) (execActs F push as)

/-- feed one item to the pipeline `ops` in the states `cs` -/
def pushItem (F : Nat) : List Op → List Ctl → BufF → MItem → R
  | [], _, b, x => .ok ([], b, [x])
  | _ :: _, [], _, _ => .err
  | op :: ops, c :: cs, b, x =>
      match stepOp op c x with
      | none => .err
      | some (c', acts) =>
          match execActs F (pushItem F ops) acts cs b with
          | .ok (cs', b', o) => .ok (c' :: cs', b', o)
          | .err => .err
          | .div => .div

/-- the input is exhausted: every link in turn runs to its end -/
def finish (F : Nat) : List Op → List Ctl → BufF → Out (BufF × MStream)
  | [], _, b => .ok (b, [])
  | _ :: _, [], _ => .err
  | op :: ops, c :: cs, b =>
      match finOp op c with
      | none => .err
      | some acts =>
          match execActs F (pushItem F ops) acts cs b with
          | .ok (cs', b', o1) =>
              (match finish F ops cs' b' with
               | .ok (b'', o2) => .ok (b'', o1 ++ o2)
               | .err => .err
               | .div => .div)
          | .err => .err
          | .div => .div

/-- buffer effects of an action list on their own -/
def effs : List Act → BufF → BufF
  | [], b => b
  | .reset id :: as, b => effs as (b.set id [])
  | .app id x :: as, b => effs as (b.set id (b id ++ [x]))
  | _ :: as, b => effs as b

/-- generators start when they are first pulled: the last link first -/
def proBufs : List Op → BufF → BufF
  | [], b => b
  | op :: ops, b => effs (proOf op) (proBufs ops b)

/-- the links between two `buffer()` barriers on the input `s` -/
def runSeg (F : Nat) (ops : List Op) (b : BufF) (s : MStream) : Out (MStream × BufF) :=
  match pushList (pushItem F ops) s (ops.map initCtl) (proBufs ops b) with
  | .ok (cs, b1, o1) =>
      (match finish F ops cs b1 with
       | .ok (b2, o2) => .ok (o1 ++ o2, b2)
       | .err => .err
       | .div => .div)
  | .err => .err
  | .div => .div

/-- a chain cut at its `buffer()` links -/
def segs : List Op → List (List Op)
  | [] => [[]]
  | .buffer :: ops => [] :: segs ops
  | op :: ops =>
      match segs ops with
      | s :: ss => (op :: s) :: ss
      | [] => [[op]]

def runSegs (F : Nat) : List (List Op) → BufF → MStream → Out (MStream × BufF)
  | [], b, s => .ok (s, b)
  | seg :: ss, b, s =>
      match runSeg F seg b s with
      | .ok (s', b') => runSegs F ss b' s'
      | .err => .err
      | .div => .div

/-- `Transformer.__call__` as the code runs it -/
def runLazy (F : Nat) (ops : List Op) (b : BufF) (s : MStream) : Out (MStream × BufF) :=
  runSegs F (segs ops) b s

/-- assumption check reported by the driver (`selOk` of the stage-wise model, here per link
    while it runs): every result a select link consumed fits the event it was given for -/
def selFlags : List Ctl → Bool
  | [] => true
  | .sel _ _ ok :: cs => ok && selFlags cs
  | _ :: cs => selFlags cs

def segSelOk (F : Nat) (ops : List Op) (b : BufF) (s : MStream) : Bool :=
  match pushList (pushItem F ops) s (ops.map initCtl) (proBufs ops b) with
  | .ok (cs, _, _) => selFlags cs
  | _ => true

def lazySelOk (F : Nat) : List (List Op) → BufF → MStream → Bool
  | [], _, _ => true
  | seg :: ss, b, s =>
      segSelOk F seg b s &&
      (match runSeg F seg b s with
       | .ok (s', b') => lazySelOk F ss b' s'
       | _ => true)

/-! ### when the stage-wise reading is exact -/

/-- buffer ids a chain writes -/
def writes : List Op → List Nat
  | [] => []
  | .copy id _ :: ops => id :: writes ops
  | .cut id _ :: ops => id :: writes ops
  | _ :: ops => writes ops

def readsOf : Op → Option Nat
  | .replace (.buf id) => some id
  | .before (.buf id) => some id
  | .after (.buf id) => some id
  | .prepend (.buf id) => some id
  | .append (.buf id) => some id
  | _ => none

/-- The links of a chain are lazily interleaved generators; `buffer()` is the only barrier.
    Stage-wise composition is exact unless, between two barriers, a buffer is written twice,
    or read by an injector and written (in either order). `w`, `r`: ids written / read in the
    current stage. -/
def stagewise : List Nat → List Nat → List Op → Bool
  | _, _, [] => true
  | _, _, .buffer :: ops => stagewise [] [] ops
  | w, r, .copy id _ :: ops => !w.contains id && !r.contains id && stagewise (id :: w) r ops
  | w, r, .cut id _ :: ops => !w.contains id && !r.contains id && stagewise (id :: w) r ops
  | w, r, op :: ops =>
      match readsOf op with
      | some id => !w.contains id && stagewise w (id :: r) ops
      | none => stagewise w r ops

end Genshi.Tf

/-
  Shared vocabulary: qualified names, attribute lists, markup events
  (`genshi/core.py`), well-nestedness, trees.  Import-free.
-/
namespace Genshi

abbrev Str := List Char

/-- `genshi.core.QName`: the string `{ns}local`; `ns = []` means "no namespace". -/
structure QName where
  ns : Str
  loc : Str
  deriving DecidableEq, Repr, Inhabited

def QName.plain (loc : Str) : QName := ⟨[], loc⟩

/-- the string value of a QName (what `==` with a `str` compares) -/
def QName.text (q : QName) : Str :=
  if q.ns.isEmpty then q.loc else '{' :: q.ns ++ '}' :: q.loc

abbrev AttrList := List (QName × Str)

inductive Event where
  | start (tag : QName) (attrs : AttrList)
  | end_ (tag : QName)
  | text (s : Str) (safe : Bool)            -- `safe`: the data is a `Markup` instance
  | comment (s : Str)
  | pi (target data : Str)
  | doctype (name : Str) (pubid sysid : Option Str)
  | xmlDecl (version : Str) (encoding : Option Str) (standalone : Int)
  | startNs (pfx uri : Str)
  | endNs (pfx : Str)
  | startCdata
  | endCdata
  deriving DecidableEq, Repr, Inhabited

abbrev Stream := List Event

/-- stack discipline of START/END: `some stack` after the events, `none` on a
    mismatched or unopened END -/
def balance : List QName → Stream → Option (List QName)
  | st, [] => some st
  | st, .start t _ :: es => balance (t :: st) es
  | t' :: st, .end_ t :: es => if t = t' then balance st es else none
  | [], .end_ _ :: _ => none
  | st, _ :: es => balance st es

def WellNested (s : Stream) : Prop := balance [] s = some []

instance (s : Stream) : Decidable (WellNested s) := by unfold WellNested; infer_instance

/-- element trees and their flattening -/
inductive Node where
  | elem (tag : QName) (attrs : AttrList) (kids : List Node)
  | leaf (e : Event)      -- any non START/END event
  deriving Repr, Inhabited

mutual
  def Node.flatten : Node → Stream
    | .elem t a ks => .start t a :: (flattenList ks ++ [.end_ t])
    | .leaf e => [e]
  def flattenList : List Node → Stream
    | [] => []
    | n :: ns => n.flatten ++ flattenList ns
end

def Event.isStartEnd : Event → Bool
  | .start _ _ => true
  | .end_ _ => true
  | _ => false

end Genshi

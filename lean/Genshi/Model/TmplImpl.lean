/-
  C04 — the *implementation* model: what genshi does with a template.

    compile    MarkupTemplate._extract_directives (py: attributes become a SUB
               event around the element, sorted by the index in the class's
               `directives` list; directive elements are stripped) and the
               text templates' SUB construction, followed by Template._prepare
               (`attach`: py:replace / py:content rewrite the sub-stream and
               leave no run-time directive; a SUB without directives is inlined)
    run        Template._flatten over the prepared stream with
               _apply_directives as a chain of the directive classes'
               __call__ over Context.frames and Context._choice_stack

  Bug-compatible with the tree under test (including the repair of py:replace
  next to py:content / py:attrs / py:strip).  Generators are lazy in the code;
  py:strip pulls the first event of its stream before it evaluates its
  condition, so py:attrs (the only directive that can precede it) is evaluated
  first, as documented.
-/
import Genshi.Model.TmplDoc
import Genshi.Gen.Directives
namespace Genshi.Tmpl

/-- events of the prepared template stream -/
inductive CEv where
  | start (tag : Name) (attrs : List (Name × Str))
  | end_ (tag : Name)
  | text (s : Str)
  | xexpr (x : XExpr)                       -- EXPR
  | sub (ds : List Dir) (body : List CEv)   -- SUB
  deriving Repr, Inhabited

/-- sort key of `_extract_directives`: position in `MarkupTemplate.directives` -/
def implOrder : List Str := Genshi.Gen.Directives.markupDirectives.map (·.1)
def Dir.implIdx (d : Dir) : Nat := indexIn implOrder d.name

/-- `Directive.attach` of each directive in sorted order (`Template._prepare`) -/
def attach : List Dir → List CEv → List Dir × List CEv
  | [], body => ([], body)
  | .replace x :: ds, _ => attach ds [.xexpr x]
  | .content x :: ds, body =>
      match body with
      | .start t a :: _ => attach ds [.start t a, .xexpr x, body.getLast?.getD (.start t a)]
      | _ => attach ds body            -- no element (py:replace came first): nothing to do
  | d :: ds, body =>
      let r := attach ds body
      (d :: r.1, r.2)

def mkSub (ds : List Dir) (body : List CEv) : List CEv :=
  if ds.isEmpty then body else [.sub ds body]

mutual
  def compileNode : Node → List CEv
    | .text s => [.text s]
    | .expr x => [.xexpr x]
    | .elem tag attrs dirs kids =>
        let body := .start tag attrs :: (compileNodes kids ++ [.end_ tag])
        let r := attach (sortBy Dir.implIdx dirs) body
        mkSub r.1 r.2
    | .delem d kids =>
        let r := attach [d] (compileNodes kids)
        mkSub r.1 r.2
  def compileNodes : List Node → List CEv
    | [] => []
    | n :: ns => compileNode n ++ compileNodes ns
end

/-! ### run time -/

abbrev Frame := Env

structure Macro where
  params : List Name
  dirs : List Dir
  body : List CEv
  deriving Repr, Inhabited

/-- `Context`: `frames` = `scopes ++ [data]` (index 0 first), `_choice_stack`
    (top first), and the function objects created by `py:def` so far -/
structure St where
  scopes : List Frame
  data : Frame
  choice : List Choice
  macros : List Macro
  deriving Repr, Inhabited

def lookFrames : List Frame → Name → Option Val
  | [], _ => none
  | f :: fs, n => match f.look? n with
      | some v => some v
      | none => lookFrames fs n

/-- `Context.get` with the lenient `Undefined` fallback -/
def St.look (st : St) (n : Name) : Val :=
  match lookFrames st.scopes n with
  | some v => v
  | none => (st.data.look? n).getD .undef

def St.push (st : St) (f : Frame) : St := { st with scopes := f :: st.scopes }
def St.pop (st : St) : St := { st with scopes := st.scopes.tail }

/-- `frame[name] = value` on the frame pushed last -/
def St.setTop (st : St) (x : Name) (v : Val) : St :=
  match st.scopes with
  | [] => st
  | f :: fs => { st with scopes := ((x, v) :: f) :: fs }

abbrev IRes := Except Err (List Event × St)

def stripCond (look : Name → Val) : Option Expr → Except Err Bool
  | none => .ok true
  | some e => do
      let v ← eval look e
      pure v.truthy

/-- `AttrsDirective._generate`: the first event with the evaluated attributes
    merged in when it is a start tag; an exhausted stream ends the generator
    with StopIteration (→ RuntimeError) -/
def attrsHead (look : Name → Val) (e : Expr) : List CEv → Except Err (List CEv)
  | [] => .error .stopiter
  | .start t a :: rest => do
      let v ← eval look e
      let ps ← attrsPairs v
      pure (.start t (Genshi.Escape.Attrs.or a ps) :: rest)
  | body => .ok body

/-- `StripDirective._generate`: only a stream that starts with a start tag has
    something to strip (and only then the condition is evaluated); the start
    tag and the last event go -/
def stripBody (look : Name → Val) (c : Option Expr) : List CEv → Except Err (List CEv)
  | .start t a :: rest => do
      let cond ← stripCond look c
      if cond then
        match rest with
        | [] => .error .stopiter
        | _ => pure rest.dropLast
      else pure (.start t a :: rest)
  | body => .ok body

inductive ITask where
  | flat (body : List CEv)
  | apply (ds : List Dir) (body : List CEv)
  | loop (v : Name) (items : List Val) (ds : List Dir) (body : List CEv)
  | binds (bs : List (Name × Expr)) (ds : List Dir) (body : List CEv)
  deriving Repr, Inhabited

def run : Nat → ITask → St → IRes
  | 0, _, _ => .error .fuel
  | _ + 1, .flat [], st => .ok ([], st)
  | n + 1, .flat (ev :: rest), st => do
      let (o1, s1) ← match ev with
        | .start t a => (.ok ([startEv t a], st) : IRes)
        | .end_ t => .ok ([endEv t], st)
        | .text s => .ok ([tx s], st)
        | .xexpr (.pure e) => do
            let v ← eval st.look e
            let out ← renderVal v
            pure (out, st)
        | .xexpr (.call f args) => do
            let fv := st.look f
            let vs ← evalArgs st.look args
            match fv with
            | .undef => .error .undefined
            | .macro i =>
                match st.macros[i]? with
                | none => .error .unmodelled
                | some m => do
                    let scope ← bindParams m.params vs
                    let (o, s) ← run n (.apply m.dirs m.body) (st.push scope)
                    pure (o, s.pop)
            | _ => .error .type
        | .sub ds body => run n (.apply ds body) st
      let (o2, s2) ← run n (.flat rest) s1
      pure (o1 ++ o2, s2)
  | n + 1, .apply [] body, st => run n (.flat body) st
  | n + 1, .apply (d :: ds) body, st =>
      match d with
      | .def_ name params =>
          .ok ([], { st with macros := st.macros ++ [⟨params, ds, body⟩],
                             data := st.data.set name (.macro st.macros.length) })
      | .when e =>
          match st.choice with
          | [] => .error .runtime
          | c :: cs =>
              if c.matched then .ok ([], st) else do
                let m ← whenMatches st.look c e
                let st' := { st with choice := { c with matched := m } :: cs }
                if m then run n (.apply ds body) st' else pure ([], st')
      | .otherwise =>
          match st.choice with
          | [] => .error .runtime
          | c :: cs =>
              if c.matched then .ok ([], st)
              else run n (.apply ds body) { st with choice := { c with matched := true } :: cs }
      | .for_ v e => do
          let it ← eval st.look e
          let items ← iterItems it
          run n (.loop v items ds body) st
      | .if_ e => do
          let v ← eval st.look e
          if v.truthy then run n (.apply ds body) st else pure ([], st)
      | .choose e => do
          let v ← match e with
            | some e => eval st.look e
            | none => pure (.atom .none)
          let (o, s1) ← run n (.apply ds body) { st with choice := ⟨false, e.isSome, v⟩ :: st.choice }
          pure (o, { s1 with choice := s1.choice.tail })
      | .with_ bs => do
          let (o, s1) ← run n (.binds bs ds body) (st.push [])
          pure (o, s1.pop)
      | .replace _ => .error .unmodelled      -- never a run-time directive (attach returns None)
      | .content _ => .error .unmodelled
      | .attrs e =>
          match ds with
          | [] => do
              let b ← attrsHead st.look e body
              run n (.flat b) st
          | [.strip c] => do
              -- strip pulls the first event (which evaluates py:attrs) before its own condition
              let b ← attrsHead st.look e body
              let b' ← stripBody st.look c b
              run n (.flat b') st
          | _ => .error .unmodelled
      | .strip c =>
          match ds with
          | [] => do
              let b' ← stripBody st.look c body
              run n (.flat b') st
          | _ => .error .unmodelled
  | _ + 1, .loop _ [] _ _, st => .ok ([], st)
  | n + 1, .loop v (item :: items) ds body, st => do
      let (o1, s1) ← run n (.apply ds body) (st.push [(v, item)])
      let (o2, s2) ← run n (.loop v items ds body) s1.pop
      pure (o1 ++ o2, s2)
  | n + 1, .binds [] ds body, st => run n (.apply ds body) st
  | n + 1, .binds ((x, e) :: bs) ds body, st => do
      let v ← eval st.look e
      run n (.binds bs ds body) (st.setTop x v)

def St.init (data : Env) : St := ⟨[], data, [], []⟩

/-- `Template.generate(**data)` of the template compiled from the AST -/
def implRender (fuel : Nat) (ns : List Node) (data : Env) : Except Err (List Event) := do
  let (o, _) ← run fuel (.flat (compileNodes ns)) (St.init data)
  pure o

end Genshi.Tmpl

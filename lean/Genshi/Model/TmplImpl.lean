/-
  C04 — the *implementation* model: what genshi does with a template.

    compile    MarkupTemplate._extract_directives (py: attributes become a SUB
               event around the element, sorted by the index in the class's
               `directives` list; directive elements are stripped) and the
               text templates' SUB construction, followed by Template._prepare
               (`attach`: py:replace / py:content rewrite the sub-stream and
               leave no run-time directive; a SUB without directives is inlined)
    run        Template._flatten over the prepared stream with
               _apply_directives as a chain of the directive classes'
               __call__ over Context.frames and Context._choice_stack

  Bug-compatible with the tree under test (including the repair of py:replace
  next to py:content / py:attrs / py:strip).  Generators are lazy in the code;
  py:strip pulls the first event of its stream before it evaluates its
  condition, so py:attrs (the only directive that can precede it) is evaluated
  first, as documented.
-/
import Genshi.Model.TmplDoc
import Genshi.Gen.Directives
namespace Genshi.Tmpl

/-- events of the prepared template stream -/
inductive CEv where
  | start (tag : Name) (attrs : List (Name × Str))
  | end_ (tag : Name)
  | text (s : Str)
  | xexpr (x : XExpr)                       -- EXPR
  | sub (ds : List Dir) (body : List CEv)   -- SUB
  deriving Repr, Inhabited

/-- sort key of `_extract_directives`: position in `MarkupTemplate.directives` -/
def implOrder : List Str := Genshi.Gen.Directives.markupDirectives.map (·.1)
def Dir.implIdx (d : Dir) : Nat := indexIn implOrder d.name

/-- `Directive.attach` of each directive in sorted order (`Template._prepare`) -/
def attach : List Dir → List CEv → List Dir × List CEv
  | [], body => ([], body)
  | .replace x :: ds, _ => attach ds [.xexpr x]
  | .content x :: ds, body =>
      match body with
      | .start t a :: _ => attach ds [.start t a, .xexpr x, body.getLast?.getD (.start t a)]
      | _ => attach ds body            -- no element (py:replace came first): nothing to do
  | d :: ds, body =>
      let r := attach ds body
      (d :: r.1, r.2)

def mkSub (ds : List Dir) (body : List CEv) : List CEv :=
  if ds.isEmpty then body else [.sub ds body]

mutual
  def compileNode : TNode → List CEv
    | .text s => [.text s]
    | .expr x => [.xexpr x]
    | .elem tag attrs dirs kids =>
        let body := .start tag attrs :: (compileNodes kids ++ [.end_ tag])
        let r := attach (sortBy Dir.implIdx dirs) body
        mkSub r.1 r.2
    | .delem d kids =>
        let r := attach [d] (compileNodes kids)
        mkSub r.1 r.2
  def compileNodes : List TNode → List CEv
    | [] => []
    | n :: ns => compileNode n ++ compileNodes ns
end

/-! ### run time -/

abbrev Frame := Env

structure Macro where
  params : List Param
  dirs : List Dir
  body : List CEv
  deriving Repr, Inhabited

/-- `Context`: `frames` = `scopes ++ [data]` (index 0 first), `_choice_stack`
    (top first), and the function objects created by `py:def` so far -/
structure St where
  scopes : List Frame
  data : Frame
  choice : List Choice
  macros : List Macro
  deriving Repr, Inhabited

def lookFrames : List Frame → Name → Option Val
  | [], _ => none
  | f :: fs, n => match f.look? n with
      | some v => some v
      | none => lookFrames fs n

/-- `Context.get` with the lenient `Undefined` fallback -/
def St.look (st : St) (n : Name) : Val :=
  match lookFrames st.scopes n with
  | some v => v
  | none => (st.data.look? n).getD .undef

def St.push (st : St) (f : Frame) : St := { st with scopes := f :: st.scopes }
def St.pop (st : St) : St := { st with scopes := st.scopes.tail }

/-- `frame[name] = value` on the frame pushed last -/
def St.setTop (st : St) (x : Name) (v : Val) : St :=
  match st.scopes with
  | [] => st
  | f :: fs => { st with scopes := ((x, v) :: f) :: fs }

abbrev IRes := Except Err (List Event × St)

/-- `AttrsDirective._generate`: the first event with the evaluated attributes
    merged in when it is a start tag; an exhausted stream ends the generator
    with StopIteration (→ RuntimeError) -/
def attrsHead (look : Name → Val) (e : Expr) : List CEv → Except Err (List CEv)
  | [] => .error .stopiter
  | .start t a :: rest => do
      let v ← eval look e
      let ps ← attrsPairs v
      pure (.start t (Genshi.Escape.Attrs.or a ps) :: rest)
  | body => .ok body

/-- `StripDirective._generate`: only a stream that starts with a start tag has
    something to strip (and only then the condition is evaluated); the start
    tag and the last event go -/
def stripBody (look : Name → Val) (c : Option Expr) : List CEv → Except Err (List CEv)
  | .start t a :: rest => do
      let cond ← stripCond look c
      if cond then
        match rest with
        | [] => .error .stopiter
        | _ => pure rest.dropLast
      else pure (.start t a :: rest)
  | body => .ok body

inductive ITask where
  | flat (body : List CEv)
  | ev (e : CEv)
  | apply (ds : List Dir) (body : List CEv)
  | loop (v : Name) (items : List Val) (ds : List Dir) (body : List CEv)
  | binds (bs : List (Name × Expr)) (ds : List Dir) (body : List CEv)
  deriving Repr, Inhabited

def getMacro (st : St) : Val → Except Err Macro
  | .undef => .error .undefined
  | .macro i => match st.macros[i]? with
      | some m => .ok m
      | none => .error .unmodelled
  | _ => .error .type

/-- the error of a misplaced `py:when` / `py:otherwise`: the message takes its position from
    `next(stream)`, which on an empty sub-stream raises StopIteration instead (surfacing as
    RuntimeError from the enclosing generator) -/
def posErr (body : List CEv) : Err := if body.isEmpty then .stopiter else .runtime

def St.setMatched (st : St) (c : Choice) (cs : List Choice) (m : Bool) : St :=
  { st with choice := { c with matched := m } :: cs }

def St.popChoice (st : St) : St := { st with choice := st.choice.tail }

def St.define (st : St) (name : Name) (m : Macro) : St :=
  { st with macros := st.macros ++ [m], data := st.data.set name (.macro st.macros.length) }

def run : Nat → ITask → St → IRes
  | 0, _, _ => .error .fuel
  | _ + 1, .flat [], st => .ok ([], st)
  | n + 1, .flat (e :: rest), st => seq (run n (.ev e) st) (fun s1 => run n (.flat rest) s1)
  | _ + 1, .ev (.start t a), st => .ok ([startEv t a], st)
  | _ + 1, .ev (.end_ t), st => .ok ([endEv t], st)
  | _ + 1, .ev (.text s), st => .ok ([tx s], st)
  | _ + 1, .ev (.xexpr (.pure e)), st => do
      let v ← eval st.look e
      let out ← renderVal v
      pure (out, st)
  | n + 1, .ev (.xexpr (.call f args)), st => do
      let fv ← eval st.look f
      let vs ← evalArgs st.look args
      let m ← getMacro st fv
      let scope ← bindParams st.look m.params vs
      mapSt St.pop (run n (.apply m.dirs m.body) (st.push scope))
  | n + 1, .ev (.sub ds body), st => run n (.apply ds body) st
  | n + 1, .apply [] body, st => run n (.flat body) st
  | _ + 1, .apply (.def_ name params :: ds) body, st => .ok ([], st.define name ⟨params, ds, body⟩)
  | n + 1, .apply (.when e :: ds) body, st =>
      match st.choice with
      | [] => .error (posErr body)
      | c :: cs =>
          if c.matched then .ok ([], st)
          else if !c.hasTest && e.isNone then .error (posErr body)
          else do
            let m ← whenMatches st.look c e
            if m then run n (.apply ds body) (st.setMatched c cs true) else pure ([], st.setMatched c cs false)
  | n + 1, .apply (.otherwise :: ds) body, st =>
      match st.choice with
      | [] => .error (posErr body)
      | c :: cs =>
          if c.matched then .ok ([], st) else run n (.apply ds body) (st.setMatched c cs true)
  | n + 1, .apply (.for_ v e :: ds) body, st => do
      let it ← eval st.look e
      let items ← iterItems it
      run n (.loop v items ds body) st
  | n + 1, .apply (.if_ e :: ds) body, st => do
      let v ← eval st.look e
      if v.truthy then run n (.apply ds body) st else pure ([], st)
  | n + 1, .apply (.choose e :: ds) body, st => do
      let v ← evalOpt st.look e
      mapSt St.popChoice
        (run n (.apply ds body) { st with choice := ⟨false, e.isSome, v⟩ :: st.choice })
  | n + 1, .apply (.with_ bs :: ds) body, st =>
      mapSt St.pop (run n (.binds bs ds body) (st.push []))
  | _ + 1, .apply (.replace _ :: _) _, _ => .error .unmodelled   -- never a run-time directive
  | _ + 1, .apply (.content _ :: _) _, _ => .error .unmodelled   -- (attach returns None)
  | n + 1, .apply [.attrs e] body, st => do
      let b ← attrsHead st.look e body
      run n (.flat b) st
  | n + 1, .apply [.attrs e, .strip c] body, st => do
      -- strip pulls the first event (which evaluates py:attrs) before its own condition
      let b ← attrsHead st.look e body
      let b' ← stripBody st.look c b
      run n (.flat b') st
  | _ + 1, .apply (.attrs _ :: _ :: _) _, _ => .error .unmodelled
  | n + 1, .apply [.strip c] body, st => do
      let b' ← stripBody st.look c body
      run n (.flat b') st
  | _ + 1, .apply (.strip _ :: _ :: _) _, _ => .error .unmodelled
  | _ + 1, .loop _ [] _ _, st => .ok ([], st)
  | n + 1, .loop v (item :: items) ds body, st =>
      seq (run n (.apply ds body) (st.push [(v, item)]))
          (fun s1 => run n (.loop v items ds body) s1.pop)
  | n + 1, .binds [] ds body, st => run n (.apply ds body) st
  | n + 1, .binds ((x, e) :: bs) ds body, st => do
      let v ← eval st.look e
      run n (.binds bs ds body) (st.setTop x v)

def St.init (data : Env) : St := ⟨[], data, [], []⟩

/-- `Template.generate(**data)` of the template compiled from the AST -/
def implRender (fuel : Nat) (ns : List TNode) (data : Env) : Except Err (List Event) := do
  let (o, _) ← run fuel (.flat (compileNodes ns)) (St.init data)
  pure o

end Genshi.Tmpl

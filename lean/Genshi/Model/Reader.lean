/-
  C08 — specification-side readers: the smallest tokenizer that accepts the
  output language of the html / xhtml serializers, as a character state machine
  (`step`, folded over the text by `feed`), and the post-processing that gives
  the token vocabulary of `html.parser` (HTML) and of expat with namespace
  processing (XML).

  These are the "independent parser" inside the round-trip theorems of
  `Props/C08.lean`; they are themselves validated against `html.parser` / expat
  on real serializer output by the correspondence check (`gdrv C08 read`).
  They are NOT models of genshi code.  Anything outside the output language
  puts the machine into the sticky `err` mode.
-/
import Genshi.Model.Core
namespace Genshi.Reader
open Genshi

inductive Tok where
  | start (name : Str) (attrs : List (Str × Option Str)) (selfClosed : Bool)
  | end_ (name : Str)
  | text (s : Str)
  | comment (s : Str)
  | pi (s : Str)            -- what stands between `<?` and the closing `>` (html) / `?>` (xml)
  | doctype (s : Str)       -- what stands between `<!DOCTYPE ` and `>`
  deriving DecidableEq, Repr, Inhabited

inductive Mode where
  | data            -- character data
  | dataEnt         -- inside `&…;` in character data
  | raw             -- raw text of script/style (html): ends at `</`
  | rawLt           -- saw `<` in raw text
  | lt              -- saw `<`
  | ltBang          -- after `<!`: reading `--`, `DOCTYPE ` or `[CDATA[` into `name`
  | comment (d : Nat)      -- in a comment; `d` = trailing dashes seen (capped at 2)
  | doctype
  | doctypeQ (q : Char)
  | pi (q : Bool)          -- `q`: the previous character was `?`
  | cdata (b : Nat)        -- in a CDATA section; `b` = trailing `]` seen (capped at 2)
  | tagName
  | endName
  | tagSpace
  | attrName
  | attrEq
  | attrVal
  | attrValEnt
  | tagSlash
  | err
  deriving DecidableEq, Repr, Inhabited

structure RSt where
  mode : Mode := .data
  buf : Str := []                         -- character data / comment / pi / doctype being read
  name : Str := []                        -- tag name / keyword after `<!`
  attrs : List (Str × Option Str) := []   -- attributes of the tag being read, reversed
  aname : Str := []
  aval : Str := []
  ebuf : Str := []                        -- entity name being read
  toks : List Tok := []                   -- tokens so far, reversed
  deriving Repr, Inhabited

/-- the references the serializers write -/
def decodeEnt (e : Str) : Option Char :=
  if e = ['a', 'm', 'p'] then some '&'
  else if e = ['l', 't'] then some '<'
  else if e = ['g', 't'] then some '>'
  else if e = ['#', '3', '4'] then some '"'
  else none

/-- elements whose content html.parser reads as raw text (HTML 4 CDATA content model) -/
def rawTextElems : List Str := [['s', 'c', 'r', 'i', 'p', 't'], ['s', 't', 'y', 'l', 'e']]

def kwComment : Str := ['-', '-']
def kwDoctype : Str := ['D', 'O', 'C', 'T', 'Y', 'P', 'E', ' ']
def kwCdata : Str := ['[', 'C', 'D', 'A', 'T', 'A', '[']

/-- pending character data becomes a text token -/
def flush (st : RSt) : RSt :=
  if st.buf.isEmpty then st else { st with toks := .text st.buf :: st.toks, buf := [] }

/-- the start tag that was being read is complete -/
def emitStart (xml : Bool) (st : RSt) (selfClosed : Bool) : RSt :=
  let tok := Tok.start st.name st.attrs.reverse selfClosed
  { st with toks := tok :: st.toks, name := [], attrs := [], aname := [], aval := [], buf := [],
            mode := if !xml && !selfClosed && rawTextElems.contains st.name then .raw else .data }

def isSpace (c : Char) : Bool := c == ' ' || c == '\n' || c == '\t' || c == '\r'

def step (xml : Bool) (st : RSt) (c : Char) : RSt :=
  match st.mode with
  | .err => st
  | .data =>
      if c == '<' then { st with mode := .lt }
      else if c == '&' then { st with mode := .dataEnt, ebuf := [] }
      else { st with buf := st.buf ++ [c] }
  | .dataEnt =>
      if c == ';' then
        match decodeEnt st.ebuf with
        | some d => { st with mode := .data, buf := st.buf ++ [d], ebuf := [] }
        | none => { st with mode := .err }
      else { st with ebuf := st.ebuf ++ [c] }
  | .raw =>
      if c == '<' then { st with mode := .rawLt } else { st with buf := st.buf ++ [c] }
  | .rawLt =>
      if c == '/' then { flush st with mode := .endName, name := [] }
      else if c == '<' then { st with buf := st.buf ++ ['<'] }
      else { st with mode := .raw, buf := st.buf ++ ['<', c] }
  | .lt =>
      if c == '/' then { flush st with mode := .endName, name := [] }
      else if c == '!' then { st with mode := .ltBang, name := [] }
      else if c == '?' then { flush st with mode := .pi false }
      else if isSpace c || c == '>' then { st with mode := .err }
      else { flush st with mode := .tagName, name := [c], attrs := [] }
  | .ltBang =>
      let kw := st.name ++ [c]
      if kw = kwComment then { flush st with mode := .comment 0, name := [] }
      else if kw = kwDoctype then { flush st with mode := .doctype, name := [] }
      else if xml && kw = kwCdata then { st with mode := .cdata 0, name := [] }
      else if kw.isPrefixOf kwComment || kw.isPrefixOf kwDoctype || (xml && kw.isPrefixOf kwCdata) then
        { st with name := kw }
      else { st with mode := .err }
  | .comment d =>
      if c == '>' && d == 2 then
        { st with mode := .data, toks := .comment (st.buf.take (st.buf.length - 2)) :: st.toks, buf := [] }
      else if c == '-' then { st with mode := .comment (if d == 2 then 2 else d + 1), buf := st.buf ++ [c] }
      else { st with mode := .comment 0, buf := st.buf ++ [c] }
  | .doctype =>
      if c == '>' then { st with mode := .data, toks := .doctype st.buf :: st.toks, buf := [] }
      else if c == '"' || c == '\'' then { st with mode := .doctypeQ c, buf := st.buf ++ [c] }
      else { st with buf := st.buf ++ [c] }
  | .doctypeQ q =>
      if c == q then { st with mode := .doctype, buf := st.buf ++ [c] }
      else if !xml && c == '>' then
        -- html.parser (and the HTML5 tokenizer) end a DOCTYPE at the first `>`, quoted or not; expat is quote-aware
        { st with mode := .data, toks := .doctype st.buf :: st.toks, buf := [] }
      else { st with buf := st.buf ++ [c] }
  | .pi q =>
      if c == '>' && (!xml || q) then
        { st with mode := .data,
                  toks := .pi (if xml then st.buf.take (st.buf.length - 1) else st.buf) :: st.toks, buf := [] }
      else { st with mode := .pi (c == '?'), buf := st.buf ++ [c] }
  | .cdata b =>
      if c == '>' && b == 2 then { st with mode := .data, buf := st.buf.take (st.buf.length - 2) }
      else if c == ']' then { st with mode := .cdata (if b == 2 then 2 else b + 1), buf := st.buf ++ [c] }
      else { st with mode := .cdata 0, buf := st.buf ++ [c] }
  | .tagName =>
      if c == '>' then emitStart xml st false
      else if c == '/' then { st with mode := .tagSlash }
      else if isSpace c then { st with mode := .tagSpace }
      else { st with name := st.name ++ [c] }
  | .endName =>
      if c == '>' then { st with mode := .data, toks := .end_ st.name :: st.toks, name := [] }
      else if isSpace c || c == '<' then { st with mode := .err }
      else { st with name := st.name ++ [c] }
  | .tagSpace =>
      if c == '>' then emitStart xml st false
      else if c == '/' then { st with mode := .tagSlash }
      else if isSpace c then st
      else if c == '=' || c == '"' then { st with mode := .err }
      else { st with mode := .attrName, aname := [c] }
  | .attrName =>
      if c == '=' then { st with mode := .attrEq }
      else if c == '>' then emitStart xml { st with attrs := (st.aname, none) :: st.attrs } false
      else if c == '/' then { st with mode := .tagSlash, attrs := (st.aname, none) :: st.attrs }
      else if isSpace c then { st with mode := .tagSpace, attrs := (st.aname, none) :: st.attrs }
      else { st with aname := st.aname ++ [c] }
  | .attrEq =>
      if c == '"' then { st with mode := .attrVal, aval := [] } else { st with mode := .err }
  | .attrVal =>
      if c == '"' then { st with mode := .tagSpace, attrs := (st.aname, some st.aval) :: st.attrs, aval := [] }
      else if c == '&' then { st with mode := .attrValEnt, ebuf := [] }
      else if xml && (c == '\n' || c == '\t' || c == '\r') then
        -- XML 1.0 section 3.3.3: attribute-value normalisation
        { st with aval := st.aval ++ [' '] }
      else { st with aval := st.aval ++ [c] }
  | .attrValEnt =>
      if c == ';' then
        match decodeEnt st.ebuf with
        | some d => { st with mode := .attrVal, aval := st.aval ++ [d], ebuf := [] }
        | none => { st with mode := .err }
      else { st with ebuf := st.ebuf ++ [c] }
  | .tagSlash =>
      if c == '>' then emitStart xml st true else { st with mode := .err }

def feed (xml : Bool) : RSt → Str → RSt
  | st, [] => st
  | st, c :: cs => feed xml (step xml st c) cs

/-- the tokens of a complete text; `none` when the text is outside the output language -/
def tokens (xml : Bool) (s : Str) : Option (List Tok) :=
  let st := feed xml {} s
  match st.mode with
  | .data => some (flush st).toks.reverse
  | _ => none

/-! ### the DOCTYPE and XML declaration literals -/

def takeUntil (p : Char → Bool) : Str → Str × Str
  | [] => ([], [])
  | c :: cs => if p c then ([], c :: cs) else let r := takeUntil p cs; (c :: r.1, r.2)

/-- a quoted literal at the head of the text: its content and the rest -/
def quoted : Str → Option (Str × Str)
  | '"' :: cs => let r := takeUntil (· == '"') cs
                 match r.2 with | _ :: rest => some (r.1, rest) | [] => none
  | '\'' :: cs => let r := takeUntil (· == '\'') cs
                  match r.2 with | _ :: rest => some (r.1, rest) | [] => none
  | _ => none

def kwPublic : Str := [' ', 'P', 'U', 'B', 'L', 'I', 'C', ' ']
def kwSystem : Str := [' ', 'S', 'Y', 'S', 'T', 'E', 'M']

/-- `name[ PUBLIC "pubid"| SYSTEM][ "sysid"]` -/
def parseDoctype (s : Str) : Option (Str × Option Str × Option Str) :=
  let r := takeUntil (· == ' ') s
  let name := r.1
  let sysPart (pub : Option Str) (rest : Str) : Option (Str × Option Str × Option Str) :=
    match rest with
    | [] => some (name, pub, none)
    | ' ' :: q =>
        match quoted q with
        | some (sys, []) => some (name, pub, some sys)
        | _ => none
    | _ => none
  if kwPublic.isPrefixOf r.2 then
    match quoted (r.2.drop kwPublic.length) with
    | some (pub, rest) => sysPart (some pub) rest
    | none => none
  else if kwSystem.isPrefixOf r.2 then sysPart none (r.2.drop kwSystem.length)
  else sysPart none r.2

/-- pseudo-attributes ` name="value"` of an XML declaration -/
def pseudoAttrs : Nat → Str → Option (List (Str × Str))
  | 0, _ => none
  | _ + 1, [] => some []
  | fuel + 1, ' ' :: cs =>
      let r := takeUntil (· == '=') cs
      match r.2 with
      | '=' :: q =>
          match quoted q with
          | some (v, rest) => (pseudoAttrs fuel rest).map ((r.1, v) :: ·)
          | none => none
      | _ => none
  | _, _ => none

/-! ### html.parser's view -/

inductive HTok where
  | start (name : Str) (attrs : List (Str × Option Str))
  | selfClosed (name : Str)            -- follows the start token of `<x />`
  | end_ (name : Str)
  | text (s : Str)
  | comment (s : Str)
  | pi (s : Str)
  | doctype (name : Str) (pubid sysid : Option Str)
  | badDecl (s : Str)
  deriving DecidableEq, Repr, Inhabited

/-- the line feed the serializer writes after a DOCTYPE is not part of the tree -/
def dropDoctypeNl : List HTok → List HTok
  | .doctype n p s :: .text ('\n' :: t) :: rest =>
      if t.isEmpty then .doctype n p s :: dropDoctypeNl rest
      else .doctype n p s :: .text t :: dropDoctypeNl rest
  | x :: rest => x :: dropDoctypeNl rest
  | [] => []

def htmlView : List Tok → List HTok
  | [] => []
  | .start n a sc :: rest =>
      if sc then .start n a :: .selfClosed n :: htmlView rest else .start n a :: htmlView rest
  | .end_ n :: rest => .end_ n :: htmlView rest
  | .text s :: rest => .text s :: htmlView rest
  | .comment s :: rest => .comment s :: htmlView rest
  | .pi s :: rest => .pi s :: htmlView rest
  | .doctype s :: rest =>
      (match parseDoctype s with
       | some (n, p, q) => HTok.doctype n p q
       | none => HTok.badDecl s) :: htmlView rest

/-- what `html.parser` delivers for serializer output -/
def readHtml (s : Str) : Option (List HTok) :=
  (tokens false s).map fun ts => dropDoctypeNl (htmlView ts)

/-! ### expat's view (namespace processing on; default-namespace declarations and `xml:` only) -/

inductive XTok where
  | start (name : QName) (attrs : List (QName × Str))
  | end_ (name : QName)
  | text (s : Str)
  | comment (s : Str)
  | pi (target data : Str)
  | doctype (name : Str) (pubid sysid : Option Str)
  | xmlDecl (version : Str) (encoding : Option Str) (standalone : Int)
  deriving DecidableEq, Repr, Inhabited

def xmlNsUri : Str := ['h', 't', 't', 'p', ':', '/', '/', 'w', 'w', 'w', '.', 'w', '3', '.', 'o', 'r', 'g', '/',
  'X', 'M', 'L', '/', '1', '9', '9', '8', '/', 'n', 'a', 'm', 'e', 's', 'p', 'a', 'c', 'e']
def xmlnsName : Str := ['x', 'm', 'l', 'n', 's']
def xmlPrefix : Str := ['x', 'm', 'l', ':']

def lookupAttr (n : Str) : List (Str × Option Str) → Option (Option Str)
  | [] => none
  | (k, v) :: rest => if k = n then some v else lookupAttr n rest

/-- attributes other than `xmlns`, with `xml:` resolved; `none` for any other prefix or a
    minimised attribute -/
def resolveAttrs : List (Str × Option Str) → Option (List (QName × Str))
  | [] => some []
  | (k, v) :: rest =>
      match v with
      | none => none
      | some v =>
        if k = xmlnsName then resolveAttrs rest
        else if xmlPrefix.isPrefixOf k then
          (resolveAttrs rest).map (fun r => (⟨xmlNsUri, k.drop 4⟩, v) :: r)
        else if k.any (· == ':') then none
        else (resolveAttrs rest).map (fun r => (⟨[], k⟩, v) :: r)

def allSpace (s : Str) : Bool := s.all isSpace

def lookupPseudo (n : Str) : List (Str × Str) → Option Str
  | [] => none
  | (k, v) :: rest => if k = n then some v else lookupPseudo n rest

def parseXmlDecl (s : Str) : Option XTok :=
  -- s = `xml version="1.0" encoding="…" standalone="yes"`
  match pseudoAttrs (s.length + 1) (s.drop 3) with
  | none => none
  | some ps =>
      match lookupPseudo ['v', 'e', 'r', 's', 'i', 'o', 'n'] ps with
      | none => none
      | some v =>
          let sa : Int := match lookupPseudo ['s', 't', 'a', 'n', 'd', 'a', 'l', 'o', 'n', 'e'] ps with
            | none => -1
            | some x => if x = ['y', 'e', 's'] then 1 else 0
          some (.xmlDecl v (lookupPseudo ['e', 'n', 'c', 'o', 'd', 'i', 'n', 'g'] ps) sa)

/-- the default namespace of an element: its own `xmlns` declaration, else the enclosing one -/
def dfltNs (scope : List Str) (a : List (Str × Option Str)) : Str :=
  match lookupAttr xmlnsName a with
  | some (some u) => u
  | _ => scope.headD []

/-- namespace resolution over the token list; `scope` = default namespaces of the open elements
    (innermost first).  Character data outside the root element is white space and is dropped. -/
def xmlView : List Str → List Tok → Option (List XTok)
  | _, [] => some []
  | scope, .start n a sc :: rest =>
      if n.any (· == ':') then none else
      let dflt : Str := dfltNs scope a
      match resolveAttrs a with
      | none => none
      | some ra =>
          if sc then (xmlView scope rest).map (fun r => .start ⟨dflt, n⟩ ra :: .end_ ⟨dflt, n⟩ :: r)
          else (xmlView (dflt :: scope) rest).map (fun r => .start ⟨dflt, n⟩ ra :: r)
  | scope, .end_ n :: rest =>
      match scope with
      | [] => none
      | d :: outer => (xmlView outer rest).map (fun r => .end_ ⟨d, n⟩ :: r)
  | scope, .text s :: rest =>
      if scope.isEmpty then (if allSpace s then xmlView scope rest else none)
      else (xmlView scope rest).map (fun r => .text s :: r)
  | scope, .comment s :: rest => (xmlView scope rest).map (fun r => .comment s :: r)
  | scope, .pi s :: rest =>
      if ['x', 'm', 'l', ' '].isPrefixOf s then
        match parseXmlDecl s with
        | some d => (xmlView scope rest).map (fun r => d :: r)
        | none => none
      else
        let t := takeUntil isSpace s
        (xmlView scope rest).map (fun r => .pi t.1 (t.2.dropWhile isSpace) :: r)
  | scope, .doctype s :: rest =>
      match parseDoctype s with
      | some (n, p, q) => (xmlView scope rest).map (fun r => .doctype n p q :: r)
      | none => none

/-- XML 1.0 section 2.11: line ends are normalised to LF before parsing -/
def normEolGo : Bool → Str → Str
  | _, [] => []
  | afterCr, c :: cs =>
      if c == '\r' then '\n' :: normEolGo true cs
      else if c == '\n' && afterCr then normEolGo false cs
      else c :: normEolGo false cs

def normEol (s : Str) : Str := normEolGo false s

/-- what expat (namespace processing on) delivers for serializer output -/
def readXml (s : Str) : Option (List XTok) :=
  (tokens true (normEol s)).bind (xmlView [])

end Genshi.Reader

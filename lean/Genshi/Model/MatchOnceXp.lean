/-
  C12 — `once="true"` in the location vocabulary of Model/MatchReal.lean: the rewrite "replace the first
  match in document order" driven by a relation on LOCATIONS (`xpOnceForest`, instantiated with the XPath
  pattern semantics `patternSel`; driver verb `xspec`).  After the first replacement everything passes.
  (The mark form `mkOnceKids`, a proof device between `onceList` and `xpOnceForest`, is in
  Lemmas/MatchOnceXp.lean.)
-/
import Genshi.Model.MatchReal
namespace Genshi.Match
open Genshi

mutual
  /-- output, whether an element was replaced -/
  def xpOnceNode (sel : List Nat → Bool) (body : List BItem) (loc : List Nat) : Node → List Event × Bool
    | .leaf e => ([e], false)
    | .elem tg at_ kids =>
      if sel loc then (instantiate body (.start tg at_ :: (flattenList kids ++ [.end_ tg])), true)
      else
        let r := xpOnceKids sel body loc 0 kids
        (.start tg at_ :: (r.1 ++ [.end_ tg]), r.2)
  def xpOnceKids (sel : List Nat → Bool) (body : List BItem) (loc : List Nat) : Nat → List Node → List Event × Bool
    | _, [] => ([], false)
    | i, n :: ns =>
      let a := xpOnceNode sel body (loc ++ [i]) n
      if a.2 then (a.1 ++ flattenList ns, true)
      else
        let b := xpOnceKids sel body loc (i + 1) ns
        (a.1 ++ b.1, b.2)
end

/-- a forest: the first top-level tree in which the relation holds somewhere gets its first match replaced -/
def xpOnceForest (sel : Node → List Nat → Bool) (body : List BItem) : List Node → List Event × Bool
  | [] => ([], false)
  | n :: ns =>
    let a := xpOnceNode (sel n) body [] n
    if a.2 then (a.1 ++ flattenList ns, true)
    else
      let b := xpOnceForest sel body ns
      (a.1 ++ b.1, b.2)

end Genshi.Match

/-
  C04 — the scanner of `NewTextTemplate` for arbitrary delimiters
  (`NewTextTemplate(source, delims=(directive_start, directive_end, comment_start, comment_end))`):
  `_set_delims` compiles
      ((?<!\\)SD\s*(\w+)\s*(.*?)\s*ED|(?<!\\)SC.*?EC)      (re.DOTALL)
      \\\n|\\\r\n|\\(\\)|\\(SD)|\\(SC)
  from the `re.escape`d delimiter strings.  The scanner below is `Scan.scanNewGo` with the four
  delimiters as parameters (`scanD_default`: at the default delimiters it is `Scan.scanNew`).

  It is what the backtracking matcher does under the side condition `Delims.ok`: the delimiters are
  non-empty and the directive-end delimiter starts with a character that is neither `\w` nor `\s`
  — then no occurrence of it can begin inside the greedy blanks or the greedy command word, so these
  never have to give characters back, and the lazy group ends in front of the blanks before the first
  occurrence.  Outside the side condition the driver answers `unmodelled`.

  No Mathlib: linked into `gdrv`.
-/
import Genshi.Model.TmplScan
namespace Genshi.Tmpl.ScanD
open Genshi.San (isReSpace isReWord)
open Genshi.Tmpl.Scan (Str RTok DirM dotNew rstripBy flushText SEv PErr PSt)

structure Delims where
  sd : Str      -- directive start   `{%`
  ed : Str      -- directive end     `%}`
  sc : Str      -- comment start     `{#`
  ec : Str      -- comment end       `#}`
  deriving Repr, DecidableEq, Inhabited

def dflt : Delims := ⟨['{', '%'], ['%', '}'], ['{', '#'], ['#', '}']⟩

def Delims.ok (d : Delims) : Bool :=
  !d.sd.isEmpty && !d.sc.isEmpty && !d.ec.isEmpty &&
  (match d.ed with
   | c :: _ => !isReWord c && !isReSpace c
   | [] => false)

/-- `s = p ++ rest` -/
def dropPrefix? : Str → Str → Option Str
  | [], s => some s
  | _ :: _, [] => none
  | a :: p, b :: s => if a = b then dropPrefix? p s else none

/-- first occurrence of `p`: (what precedes it, what follows it) -/
def findSub (p : Str) : Str → Option (Str × Str)
  | [] => if p.isEmpty then some ([], []) else none
  | c :: r =>
      match dropPrefix? p (c :: r) with
      | some rest => some ([], rest)
      | none =>
          match findSub p r with
          | some (x, y) => some (c :: x, y)
          | none => none

/-- `\s*(\w+)\s*(.*?)\s*ED` after the start delimiter -/
def matchDirD (d : Delims) (s : Str) : Option DirM :=
  let ws1 := s.takeWhile isReSpace
  let s1 := s.dropWhile isReSpace
  let cmd := s1.takeWhile isReWord
  let s2 := s1.dropWhile isReWord
  if cmd.isEmpty then none else
  let ws2 := s2.takeWhile isReSpace
  let s3 := s2.dropWhile isReSpace
  match findSub d.ed s3 with
  | none => none
  | some (body, rest) =>
      let val := rstripBy isReSpace body
      if val.all dotNew then some ⟨ws1 ++ cmd ++ ws2 ++ body, cmd, val, rest⟩ else none

/-- `.*?EC` after the comment start delimiter: (comment text, rest) -/
def matchCommentD (d : Delims) (s : Str) : Option (Str × Str) :=
  match findSub d.ec s with
  | none => none
  | some (body, rest) => if body.all dotNew then some (body, rest) else none

/-- the source text a token was cut from -/
def srcD (d : Delims) : RTok → Str
  | .text r => r
  | .dir i _ _ => d.sd ++ (i ++ d.ed)
  | .comment i => d.sc ++ (i ++ d.ec)

/-- `finditer` (see `Scan.scanNewGo`): `skip` characters still belong to the last match -/
def scanDGo (d : Delims) : Nat → Char → Str → Str → List RTok
  | _, _, acc, [] => flushText acc
  | k + 1, _, acc, c :: r => scanDGo d k c acc r
  | 0, prev, acc, c :: r =>
      if prev != '\\' then
        match (dropPrefix? d.sd (c :: r)).bind (matchDirD d) with
        | some m =>
            flushText acc ++ RTok.dir m.inner m.cmd m.val ::
              scanDGo d (d.sd.length + m.inner.length + d.ed.length - 1) c [] r
        | none =>
            match (dropPrefix? d.sc (c :: r)).bind (matchCommentD d) with
            | some (body, _) =>
                flushText acc ++ RTok.comment body ::
                  scanDGo d (d.sc.length + body.length + d.ec.length - 1) c [] r
            | none => scanDGo d 0 c (c :: acc) r
      else scanDGo d 0 c (c :: acc) r

def scanD (d : Delims) (s : Str) : List RTok := scanDGo d 0 '\n' [] s

/-- `_escape_re.sub(_escape_repl, text)`: the alternatives in the order of the expression -/
def unescDGo (d : Delims) : Nat → Str → Str
  | _, [] => []
  | k + 1, _ :: r => unescDGo d k r
  | 0, c :: r =>
      if c = '\\' then
        match r with
        | '\n' :: _ => unescDGo d 1 r
        | '\r' :: '\n' :: _ => unescDGo d 2 r
        | '\\' :: _ => '\\' :: unescDGo d 1 r
        | _ =>
            if (dropPrefix? d.sd r).isSome && !d.sd.isEmpty then d.sd ++ unescDGo d d.sd.length r
            else if (dropPrefix? d.sc r).isSome && !d.sc.isEmpty then d.sc ++ unescDGo d d.sc.length r
            else c :: unescDGo d 0 r
      else c :: unescDGo d 0 r

def unescapeD (d : Delims) (s : Str) : Str := unescDGo d 0 s

/-- one step of the token loop of `_parse` (`Scan.stepNew` with the unescape of the delimiters) -/
def stepD (d : Delims) (s : PSt) : RTok → Except PErr PSt
  | .text raw => do
      let evs ← Scan.interpolate (unescapeD d raw)
      pure (s.emit evs)
  | t => Scan.stepNew s t

/-- the stream `NewTextTemplate(source, delims=…)._parse` returns -/
def parseD (d : Delims) (src : Str) : Except PErr (List SEv) :=
  Scan.result (Scan.parseToks (stepD d) ⟨0, [], []⟩ (scanD d src))

/-! ### printer (specification side) -/

open Genshi.Tmpl.Scan (CTok)

/-- text with the documented escapes: a backslash in front of every backslash and of every start
    delimiter -/
def escDGo (d : Delims) : Nat → Str → Str
  | _, [] => []
  | k + 1, c :: r => c :: escDGo d k r
  | 0, c :: r =>
      if c = '\\' then '\\' :: '\\' :: escDGo d 0 r
      else if (dropPrefix? d.sd (c :: r)).isSome && !d.sd.isEmpty then '\\' :: c :: escDGo d (d.sd.length - 1) r
      else if (dropPrefix? d.sc (c :: r)).isSome && !d.sc.isEmpty then '\\' :: c :: escDGo d (d.sc.length - 1) r
      else c :: escDGo d 0 r

def escapeD (d : Delims) (s : Str) : Str := escDGo d 0 s

def printDTok (d : Delims) : CTok → Str
  | .text s => escapeD d s
  | .dir cmd val =>
      if val.isEmpty then d.sd ++ ' ' :: (cmd ++ ' ' :: d.ed)
      else d.sd ++ ' ' :: (cmd ++ ' ' :: (val ++ ' ' :: d.ed))
  | .comment b => d.sc ++ (b ++ d.ec)

def printD (d : Delims) : List CTok → Str
  | [] => []
  | t :: ts => printDTok d t ++ printD d ts

def cookD (d : Delims) : RTok → CTok
  | .text raw => .text (unescapeD d raw)
  | .dir _ cmd val => .dir cmd val
  | .comment b => .comment b

end Genshi.Tmpl.ScanD

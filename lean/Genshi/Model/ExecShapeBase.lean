/-
  C14 (wave 4) — vocabulary of the shape probes: the skeleton of a template object's stream as the
  object graph of the real template shows it, the recursive definition of "this stream holds a
  compiled code block at some depth", the ways a template object comes into being, and the row
  types of the generated tables of `Genshi/Gen/ExecShape.lean`.

  Code mirrored: the event kinds of genshi/template/base.py that can hold nested streams —
    (EXEC, suite, pos)                         a compiled code block
    (SUB, (directives, substream), pos)        directives applied to a sub-stream
                                               (markup: `_prepare`; new text: built in `_parse`)
    (INCLUDE, (href, cls, fallback), pos)      an include with its fallback stream
-/
import Genshi.Model.ExecBase
namespace Genshi.Exec

/-- skeleton of a (parsed or prepared) template stream -/
inductive Sk
  /-- any run of events that are neither EXEC, SUB nor INCLUDE -/
  | ev
  /-- an EXEC event -/
  | exec
  /-- a SUB event with its sub-stream -/
  | sub (body : List Sk)
  /-- an INCLUDE event with its fallback stream -/
  | incl (fallback : List Sk)
  deriving Repr

mutual
/-- the event is, or holds at any depth (SUB bodies, include fallbacks), an EXEC event -/
def Sk.hasExec : Sk → Bool
  | .ev => false
  | .exec => true
  | .sub body => hasExecL body
  | .incl fb => hasExecL fb
/-- **the parsed stream contains an EXEC event at any depth** -/
def hasExecL : List Sk → Bool
  | [] => false
  | e :: es => e.hasExec || hasExecL es
end

/-- what a scan of the top level alone sees (the guard of a past defect: it misses blocks folded
    into SUB events and fallbacks) -/
def flatExec : List Sk → Bool
  | [] => false
  | .exec :: _ => true
  | _ :: es => flatExec es

mutual
/-- nesting depth of the deepest EXEC event (0 = none, 1 = top level, 2 = inside one SUB / fallback …) -/
def Sk.execDepth : Sk → Nat
  | .ev => 0
  | .exec => 1
  | .sub body => if execDepthL body = 0 then 0 else execDepthL body + 1
  | .incl fb => if execDepthL fb = 0 then 0 else execDepthL fb + 1
def execDepthL : List Sk → Nat
  | [] => 0
  | e :: es => max e.execDepth (execDepthL es)
end

/-- how the template object holding the shape comes into being -/
inductive Way
  /-- `cls(source, allow_exec=flag)`; `own = false`: with `loader=TemplateLoader(allow_exec=flag)` -/
  | ctor (s : Src) (own : Bool)
  /-- `TemplateLoader(allow_exec=flag).load(name, cls=…)` / with `default_class` -/
  | load (viaDefault : Bool)
  /-- `loader._instantiate(cls, fileobj, filepath, filename)` called directly -/
  | instantiate
  /-- included (parse mode, `auto_reload` of the loader) by a template loaded through
      `TemplateLoader(allow_exec=flag)` -/
  | incl (p : Parse) (ar : Bool)
  /-- the same with a dynamic href (never inlined) -/
  | inclDyn (p : Parse)
  /-- included by a template that is itself included -/
  | inclDeep (ar : Bool)
  /-- included from inside the `xi:fallback` of a failing include -/
  | inclFallback (ar : Bool)
  /-- included by a directly constructed template that made its own loader -/
  | inclOwn
  | pluginFile
  | pluginString
  /-- constructed, then `pickle.loads(pickle.dumps(·))`, the copy rendered -/
  | pickled
  /-- included by a template that went through pickle before its first render (the include is
      resolved through the unpickled loader) -/
  | pickledHost
  /-- loaded through `pickle.loads(pickle.dumps(TemplateLoader(allow_exec=flag)))` -/
  | pickledLoader
  deriving DecidableEq, Repr

def Src.code : Src → Nat
  | .str => 0 | .bytes => 1 | .file => 2 | .stream => 3

def Parse.code : Parse → Nat
  | .same => 0 | .xml => 1 | .text => 2

/-- a number for each way (comparing numbers is what the table look-ups do; `Way.code_inj` in
    `Lemmas/ExecShape.lean` says the numbering is injective) -/
def Way.code : Way → Nat
  | .ctor s own => 10 + 2 * s.code + own.toNat
  | .load d => 20 + d.toNat
  | .instantiate => 22
  | .incl p ar => 30 + 2 * p.code + ar.toNat
  | .inclDyn p => 40 + p.code
  | .inclDeep ar => 44 + ar.toNat
  | .inclFallback ar => 46 + ar.toNat
  | .inclOwn => 48
  | .pluginFile => 49
  | .pluginString => 50
  | .pickled => 51
  | .pickledHost => 52
  | .pickledLoader => 53

inductive ErrK | none | syntax | other
  deriving DecidableEq, Repr

/-- one probe of a shape that contains a code block -/
structure ShapeRow where
  cls : Cls
  way : Way
  /-- every flag given (constructor, loader, plugin option) has this value -/
  flag : Bool
  shape : Nat
  /-- skeletons of the streams of all template objects reachable afterwards from what the caller
      holds (template, loader, plugin) -/
  objects : List (List Sk)
  err : ErrK
  /-- the sentinel moved -/
  ran : Bool
  /-- a generic walk of the object graph met a compiled `Suite` -/
  deepSuite : Bool
  deriving Repr

/-- one code-free twin, rendered under both flag values -/
structure PlainRow where
  cls : Cls
  way : Way
  shape : Nat
  /-- code points of the tail of the output; `none`: an error -/
  outOff : Option (List Nat)
  outOn : Option (List Nat)
  suiteOff : Bool
  suiteOn : Bool
  deriving Repr

end Genshi.Exec

/-
  C02 — model of `NamespaceFlattener.__call__` (genshi/output.py, as repaired by
  the commit "fix: NamespaceFlattener keeps track of which prefix is bound to
  which URI").  Function by function:

    bindings   list of (prefix, uri, auto), INNERMOST FIRST (the Python list is
               innermost last and is always walked with `reversed`)
    pending    declarations requested by START_NS for the next start tag
    elems      (flattened tag name, number of declarations) per open element,
               innermost first
    counter    the value `val` inside `_gen_prefix`

  The filter's private cache is not modelled: a START/EMPTY output is stored only
  when it carries no declarations, the cache is cleared whenever `bindings`
  changes, and a hit requires `pending` to be empty, so a hit returns what the
  computation below returns (the correspondence runs the real filter with its
  cache on).
-/
import Genshi.Model.XmlCore
namespace Genshi.Xml
open Genshi

abbrev Binding := Str × Str × Bool

structure FSt where
  bindings : List Binding
  pending : List (Str × Str)
  elems : List (Str × Nat)
  counter : Nat
  deriving Repr, DecidableEq

/-- `_lookup(prefix)[1]`: `none` is Python's `None` (unbound non-empty prefix);
    the unbound empty prefix stands for "no namespace" -/
def uriOf : List Binding → Str → Option Str
  | [], p => if p.isEmpty then some [] else none
  | (p', u, _) :: bs, p => if p' = p then some u else uriOf bs p

/-- `_lookup(prefix)[2]` -/
def autoOf : List Binding → Str → Bool
  | [], _ => false
  | (p', _, a) :: bs, p => if p' = p then a else autoOf bs p

/-- the loop of `_find_prefix` over `reversed(bindings)`; `full` is the whole list -/
def findGo (full : List Binding) (uri : Str) (forAttr : Bool) : List Binding → Option Str
  | [] => none
  | (p, u, _) :: bs =>
      if u = uri ∧ (¬ p.isEmpty ∨ forAttr = false) ∧ uriOf full p = some uri then some p
      else findGo full uri forAttr bs

/-- `_find_prefix(uri, for_attr)` -/
def findPrefix (bs : List Binding) (uri : Str) (forAttr : Bool) : Option Str :=
  if forAttr = false ∧ uriOf bs [] = some uri then some []
  else findGo bs uri forAttr bs

/-- `next(_prefix_generator)` repeated while the prefix is bound.  `fuel` bounds
    the number of skipped names; `bindings.length + 1` always suffices
    (`genLoop_fresh` in Lemmas/XmlFlatten.lean). -/
def genLoop (bs : List Binding) : Nat → Nat → Str × Nat
  | val, 0 => (nsName (val + 1), val + 1)
  | val, fuel + 1 =>
      if uriOf bs (nsName (val + 1)) = none then (nsName (val + 1), val + 1)
      else genLoop bs (val + 1) fuel

/-- the prefix picked inside `_declare` when none was given or the given one is
    already declared on this tag: the preferred prefix of the URI if it is
    non-empty and free, else a generated one -/
def freshPrefix (pref : List (Str × Str)) (bs : List Binding) (uri : Str) (counter : Nat) : Str × Nat :=
  match List.lookup uri pref with
  | some p => if ¬ p.isEmpty ∧ uriOf bs p = none then (p, counter)
              else genLoop bs counter (bs.length + 1)
  | none => genLoop bs counter (bs.length + 1)

/-- working state while one start tag is generated -/
structure TagSt where
  bindings : List Binding
  declared : List (Str × Str)     -- in the order they are written
  counter : Nat
  deriving Repr, DecidableEq

/-- `_declare(declared, uri, prefix)`; returns the prefix used -/
def declare (pref : List (Str × Str)) (t : TagSt) (uri : Str) (pfx : Option Str) : Str × TagSt :=
  let (p, c) :=
    match pfx with
    | some p => if (t.declared.map Prod.fst).contains p then freshPrefix pref t.bindings uri t.counter
                else (p, t.counter)
    | none => freshPrefix pref t.bindings uri t.counter
  (p, { bindings := (p, uri, true) :: t.bindings, declared := t.declared ++ [(p, uri)], counter := c })

/-- the loop over `pending` at the beginning of START/EMPTY -/
def takePending : TagSt → List (Str × Str) → TagSt
  | t, [] => t
  | t, (p, u) :: rest =>
      if uriOf t.bindings p ≠ some u ∧ (¬ p.isEmpty ∨ falsyUri u ∨ findPrefix t.bindings u false = none) then
        takePending { t with bindings := (p, u, false) :: t.bindings, declared := t.declared ++ [(p, u)] } rest
      else takePending t rest

/-- the tag-name part of START/EMPTY -/
def flatTag (pref : List (Str × Str)) (t : TagSt) (tag : QName) : Str × TagSt :=
  if tag.ns.isEmpty then
    match uriOf t.bindings [] with
    | some u => if ¬ falsyUri u ∧ autoOf t.bindings [] then (tag.loc, (declare pref t [] (some [])).2)
                else (tag.loc, t)
    | none => (tag.loc, t)
  else
    match findPrefix t.bindings tag.ns false with
    | some p => (qualify p tag.loc, t)
    | none => let (p, t') := declare pref t tag.ns (some []); (qualify p tag.loc, t')

/-- the loop over the attributes -/
def flatAttrs (pref : List (Str × Str)) : TagSt → AttrList → List (Str × Str) × TagSt
  | t, [] => ([], t)
  | t, (a, v) :: rest =>
      if a.ns.isEmpty then
        let (out, t') := flatAttrs pref t rest
        ((a.loc, v) :: out, t')
      else
        match findPrefix t.bindings a.ns true with
        | some p =>
            let (out, t') := flatAttrs pref t rest
            ((p ++ ':' :: a.loc, v) :: out, t')
        | none =>
            let (p, t1) := declare pref t a.ns none
            let (out, t') := flatAttrs pref t1 rest
            ((p ++ ':' :: a.loc, v) :: out, t')

/-- everything START and EMPTY have in common: name, attributes (declarations
    first), and the tag state afterwards -/
def flatStart (pref : List (Str × Str)) (st : FSt) (tag : QName) (attrs : AttrList) :
    Str × List (Str × Str) × TagSt :=
  let t0 := takePending { bindings := st.bindings, declared := [], counter := st.counter } st.pending
  let (name, t1) := flatTag pref t0 tag
  let (as, t2) := flatAttrs pref t1 attrs
  (name, t2.declared.map (fun d => (nsAttrName d.1, d.2)) ++ as, t2)

/-- one event through the filter -/
def flatStep (pref : List (Str × Str)) (st : FSt) : XEv → FSt × List FEv
  | .ev (.start tag attrs) =>
      let (name, as, t) := flatStart pref st tag attrs
      ({ bindings := t.bindings, pending := [], elems := (name, t.declared.length) :: st.elems,
         counter := t.counter }, [.start name as])
  | .empty tag attrs =>
      let (name, as, t) := flatStart pref st tag attrs
      ({ bindings := st.bindings, pending := [], elems := st.elems, counter := t.counter },
       [.empty name as])
  | .ev (.end_ tag) =>
      match st.elems with
      | (name, n) :: rest => ({ st with bindings := st.bindings.drop n, elems := rest }, [.end_ name])
      | [] =>
          let name :=
            if tag.ns.isEmpty then tag.loc
            else match findPrefix st.bindings tag.ns false with
              | some p => qualify p tag.loc
              | none => tag.loc
          (st, [.end_ name])
  | .ev (.startNs p u) =>
      ({ st with pending := st.pending.filter (fun d => d.1 ≠ p) ++ [(p, u)] }, [])
  | .ev (.endNs p) =>
      ({ st with pending := st.pending.filter (fun d => d.1 ≠ p) }, [])
  | .ev e => (st, [.other e])

def flatRun (pref : List (Str × Str)) : FSt → List XEv → List FEv
  | _, [] => []
  | st, e :: es => let (st', out) := flatStep pref st e; out ++ flatRun pref st' es

def FSt.init : FSt := { bindings := [(xmlPrefix, xmlNs, false)], pending := [], elems := [], counter := 0 }

/-- `NamespaceFlattener(prefixes=pref)(stream)` -/
def flatten (pref : List (Str × Str)) (s : List XEv) : List FEv := flatRun pref FSt.init s

/-- the constructor's default mapping (`{XML_NAMESPACE.uri: 'xml'}`), as extracted -/
def defaultPref : List (Str × Str) := Genshi.Gen.Xml.flattenerInitial

end Genshi.Xml

/-
  C02 — model of `XMLSerializer.__call__` (the loop after the filters) and of
  `encode()` with `xmlcharrefreplace` (genshi/output.py).

  The serializer's cache is not modelled: every stored value is a function of
  the key `(kind, data)` alone (raw TEXT inside CDATA and `Markup` TEXT bypass
  it since the commit "serializers no longer cache text written raw …"), so a
  hit returns what the computation returns; property C09 is about that.
-/
import Genshi.Model.XmlFlatten
import Genshi.Model.Escape
namespace Genshi.Xml
open Genshi Genshi.Escape

structure SerSt where
  haveDecl : Bool
  haveDoctype : Bool
  inCdata : Bool
  deriving Repr, DecidableEq

def SerSt.init : SerSt := ⟨false, false, false⟩

/-- `' ' attr '="' escape(value) '"'` for every attribute -/
def emitAttrs : List (Str × Str) → Str
  | [] => []
  | (a, v) :: rest =>
      ' ' :: a ++ ('=' :: '"' :: (if v = noneUri then [] else escapePy true v)) ++ '"' :: emitAttrs rest

def emitStart (name : Str) (attrs : List (Str × Str)) (empty : Bool) : Str :=
  '<' :: name ++ emitAttrs attrs ++ (if empty then ['/', '>'] else ['>'])

def emitEnd (name : Str) : Str := '<' :: '/' :: name ++ ['>']

def truthy : Option Str → Bool
  | some s => ! s.isEmpty
  | none => false

def emitDecl (version : Str) (encoding : Option Str) (standalone : Int) : Str :=
  ['<', '?', 'x', 'm', 'l', ' ', 'v', 'e', 'r', 's', 'i', 'o', 'n', '=', '"'] ++ version ++ ['"']
  ++ (match encoding with
      | some e => if e.isEmpty then [] else [' ', 'e', 'n', 'c', 'o', 'd', 'i', 'n', 'g', '=', '"'] ++ e ++ ['"']
      | none => [])
  ++ (if standalone = -1 then []
      else [' ', 's', 't', 'a', 'n', 'd', 'a', 'l', 'o', 'n', 'e', '=', '"']
           ++ (if standalone = 0 then ['n', 'o'] else ['y', 'e', 's']) ++ ['"'])
  ++ ['?', '>', '\n']

/-- the DOCTYPE branch; `none` when the `%` formatting would raise (empty name) -/
def emitDoctype (name : Str) (pubid sysid : Option Str) : Option Str :=
  if name.isEmpty then none else
  some (['<', '!', 'D', 'O', 'C', 'T', 'Y', 'P', 'E', ' '] ++ name
    ++ (if truthy pubid then [' ', 'P', 'U', 'B', 'L', 'I', 'C', ' ', '"'] ++ pubid.getD [] ++ ['"']
        else if truthy sysid then [' ', 'S', 'Y', 'S', 'T', 'E', 'M'] else [])
    ++ (if truthy sysid then
          (if List.elem '"' (sysid.getD []) then [' ', '\''] ++ sysid.getD [] ++ ['\'']
           else [' ', '"'] ++ sysid.getD [] ++ ['"'])
        else [])
    ++ ['>', '\n'])

/-- one flattened event through the serializer loop; `none` = the real code raises -/
def serStep (st : SerSt) : FEv → Option (SerSt × Str)
  | .start name attrs => some (st, emitStart name attrs false)
  | .empty name attrs => some (st, emitStart name attrs true)
  | .end_ name => some (st, emitEnd name)
  | .other (.text s safe) =>
      if st.inCdata ∨ safe then some (st, s) else some (st, escapePy false s)
  | .other (.comment s) => some (st, ['<', '!', '-', '-'] ++ s ++ ['-', '-', '>'])
  | .other (.pi t d) => some (st, ['<', '?'] ++ t ++ ' ' :: d ++ ['?', '>'])
  | .other (.xmlDecl v e sa) =>
      if st.haveDecl then some (st, []) else some ({ st with haveDecl := true }, emitDecl v e sa)
  | .other (.doctype n p s) =>
      if st.haveDoctype then some (st, []) else
      (emitDoctype n p s).map fun out => ({ st with haveDoctype := true }, out)
  | .other .startCdata => some ({ st with inCdata := true }, ['<', '!', '[', 'C', 'D', 'A', 'T', 'A', '['])
  | .other .endCdata => some ({ st with inCdata := false }, [']', ']', '>'])
  | .other _ => some (st, [])      -- START/END/START_NS/END_NS never reach the loop as `other`

def serRun : SerSt → List FEv → Option Str
  | _, [] => some []
  | st, e :: es =>
      match serStep st e with
      | none => none
      | some (st', out) => (serRun st' es).map (out ++ ·)

/-- `''.join(XMLSerializer(strip_whitespace=False)(stream))` -/
def serialize (s : Stream) : Option Str := serRun SerSt.init (flatten defaultPref (emptyTag s))

/-- `str.encode(encoding, 'xmlcharrefreplace')` seen through the codec's own
    decoder: representable characters stay, the others become `&#N;` -/
def charRef (c : Char) : Str := '&' :: '#' :: dec c.toNat ++ [';']

def encodeText (rep : Char → Bool) (s : Str) : Str :=
  s.flatMap fun c => if rep c then [c] else charRef c

/-- a codec as extracted by the translator: inclusive code point ranges -/
def inRanges (rs : List (Nat × Nat)) (c : Char) : Bool := rs.any fun r => r.1 ≤ c.toNat && c.toNat ≤ r.2

end Genshi.Xml

/-
  C03 — model of `genshi.template.interpolation.lex`: splitting text into literal chunks and
  expression chunks at `$name`, `${…}` (balanced braces, Python string literals and comments
  skipped) and `$$`.

  The `${…}` scanner of the code matches CPython's `tokenize.PseudoToken` regular expression
  (plus triple quoted strings) repeatedly; here it is a hand-written scanner for ASCII text
  without triple quotes and without backslash-newline (the driver answers `unmodelled`
  otherwise); for counting braces only the extent of strings and comments matters, not how the
  other characters are grouped into tokens.
-/
import Genshi.Model.PyAst
namespace Genshi.Py.Lex

inductive Err where
  | syntax          -- TemplateSyntaxError('invalid syntax')
  deriving DecidableEq, Repr

def isNameStart (c : Char) : Bool :=
  ('a' ≤ c && c ≤ 'z') || ('A' ≤ c && c ≤ 'Z') || c = '_'

def isNameChar (c : Char) : Bool :=
  isNameStart c || c = '.' || ('0' ≤ c && c ≤ '9')

def isWord (c : Char) : Bool :=
  ('a' ≤ c && c ≤ 'z') || ('A' ≤ c && c ≤ 'Z') || c = '_' || ('0' ≤ c && c ≤ '9')

/-- characters that start an alternative of `tokenize.Funny` (every one of them is also a
    one-character operator) -/
def isOpChar (c : Char) : Bool :=
  cs!"~}|{^][@>=<;:/.-,+*)(&%!".contains c

def isBlank (c : Char) : Bool := c = ' ' || c = '\t' || c = '\x0c'

def stripAscii (s : List Char) : List Char :=
  let p := fun (c : Char) => c = ' ' || c = '\t' || c = '\n' || c = '\r' || c = '\x0b' || c = '\x0c'
          || c = '\x1c' || c = '\x1d' || c = '\x1e' || c = '\x1f' || c = '\u0085' || c = ' '
  (s.dropWhile p).reverse.dropWhile p |>.reverse

/-- the rest of a `'…'` / `"…"` literal after the opening quote `q`: consumed characters
    (reversed onto `acc`) and what follows the closing quote -/
def scanStr (q : Char) : Nat → List Char → List Char → Except Err (List Char × List Char)
  | 0, _, _ => .error .syntax
  | _ + 1, _, [] => .error .syntax
  | fuel + 1, acc, c :: r =>
      if c = q then .ok (c :: acc, r)
      else if c = '\n' then .error .syntax
      else if c = '\\' then
        match r with
        | [] => .error .syntax
        | d :: r' => scanStr q fuel (d :: c :: acc) r'
      else scanStr q fuel (c :: acc) r

def takeWhileRev (p : Char → Bool) : List Char → List Char → List Char × List Char
  | acc, [] => (acc, [])
  | acc, c :: r => if p c then takeWhileRev p (c :: acc) r else (acc, c :: r)

/-- scan up to the `}` that closes the `${`: (inner text reversed, rest after the `}`) -/
def scanBraces : Nat → Nat → List Char → List Char → Except Err (List Char × List Char)
  | 0, _, _, _ => .error .syntax
  | _ + 1, _, _, [] => .error .syntax
  | fuel + 1, level, acc, c :: r =>
      if isBlank c then scanBraces fuel level (c :: acc) r
      else if c = '\n' then scanBraces fuel level (c :: acc) r
      else if c = '\r' then
        match r with
        | '\n' :: r' => scanBraces fuel level ('\n' :: c :: acc) r'
        | _ => .error .syntax
      else if c = '#' then
        let (acc', r') := takeWhileRev (fun d => d != '\n' && d != '\r') (c :: acc) r
        scanBraces fuel level acc' r'
      else if c = '\'' || c = '"' then
        match scanStr c fuel (c :: acc) r with
        | .ok (acc', r') => scanBraces fuel level acc' r'
        | .error e => .error e
      else if c = '{' then scanBraces fuel (level + 1) (c :: acc) r
      else if c = '}' then
        if level = 1 then .ok (acc, r) else scanBraces fuel (level - 1) (c :: acc) r
      else if isOpChar c then scanBraces fuel level (c :: acc) r
      else if isWord c then
        let (acc', r') := takeWhileRev isWord (c :: acc) r
        scanBraces fuel level acc' r'
      else .error .syntax

def flush (lit : List Char) (out : List (Bool × List Char)) : List (Bool × List Char) :=
  if lit.isEmpty then out else (false, lit.reverse) :: out

/-- `lit`: the pending literal text (reversed); `out`: chunks so far (reversed) -/
def lexGo : Nat → List Char → List (Bool × List Char) → List Char → Except Err (List (Bool × List Char))
  | 0, _, _, _ => .error .syntax
  | _ + 1, lit, out, [] => .ok (flush lit out).reverse
  | _ + 1, lit, out, ['$'] => .ok (flush ('$' :: lit) out).reverse
  | fuel + 1, lit, out, '$' :: c :: r =>
      if c = '{' then
        match scanBraces (r.length + 1) 1 [] r with
        | .ok (inner, r') => lexGo fuel [] ((true, inner.reverse) :: flush lit out) r'
        | .error e => .error e
      else if isNameStart c then
        let (name, r') := takeWhileRev isNameChar [c] r
        lexGo fuel [] ((true, stripAscii name.reverse) :: flush lit out) r'
      else if c = '$' then
        -- `$$`: the text before it is emitted, the second `$` starts the next literal
        lexGo fuel ['$'] (flush lit out) r
      else
        lexGo fuel [] ((false, ('$' :: lit).reverse) :: out) (c :: r)
  | fuel + 1, lit, out, ch :: r => lexGo fuel (ch :: lit) out r

/-- `list(lex(text, …))` -/
def lex (text : List Char) : Except Err (List (Bool × List Char)) := lexGo (text.length + 1) [] [] text

/-- texts the scanner does not claim to model -/
def unmodelled : List Char → Bool
  | [] => false
  | c :: r =>
      c.toNat ≥ 128
      || (match c, r with
          | '\'', '\'' :: '\'' :: _ => true
          | '"', '"' :: '"' :: _ => true
          | '\\', '\n' :: _ => true
          | '\\', '\r' :: _ => true
          | _, _ => false)
      || unmodelled r

end Genshi.Py.Lex

/-
  C07 — `genshi.input.HTMLParser`: the `handle_*` methods over `html.parser.HTMLParser`
  (`_open_tags`, `_EMPTY_ELEMS`, the closers at end of input) and the `except Exception`
  clause of `parse()._generate`.

  Outside the model and quantified over in the theorems: the tokenizer (any callback
  sequence), `genshi.util.stripentities` (`Env.strip`, may raise) and `str.lower`
  (`Env.lower`).
-/
import Genshi.Model.Parse
import Genshi.Gen.Output
import Genshi.Gen.Parse
namespace Genshi.Parse
open Genshi

structure Env where
  strip : Str → Except PyExc Str      -- `stripentities(value)`
  lower : Str → Str                   -- `str.lower`
  void : List Str                     -- `HTMLParser._EMPTY_ELEMS`

/-- what `html.parser.HTMLParser` may call -/
inductive HtmlCb where
  | starttag (tag : Str) (attrs : List (Str × Option Str))
  | endtag (tag : Str)
  | startendtag (tag : Str) (attrs : List (Str × Option Str))
  | data (s : Str)
  | comment (s : Str)
  | pi (s : Str)
  | charref (name : Str)
  | entityref (name : Str)
  | decl (s : Str)                    -- `handle_decl` / `unknown_decl`: not overridden by genshi
  deriving Repr

/-- the loop at the top of `handle_starttag`: minimised attributes get their name as value,
    every value goes through `stripentities`; the first failure is raised -/
def fixAttrs (env : Env) : List (Str × Option Str) → Except PyExc AttrList
  | [] => .ok []
  | (n, v) :: rest =>
    match env.strip (v.getD n) with
    | .error e => .error e
    | .ok v' =>
      match fixAttrs env rest with
      | .error e => .error e
      | .ok r => .ok ((mkQName n, v') :: r)

/-- `handle_starttag`: START is enqueued; a void element gets its END at once and is not pushed.
    `openTags` has the most recently opened tag first. -/
def handleStarttag (env : Env) (openTags : List Str) (tag : Str) (attrs : List (Str × Option Str)) :
    Except PyExc (List Str × Stream) :=
  match fixAttrs env attrs with
  | .error e => .error e
  | .ok fixed =>
    if env.void.contains tag then .ok (openTags, [.start (mkQName tag) fixed, .end_ (mkQName tag)])
    else .ok (tag :: openTags, [.start (mkQName tag) fixed])

/-- the `while self._open_tags:` loop of `handle_endtag`: pop and close up to and including the
    first open tag that equals `tag` case-insensitively, or everything -/
def popTo (env : Env) (tag : Str) : List Str → List Str × Stream
  | [] => ([], [])
  | t :: rest =>
    if env.lower t = env.lower tag then (rest, [.end_ (mkQName t)])
    else
      let r := popTo env tag rest
      (r.1, .end_ (mkQName t) :: r.2)

def handleEndtag (env : Env) (openTags : List Str) (tag : Str) : List Str × Stream :=
  if env.void.contains tag then (openTags, []) else popTo env tag openTags

/-! `handle_pi` -/

def isPySpace (c : Char) : Bool := Genshi.Gen.Parse.pySpace.contains c.toNat

def spanNonSpace : Str → Str × Str
  | [] => ([], [])
  | c :: cs => if isPySpace c then ([], c :: cs) else let r := spanNonSpace cs; (c :: r.1, r.2)

def dropLastQ (s : Str) : Str := if s.getLast? = some '?' then s.dropLast else s

/-- `handle_pi`: a trailing `?` is dropped; `data.split(None, 1)` gives target and data when there
    are two fields, otherwise the whole is the target; both are stripped -/
def piEvent (data : Str) : Event :=
  let d := dropLastQ data
  let sp := spanNonSpace (Str.lstripBy isPySpace d)
  let rest := Str.lstripBy isPySpace sp.2
  if rest.isEmpty then .pi (Str.stripBy isPySpace d) []
  else .pi (Str.stripBy isPySpace sp.1) (Str.stripBy isPySpace rest)

/-! `handle_charref`, `handle_entityref` (dead code under `convert_charrefs`, still part of the layer) -/

def digitVal (base : Nat) (c : Char) : Option Nat :=
  let v := if '0' ≤ c ∧ c ≤ '9' then some (c.toNat - 48)
    else if 'a' ≤ c ∧ c ≤ 'f' then some (c.toNat - 87)
    else if 'A' ≤ c ∧ c ≤ 'F' then some (c.toNat - 55)
    else none
  match v with
  | some d => if d < base then some d else none
  | none => none

def parseDigitsGo (base : Nat) : Nat → Str → Option Nat
  | acc, [] => some acc
  | acc, c :: cs =>
    match digitVal base c with
    | some d => parseDigitsGo base (acc * base + d) cs
    | none => none

/-- `int(s, base)` on the fragment `[0-9a-fA-F]+` (what the tokenizer's `charref` pattern delivers) -/
def parseDigits (base : Nat) (s : Str) : Option Nat :=
  if s.isEmpty then none else parseDigitsGo base 0 s

def isSurrogate (n : Nat) : Bool := 0xD800 ≤ n && n ≤ 0xDFFF

/-- `six.unichr(n)`: `ValueError` from 0x110000, `OverflowError` above a C int -/
def pyChr (n : Nat) : Except PyExc Str :=
  if n < 0x110000 then .ok [Char.ofNat n]
  else if n ≤ 2147483647 then .error valueError
  else .error overflowError

def charrefIsHex (name : Str) : Bool :=
  match name with
  | c :: _ => c = 'x' || c = 'X'
  | [] => false

def charrefValue (name : Str) : Option Nat :=
  if charrefIsHex name then parseDigits 16 (name.drop 1) else parseDigits 10 name

/-- is `handle_charref name` inside the modelled fragment of `int()` / of `Char`? -/
def charrefModelled (name : Str) : Bool :=
  match charrefValue name with
  | some n => !isSurrogate n
  | none => false

def charrefText (name : Str) : Except PyExc Str :=
  match charrefValue name with
  | some n => pyChr n
  | none => .error valueError

def lookupEntity (name : Str) : Option Nat :=
  (Genshi.Gen.Parse.entities.find? (fun p => p.1 = name)).map (·.2)

def entityrefText (name : Str) : Str :=
  match lookupEntity name with
  | some cp => [Char.ofNat cp]
  | none => '&' :: name ++ [';']

/-- one callback: new `_open_tags` and the events it enqueues -/
def htmlStep (env : Env) (openTags : List Str) : HtmlCb → Except PyExc (List Str × Stream)
  | .starttag tag attrs => handleStarttag env openTags tag attrs
  | .endtag tag => .ok (handleEndtag env openTags tag)
  | .startendtag tag attrs =>
    -- `html.parser.HTMLParser.handle_startendtag`: `handle_starttag` then `handle_endtag`
    match handleStarttag env openTags tag attrs with
    | .error e => .error e
    | .ok (o, evs) =>
      let r := handleEndtag env o tag
      .ok (r.1, evs ++ r.2)
  | .data s => .ok (openTags, [.text s false])
  | .comment s => .ok (openTags, [.comment s])
  | .pi s => .ok (openTags, [piEvent s])
  | .charref name =>
    match charrefText name with
    | .error e => .error e
    | .ok t => .ok (openTags, [.text t false])
  | .entityref name => .ok (openTags, [.text (entityrefText name) false])
  | .decl _ => .ok (openTags, [])

/-- at end of input the open tags are closed innermost first -/
def closers (openTags : List Str) : Stream := openTags.map fun t => .end_ (mkQName t)

def htmlLayer (env : Env) : Layer (List Str) HtmlCb where
  step := htmlStep env
  finish := closers

/-- `except Exception as e: raise ParseError(str(e), self.filename)`: line and offset stay -1 -/
def htmlHandler : PyExc → Raised
  | .base n => .propagate n
  | _ => .parseError (-1) (-1)

/-- a chunk handed out by `source.read()` -/
inductive HtmlReadG (cb : Type) where
  | text (items : List (Item cb))       -- a `str`: fed to the tokenizer
  | bytes                               -- not a `str`: `UnicodeError("source returned bytes, but no encoding specified")`
  | fail (e : PyExc)                    -- `read()` raised (e.g. the codec reader)
  deriving Repr

abbrev HtmlRead := HtmlReadG HtmlCb

def HtmlReadG.toRead {cb : Type} : HtmlReadG cb → Read cb
  | .text l => .items l
  | .bytes => .fail unicodeError
  | .fail e => .fail e

/-- iterating `HTMLParser(source)` -/
def htmlParse (env : Env) (reads : List HtmlRead) (close : List (Item HtmlCb)) : Stream × Option Raised :=
  parse (htmlLayer env) htmlHandler [] (reads.map HtmlReadG.toRead) close

/-! ### with positions

Every `_enqueue` of one callback stamps `self._getpos()` (`html.parser`'s `getpos()` does not move
during a callback); the closers at end of input re-use the local `pos` of `_generate`, i.e. the
position of the last event handed on. -/

structure HStP where
  openTags : List Str
  last : Option Pos       -- `pos` of `_generate`: unbound until the first event

def htmlStepP (env : Env) (k : HStP) (c : HtmlCb × Pos) : Except PyExc (HStP × PStream) :=
  match htmlStep env k.openTags c.1 with
  | .error e => .error e
  | .ok (o, evs) =>
    .ok (⟨o, match evs with
            | [] => k.last
            | _ :: _ => some c.2⟩, evs.map fun e => (e, c.2))

def closersP (k : HStP) : PStream :=
  k.openTags.map fun t => (.end_ (mkQName t), k.last.getD (-1, -1))

def htmlLayerP (env : Env) : LayerG HStP (HtmlCb × Pos) PEvent where
  step := htmlStepP env
  finish := closersP

abbrev HtmlReadP := HtmlReadG (HtmlCb × Pos)

def htmlParseP (env : Env) (reads : List HtmlReadP) (close : List (Item (HtmlCb × Pos))) :
    PStream × Option Raised :=
  parseP (htmlLayerP env) htmlHandler ⟨[], none⟩ (reads.map HtmlReadG.toRead) close

def HtmlReadG.map {α β : Type} (g : α → β) : HtmlReadG α → HtmlReadG β
  | .text l => .text (l.map (Item.map g))
  | .bytes => .bytes
  | .fail e => .fail e

/-- the environment of the real code: the generated void table (ASCII `lower` is used by the driver) -/
def asciiLower (s : Str) : Str := s.map Str.lower

end Genshi.Parse

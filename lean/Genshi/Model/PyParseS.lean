/-
  C13 — `pyParseS`: a reader for the statement layer of regenerated source: logical lines
  (indentation depth + tokens, as `tokenize` delivers them) → `PyStmt`s.  Expressions inside
  the lines are read by the expression parser of `PyParse.lean`.

  It is the specification-side reader for `genStmt`; it accepts the statement forms
  `ASTCodeGenerator` writes (one statement per line, `else:` instead of `elif`, no `;`).
-/
import Genshi.Model.PyParse
namespace Genshi.Py
open Genshi.Gen

/-- an expression at the start of a token list, and the rest of the line -/
def exprP (toks : List Tok) : Option (PyExpr × List Tok) := exprF (knot (parseFuel toks)) toks

/-- a target (`for t in …`, `with … as t`): a primary -/
def primaryP (toks : List Tok) : Option (PyExpr × List Tok) := primaryF (knot (parseFuel toks)) toks

/-- a comma separated sequence up to (not including) the closing token -/
def itemsP (mode : Mode) (closer : Tok) (toks : List Tok) : Option (List PyExpr × List Tok) :=
  ((knot (parseFuel toks + 64)).items mode closer [] false toks).map fun x => (x.1.1, x.2)

def augOp? (s : Str) : List (Str × Str) → Option Str
  | [] => none
  | (cls, sym) :: r => if sym ++ ['='] = s then some cls else augOp? s r

/-- dotted name `a.b.c` -/
def dottedP : Nat → List Tok → Option (Str × List Tok)
  | 0, _ => none
  | fuel + 1, .name a :: .op ['.'] :: r =>
      (dottedP fuel r).map fun (s, r') => (a ++ '.' :: s, r')
  | _ + 1, .name a :: r => if isKeyword a then none else some (a, r)
  | _ + 1, _ => none

/-- `a.b as c, d` -/
def importNamesP : Nat → List Tok → Option (List (Str × Option Str))
  | 0, _ => none
  | fuel + 1, toks => do
      let (n, r) ← dottedP (toks.length + 1) toks
      match r with
      | [] => some [(n, none)]
      | .op [','] :: r' => (importNamesP fuel r').map fun ns => (n, none) :: ns
      | .name ['a', 's'] :: .name a :: r' =>
          match r' with
          | [] => some [(n, some a)]
          | .op [','] :: r'' => (importNamesP fuel r'').map fun ns => (n, some a) :: ns
          | _ => none
      | _ => none

/-- the names of `from m import …`: plain names (or `*`) with optional `as` -/
def fromNamesP : Nat → List Tok → Option (List (Str × Option Str))
  | 0, _ => none
  | fuel + 1, toks =>
      let head : Option (Str × List Tok) := match toks with
        | .op ['*'] :: r => some (['*'], r)
        | .name a :: r => some (a, r)
        | _ => none
      match head with
      | none => none
      | some (n, r) =>
        match r with
        | [] => some [(n, none)]
        | .op [','] :: r' => (fromNamesP fuel r').map fun ns => (n, none) :: ns
        | .name ['a', 's'] :: .name a :: r' =>
            match r' with
            | [] => some [(n, some a)]
            | .op [','] :: r'' => (fromNamesP fuel r'').map fun ns => (n, some a) :: ns
            | _ => none
        | _ => none

/-- leading dots of a relative import -/
def dotsP : List Tok → Nat × List Tok
  | .op ['.', '.', '.'] :: r => let (n, r') := dotsP r; (n + 3, r')
  | .op ['.'] :: r => let (n, r') := dotsP r; (n + 1, r')
  | r => (0, r)

/-- `t1 = t2 = … = value` after the first expression `e` has been read: the remaining targets and the value -/
def assignTailP : Nat → List PyExpr → PyExpr → List Tok → Option (List PyExpr × PyExpr)
  | 0, _, _, _ => none
  | _ + 1, acc, e, [] => some (acc.reverse, e)
  | fuel + 1, acc, e, .op ['='] :: r => do
      let (e', r') ← exprP r
      assignTailP fuel (e :: acc) e' r'
  | _ + 1, _, _, _ => none

/-- `with` items: `expr [as target]` separated by commas, up to the colon -/
def withItemsP : Nat → List Tok → Option (List (PyExpr × Option PyExpr))
  | 0, _ => none
  | fuel + 1, toks => do
      let (c, r) ← exprP toks
      let (v, r1) ← (match r with
        | .name ['a', 's'] :: r' => do let (t, r'') ← primaryP r'; some (some t, r'')
        | _ => some (none, r))
      match r1 with
      | [.op [':']] => some [(c, v)]
      | .op [','] :: r2 => (withItemsP fuel r2).map fun xs => (c, v) :: xs
      | _ => none

def isClauseLine (l : Line) : Bool :=
  match l.toks with
  | .name s :: _ => s = cs!"else" || s = cs!"except" || s = cs!"finally"
  | _ => false

/-- decorators: lines `@ expr` at this indentation -/
def decoratorsP (ind : Nat) : List Line → Option (List PyExpr × List Line)
  | ⟨i, .op ['@'] :: ts⟩ :: rest =>
      if i = ind then do
        let e ← pyParse ts
        let (ds, rest') ← decoratorsP ind rest
        some (e :: ds, rest')
      else some ([], ⟨i, .op ['@'] :: ts⟩ :: rest)
  | lines => some ([], lines)

/-- simple (one line) statements -/
def simpleP (toks : List Tok) : Option PyStmt :=
  match toks with
  | [.name ['p', 'a', 's', 's']] => some .pass_
  | [.name ['b', 'r', 'e', 'a', 'k']] => some .break_
  | [.name ['c', 'o', 'n', 't', 'i', 'n', 'u', 'e']] => some .continue_
  | .name ['r', 'e', 't', 'u', 'r', 'n'] :: r =>
      match r with
      | [] => some (.return_ none)
      | _ => (pyParse r).map fun e => .return_ (some e)
  | .name ['d', 'e', 'l'] :: r => do
      let (ts, r') ← itemsP .elts tEOF r
      match r', ts with
      | [], _ :: _ => some (.delete ts)
      | _, _ => none
  | .name ['a', 's', 's', 'e', 'r', 't'] :: r => do
      let (t, r1) ← exprP r
      match r1 with
      | [] => some (.assert_ t none)
      | .op [','] :: r2 => (pyParse r2).map fun m => .assert_ t (some m)
      | _ => none
  | .name ['r', 'a', 'i', 's', 'e'] :: r =>
      match r with
      | [] => some (.raise_ none none)
      | _ => do
          let (e, r1) ← exprP r
          match r1 with
          | [] => some (.raise_ (some e) none)
          | .name ['f', 'r', 'o', 'm'] :: r2 => (pyParse r2).map fun c => .raise_ (some e) (some c)
          | _ => none
  | .name ['i', 'm', 'p', 'o', 'r', 't'] :: r => (importNamesP (r.length + 1) r).map .import_
  | .name ['f', 'r', 'o', 'm'] :: r =>
      let (lvl, r1) := dotsP r
      match r1 with
      | .name ['i', 'm', 'p', 'o', 'r', 't'] :: r2 => (fromNamesP (r2.length + 1) r2).map fun ns => .importFrom none ns lvl
      | _ => do
          let (m, r2) ← dottedP (r1.length + 1) r1
          match r2 with
          | .name ['i', 'm', 'p', 'o', 'r', 't'] :: r3 => (fromNamesP (r3.length + 1) r3).map fun ns => .importFrom (some m) ns lvl
          | _ => none
  | _ => do
      -- expression statement, assignment or augmented assignment
      let (e, r) ← exprP toks
      match r with
      | [] => some (.expr e)
      | .op ['='] :: _ => do
          let (ts, v) ← assignTailP (r.length + 1) [] e r
          some (.assign ts v)
      | .op s :: r' =>
          match augOp? s AstGen.binaryOperators with
          | some cls => (pyParse r').map fun v => .augAssign e cls v
          | none => none
      | _ => none

def headerEnd (r : List Tok) : Bool := r = [tColon]

mutual
/-- the statements of a block at indentation `ind` -/
def parseBlock : Nat → Nat → List Line → Option (List PyStmt × List Line)
  | 0, _, _ => none
  | _ + 1, _, [] => some ([], [])
  | fuel + 1, ind, l :: rest =>
      if l.indent < ind || (l.indent = ind && isClauseLine l) then some ([], l :: rest)
      else if l.indent = ind then do
        let (s, rest1) ← parseStmt fuel ind (l :: rest)
        let (ss, rest2) ← parseBlock fuel ind rest1
        some (s :: ss, rest2)
      else none
termination_by structural fuel => fuel
/-- `else:` + block, if present at this indentation -/
def parseElse : Nat → Nat → List Line → Option (List PyStmt × List Line)
  | 0, _, _ => none
  | fuel + 1, ind, ⟨i, [.name ['e', 'l', 's', 'e'], .op [':']]⟩ :: rest =>
      if i = ind then parseBlock fuel (ind + 1) rest
      else some ([], ⟨i, [.name ['e', 'l', 's', 'e'], .op [':']]⟩ :: rest)
  | _ + 1, _, lines => some ([], lines)
termination_by structural fuel => fuel
/-- `finally:` + block, if present at this indentation -/
def parseFinally : Nat → Nat → List Line → Option (List PyStmt × List Line)
  | 0, _, _ => none
  | fuel + 1, ind, ⟨i, [.name ['f', 'i', 'n', 'a', 'l', 'l', 'y'], .op [':']]⟩ :: rest =>
      if i = ind then parseBlock fuel (ind + 1) rest
      else some ([], ⟨i, [.name ['f', 'i', 'n', 'a', 'l', 'l', 'y'], .op [':']]⟩ :: rest)
  | _ + 1, _, lines => some ([], lines)
termination_by structural fuel => fuel
/-- `except [type]:` clauses at this indentation -/
def parseHandlers : Nat → Nat → List Line → Option (List PyStmt × List Line)
  | 0, _, _ => none
  | fuel + 1, ind, ⟨i, .name ['e', 'x', 'c', 'e', 'p', 't'] :: ts⟩ :: rest =>
      if i = ind then do
        let tp ← (match ts with
          | [.op [':']] => some none
          | _ => do
              let (e, r) ← exprP ts
              if headerEnd r then some (some e) else none)
        let (body, rest1) ← parseBlock fuel (ind + 1) rest
        let (hs, rest2) ← parseHandlers fuel ind rest1
        some (.handler tp none body :: hs, rest2)
      else some ([], ⟨i, .name ['e', 'x', 'c', 'e', 'p', 't'] :: ts⟩ :: rest)
  | _ + 1, _, lines => some ([], lines)
termination_by structural fuel => fuel
/-- one statement starting at the first line -/
def parseStmt : Nat → Nat → List Line → Option (PyStmt × List Line)
  | 0, _, _ => none
  | _ + 1, _, [] => none
  | fuel + 1, ind, ⟨i, toks⟩ :: rest =>
      match toks with
      | .name ['i', 'f'] :: ts => do
          let (t, r) ← exprP ts
          if headerEnd r then do
            let (body, rest1) ← parseBlock fuel (ind + 1) rest
            let (orelse, rest2) ← parseElse fuel ind rest1
            some (.if_ t body orelse, rest2)
          else none
      | .name ['w', 'h', 'i', 'l', 'e'] :: ts => do
          let (t, r) ← exprP ts
          if headerEnd r then do
            let (body, rest1) ← parseBlock fuel (ind + 1) rest
            let (orelse, rest2) ← parseElse fuel ind rest1
            some (.while_ t body orelse, rest2)
          else none
      | .name ['f', 'o', 'r'] :: ts => do
          let (t, r) ← primaryP ts
          match r with
          | .name ['i', 'n'] :: r1 => do
              let (it, r2) ← exprP r1
              if headerEnd r2 then do
                let (body, rest1) ← parseBlock fuel (ind + 1) rest
                let (orelse, rest2) ← parseElse fuel ind rest1
                some (.for_ t it body orelse, rest2)
              else none
          | _ => none
      | .name ['w', 'i', 't', 'h'] :: ts => do
          let items ← withItemsP (ts.length + 1) ts
          let (body, rest1) ← parseBlock fuel (ind + 1) rest
          some (.with_ items body, rest1)
      | [.name ['t', 'r', 'y'], .op [':']] => do
          let (body, rest1) ← parseBlock fuel (ind + 1) rest
          let (hs, rest2) ← parseHandlers fuel ind rest1
          let (orelse, rest3) ← parseElse fuel ind rest2
          let (final, rest4) ← parseFinally fuel ind rest3
          some (.try_ body hs orelse final, rest4)
      | .op ['@'] :: _ => do
          let (decos, rest0) ← decoratorsP ind (⟨i, toks⟩ :: rest)
          match rest0 with
          | ⟨i', hd⟩ :: rest' =>
              if i' = ind then defOrClass fuel ind decos hd rest' else none
          | [] => none
      | .name ['d', 'e', 'f'] :: _ => defOrClass fuel ind [] toks rest
      | .name ['c', 'l', 'a', 's', 's'] :: _ => defOrClass fuel ind [] toks rest
      | _ => (simpleP toks).map fun s => (s, rest)
termination_by structural fuel => fuel
/-- `def name(params) [-> ret]:` / `class name[(args)]:` with the decorators already read -/
def defOrClass : Nat → Nat → List PyExpr → List Tok → List Line → Option (PyStmt × List Line)
  | 0, _, _, _, _ => none
  | fuel + 1, ind, decos, toks, rest =>
      match toks with
      | .name ['d', 'e', 'f'] :: .name f :: .op ['('] :: ts => do
          let (items, r) ← itemsP .defparams tRP ts
          let (po, ar, va, ko, ka) ← assembleParams items
          match r with
          | .op [')'] :: r1 => do
              let (ret, r2) ← (match r1 with
                | .op ['-', '>'] :: r' => do let (e, r'') ← exprP r'; some (some e, r'')
                | _ => some (none, r1))
              if headerEnd r2 then do
                let (body, rest1) ← parseBlock fuel (ind + 1) rest
                some (.functionDef f po ar va ko ka body decos ret false, rest1)
              else none
          | _ => none
      | .name ['c', 'l', 'a', 's', 's'] :: .name c :: ts => do
          let (args, r) ← (match ts with
            | .op ['('] :: ts' => do
                let (items, r) ← itemsP .args tRP ts'
                match r with
                | .op [')'] :: r' => some (items, r')
                | _ => none
            | _ => some ([], ts))
          if headerEnd r then do
            let (body, rest1) ← parseBlock fuel (ind + 1) rest
            some (.classDef c (args.filter (fun x => !isKw x)) (args.filter isKw) body decos false, rest1)
          else none
      | _ => none
termination_by structural fuel => fuel
end

def stmtFuel (lines : List Line) : Nat := 8 * lines.length + 8

/-- read a whole module (all lines at indentation 0) -/
def pyParseS (lines : List Line) : Option (List PyStmt) :=
  match parseBlock (stmtFuel lines) 0 lines with
  | some (ss, []) => some ss
  | _ => none

end Genshi.Py

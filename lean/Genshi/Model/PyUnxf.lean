/-
  C03 — undoing the documented rewriting: `_lookup_name(__data__, 'x')` → `x`,
  `_lookup_attr(v, 'a')` → `v.a`, `_lookup_item(v, (k,))` → `v[k]` (the harness uses the same
  function, `_Unrewrite`, to compare transformed trees with the trees they came from).
-/
import Genshi.Model.PyXform
namespace Genshi.Py

/-- the identifier inside `'…'` -/
def unquote (q : Str) : Str := (q.drop 1).dropLast

/-- a call of one of the three lookup functions with its documented argument shape becomes the
    access it stands for -/
def collapse : PyExpr → PyExpr
  | .call (.name n) [a1, a2] [] =>
      if n = cs!"_lookup_name" then
        match a1, a2 with
        | .name d, .const ⟨.str, q⟩ => if d = cs!"__data__" then .name (unquote q) else .call (.name n) [a1, a2] []
        | _, _ => .call (.name n) [a1, a2] []
      else if n = cs!"_lookup_attr" then
        match a2 with
        | .const ⟨.str, q⟩ => .attribute a1 (unquote q)
        | _ => .call (.name n) [a1, a2] []
      else if n = cs!"_lookup_item" then
        match a2 with
        | .tuple [k] => .subscript a1 k
        | _ => .call (.name n) [a1, a2] []
      else .call (.name n) [a1, a2] []
  | e => e

mutual
def unxf : PyExpr → PyExpr
  | .name id => .name id
  | .const c => .const c
  | .boolOp op vs => .boolOp op (unxfL vs)
  | .binOp l op r => .binOp (unxf l) op (unxf r)
  | .unaryOp op e => .unaryOp op (unxf e)
  | .lambda po ar va ko ka body => .lambda (unxfL po) (unxfL ar) (unxfO va) (unxfL ko) (unxfO ka) (unxf body)
  | .ifExp t b o => .ifExp (unxf t) (unxf b) (unxf o)
  | .dict items => .dict (unxfL items)
  | .listComp elt gens => .listComp (unxf elt) (unxfL gens)
  | .genExp elt gens => .genExp (unxf elt) (unxfL gens)
  | .yield_ v => .yield_ (unxfO v)
  | .compare l rest => .compare (unxf l) (unxfL rest)
  | .call f args kws => collapse (.call (unxf f) (unxfL args) (unxfL kws))
  | .attribute v a => .attribute (unxf v) a
  | .subscript v s => .subscript (unxf v) (unxf s)
  | .slice l u st => .slice (unxfO l) (unxfO u) (unxfO st)
  | .starred e => .starred (unxf e)
  | .list elts => .list (unxfL elts)
  | .tuple elts => .tuple (unxfL elts)
  | .unsupported k => .unsupported k
  | .keyword n v => .keyword n (unxf v)
  | .comp t it ifs a => .comp (unxf t) (unxf it) (unxfL ifs) a
  | .param n ann d => .param n (unxfO ann) (unxfO d)
  | .dictItem k v => .dictItem (unxfO k) (unxf v)
  | .cmpRhs op e => .cmpRhs op (unxf e)
def unxfL : List PyExpr → List PyExpr
  | [] => []
  | e :: es => unxf e :: unxfL es
def unxfO : Option PyExpr → Option PyExpr
  | none => none
  | some e => some (unxf e)
end

end Genshi.Py

/-
  C15 — `genshi.template.loader.TemplateLoader.load` over a file-system model with a
  logical clock.  The cache is the abstract bounded LRU map of `Genshi/Model/Lru.lean`
  (justified by `lru_refines`); `_uptodate` is a finite map; a parse is
  "content ↦ template or TemplateSyntaxError"; the lock is its recursion depth.

  File names live in a small path algebra that is enough for the three filename rules of
  `load` (relative_to applied when it is relative or there is no search path; an absolute
  relative_to appends its directory to the search path; an absolute filename bypasses the
  search path): a location is (directory `d`, optionally inside its sub-directory `sub/`,
  base name).  Import-free (linked into `gdrv`).
-/
import Genshi.Model.Lru
namespace Genshi.Loader
open Genshi.Lru

/-- a file location: `<dir d>/[sub/]<base>` -/
structure Loc where
  dir : Nat
  sub : Bool
  base : Nat
  deriving DecidableEq, Repr

structure File where
  content : Nat
  bad : Bool        -- does not parse (with any template class used)
  mtime : Nat
  deriving DecidableEq, Repr

abbrev FS := Loc → Option File

/-- cache key = the normalised filename: relative `[sub/]base`, or absolute inside `dir d` -/
structure Key where
  absd : Option Nat
  sub : Bool
  base : Nat
  deriving DecidableEq, Repr

/-- a search-path item -/
inductive Entry where
  | dir (d : Nat) (insub : Bool)    -- a directory name: `<dir d>` or `<dir d>/sub`
  | fn (d : Nat) (checks : Bool)    -- a load function serving `<dir d>`; `uptodate` is an mtime
                                    -- check like `directory()`'s, or `None` (like `package()`)
  deriving DecidableEq, Repr

inductive Rel where
  | none
  | rel (sub : Bool)                -- relative_to = "[sub/]x", a relative path
  | abs (d : Nat) (sub : Bool)      -- relative_to = "<dir d>/[sub/]x", an absolute path
  deriving DecidableEq, Repr

/-- what the load-function entries do during this call -/
inductive Fault where
  | none
  | io       -- raise IOError or TemplateNotFound (what `prefixed()` raises): "try the next one"
  | other    -- raise something else: propagates
  deriving DecidableEq, Repr

structure Req where
  base : Nat
  sub : Bool := false
  absd : Option Nat := none
  rel : Rel := .none
  cls : Nat := 0
  enc : Nat := 0
  cbRaise : Bool := false
  fault : Fault := .none
  deriving DecidableEq, Repr

structure Cfg where
  path : List Entry
  autoReload : Bool
  cap : Nat
  hasCallback : Bool := true
  deriving Repr

/-- a parsed template object -/
structure Tmpl where
  obj : Nat            -- object identity: the n-th template ever instantiated
  loc : Loc            -- `filepath`
  content : Nat        -- what was parsed
  cls : Nat
  enc : Nat
  absName : Bool       -- `filename` was replaced by the absolute `filepath`
  deriving DecidableEq, Repr

/-- the values of `_uptodate` -/
inductive Utd where
  | never                          -- `None` (load functions)
  | mtime (loc : Loc) (m : Nat)    -- the closure of `directory()`: `mtime == getmtime(filepath)`
  deriving DecidableEq, Repr

structure LState where
  cache : ALru Key Tmpl
  utd : Key → Option Utd
  nextObj : Nat
  cbLog : List Nat      -- objects the callback was called with (newest first)
  parsed : List Nat     -- objects successfully instantiated (newest first)
  lock : Nat            -- recursion depth of `_lock`

def LState.init (cap : Nat) : LState :=
  { cache := aempty cap, utd := fun _ => none, nextObj := 0, cbLog := [], parsed := [], lock := 0 }

inductive Err where
  | notFound         -- TemplateNotFound
  | syntaxError      -- TemplateSyntaxError
  | callback         -- what the callback raised
  | loadFunc         -- what the load function raised
  | noSearchPath     -- TemplateError('Search path for templates not configured')
  deriving DecidableEq, Repr

inductive Res where
  | ok (t : Tmpl)
  | err (e : Err)
  deriving DecidableEq, Repr

/-- `filename = os.path.join(os.path.dirname(relative_to), filename)` when `relative_to` is
    given and (there is no search path or it is relative); then `normpath`.
    `none`: outside the path algebra (would be `sub/sub/…`). -/
def resolve (pathEmpty : Bool) (r : Req) : Option Key :=
  match r.rel with
  | .none => some ⟨r.absd, r.sub, r.base⟩
  | .rel s =>
    if r.absd.isSome then some ⟨r.absd, r.sub, r.base⟩        -- join(x, absolute) = absolute
    else if s && r.sub then none else some ⟨none, s || r.sub, r.base⟩
  | .abs d s =>
    if pathEmpty then
      if r.absd.isSome then some ⟨r.absd, r.sub, r.base⟩
      else if s && r.sub then none else some ⟨some d, s || r.sub, r.base⟩
    else some ⟨r.absd, r.sub, r.base⟩

/-- the search path used by this call and the `isabs` flag; `none`: TemplateError -/
def searchPath (cfg : Cfg) (r : Req) (key : Key) : Option (List Entry × Bool) :=
  match key.absd with
  | some d => some ([.dir d key.sub], true)
  | none =>
    match r.rel with
    | .abs d s =>
      -- here the configured path is not empty (otherwise the key would be absolute)
      let e := Entry.dir d s
      some (if e ∈ cfg.path then cfg.path else cfg.path ++ [e], true)
    | _ => if cfg.path.isEmpty then none else some (cfg.path, false)

/-- `os.path.join(path, filename)` for a path item -/
def locate (e : Entry) (key : Key) : Option Loc :=
  match key.absd with
  | some d => some ⟨d, key.sub, key.base⟩
  | none =>
    match e with
    | .dir d insub => if insub && key.sub then none else some ⟨d, insub || key.sub, key.base⟩
    | .fn d _ => some ⟨d, key.sub, key.base⟩

/-- outcome of calling one load function -/
inductive Probe where
  | skip                                  -- IOError
  | raise                                 -- another exception
  | found (loc : Loc) (f : File) (u : Utd)

def probe (fs : FS) (fault : Fault) (e : Entry) (key : Key) : Probe :=
  match e with
  | .dir _ _ =>
    match locate e key with
    | none => .skip
    | some loc => match fs loc with
      | none => .skip
      | some f => .found loc f (.mtime loc f.mtime)
  | .fn _ checks =>
    match fault with
    | .io => .skip
    | .other => .raise
    | .none =>
      match locate e key with
      | none => .skip
      | some loc => match fs loc with
        | none => .skip
        | some f => .found loc f (if checks then .mtime loc f.mtime else .never)

def utdSet (u : Key → Option Utd) (k : Key) (v : Utd) : Key → Option Utd :=
  fun k' => if k' = k then some v else u k'

/-- the body of the `for loadfunc in search_path` loop from the first successful load
    function on: instantiate, callback, store -/
def instantiate (cfg : Cfg) (s : LState) (r : Req) (key : Key) (isabs : Bool)
    (loc : Loc) (f : File) (u : Utd) : LState × Res :=
  if f.bad then (s, .err .syntaxError) else
  let t : Tmpl := ⟨s.nextObj, loc, f.content, r.cls, r.enc, isabs⟩
  let s1 := { s with nextObj := s.nextObj + 1, parsed := t.obj :: s.parsed }
  let s2 := if cfg.hasCallback then { s1 with cbLog := t.obj :: s1.cbLog } else s1
  if cfg.hasCallback && r.cbRaise then (s2, .err .callback) else
  ({ s2 with cache := (astep s2.cache (.set key t)).1, utd := utdSet s2.utd key u }, .ok t)

def search (cfg : Cfg) (fs : FS) (s : LState) (r : Req) (key : Key) (isabs : Bool) :
    List Entry → LState × Res
  | [] => (s, .err .notFound)
  | e :: rest =>
    match probe fs r.fault e key with
    | .skip => search cfg fs s r key isabs rest
    | .raise => (s, .err .loadFunc)
    | .found loc f u => instantiate cfg s r key isabs loc f u

/-- is the cached template still current according to `_uptodate[key]`?
    (`KeyError`/`OSError` are caught and mean "no") -/
def stillCurrent (fs : FS) (s : LState) (key : Key) : Bool :=
  match s.utd key with
  | none => false                       -- KeyError
  | some .never => false                -- `uptodate is not None` fails
  | some (.mtime loc m) =>
    match fs loc with
    | none => false                     -- OSError from getmtime
    | some f => f.mtime == m

/-- between `acquire` and `release` -/
def loadBody (cfg : Cfg) (fs : FS) (s : LState) (r : Req) (key : Key) : LState × Res :=
  let hit := alookup key s.cache.items
  -- `tmpl = self._cache[cachekey]` touches the recency list also when a reload follows
  let s1 := match hit with
    | some _ => { s with cache := (astep s.cache (.get key)).1 }
    | none => s
  let served : Option Tmpl := match hit with
    | some t => if !cfg.autoReload then some t else if stillCurrent fs s1 key then some t else none
    | none => none
  match served with
  | some t => (s1, .ok t)
  | none =>
    match searchPath cfg r key with
    | none => (s1, .err .noSearchPath)
    | some (entries, isabs) => search cfg fs s1 r key isabs entries

/-- `TemplateLoader.load`; `none`: the request is outside the path algebra -/
def load (cfg : Cfg) (fs : FS) (s : LState) (r : Req) : Option (LState × Res) :=
  match resolve cfg.path.isEmpty r with
  | none => none
  | some key =>
    let s0 := { s with lock := s.lock + 1 }                 -- self._lock.acquire()
    let (s1, res) := loadBody cfg fs s0 r key
    some ({ s1 with lock := s1.lock - 1 }, res)             -- finally: self._lock.release()

/-! ### histories: the file system with a logical clock -/

structure World where
  fs : FS
  clock : Nat
  ls : LState

inductive HOp where
  | write (loc : Loc) (content : Nat) (bad : Bool)
  | touch (loc : Loc)
  | delete (loc : Loc)
  | load (r : Req)
  deriving DecidableEq, Repr

def fsSet (fs : FS) (loc : Loc) (f : Option File) : FS := fun l => if l = loc then f else fs l

def World.init (cap : Nat) : World := ⟨fun _ => none, 1, LState.init cap⟩

/-- one step of a history; the result is `some` for loads inside the path algebra -/
def hstep (cfg : Cfg) (w : World) : HOp → World × Option Res
  | .write loc c b => ({ w with fs := fsSet w.fs loc (some ⟨c, b, w.clock⟩), clock := w.clock + 1 }, none)
  | .touch loc =>
    match w.fs loc with
    | none => (w, none)
    | some f => ({ w with fs := fsSet w.fs loc (some { f with mtime := w.clock }), clock := w.clock + 1 }, none)
  | .delete loc => ({ w with fs := fsSet w.fs loc none }, none)
  | .load r =>
    match load cfg w.fs w.ls r with
    | none => (w, none)
    | some (ls', res) => ({ w with ls := ls' }, some res)

def hrun (cfg : Cfg) (w : World) : List HOp → World × List (Option Res)
  | [] => (w, [])
  | op :: ops =>
    let (w1, o) := hstep cfg w op
    let (w2, os) := hrun cfg w1 ops
    (w2, o :: os)

/-- specification side: the first file on the effective search path (what "found first on the
    search path" means), ignoring load-function faults -/
def firstOnPath (fs : FS) (key : Key) : List Entry → Option (Loc × File)
  | [] => none
  | e :: rest =>
    match locate e key with
    | none => firstOnPath fs key rest
    | some loc => match fs loc with
      | none => firstOnPath fs key rest
      | some f => some (loc, f)

/-- what the walk over the search path comes to, load-function faults included -/
inductive Found where
  | nothing                      -- no path item has the name: TemplateNotFound
  | raised                       -- a load function raised something that is not an IOError
  | file (loc : Loc) (f : File)
  deriving DecidableEq, Repr

/-- specification side with load-function faults: a load function that raises IOError is passed
    over ("try the next one"), one that raises anything else ends the walk, otherwise the first
    path item under which the name exists decides -/
def firstOnPathF (fs : FS) (fault : Fault) (key : Key) : List Entry → Found
  | [] => .nothing
  | e :: rest =>
    let here : Found := match locate e key with
      | none => firstOnPathF fs fault key rest
      | some loc => match fs loc with
        | none => firstOnPathF fs fault key rest
        | some f => .file loc f
    match e, fault with
    | .fn _ _, .io => firstOnPathF fs fault key rest
    | .fn _ _, .other => .raised
    | _, _ => here

end Genshi.Loader

/-
  C03 — model of `genshi.template.eval.ExpressionASTTransformer` (with the scope tracking of
  `TemplateASTTransformer`) on expressions: free name loads become `_lookup_name(__data__, 'x')`,
  attribute loads `_lookup_attr(v, 'a')`, item loads `_lookup_item(v, (k,))`; names bound by
  lambda parameters and comprehension targets are left alone.

  `L` is the transformer's `self.locals` stack (a list of name sets, `[CONSTANTS]` at the start).
  Expression contexts are not stored in `PyExpr`; the Store positions of an expression are the
  comprehension targets, handled by `xfTarget`.
-/
import Genshi.Model.PyAst
import Genshi.Model.PyGen
namespace Genshi.Py

/-- `eval.CONSTANTS` -/
def constantNames : List Str := [cs!"False", cs!"True", cs!"None", cs!"NotImplemented", cs!"Ellipsis"]

def inLocals (L : List (List Str)) (id : Str) : Bool := L.any fun s => s.contains id

def strConst (s : Str) : PyExpr := .const ⟨.str, '\'' :: (s ++ ['\''])⟩

def lookupNameCall (id : Str) : PyExpr :=
  .call (.name cs!"_lookup_name") [.name cs!"__data__", strConst id] []

def lookupAttrCall (v : PyExpr) (a : Str) : PyExpr :=
  .call (.name cs!"_lookup_attr") [v, strConst a] []

def lookupItemCall (v k : PyExpr) : PyExpr :=
  .call (.name cs!"_lookup_item") [v, .tuple [k]] []

mutual
/-- `_process(names, node)`: the names a target / parameter binds -/
def targetNames : PyExpr → List Str
  | .name id => [id]
  | .tuple elts => targetNamesL elts
  | .list elts => targetNamesL elts
  | .starred e => targetNames e
  | .param n _ _ => [n]
  | _ => []
def targetNamesL : List PyExpr → List Str
  | [] => []
  | e :: es => targetNames e ++ targetNamesL es
end

def targetNamesO : Option PyExpr → List Str
  | none => []
  | some e => targetNames e

/-- all target names of the clauses of a comprehension -/
def compNames : List PyExpr → List Str
  | [] => []
  | .comp t _ _ _ :: r => targetNames t ++ compNames r
  | _ :: r => compNames r

/-- is the slice of a subscript a real slice (then plain Python item access is kept) -/
def isSliceKey : PyExpr → Bool
  | .slice _ _ _ => true
  | .tuple elts => elts.any isSlice
  | _ => false

mutual
def xf (L : List (List Str)) : PyExpr → PyExpr
  | .name id => if inLocals L id then .name id else lookupNameCall id
  | .const c => .const c
  | .boolOp op vs => .boolOp op (xfL L vs)
  | .binOp l op r => .binOp (xf L l) op (xf L r)
  | .unaryOp op e => .unaryOp op (xf L e)
  | .lambda po ar va ko ka body =>
      -- defaults are transformed in the enclosing scope, the body with the parameters local
      .lambda (xfL L po) (xfL L ar) (xfO L va) (xfL L ko) (xfO L ka)
        (xf (L ++ [targetNamesL po ++ targetNamesL ar ++ targetNamesL ko ++ targetNamesO va ++ targetNamesO ka]) body)
  | .ifExp t b o => .ifExp (xf L t) (xf L b) (xf L o)
  | .dict items => .dict (xfL L items)
  | .listComp elt gens =>
      .listComp (xf (L ++ [compNames gens]) elt) (xfGens L (L ++ [compNames gens]) gens)
  | .genExp elt gens =>
      .genExp (xf (L ++ [compNames gens]) elt) (xfGens L (L ++ [compNames gens]) gens)
  | .yield_ v => .yield_ (xfO L v)
  | .compare l rest => .compare (xf L l) (xfL L rest)
  | .call f args kws => .call (xf L f) (xfL L args) (xfL L kws)
  | .attribute v a => lookupAttrCall (xf L v) a
  | .subscript v s =>
      if isSliceKey s then .subscript (xf L v) (xf L s) else lookupItemCall (xf L v) (xf L s)
  | .slice l u st => .slice (xfO L l) (xfO L u) (xfO L st)
  | .starred e => .starred (xf L e)
  | .list elts => .list (xfL L elts)
  | .tuple elts => .tuple (xfL L elts)
  | .unsupported k => .unsupported k           -- no visitor: returned as it is
  | .keyword n v => .keyword n (xf L v)
  | .comp t it ifs a => .comp (xfTarget L t) (xf L it) (xfL L ifs) a
  | .param n ann d => .param n ann (xfO L d)   -- (a lambda parameter has no annotation); the default is
  | .dictItem k v => .dictItem (xfO L k) (xf L v)
  | .cmpRhs op e => .cmpRhs op (xf L e)
def xfL (L : List (List Str)) : List PyExpr → List PyExpr
  | [] => []
  | e :: es => xf L e :: xfL L es
def xfO (L : List (List Str)) : Option PyExpr → Option PyExpr
  | none => none
  | some e => some (xf L e)
/-- the clauses of a comprehension: the first iterable in the enclosing scope `L0`, everything
    else in the comprehension's scope `L1` -/
def xfGens (L0 L1 : List (List Str)) : List PyExpr → List PyExpr
  | [] => []
  | .comp t it ifs a :: r => .comp (xfTarget L1 t) (xf L0 it) (xfL L1 ifs) a :: xfGens L1 L1 r
  | e :: r => xf L1 e :: xfGens L1 L1 r
/-- a Store position: names stay, the loads inside attribute / subscript targets are transformed -/
def xfTarget (L : List (List Str)) : PyExpr → PyExpr
  | .name id => .name id
  | .tuple elts => .tuple (xfTargetL L elts)
  | .list elts => .list (xfTargetL L elts)
  | .starred e => .starred (xfTarget L e)
  | .attribute v a => .attribute (xf L v) a
  | .subscript v s => .subscript (xf L v) (xf L s)
  | e => e          -- (no other node type is a target in parsed Python)
def xfTargetL (L : List (List Str)) : List PyExpr → List PyExpr
  | [] => []
  | e :: es => xfTarget L e :: xfTargetL L es
end

/-- `ExpressionASTTransformer().visit(tree)` -/
def xform (e : PyExpr) : PyExpr := xf [constantNames] e

end Genshi.Py

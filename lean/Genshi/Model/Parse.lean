/-
  C07 — the part of `genshi/input.py` that both parsers share, as an executable model:

  * `mkQName`       `genshi.core.QName(str)`
  * `coalesceGo`    `_coalesce` (a generator: what it has yielded when its source ends
                    normally — `final = true` — or raises — `final = false`)
  * `Layer`, `feed`, `generate`, `parse`
                    the `_generate` loop of `XMLParser.parse` / `HTMLParser.parse`: one
                    *batch* of tokenizer callbacks per `read()` + `feed()`/`Parse()`, the
                    event queue that is flushed after every batch, the final batch made by
                    `close()` / `Parse('', True)`, the events that follow the last flush,
                    and the `except` clause.

  The tokenizers themselves (`html.parser`, Expat) are not modelled: a batch is *any*
  list of callbacks (or an exception raised by the tokenizer in the middle of a batch),
  and the theorems quantify over all of them.
-/
import Genshi.Model.Core
import Genshi.Model.Str
namespace Genshi.Parse
open Genshi

/-! ### exceptions -/

/-- the Python exceptions the layer can see, by what the two `except` clauses distinguish -/
inductive PyExc where
  | exc (name : Str)          -- an instance of (a subclass of) `Exception` other than `ExpatError`
  | base (name : Str)         -- a `BaseException` that is not an `Exception`
  | expat (line col : Int)    -- `xml.parsers.expat.ExpatError` carrying `lineno`, `offset`
  | codec (line col : Int)    -- the `LookupError` / `ValueError` of Python's codec machinery that pyexpat lets
                              -- through when the XML declaration names an encoding Python cannot provide (Expat's
                              -- error code is then UNKNOWN_ENCODING); `line`, `col`: Expat's `ErrorLineNumber`,
                              -- `ErrorColumnNumber` at that moment. An `Exception` for every other purpose.
  deriving DecidableEq, Repr, Inhabited

/-- what leaves `parse()` when something was raised inside `_generate` -/
inductive Raised where
  | parseError (line col : Int)      -- `genshi.input.ParseError(msg, filename, lineno, offset)`
  | propagate (name : Str)           -- the original exception, unchanged
  deriving DecidableEq, Repr, Inhabited

def valueError : PyExc := .exc ['V','a','l','u','e','E','r','r','o','r']
def overflowError : PyExc := .exc ['O','v','e','r','f','l','o','w','E','r','r','o','r']
def unicodeError : PyExc := .exc ['U','n','i','c','o','d','e','E','r','r','o','r']
def unicodeEncodeError : PyExc := .exc ['U','n','i','c','o','d','e','E','n','c','o','d','e','E','r','r','o','r']

/-! ### `QName(str)` -/

/-- `str.lstrip('{')` -/
def lstripBrace : Str → Str
  | '{' :: cs => lstripBrace cs
  | cs => cs

/-- `s.split('}', 1)` when there is a `}`: the text before the first one and the text after it -/
def splitBrace : Str → Option (Str × Str)
  | [] => none
  | c :: cs =>
    if c = '}' then some ([], cs)
    else match splitBrace cs with
      | some (a, b) => some (c :: a, b)
      | none => none

/-- `genshi.core.QName.__new__` on a `str` (namespace `None` and `''` are not distinguished, as on the wire) -/
def mkQName (s : Str) : QName :=
  match splitBrace (lstripBrace s) with
  | some (ns, loc) => ⟨ns, loc⟩
  | none => ⟨[], lstripBrace s⟩

/-! ### `_coalesce` -/

/-- `_coalesce` as a function of the events its source yields. `buf` is `textbuf` (`none`: the
    empty list). With `final = false` the source raised after its last event: buffered text is
    never yielded. `''.join` returns a plain `str`, hence `safe = false`. -/
def flushBuf : Option Str → Stream
  | some b => [.text b false]
  | none => []

def coalesceGo (final : Bool) : Option Str → Stream → Stream
  | buf, [] => if final then flushBuf buf else []
  | buf, e :: es =>
    match e with
    | .text s _ => coalesceGo final (some (buf.getD [] ++ s)) es
    | e => flushBuf buf ++ e :: coalesceGo final none es

def coalesce (s : Stream) : Stream := coalesceGo true none s

/-! ### the `_generate` loop -/

/-- genshi's callback layer over a tokenizer: `κ` is the parser state that survives a flush
    (`_open_tags`), `step` is one `handle_*` call returning the events it enqueues, `finish` the
    events yielded after the last flush. `ε` is the type of events (with or without positions). -/
structure LayerG (κ cb ε : Type) where
  step : κ → cb → Except PyExc (κ × List ε)
  finish : κ → List ε

/-- layers over position-free events (what the theorems are stated for) -/
abbrev Layer (κ cb : Type) := LayerG κ cb Event

/-- what happens during one `feed()` / `Parse()`: callbacks into the layer, possibly cut short
    by an exception of the tokenizer's own -/
inductive Item (cb : Type) where
  | cb (c : cb)
  | raise (e : PyExc)
  deriving Repr, DecidableEq

/-- one `source.read()` followed by `feed`/`Parse`: the batch of items it produces, or an
    exception before the tokenizer is reached (`read` raises, the chunk is `bytes` without an
    encoding, the chunk cannot be encoded) -/
inductive Read (cb : Type) where
  | items (l : List (Item cb))
  | fail (e : PyExc)
  deriving Repr

def Read.toItems {cb : Type} : Read cb → List (Item cb)
  | .items l => l
  | .fail e => [.raise e]

/-- play one batch into the queue `q` -/
def feed {κ cb ε : Type} (L : LayerG κ cb ε) : κ → List ε → List (Item cb) → Except PyExc (κ × List ε)
  | k, q, [] => .ok (k, q)
  | _, _, .raise e :: _ => .error e
  | k, q, .cb c :: rest =>
    match L.step k c with
    | .error e => .error e
    | .ok (k', evs) => feed L k' (q ++ evs) rest

/-- `_generate()`: the events it yields and the exception it ends with, if any.
    Per read: the batch is played into the empty queue; the queue is yielded and emptied.
    After the last read, `close()`/`Parse('', True)` plays the `close` batch, the queue is
    yielded, then `finish`. Nothing of a failing batch is yielded. -/
def generate {κ cb ε : Type} (L : LayerG κ cb ε) : κ → List (Read cb) → List (Item cb) → List ε × Option PyExc
  | k, [], close =>
    match feed L k [] close with
    | .error e => ([], some e)
    | .ok (k', q) => (q ++ L.finish k', none)
  | _, .fail e :: _, _ => ([], some e)
  | k, .items l :: rs, close =>
    match feed L k [] l with
    | .error e => ([], some e)
    | .ok (k', q) =>
      let r := generate L k' rs close
      (q ++ r.1, r.2)

/-- `Stream(_generate()).filter(_coalesce)` iterated to its end: the events delivered to the
    consumer and what was raised. `handler` is the `except` clause around the loop. -/
def parse {κ cb : Type} (L : Layer κ cb) (handler : PyExc → Raised) (k : κ)
    (reads : List (Read cb)) (close : List (Item cb)) : Stream × Option Raised :=
  match generate L k reads close with
  | (evs, none) => (coalesceGo true none evs, none)
  | (evs, some e) => (coalesceGo false none evs, some (handler e))

/-- reference: all callbacks in one go, no queue, no batches -/
def eager {κ cb ε : Type} (L : LayerG κ cb ε) : κ → List (Item cb) → List ε × Option PyExc
  | k, [] => (L.finish k, none)
  | _, .raise e :: _ => ([], some e)
  | k, .cb c :: rest =>
    match L.step k c with
    | .error e => ([], some e)
    | .ok (k', evs) =>
      let r := eager L k' rest
      (evs ++ r.1, r.2)

/-! ### the same with positions: every event carries `(lineno, offset)` (the file name is constant) -/

abbrev Pos := Int × Int
abbrev PEvent := Event × Pos
abbrev PStream := List PEvent

/-- forget the positions -/
def erase (s : PStream) : Stream := s.map (·.1)

def flushBufP : Option (Str × Pos) → PStream
  | some b => [(.text b.1 false, b.2)]
  | none => []

/-- `_coalesce` with `textpos`: a merged TEXT event keeps the position of the first one of its run -/
def coalesceGoP (final : Bool) : Option (Str × Pos) → PStream → PStream
  | buf, [] => if final then flushBufP buf else []
  | buf, e :: es =>
    match e.1 with
    | .text s _ =>
      coalesceGoP final (some (match buf with
        | some b => (b.1 ++ s, b.2)
        | none => (s, e.2))) es
    | _ => flushBufP buf ++ e :: coalesceGoP final none es

def parseP {κ cb : Type} (L : LayerG κ cb PEvent) (handler : PyExc → Raised) (k : κ)
    (reads : List (Read cb)) (close : List (Item cb)) : PStream × Option Raised :=
  match generate L k reads close with
  | (evs, none) => (coalesceGoP true none evs, none)
  | (evs, some e) => (coalesceGoP false none evs, some (handler e))

def Item.map {α β : Type} (g : α → β) : Item α → Item β
  | .cb c => .cb (g c)
  | .raise e => .raise e

def Read.map {α β : Type} (g : α → β) : Read α → Read β
  | .items l => .items (l.map (Item.map g))
  | .fail e => .fail e

/-! ### predicates of the property -/

def isText : Event → Bool
  | .text _ _ => true
  | _ => false

def headIsText : Stream → Bool
  | e :: _ => isText e
  | [] => false

/-- no two TEXT events are adjacent -/
def noAdjText : Stream → Bool
  | [] => true
  | e :: rest => !(isText e && headIsText rest) && noAdjText rest

def headIsEnd (t : QName) : Stream → Bool
  | .end_ t' :: _ => decide (t' = t)
  | _ => false

/-- the element name `t` is one of the `void` names, in no namespace -/
def isVoidName (void : List Str) (t : QName) : Bool := t.ns.isEmpty && void.contains t.loc

/-- every START of an element named in `void` (no namespace) is immediately followed by its END -/
def voidClosed (void : List Str) : Stream → Bool
  | [] => true
  | .start t _ :: rest => (!isVoidName void t || headIsEnd t rest) && voidClosed void rest
  | _ :: rest => voidClosed void rest

/-- tokenizer contract used by the void-element clause: `html.parser` only reports tag names that
    begin with an ASCII letter; all that is needed is that they do not begin with a brace -/
def tagOk : Str → Bool
  | c :: _ => c != '{' && c != '}'
  | [] => true

end Genshi.Parse

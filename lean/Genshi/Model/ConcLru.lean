/-
  C16 — `LRUCache.__setitem__` of a new key, one source statement per step, so that two
  threads can be interleaved *without* the loader's lock (the negative theorem: the linked
  list relies on that lock).  Import-free.
-/
import Genshi.Model.Lru
namespace Genshi.ConcLru
open Genshi.Lru

variable {K V : Type} [DecidableEq K]

/-- where a thread is inside `cache[key] = value` (the thread-local `item` travels along) -/
inductive SPC (K V : Type) where
  | get (k : K) (v : V)              -- item = self._dict.get(key)
  | alloc (k : K) (v : V)            -- item = self._Item(key, value)      (item was None)
  | dictSet (k : K) (i : Id)         -- self._dict[key] = item
  | insPrv (i : Id)                  -- item.prv = None
  | insNxt (i : Id)                  -- item.nxt = self.head
  | insTest (i : Id)                 -- if self.head is not None:
  | insHeadPrv (i : Id)              --     self.head.prv = item
  | insTail (i : Id)                 -- else: self.tail = item
  | insHead (i : Id)                 -- self.head = item
  | manage                           -- self._manage_size()
  | existing (i : Id) (v : V)        -- item.value = value; _update_item; _manage_size  (not split)
  | fin

/-- one statement; `none`: AttributeError on None -/
def sstep (c : CLru K V) : SPC K V → Option (CLru K V × SPC K V)
  | .get k v => match c.dict k with
      | none => some (c, .alloc k v)
      | some i => some (c, .existing i v)
  | .alloc k v =>
      some ({ c with heap := setNode c.heap c.fresh ⟨none, none, k, v⟩, fresh := c.fresh + 1 }, .dictSet k c.fresh)
  | .dictSet k i =>
      some ({ c with dict := dictSet c.dict k i, size := if (c.dict k).isSome then c.size else c.size + 1 }, .insPrv i)
  | .insPrv i => some ({ c with heap := setPrv c.heap i none }, .insNxt i)
  | .insNxt i => some ({ c with heap := setNxt c.heap i c.head }, .insTest i)
  | .insTest i => some (c, if c.head.isSome then .insHeadPrv i else .insTail i)
  | .insHeadPrv i => match c.head with
      | none => none
      | some hd => some ({ c with heap := setPrv c.heap hd (some i) }, .insHead i)
  | .insTail i => some ({ c with tail := some i }, .insHead i)
  | .insHead i => some ({ c with head := some i }, .manage)
  | .manage => (manageSize c).map fun c' => (c', .fin)
  | .existing i v => ((updateItem { c with heap := setVal c.heap i v } i).bind manageSize).map fun c' => (c', .fin)
  | .fin => some (c, .fin)

/-- run one thread alone for `n` statements -/
def srun : Nat → CLru K V → SPC K V → Option (CLru K V × SPC K V)
  | 0, c, pc => some (c, pc)
  | n + 1, c, pc => match sstep c pc with
    | none => none
    | some (c', pc') => srun n c' pc'

/-- two threads; the schedule says whose statement is next (`false`: thread 0) -/
def sexec (c : CLru K V) (p0 p1 : SPC K V) : List Bool → Option (CLru K V × SPC K V × SPC K V)
  | [] => some (c, p0, p1)
  | false :: s => match sstep c p0 with
    | none => none
    | some (c', p0') => sexec c' p0' p1 s
  | true :: s => match sstep c p1 with
    | none => none
    | some (c', p1') => sexec c' p0 p1' s

end Genshi.ConcLru

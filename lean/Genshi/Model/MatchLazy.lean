/-
  C12 — `_match` as a push-driven automaton, covering `buffer="false"`.

  The real filter is a chain of Python generators: `_match` pulls from `_flatten`, and for a
  matched element hands a lazy `content` stream (START, `_match(_strip(stream))`, END) to the
  body, whose `select()` pulls from it while the body's own output is matched by a further
  `_match` generator.  Every generator has one consumer that drains it, so the order of all
  effects on the shared template list is the order in which the flattened template's events
  are consumed.  This file replays that order by *pushing* each event through the same
  stages: an automaton state `Auto` per `_match` invocation (idle, or inside a matched element
  whose content is being buffered, or inside one whose content flows lazily through the select
  machine into the body's matcher).  With every template buffered it computes what the eager
  model (`Match.run`) computes; the correspondence checks both against the code.

  Granularity: the events one pushed event produces in the nested content matcher are handed to
  the select machine and the body matcher after the nested matcher has finished with that
  event.  In the generator chain they are interleaved one by one; the two orders touch disjoint
  slots of the template list (the content window ends at `pre_end ≤ idx+1`, the body window
  starts at `idx+1`).
-/
import Genshi.Model.Match
namespace Genshi.Match
open Genshi

/-- one step of the select machine `selM` -/
def selStep (s : Sel) (d c : Nat) (e : Event) : (Nat × Nat) × Option Event :=
  match c with
  | 0 =>
    if isStart e then
      if d = s.depth ∧ s.nodeTest e then ((d + 1, 1), some e) else ((d + 1, 0), none)
    else if isEnd e then ((d - 1, 0), none)
    else if d = s.depth ∧ s.nodeTest e then ((d, 0), some e) else ((d, 0), none)
  | c + 1 =>
    if isStart e then ((d + 1, c + 2), some e)
    else if isEnd e then ((d - 1, c), some e)
    else ((d, c + 1), some e)

/-- the lazily consumed `select()` of an unbuffered match: `none` = the body never called select
    (the content is drained), `some (s, d, c)` = the machine for path `s` -/
abbrev SelSt := Option (Sel × Nat × Nat)

def selFeed : SelSt → List Event → SelSt × List Event
  | none, _ => (none, [])
  | some (s, d, c), [] => (some (s, d, c), [])
  | some (s, d, c), e :: es =>
    let r := selStep s d c e
    let q := selFeed (some (s, r.1.1, r.1.2)) es
    (q.1, r.2.toList ++ q.2)

/-- the literal events of a body before its first `select()`, that select, and what follows -/
def splitBody : List BItem → List Event × Option Sel × List BItem
  | [] => ([], none, [])
  | .ev e :: bs => let r := splitBody bs; (e :: r.1, r.2.1, r.2.2)
  | .sel s :: bs => ([], some s, bs)

/-- the rest of an unbuffered body: a second `select()` finds the content exhausted -/
def postEvents : List BItem → List Event
  | [] => []
  | .ev e :: bs => e :: postEvents bs
  | .sel _ :: bs => postEvents bs

/-- the state of one `_match(stream, ctxt, start, end)` generator -/
inductive Auto where
  /-- in the main loop -/
  | idle
  /-- inside an element matched by slot `idx` whose content is buffered: START, body, depth of `_strip`,
      the content matcher (window up to `pe`) and its output so far -/
  | buf (idx pe : Nat) (e : Event) (body : List BItem) (depth : Nat) (inner : Auto) (acc : List Event)
  /-- inside an element matched by slot `idx` with `buffer="false"`: depth of `_strip`, the content
      matcher, the select machine, the body's matcher (window from `idx+1`), the rest of the body -/
  | lzy (idx pe : Nat) (depth : Nat) (inner : Auto) (sel : SelSt) (bodyA : Auto) (post : List BItem)
  deriving Inhabited

abbrev Fed (σ : Type) := Option (Auto × List (MT σ) × List Event)

/-- push a list of events through a stage -/
def foldFeed {σ} (step : Auto → Event → List (MT σ) → Fed σ) : Auto → List Event → List (MT σ) → Fed σ
  | a, [], m => some (a, m, [])
  | a, e :: es, m =>
    match step a e m with
    | none => none
    | some (a1, m1, o1) =>
      match foldFeed step a1 es m1 with
      | none => none
      | some (a2, m2, o2) => some (a2, m2, o1 ++ o2)

def stripDepth (d : Nat) (ev : Event) : Nat :=
  if isStart ev then d + 1 else if isEnd ev then d - 1 else d

/-- push one event into a `_match(start, end)` generator; returns its new state, the template list
    and the events it yields.  Fuel bounds the nesting of generators. -/
def feed {σ} : Nat → Nat → Option Nat → Auto → Event → List (MT σ) → Fed σ
  | 0, _, _, _, _, _ => none
  | f + 1, start, end_, .idle, ev, mts =>
    if isStart ev then
      match scan ev start end_ 0 mts with
      | (mts1, none) => some (.idle, mts1, [ev])
      | (mts1, some idx) =>
        match mts1[idx]? with
        | none => none
        | some t =>
          let mts2 := fired t idx mts1
          let pe := preEnd t idx
          if t.buffered then some (.buf idx pe ev t.body 1 .idle [], mts2, [])
          else
            let sp := splitBody t.body
            match foldFeed (feed f (idx + 1) end_) .idle sp.1 mts2 with
            | none => none
            | some (b1, m3, o1) =>
              match sp.2.1 with
              | none => some (.lzy idx pe 1 .idle none b1 [], m3, o1)
              | some s =>
                let r := selStep s 0 0 ev
                match foldFeed (feed f (idx + 1) end_) b1 r.2.toList m3 with
                | none => none
                | some (b2, m4, o2) => some (.lzy idx pe 1 .idle (some (s, r.1.1, r.1.2)) b2 sp.2.2, m4, o1 ++ o2)
    else if isEnd ev then some (.idle, scanEnd ev start end_ 0 mts, [ev])
    else some (.idle, mts, [ev])
  | f + 1, start, end_, .buf idx pe e body d inner acc, ev, mts =>
    let d' := stripDepth d ev
    if d' = 0 then
      -- the END of the matched element: the body sees the buffered content
      match foldFeed (feed f (idx + 1) end_) .idle (instantiate body (e :: acc ++ [ev])) mts with
      | none => none
      | some (_, m1, out) => some (.idle, updRange ev start (idx + 1) 0 m1, out)
    else
      match feed f start (some pe) inner ev mts with
      | none => none
      | some (inner', m1, o) => some (.buf idx pe e body d' inner' (acc ++ o), m1, [])
  | f + 1, start, end_, .lzy idx pe d inner sel bodyA post, ev, mts =>
    let d' := stripDepth d ev
    if d' = 0 then
      -- the END goes to select() directly (`chain([event], inner, tail)`), then the rest of the body
      let ys := selFeed sel [ev]
      match foldFeed (feed f (idx + 1) end_) bodyA ys.2 mts with
      | none => none
      | some (b1, m1, o1) =>
        match foldFeed (feed f (idx + 1) end_) b1 (postEvents post) m1 with
        | none => none
        | some (_, m2, o2) => some (.idle, updRange ev start (idx + 1) 0 m2, o1 ++ o2)
    else
      match feed f start (some pe) inner ev mts with
      | none => none
      | some (inner', m1, o) =>
        let ys := selFeed sel o
        match foldFeed (feed f (idx + 1) end_) bodyA ys.2 m1 with
        | none => none
        | some (b1, m2, o1) => some (.lzy idx pe d' inner' ys.1 b1 post, m2, o1)

/-- the whole filter driven by the flattened template: registrations happen between the events -/
def runL {σ} (fuel : Nat) : Auto → List (Item σ) → List (MT σ) → Option (Auto × List (MT σ) × List Event)
  | a, [], m => some (a, m, [])
  | a, .reg t :: rest, m => runL fuel a rest (m ++ [t])
  | a, .ev e :: rest, m =>
    match feed fuel 0 none a e m with
    | none => none
    | some (a1, m1, o1) =>
      match runL fuel a1 rest m1 with
      | none => none
      | some (a2, m2, o2) => some (a2, m2, o1 ++ o2)

def renderL {σ} (fuel : Nat) (items : List (Item σ)) : Option (List Event) :=
  (runL fuel .idle items []).map (·.2.2)

end Genshi.Match

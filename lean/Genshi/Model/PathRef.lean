/-
  REFERENCE semantics: XPath 1.0 for the subset genshi documents (doc/xpath.rst),
  evaluated on trees.  This file is the *specification* side of C05: it does not
  look at the matchers of `PathStrategy.lean` or at the coercions of `Path.lean`
  (only the number type `XNum` and the AST are shared).

  * the context node is the outermost element of the stream;
  * node sets are lists of located nodes in document order;
  * a predicate whose value is a number is true iff it equals the context
    position along the step's axis (all five axes are forward axes);
  * the result of `select` is the outermost selected nodes in document order,
    each element with its complete subtree; attribute nodes selected on one
    element are reported together.

  Two documented deviations from the letter of XPath 1.0 are part of this
  reference (each also recorded as a finding with a strict-XPath witness):
  an unprefixed name test compares the local name only (genshi templates rely
  on it), and `name()` is the expanded name `{uri}local` because streams carry
  no prefixes.
-/
import Genshi.Model.Path
namespace Genshi.Path.Ref
open Genshi Genshi.Path

/-! ## Located nodes -/

structure LNode where
  loc : List Nat        -- child indexes from the context node
  node : Node
  deriving Repr, Inhabited

mutual
  /-- proper descendants in document order -/
  def descOf : Node → List Nat → List LNode
    | .elem _ _ ks, loc => descList ks loc 0
    | .leaf _, _ => []
  def descList : List Node → List Nat → Nat → List LNode
    | [], _, _ => []
    | k :: ks, loc, i => ⟨loc ++ [i], k⟩ :: (descOf k (loc ++ [i]) ++ descList ks loc (i + 1))
end

def childrenOf : LNode → List LNode
  | ⟨loc, .elem _ _ ks⟩ => ks.zipIdx.map fun (k, i) => ⟨loc ++ [i], k⟩
  | ⟨_, .leaf _⟩ => []

def descendants (n : LNode) : List LNode := descOf n.node n.loc

def axisNodes (a : Axis) (c : LNode) : List LNode :=
  match a with
  | .child => childrenOf c
  | .descendant => descendants c
  | .descendantOrSelf => c :: descendants c
  | .self => [c]
  | .attribute => []

/-! ## Values and conversions (XPath 1.0 sections 3.4, 4) -/

inductive XVal where
  | bool (b : Bool)
  | num (x : XNum)
  | str (s : Str)
  | nodes (a : AttrList)        -- attribute nodes, document order
  deriving DecidableEq, Repr, Inhabited

def xString : XVal → Str
  | .bool true => ['t', 'r', 'u', 'e']
  | .bool false => ['f', 'a', 'l', 's', 'e']
  | .num x => x.toStr
  | .str s => s
  | .nodes [] => []
  | .nodes ((_, v) :: _) => v

def xNumber : XVal → XNum
  | .bool b => XNum.ofBool b
  | .num x => x
  | .str s => XNum.parse s
  | .nodes [] => .nan
  | .nodes ((_, v) :: _) => XNum.parse v

def xBoolean : XVal → Bool
  | .bool b => b
  | .num x => !(x.isNaN || x.isZero)
  | .str s => !s.isEmpty
  | .nodes a => !a.isEmpty

/-- comparison of two numbers; NaN is unordered and unequal to everything -/
def xNumCmp (op : CmpOp) (a b : XNum) : Bool :=
  match a, b with
  | .dec n1 m1 e1, .dec n2 m2 e2 =>
      let o := XNum.cmpDec n1 m1 e1 n2 m2 e2
      match op with
      | .eq => o == .eq | .ne => o != .eq
      | .lt => o == .lt | .le => o != .gt
      | .gt => o == .gt | .ge => o != .lt
  | _, _ => op == .ne

def xEq (op : CmpOp) {α : Type} [BEq α] (a b : α) : Bool :=
  match op with
  | .eq => a == b
  | .ne => !(a == b)
  | _ => false

def isRel : CmpOp → Bool
  | .eq | .ne => false
  | _ => true

/-- section 3.4 -/
def xCompare (op : CmpOp) (l r : XVal) : Bool :=
  match l, r with
  | .nodes a, .nodes b =>
      a.any fun x => b.any fun y =>
        if isRel op then xNumCmp op (XNum.parse x.2) (XNum.parse y.2) else xEq op x.2 y.2
  | .nodes a, .bool b =>
      if isRel op then xNumCmp op (XNum.ofBool (!a.isEmpty)) (XNum.ofBool b) else xEq op (!a.isEmpty) b
  | .bool b, .nodes a =>
      if isRel op then xNumCmp op (XNum.ofBool b) (XNum.ofBool (!a.isEmpty)) else xEq op b (!a.isEmpty)
  | .nodes a, .num y => a.any fun x => xNumCmp op (XNum.parse x.2) y
  | .num y, .nodes a => a.any fun x => xNumCmp op y (XNum.parse x.2)
  | .nodes a, .str s =>
      a.any fun x => if isRel op then xNumCmp op (XNum.parse x.2) (XNum.parse s) else xEq op x.2 s
  | .str s, .nodes a =>
      a.any fun x => if isRel op then xNumCmp op (XNum.parse s) (XNum.parse x.2) else xEq op s x.2
  | l, r =>
      if isRel op then xNumCmp op (xNumber l) (xNumber r)
      else match l, r with
        | .bool a, r => xEq op a (xBoolean r)
        | l, .bool b => xEq op (xBoolean l) b
        | .num a, r => xNumCmp op a (xNumber r)
        | l, .num b => xNumCmp op (xNumber l) b
        | l, r => xEq op (xString l) (xString r)

/-! ## Functions (section 4) -/

/-- the maximal runs of non-whitespace characters -/
def wordsGo : Str → Str → List Str
  | [], cur => if cur.isEmpty then [] else [cur.reverse]
  | c :: cs, cur =>
      if XNum.isXmlSpace c then (if cur.isEmpty then wordsGo cs [] else cur.reverse :: wordsGo cs [])
      else wordsGo cs (c :: cur)

/-- strip leading and trailing whitespace, replace sequences of whitespace by one space -/
def xNormalize (s : Str) : Str := Str.join [' '] (wordsGo s [])

def xTranslate (s fr to : Str) : Str :=
  s.flatMap fun c =>
    match fr.idxOf? c with
    | none => [c]
    | some i => match to[i]? with
      | some d => [d]
      | none => []

def xSubstringBefore (s t : Str) : Str :=
  match Str.find s t with
  | some i => s.take i
  | none => []

def xSubstringAfter (s t : Str) : Str :=
  match Str.find s t with
  | some i => s.drop (i + t.length)
  | none => []

def XNum.toInt? : XNum → Option Int
  | .dec n m 0 => some (if n then -(m : Int) else m)
  | _ => none

/-- `substring(s, start[, len])`: the characters at positions p (1-based) with
    round(start) ≤ p < round(start) + round(len) -/
def xSubstring (s : Str) (start : XNum) (len : Option XNum) : Str :=
  match XNum.toInt? start.round with
  | none => []
  | some a =>
    (s.zipIdx.filter fun (_, i) =>
      let p : Int := ((i + 1 : Nat) : Int)
      decide (a ≤ p) &&
      (match len with
       | none => true
       | some l => match XNum.toInt? l.round with
         | some b => decide (p < a + b)
         | none => false)).map Prod.fst

/-- the variables as XPath values -/
abbrev XVars := List (Str × XVal)

/-- attribute node-set selected by a name test on the attribute axis -/
def attrNodes (t : NodeTest) (n : Node) (ns : NsMap) : AttrList :=
  match n with
  | .elem _ attrs _ =>
    (match t with
     | .principal _ => attrs
     | .qprincipal _ pfx => attrs.filter fun a => some a.1.ns == lookup pfx ns
     | .localName _ name => attrs.filter fun a => a.1.ns.isEmpty && a.1.loc == name
     | .qname _ pfx name => attrs.filter fun a => some a.1.ns == lookup pfx ns && a.1.loc == name
     | _ => [])
  | .leaf _ => []

def expandedName (q : QName) : Str := q.text

def xFn0 (f : Fn0) (n : Node) : XVal :=
  match f, n with
  | .true_, _ => .bool true
  | .false_, _ => .bool false
  | .localName, .elem t _ _ => .str t.loc
  | .localName, .leaf (.pi t _) => .str t
  | .localName, _ => .str []
  | .name, .elem t _ _ => .str (expandedName t)
  | .name, .leaf (.pi t _) => .str t
  | .name, _ => .str []
  | .namespaceUri, .elem t _ _ => .str t.ns
  | .namespaceUri, _ => .str []

/-- expression value at a context node (context position and size are not needed:
    the subset has neither `position()` nor `last()`) -/
def xEval (n : Node) (ns : NsMap) (vs : XVars) : Expr → XVal
  | .test t => .nodes (attrNodes t n ns)
  | .str s => .str s
  | .num x => .num x
  | .var v => (lookup v vs).getD (.nodes [])
  | .fn0 f => xFn0 f n
  | .fn1 f a =>
      let v := xEval n ns vs a
      (match f with
       | .boolean => .bool (xBoolean v)
       | .not => .bool (!xBoolean v)
       | .number => .num (xNumber v)
       | .ceiling => .num (xNumber v).ceiling
       | .floor => .num (xNumber v).floor
       | .round => .num (xNumber v).round
       | .normalizeSpace => .str (xNormalize (xString v))
       | .stringLength => .num (XNum.ofNat (xString v).length))
  | .fn2 f a b =>
      let x := xEval n ns vs a
      let y := xEval n ns vs b
      (match f with
       | .contains => .bool (Str.contains (xString x) (xString y))
       | .startsWith => .bool ((xString y).isPrefixOf (xString x))
       | .substringAfter => .str (xSubstringAfter (xString x) (xString y))
       | .substringBefore => .str (xSubstringBefore (xString x) (xString y))
       | .substring => .str (xSubstring (xString x) (xNumber y) none)
       | .matches => .bool false)        -- not an XPath 1.0 function
  | .fn3 f a b c =>
      let x := xEval n ns vs a
      let y := xEval n ns vs b
      let z := xEval n ns vs c
      (match f with
       | .translate => .str (xTranslate (xString x) (xString y) (xString z))
       | .substring => .str (xSubstring (xString x) (xNumber y) (some (xNumber z)))
       | .matches => .bool false)
  | .concat1 a => .str (xString (xEval n ns vs a))
  | .concat a r => .str (xString (xEval n ns vs a) ++ xString (xEval n ns vs r))
  | .and_ a b => .bool (xBoolean (xEval n ns vs a) && xBoolean (xEval n ns vs b))
  | .or_ a b => .bool (xBoolean (xEval n ns vs a) || xBoolean (xEval n ns vs b))
  | .cmp op a b => .bool (xCompare op (xEval n ns vs a) (xEval n ns vs b))

/-! ## Location paths -/

/-- node test on the child / descendant / self axes (principal node type: element) -/
def testNode (t : NodeTest) (n : Node) (ns : NsMap) : Bool :=
  match t, n with
  | .node, _ => true
  | .text, .leaf (.text _ _) => true
  | .comment, .leaf (.comment _) => true
  | .pi none, .leaf (.pi _ _) => true
  | .pi (some t), .leaf (.pi tg _) => t.isEmpty || tg == t
  | .principal _, .elem _ _ _ => true
  | .qprincipal _ pfx, .elem tag _ _ => some tag.ns == lookup pfx ns
  | .localName _ name, .elem tag _ _ => tag.loc == name
  | .qname _ pfx name, .elem tag _ _ => some tag.ns == lookup pfx ns && tag.loc == name
  | _, _ => false

/-- does the predicate hold for candidate `n` at context position `pos` (1-based) -/
def predHolds (p : Expr) (n : Node) (pos : Nat) (ns : NsMap) (vs : XVars) : Bool :=
  match xEval n ns vs p with
  | .num x => x.eqNat pos
  | v => xBoolean v

def filterPred (p : Expr) (ns : NsMap) (vs : XVars) (cands : List LNode) : List LNode :=
  (cands.zipIdx.filter fun (c, i) => predHolds p c.node (i + 1) ns vs).map Prod.fst

def filterPreds (ps : List Expr) (ns : NsMap) (vs : XVars) (cands : List LNode) : List LNode :=
  ps.foldl (fun cs p => filterPred p ns vs cs) cands

/-- the nodes one step selects from one context node, in document order -/
def stepNodes (s : Step) (ns : NsMap) (vs : XVars) (c : LNode) : List LNode :=
  filterPreds s.preds ns vs ((axisNodes s.axis c).filter fun n => testNode s.test n.node ns)

/-- `t` is selected by the (attribute-free) steps starting from context `c` -/
def reach (ns : NsMap) (vs : XVars) : List Step → LNode → LNode → Bool
  | [], c, t => c.loc == t.loc
  | s :: rest, c, t => (stepNodes s ns vs c).any fun m => reach ns vs rest m t

inductive Sel where
  | node (n : LNode)
  | attrs (owner : LNode) (a : AttrList)
  deriving Repr, Inhabited

def Sel.owner : Sel → LNode
  | .node n => n
  | .attrs o _ => o

def allNodes (root : LNode) : List LNode := root :: descendants root

/-- the node set a location path selects from the context node, in document order -/
def xpPath (p : LocPath) (ns : NsMap) (vs : XVars) (root : LNode) : List Sel :=
  match p.getLast? with
  | some last =>
    if last.axis == .attribute then
      ((allNodes root).filter (reach ns vs p.dropLast root)).filterMap fun o =>
        let sel := attrNodes last.test o.node ns
        if sel.isEmpty then none else some (.attrs o sel)
    else ((allNodes root).filter (reach ns vs p root)).map .node
  | none => []

/-- union of location paths: per node of the document, is it (or which of its attributes are) selected -/
def xpUnion (ps : List LocPath) (ns : NsMap) (vs : XVars) (root : LNode) : List Sel :=
  let sels := ps.map fun p => xpPath p ns vs root
  (allNodes root).flatMap fun n =>
    let here := sels.flatMap fun ss => ss.filter fun s => s.owner.loc == n.loc
    let isNode := here.any fun s => match s with | .node _ => true | _ => false
    let attrSets := here.filterMap fun s => match s with | .attrs _ a => some a | _ => none
    let nodePart := if isNode then [Sel.node n] else []
    let attrPart :=
      match n.node with
      | .elem _ attrs _ =>
          let sel := attrs.filter fun a => attrSets.any fun s => s.contains a
          if sel.isEmpty then [] else [Sel.attrs n sel]
      | _ => []
    nodePart ++ attrPart

def properPrefix (a b : List Nat) : Bool := a.isPrefixOf b && a.length < b.length

/-- the outermost selected nodes: no selected node is a proper ancestor; an attribute is
    inside its element -/
def outermost (sels : List Sel) : List Sel :=
  let nodeLocs := sels.filterMap fun s => match s with | .node n => some n.loc | _ => none
  sels.filter fun s =>
    match s with
    | .node n => !(nodeLocs.any fun l => properPrefix l n.loc)
    | .attrs o _ => !(nodeLocs.any fun l => l.isPrefixOf o.loc)

/-- what `Stream.select` must deliver, by node sets: the union of the paths' node sets, the
    outermost members, each element with its subtree (kept as a second formulation: the driver
    checks on every case that it agrees with `xpSelect` below) -/
def xpSelectSets (ps : List LocPath) (ns : NsMap) (vs : XVars) (root : Node) : List Item :=
  (outermost (xpUnion ps ns vs ⟨[], root⟩)).flatMap fun s =>
    match s with
    | .node n => n.node.flatten.map Item.ev
    | .attrs _ a => [Item.attrs a]

/-- is `n` in the node set of one of the location paths (those not ending in an attribute step) -/
def nodeSelected (ps : List LocPath) (ns : NsMap) (vs : XVars) (root n : LNode) : Bool :=
  ps.any fun p =>
    match p.getLast? with
    | some last => last.axis != .attribute && reach ns vs p root n
    | none => false

/-- the attributes of `n` selected by the location paths that end in an attribute step, in
    the order of the element's attribute list -/
def attrsSelected (ps : List LocPath) (ns : NsMap) (vs : XVars) (root n : LNode) : AttrList :=
  match n.node with
  | .elem _ attrs _ =>
      attrs.filter fun a => ps.any fun p =>
        match p.getLast? with
        | some last =>
            last.axis == .attribute && reach ns vs p.dropLast root n && (attrNodes last.test n.node ns).contains a
        | none => false
  | .leaf _ => []

mutual
  /-- the outermost selected nodes in document order: a selected node is delivered whole (an
      element with its complete subtree); otherwise its selected attributes, then whatever is
      selected among its children -/
  def pick (sel : LNode → Bool) (asel : LNode → AttrList) : Node → List Nat → List Item
    | .elem t a ks, loc =>
        if sel ⟨loc, .elem t a ks⟩ then (Node.elem t a ks).flatten.map Item.ev
        else
          (if (asel ⟨loc, .elem t a ks⟩).isEmpty then [] else [Item.attrs (asel ⟨loc, .elem t a ks⟩)])
            ++ pickList sel asel ks loc 0
    | .leaf e, loc => if sel ⟨loc, .leaf e⟩ then [Item.ev e] else []
  def pickList (sel : LNode → Bool) (asel : LNode → AttrList) : List Node → List Nat → Nat → List Item
    | [], _, _ => []
    | k :: ks, loc, i => pick sel asel k (loc ++ [i]) ++ pickList sel asel ks loc (i + 1)
end

/-- what `Stream.select` must deliver -/
def xpSelect (ps : List LocPath) (ns : NsMap) (vs : XVars) (root : Node) : List Item :=
  pick (nodeSelected ps ns vs ⟨[], root⟩) (attrsSelected ps ns vs ⟨[], root⟩) root []

/-! ## Streams to trees (driver utility; also used to state theorems about streams) -/

def isMarker : Event → Bool
  | .startNs _ _ | .endNs _ | .startCdata | .endCdata => true
  | _ => false

/-- stack of open elements: (tag, attrs, children so far in reverse) -/
def buildGo : List Event → List (QName × AttrList × List Node) → List Node → Option (List Node)
  | [], [], acc => some acc.reverse
  | [], _ :: _, _ => none
  | .start t a :: es, stack, acc => buildGo es ((t, a, acc) :: stack) []
  | .end_ _ :: es, (t, a, outer) :: stack, acc => buildGo es stack (.elem t a acc.reverse :: outer)
  | .end_ _ :: _, [], _ => none
  | e :: es, stack, acc =>
      if isMarker e then buildGo es stack acc else buildGo es stack (.leaf e :: acc)

/-- the forest a well-nested stream flattens from (namespace and CDATA marker events dropped) -/
def buildForest (s : List Event) : Option (List Node) := buildGo s [] []

end Genshi.Path.Ref

/-
  C09 — the serializer behind `EmptyTagFilter` on the full namespace domain, with typed
  attribute values: `NamespaceFlattener(prefixes, cache)` (`Xml.cflatten`,
  Model/OutputFlattenCache.lean) followed by the main loop of the method (`loopT`,
  Model/OutputMarkupAttr.lean), both constructed with the same `cache` argument, as
  `XMLSerializer.__init__` / `XHTMLSerializer.__init__` / `HTMLSerializer.__init__` do
  (`Gen.OutputExtra.cacheFlags`, theorem `cache_flag_honoured`).  No `WhitespaceFilter`
  (`strip_whitespace=False`), no `DocTypeInserter`.
-/
import Genshi.Model.OutputMarkupAttr
import Genshi.Model.OutputFlattenCache
namespace Genshi.Output
open Genshi

/-- an event the flattener passes through, as the main loop sees it.  START / END / START_NS /
    END_NS never come out of the flattener's pass-through branch; they are mapped to themselves
    with local names for totality. -/
def passEv : Event → FEv
  | .start t a => .start t.loc (a.map fun p => (p.1.loc, p.2))
  | .end_ t => .end_ t.loc
  | .text s f => .text s f
  | .comment s => .comment s
  | .pi t d => .pi t d
  | .doctype n p s => .doctype n p s
  | .xmlDecl v e s => .xmlDecl v e s
  | .startNs p u => .startNs p u
  | .endNs p => .endNs p
  | .startCdata => .startCdata
  | .endCdata => .endCdata

/-- flattened typed events as events of the typed main loop -/
def toTEv : Xml.TFEv → TEv
  | .tag ie n a => .tag ie n a
  | .end_ n => .ev (.end_ n)
  | .other e => .ev (passEv e)

/-- an event in front of the flattener, in C02's vocabulary -/
def toX : QEv → Xml.XEv
  | .start t a => .ev (.start t a)
  | .empty t a => .empty t a
  | .end_ t => .ev (.end_ t)
  | .text s f => .ev (.text s f)
  | .comment s => .ev (.comment s)
  | .pi t d => .ev (.pi t d)
  | .doctype n p s => .ev (.doctype n p s)
  | .xmlDecl v e s => .ev (.xmlDecl v e s)
  | .startNs p u => .ev (.startNs p u)
  | .endNs p => .ev (.endNs p)
  | .startCdata => .ev .startCdata
  | .endCdata => .ev .endCdata

/-- a flattened event of C02's vocabulary as the main loop sees it -/
def ofXF : Xml.FEv → FEv
  | .start n a => .start n a
  | .empty n a => .empty n a
  | .end_ n => .end_ n
  | .other e => passEv e

/-- `''.join(serializer(stream))` behind `EmptyTagFilter`: flattener and main loop with the same
    cache flag -/
def serT (m : Method) (o : Opts) (pref : List (Str × Str)) (cache : Bool) (evs : List Xml.TXEv) : Str :=
  (loopT m o cache {} ((Xml.cflatten pref cache evs).map toTEv)).flatten

end Genshi.Output

/-
  C14 (wave 4) — template objects along reach paths, by shape.

  `reachRow cfg r k` is what the generated shape table (`Genshi/Gen/ExecShape.lean`, behavioural
  probes of the code under test) records for the template reached by `r` when its source is shape
  `k` (a code block at one of the probed placements): the streams of the template objects that
  exist afterwards, the error, whether the block ran.  The row is selected by the class of the
  template reached, the way it comes into being and the flag that governs it — the root's own flag
  at the root, the flag of the loader held by the including template for an include (both computed
  by the reachability model of `Genshi/Model/Exec.lean` from the generated forwarding tables).
-/
import Genshi.Model.Exec
import Genshi.Gen.ExecShape
namespace Genshi.Exec
open Genshi.Gen.Exec Genshi.Gen.ExecShape

def ShapeRow.keyIs (c : Cls) (w : Way) (b : Bool) (k : Nat) (r : ShapeRow) : Bool :=
  decide (r.cls = c) && (r.way.code == w.code) && (r.flag == b) && (r.shape == k)

/-- the probe of shape `k` for class `c`, way `w`, flag `b` -/
def findRow (c : Cls) (w : Way) (b : Bool) (k : Nat) : Option ShapeRow :=
  shapeRows.find? (ShapeRow.keyIs c w b k)

def rootWay : Root → Way
  | .direct _ s own => .ctor s own
  | .load _ d => .load d
  | .pluginFile _ => .pluginFile
  | .pluginString _ => .pluginString

/-- the flag the root template itself is instantiated with (`allow_exec` absent = on) -/
def rootShapeFlag (cfg : Config) : Root → Option Bool
  | .direct _ _ _ => some (cfg.tmpl != .off)
  | .load _ _ => some (cfg.loader != .off)
  | .pluginFile _ | .pluginString _ =>
      match parseOpt cfg.opt with
      | .allow => some true
      | .deny => some false
      | _ => none

/-- the probe that describes the template reached by `r` when its source is shape `k`.
    (A directly constructed root with an explicit loader is described by the probe in which both
    flags have the value of the template's own: the root's parse is governed by that flag alone,
    `ctor_forwards_flag`.) -/
def reachRow (cfg : Config) : Reach → Nat → Option ShapeRow
  | .root r0, k =>
      match rootNode cfg r0, rootShapeFlag cfg r0 with
      | some n, some b => findRow n.cls (rootWay r0) b k
      | _, _ => none
  | .incl parent p, k =>
      (node cfg parent).bind fun m => (step m p).bind fun n =>
        findRow n.cls (.incl p m.autoReload) m.loaderFlag k

/-- no template object of the row holds a code block, at any depth -/
def ShapeRow.execFree (r : ShapeRow) : Bool := r.objects.all fun s => !hasExecL s

/-- some template object of the row holds a code block -/
def ShapeRow.execExists (r : ShapeRow) : Bool := r.objects.any hasExecL

/-- deepest nesting of a code block in an object of the row -/
def ShapeRow.depth (r : ShapeRow) : Nat := r.objects.foldl (fun d s => max d (execDepthL s)) 0

end Genshi.Exec

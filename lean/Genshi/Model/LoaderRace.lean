/-
  C15 / C16 — a file modification *during* a load.

  `directory()._load_from_directory` performs `open(filepath)` and then takes the modification
  time that the up-to-date check will compare with.  The history class modelled here lets a
  writer *replace* the file the load opens (write a new file, rename it over the old name — the
  open file object keeps the old content) at one of two points inside the load:

  * `before`: after the cache lookup and the up-to-date check, before `open`;
  * otherwise: right after `open` returned (before the modification time is taken and before
    the content is read — with a replacement both see the same, so this is one point).

  `fstat = true` is the code as it is (after `fix: directory() takes the modification time from
  the file it opened`): the time remembered is the one of the opened file.  `fstat = false` is
  the code before that repair (`os.path.getmtime(filepath)` after `open`): the time of whatever
  the path names by then; kept for the negative theorem `stat_after_open_serves_stale`.
  The drivers pass the generated constant `Gen.Loader.mtimeOfOpenedFile` (probed on the code).

  Only the load function of a directory *name* on the search path is `directory()`; load
  functions given by the user (`Entry.fn`) are the harness's own code and are not raced.
  Import-free apart from the loader model (linked into `gdrv`).
-/
import Genshi.Model.Loader
namespace Genshi.Loader
open Genshi.Lru

/-- the replacement that lands inside the load -/
structure RaceW where
  before : Bool
  content : Nat
  bad : Bool
  deriving DecidableEq, Repr

/-- the `for loadfunc in search_path` loop with the replacement landing in the first
    `directory()` load function whose `open` succeeds.  Second component: the file replaced. -/
def searchRace (fstat : Bool) (cfg : Cfg) (fs : FS) (clock : Nat) (s : LState) (r : Req) (key : Key)
    (isabs : Bool) (rw : RaceW) : List Entry → (LState × Res) × Option Loc
  | [] => ((s, .err .notFound), none)
  | e :: rest =>
    match probe fs r.fault e key with
    | .skip => searchRace fstat cfg fs clock s r key isabs rw rest
    | .raise => ((s, .err .loadFunc), none)
    | .found loc f u =>
      match e with
      | .fn _ _ => (instantiate cfg s r key isabs loc f u, none)
      | .dir _ _ =>
        if rw.before then
          -- the new file is opened: its content, its time
          (instantiate cfg s r key isabs loc ⟨rw.content, rw.bad, clock⟩ (.mtime loc clock), some loc)
        else
          -- the old file is open; the path names the new one (mtime = clock) from now on
          (instantiate cfg s r key isabs loc f (.mtime loc (if fstat then f.mtime else clock)), some loc)

/-- `loadBody` with the replacement pending -/
def loadBodyRace (fstat : Bool) (cfg : Cfg) (fs : FS) (clock : Nat) (s : LState) (r : Req) (key : Key)
    (rw : RaceW) : (LState × Res) × Option Loc :=
  let hit := alookup key s.cache.items
  let s1 := match hit with
    | some _ => { s with cache := (astep s.cache (.get key)).1 }
    | none => s
  let served : Option Tmpl := match hit with
    | some t => if !cfg.autoReload then some t else if stillCurrent fs s1 key then some t else none
    | none => none
  match served with
  | some t => ((s1, .ok t), none)
  | none =>
    match searchPath cfg r key with
    | none => ((s1, .err .noSearchPath), none)
    | some (entries, isabs) => searchRace fstat cfg fs clock s1 r key isabs rw entries

def loadRace (fstat : Bool) (cfg : Cfg) (fs : FS) (clock : Nat) (s : LState) (r : Req) (rw : RaceW) :
    Option ((LState × Res) × Option Loc) :=
  match resolve cfg.path.isEmpty r with
  | none => none
  | some key =>
    let s0 := { s with lock := s.lock + 1 }
    let out := loadBodyRace fstat cfg fs clock s0 r key rw
    some (({ out.1.1 with lock := out.1.1.lock - 1 }, out.1.2), out.2)

/-- histories with racing replacements and with modifications that set an arbitrary
    modification time (restore from a backup, checkout of an older revision, `rsync -t`,
    `os.utime` backwards): `HOp.write` / `HOp.touch` stamp the file with the logical clock, which
    only grows; `writeAt` stamps it with any time, older ones included -/
inductive HOpR where
  | plain (op : HOp)
  | loadRace (r : Req) (rw : RaceW)
  | writeAt (loc : Loc) (content : Nat) (bad : Bool) (mtime : Nat)
  deriving DecidableEq, Repr

def hstepR (fstat : Bool) (cfg : Cfg) (w : World) : HOpR → World × Option Res
  | .plain op => hstep cfg w op
  | .loadRace r rw =>
    match loadRace fstat cfg w.fs w.clock w.ls r rw with
    | none => (w, none)
    | some ((ls', res), none) => ({ w with ls := ls' }, some res)
    | some ((ls', res), some loc) =>
      ({ fs := fsSet w.fs loc (some ⟨rw.content, rw.bad, w.clock⟩), clock := w.clock + 1, ls := ls' },
       some res)

  -- the clock stays above every time in use, so that `write` / `touch` keep handing out new ones
  | .writeAt loc c b m =>
    ({ w with fs := fsSet w.fs loc (some ⟨c, b, m⟩), clock := max w.clock (m + 1) }, none)

def hrunR (fstat : Bool) (cfg : Cfg) (w : World) : List HOpR → World × List (Option Res)
  | [] => (w, [])
  | op :: ops =>
    let (w1, o) := hstepR fstat cfg w op
    let (w2, os) := hrunR fstat cfg w1 ops
    (w2, o :: os)

end Genshi.Loader

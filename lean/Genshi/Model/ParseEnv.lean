/-
  C07 — the environment `HTMLParser` really runs in (`Genshi.Parse.Env` instantiated):

  * `strip`  `genshi.util.stripentities`, as modelled by work package `san`
             (`Genshi.San.stripentities`, imported read-only);
  * `lower`  Python's `str.lower`: the per-character mapping of the running interpreter
             (`Gen.Parse.lowerRuns` / `lowerMulti`, generated) and its one context rule — U+03A3 becomes the final
             sigma U+03C2 when a cased letter precedes it and none follows, case-ignorable characters
             skipped (`unicodeobject.c: handle_capital_sigma`; the two classes are generated from the
             behaviour of `str.lower` itself);
  * `void`   `HTMLParser._EMPTY_ELEMS` (generated).

  No Mathlib: linked into `gdrv`.
-/
import Genshi.Model.ParseHtml
import Genshi.Model.SanText
namespace Genshi.Parse
open Genshi

/-- `stripentities(value)` as `handle_starttag` calls it (`keepxmlentities` false) -/
def stripReal (v : Str) : Except PyExc Str :=
  match Genshi.San.stripentities v with
  | .ok r => .ok r
  | .error .valueError => .error valueError
  | .error .overflowError => .error overflowError

def inRangeList (rs : List (Nat × Nat)) (n : Nat) : Bool := rs.any fun r => r.1 ≤ n && n ≤ r.2

/-- `_PyUnicode_IsCaseIgnorable` -/
def isCaseIgnorable (c : Char) : Bool := inRangeList Genshi.Gen.Parse.caseIgnorable c.toNat

/-- `_PyUnicode_IsCased`, for a character that is not case-ignorable -/
def isCasedNI (c : Char) : Bool := inRangeList Genshi.Gen.Parse.casedNotIgnorable c.toNat

/-- `_PyUnicode_ToLowerFull` -/
def lowerChar (c : Char) : Str :=
  let n := c.toNat
  match Genshi.Gen.Parse.lowerMulti.find? (fun e => e.1 = n) with
  | some e => e.2.map Char.ofNat
  | none =>
    match Genshi.Gen.Parse.lowerRuns.find? (fun r => r.1 ≤ n && n ≤ r.2.1 && (n - r.1) % r.2.2.1 = 0) with
    | some r => [Char.ofNat (r.2.2.2 + (n - r.1))]
    | none => [c]

/-- first half of `handle_capital_sigma`: going back from the sigma (`before` is the text before it,
    nearest character first), the first character that is not case-ignorable exists and is cased -/
def sigmaCasedBefore : Str → Bool
  | [] => false
  | c :: cs => if isCaseIgnorable c then sigmaCasedBefore cs else isCasedNI c

/-- second half: going forward, the text ends or the first character that is not case-ignorable is
    not cased -/
def sigmaNoCasedAfter : Str → Bool
  | [] => true
  | c :: cs => if isCaseIgnorable c then sigmaNoCasedAfter cs else !isCasedNI c

def capitalSigma : Char := Char.ofNat 0x3A3
def finalSigma : Char := Char.ofNat 0x3C2
def smallSigma : Char := Char.ofNat 0x3C3

/-- `do_lower`: `before` is what has been read, nearest character first -/
def lowerGo : Str → Str → Str
  | _, [] => []
  | before, c :: cs =>
    (if c = capitalSigma then
      [if sigmaCasedBefore before && sigmaNoCasedAfter cs then finalSigma else smallSigma]
     else lowerChar c) ++ lowerGo (c :: before) cs

/-- `str.lower` -/
def pyLower (s : Str) : Str := lowerGo [] s

/-- the environment of the real code -/
def realEnv : Env := { strip := stripReal, lower := pyLower, void := Genshi.Gen.Output.parserEmptyElems }

end Genshi.Parse

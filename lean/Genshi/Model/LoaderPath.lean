/-
  C15 — `TemplateLoader.load` over **string-level path names**: the filename rules of `load`
  with `posixpath.normpath` / `join` / `dirname` / `isabs` modelled on character lists (any
  number of directory levels, `.`, `..`, repeated slashes), search-path items that are directory
  names, arbitrary callables returning `(filepath, filename, fileobj, uptodate)` (with an mtime
  check or `uptodate=None` like `package()`, possibly reporting another `filename`), and
  `prefixed(**delegates)` with its string-prefix dispatch.

  Same structure as `Genshi/Model/Loader.lean` (whose `Loc` has one sub-directory level): the
  cache is the abstract bounded LRU map, `_uptodate` a finite map, a parse is "content ↦ template
  or TemplateSyntaxError", the lock is its depth.  The file system maps *normalised absolute
  path names* to files: `open(p)` / `getmtime(p)` look at `normpath p` (every directory named on a
  path exists, no symbolic links — assumption).  Import-free (linked into `gdrv`).
-/
import Genshi.Model.Loader
namespace Genshi.LoaderP
open Genshi.Lru
open Genshi.Loader (File Fault Err)

abbrev Str := List Char

/-! ### posixpath -/

def isabs (p : Str) : Bool := p.head? == some '/'

/-- `p.split('/')` -/
def splitSlash : Str → List Str
  | [] => [[]]
  | c :: cs =>
    match splitSlash cs with
    | [] => [[]]
    | w :: ws => if c = '/' then [] :: w :: ws else (c :: w) :: ws

/-- `'/'.join(comps)` -/
def joinSlash : List Str → Str
  | [] => []
  | [c] => c
  | c :: cs => c ++ '/' :: joinSlash cs

/-- the loop of `normpath` over the components (`acc`: `new_comps`, last first) -/
def normComps (absolute : Bool) : List Str → List Str → List Str
  | acc, [] => acc.reverse
  | acc, c :: cs =>
    if c = [] || c = ['.'] then normComps absolute acc cs
    else if c != ['.', '.'] || (!absolute && acc.isEmpty) || acc.head? == some ['.', '.'] then
      normComps absolute (c :: acc) cs
    else normComps absolute acc.tail cs

/-- `posixpath.normpath` -/
def normpath (p : Str) : Str :=
  if p.isEmpty then ['.'] else
  let slashes : Nat :=
    match p with
    | '/' :: '/' :: '/' :: _ => 1
    | '/' :: '/' :: _ => 2
    | '/' :: _ => 1
    | _ => 0
  let body := joinSlash (normComps (slashes != 0) [] (splitSlash p))
  let out := List.replicate slashes '/' ++ body
  if out.isEmpty then ['.'] else out

/-- `posixpath.join(a, b)` -/
def pjoin (a b : Str) : Str :=
  if isabs b then b
  else if a.isEmpty || a.getLast? == some '/' then a ++ b
  else a ++ '/' :: b

def rstripSlash (p : Str) : Str := (p.reverse.dropWhile (· == '/')).reverse

/-- `posixpath.dirname` -/
def dirname (p : Str) : Str :=
  let head := (p.reverse.dropWhile (· != '/')).reverse      -- p[:p.rfind('/')+1]
  if !head.isEmpty && !(head.all (· == '/')) then rstripSlash head else head

def startsWith : Str → Str → Bool
  | _, [] => true
  | [], _ :: _ => false
  | c :: cs, d :: ds => c == d && startsWith cs ds

/-- `s.lstrip('/\\')` -/
def lstripSep (s : Str) : Str := s.dropWhile fun c => c == '/' || c == '\\'

/-! ### the loader -/

abbrev FS := Str → Option File
abbrev Key := Str

/-- what `prefixed()` delegates to: a directory name, or a callable serving a directory -/
inductive Deleg where
  | dir (p : Str)
  | fn (p : Str) (checks : Bool)
  deriving DecidableEq, Repr

/-- a search-path item -/
inductive Entry where
  | dir (p : Str)                                 -- a string: `directory(p)`
  | fn (p : Str) (checks : Bool) (alias : Bool)   -- a callable serving directory `p`; `uptodate`
                                                  -- is an mtime check or `None` (`package()`);
                                                  -- `alias`: it reports `filename` as `@` + name
  | prefixed (ds : List (Str × Deleg))            -- `prefixed(**delegates)`, in dict order
  deriving DecidableEq, Repr

structure Req where
  filename : Str
  relTo : Option Str := none
  cls : Nat := 0
  enc : Nat := 0
  cbRaise : Bool := false
  fault : Fault := .none
  deriving DecidableEq, Repr

structure Cfg where
  path : List Entry
  autoReload : Bool
  cap : Nat
  hasCallback : Bool := true
  deriving Repr

structure Tmpl where
  obj : Nat
  filepath : Str       -- as the load function returned it (not normalised)
  filename : Str       -- what the load function reported, or `filepath` when `isabs`
  content : Nat
  cls : Nat
  enc : Nat
  deriving DecidableEq, Repr

inductive Utd where
  | never
  | mtime (filepath : Str) (m : Nat)
  deriving DecidableEq, Repr

structure LState where
  cache : ALru Key Tmpl
  utd : Key → Option Utd
  nextObj : Nat
  cbLog : List Nat
  parsed : List Nat
  lock : Nat

def LState.init (cap : Nat) : LState :=
  { cache := aempty cap, utd := fun _ => none, nextObj := 0, cbLog := [], parsed := [], lock := 0 }

inductive Res where
  | ok (t : Tmpl)
  | err (e : Err)
  deriving DecidableEq, Repr

/-- `relative_to` is used when it is given (not empty) and it is relative or there is no
    search path -/
def useRel (pathEmpty : Bool) (r : Req) : Option Str :=
  match r.relTo with
  | some rt => if !rt.isEmpty && (pathEmpty || !isabs rt) then some rt else none
  | none => none

/-- the cache key: `normpath(join(dirname(relative_to), filename))` or `normpath(filename)` -/
def resolve (pathEmpty : Bool) (r : Req) : Key :=
  match useRel pathEmpty r with
  | some rt => normpath (pjoin (dirname rt) r.filename)
  | none => normpath r.filename

/-- the search path of this call and `isabs`; `none`: TemplateError -/
def searchPath (cfg : Cfg) (r : Req) (key : Key) : Option (List Entry × Bool) :=
  if isabs key then some ([.dir (dirname key)], true)
  else
    match r.relTo with
    | some rt =>
      if !rt.isEmpty && isabs rt then
        let e := Entry.dir (dirname rt)
        some (if e ∈ cfg.path then cfg.path else cfg.path ++ [e], true)
      else if cfg.path.isEmpty then none else some (cfg.path, false)
    | none => if cfg.path.isEmpty then none else some (cfg.path, false)

/-- what one search-path item does with a name, before the file system is asked -/
inductive Serve where
  | skip                                          -- IOError / TemplateNotFound
  | raise                                         -- another exception
  | at (filepath name : Str) (checks : Bool)      -- opens `filepath`, reports `filename = name`

def serveDeleg (fault : Fault) (d : Deleg) (rest : Str) : Option (Str × Bool) ⊕ Unit :=
  match d with
  | .dir p => .inl (some (pjoin p rest, true))
  | .fn p checks =>
    match fault with
    | .io => .inl none
    | .other => .inr ()
    | .none => .inl (some (pjoin p rest, checks))

/-- `_dispatch_by_prefix`: the first delegate whose prefix the name starts with -/
def dispatch (fault : Fault) (key : Key) : List (Str × Deleg) → Serve
  | [] => .skip                                   -- TemplateNotFound
  | (pre, d) :: more =>
    if startsWith key pre then
      match serveDeleg fault d (lstripSep (key.drop pre.length)) with
      | .inl none => .skip
      | .inr () => .raise
      | .inl (some (fp, checks)) => .at fp key checks
    else dispatch fault key more

def serve (fault : Fault) (e : Entry) (key : Key) : Serve :=
  match e with
  | .dir p => .at (pjoin p key) key true
  | .fn p checks alias =>
    match fault with
    | .io => .skip
    | .other => .raise
    | .none => .at (pjoin p key) (if alias then '@' :: key else key) checks
  | .prefixed ds => dispatch fault key ds

inductive Probe where
  | skip
  | raise
  | found (filepath name : Str) (f : File) (u : Utd)

/-- calling one load function: `open(filepath)` looks at the normalised path -/
def probe (fs : FS) (fault : Fault) (e : Entry) (key : Key) : Probe :=
  match serve fault e key with
  | .skip => .skip
  | .raise => .raise
  | .at fp name checks =>
    match fs (normpath fp) with
    | none => .skip
    | some f => .found fp name f (if checks then .mtime fp f.mtime else .never)

def utdSet (u : Key → Option Utd) (k : Key) (v : Utd) : Key → Option Utd :=
  fun k' => if k' = k then some v else u k'

def instantiate (cfg : Cfg) (s : LState) (r : Req) (key : Key) (isabs : Bool)
    (fp name : Str) (f : File) (u : Utd) : LState × Res :=
  if f.bad then (s, .err .syntaxError) else
  let t : Tmpl := ⟨s.nextObj, fp, if isabs then fp else name, f.content, r.cls, r.enc⟩
  let s1 := { s with nextObj := s.nextObj + 1, parsed := t.obj :: s.parsed }
  let s2 := if cfg.hasCallback then { s1 with cbLog := t.obj :: s1.cbLog } else s1
  if cfg.hasCallback && r.cbRaise then (s2, .err .callback) else
  ({ s2 with cache := (astep s2.cache (.set key t)).1, utd := utdSet s2.utd key u }, .ok t)

def search (cfg : Cfg) (fs : FS) (s : LState) (r : Req) (key : Key) (isabs : Bool) :
    List Entry → LState × Res
  | [] => (s, .err .notFound)
  | e :: rest =>
    match probe fs r.fault e key with
    | .skip => search cfg fs s r key isabs rest
    | .raise => (s, .err .loadFunc)
    | .found fp name f u => instantiate cfg s r key isabs fp name f u

def stillCurrent (fs : FS) (s : LState) (key : Key) : Bool :=
  match s.utd key with
  | none => false
  | some .never => false
  | some (.mtime fp m) =>
    match fs (normpath fp) with
    | none => false
    | some f => f.mtime == m

def loadBody (cfg : Cfg) (fs : FS) (s : LState) (r : Req) (key : Key) : LState × Res :=
  let hit := alookup key s.cache.items
  let s1 := match hit with
    | some _ => { s with cache := (astep s.cache (.get key)).1 }
    | none => s
  let served : Option Tmpl := match hit with
    | some t => if !cfg.autoReload then some t else if stillCurrent fs s1 key then some t else none
    | none => none
  match served with
  | some t => (s1, .ok t)
  | none =>
    match searchPath cfg r key with
    | none => (s1, .err .noSearchPath)
    | some (entries, isabs) => search cfg fs s1 r key isabs entries

def load (cfg : Cfg) (fs : FS) (s : LState) (r : Req) : LState × Res :=
  let key := resolve cfg.path.isEmpty r
  let s0 := { s with lock := s.lock + 1 }
  let (s1, res) := loadBody cfg fs s0 r key
  ({ s1 with lock := s1.lock - 1 }, res)

/-! ### histories -/

structure World where
  fs : FS
  clock : Nat
  ls : LState

inductive HOp where
  | write (p : Str) (content : Nat) (bad : Bool)      -- `p`: a normalised absolute path
  | touch (p : Str)
  | delete (p : Str)
  | load (r : Req)
  deriving DecidableEq, Repr

def fsSet (fs : FS) (p : Str) (f : Option File) : FS := fun q => if q = p then f else fs q

def World.init (cap : Nat) : World := ⟨fun _ => none, 1, LState.init cap⟩

def hstep (cfg : Cfg) (w : World) : HOp → World × Option Res
  | .write p c b => ({ w with fs := fsSet w.fs p (some ⟨c, b, w.clock⟩), clock := w.clock + 1 }, none)
  | .touch p =>
    match w.fs p with
    | none => (w, none)
    | some f => ({ w with fs := fsSet w.fs p (some { f with mtime := w.clock }), clock := w.clock + 1 }, none)
  | .delete p => ({ w with fs := fsSet w.fs p none }, none)
  | .load r =>
    let (ls', res) := load cfg w.fs w.ls r
    ({ w with ls := ls' }, some res)

def hrun (cfg : Cfg) (w : World) : List HOp → World × List (Option Res)
  | [] => (w, [])
  | op :: ops =>
    let (w1, o) := hstep cfg w op
    let (w2, os) := hrun cfg w1 ops
    (w2, o :: os)

/-! ### specification: the file found first on the search path -/

inductive Found where
  | nothing
  | raised
  | file (filepath name : Str) (f : File)
  deriving DecidableEq, Repr

/-- the walk over the search path: an item that does not have the name (IOError,
    TemplateNotFound of `prefixed()`, no such file) is passed over, one that raises anything else
    ends the walk, otherwise the first item under which the name exists decides -/
def firstOnPathF (fs : FS) (fault : Fault) (key : Key) : List Entry → Found
  | [] => .nothing
  | e :: rest =>
    match serve fault e key with
    | .skip => firstOnPathF fs fault key rest
    | .raise => .raised
    | .at fp name _ =>
      match fs (normpath fp) with
      | none => firstOnPathF fs fault key rest
      | some f => .file fp name f

/-! ### a file rewritten in place while it is being read (content new / time old)

  `directory()` (and a callable that stats after `open`) remembers the modification time it saw
  right after `open`; if the file is rewritten *in place* after that and before the template
  class reads it, the template is parsed from the new content but remembered with the old time.
  Modelled as: the load runs over a file system in which the file it opens first has the new
  content and still the old time; afterwards the file has the new content and a new time. -/

/-- the (normalised) file a load opens first; `none`: answered from the cache, or nothing opened -/
def wouldOpen (cfg : Cfg) (fs : FS) (s : LState) (r : Req) : Option Str :=
  let key := resolve cfg.path.isEmpty r
  let hit := alookup key s.cache.items
  if hit.isSome && (!cfg.autoReload || stillCurrent fs s key) then none else
  match searchPath cfg r key with
  | none => none
  | some (entries, _) =>
    match firstOnPathF fs r.fault key entries with
    | .file fp _ _ => some (normpath fp)
    | _ => none

inductive HOpW where
  | plain (op : HOp)
  | loadRewrite (r : Req) (content : Nat) (bad : Bool)
  deriving DecidableEq, Repr

def hstepW (cfg : Cfg) (w : World) : HOpW → World × Option Res
  | .plain op => hstep cfg w op
  | .loadRewrite r c b =>
    match wouldOpen cfg w.fs w.ls r with
    | none => hstep cfg w (.load r)                   -- no file is opened: nothing to rewrite
    | some p =>
      match w.fs p with
      | none => hstep cfg w (.load r)
      | some f =>
        let (ls', res) := load cfg (fsSet w.fs p (some ⟨c, b, f.mtime⟩)) w.ls r
        ({ fs := fsSet w.fs p (some ⟨c, b, w.clock⟩), clock := w.clock + 1, ls := ls' }, some res)

def hrunW (cfg : Cfg) (w : World) : List HOpW → World × List (Option Res)
  | [] => (w, [])
  | op :: ops =>
    let (w1, o) := hstepW cfg w op
    let (w2, os) := hrunW cfg w1 ops
    (w2, o :: os)

end Genshi.LoaderP

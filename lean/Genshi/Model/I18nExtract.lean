/-
  C19 — `Translator.extract`, `_extract_attrs`, `contextify` and the `extract` methods of
  the msg / choose / singular / plural directives (genshi/filters/i18n.py).
  Generators become functions returning the list of messages; an exception raised midway
  makes the whole result an error.  Line numbers are dropped.
-/
import Genshi.Model.I18nMsgBuf
namespace Genshi.I18n
open Genshi

/-- `stack[-1:]` -/
def lastSlice {α} (l : List α) : List α :=
  match l.getLast? with
  | some x => [x]
  | none => []

def pgettextName : Str := ['p', 'g', 'e', 't', 't', 'e', 'x', 't']
def ngettextName : Str := ['n', 'g', 'e', 't', 't', 'e', 'x', 't']

/-- `contexted.get(func)` (table generated from the code) -/
def contextedGet (func : Option Str) : Option Str :=
  match Gen.I18n.contexted.find? (fun p => p.1 = func) with
  | some p => some p.2
  | none => none

/-- `contextify(line, func, msg, comment, context)`; `none` = the `ValueError` branch -/
def contextify (func : Option Str) (msg : MsgVal) (comment context : List Str) : Option Message :=
  match context with
  | [] => some ⟨func, msg, comment⟩
  | c :: _ =>
      match contextedGet func with
      | none => none
      | some f =>
          match msg with
          | .many (a :: b :: _) => some ⟨some f, .many [some c, a, b], comment⟩
          | .many _ => none          -- `msg[1]` of a shorter tuple: IndexError (not produced by the directives)
          | .one s => some ⟨some f, .many [some c, s], comment⟩

def codeMessages (ms : List CodeMsg) : List Message := ms.map fun m => ⟨some m.func, m.val, []⟩

/-- `extract(_ensure(value), search_text=False)` on an interpolated attribute value: only the
    code of its expressions is looked at -/
def partsMessages : List APart → List Message
  | [] => []
  | .text _ :: ps => partsMessages ps
  | .expr ms :: ps => codeMessages ms ++ partsMessages ps

/-- `Translator._extract_attrs(event, gettext_functions, search_text)` -/
def extractAttrs (cfg : Cfg) (st : Bool) : TAttrs → List Message
  | [] => []
  | (name, .str v) :: rest =>
      (if st && cfg.includeAttrs.contains name.text && !(strip v).isEmpty
        then [⟨none, .one (some (strip v)), []⟩] else []) ++ extractAttrs cfg st rest
  | (_, .parts ps) :: rest => partsMessages ps ++ extractAttrs cfg st rest

def startAttrs (cfg : Cfg) (st : Bool) : TEvent → List Message
  | .start _ a => extractAttrs cfg st a
  | _ => []

/-- `Translator._extract_code(event, gettext_functions)` for an EXPR event (as repaired: the
    directive `extract` methods report the gettext calls of the expressions they buffer) -/
def exprCode : TEvent → List Message
  | .expr _ cm => codeMessages cm
  | _ => []

/-- what the loops of the directive `extract` methods report for one buffered event -/
def evMessages (cfg : Cfg) (st : Bool) : TEvent → List Message
  | .start _ a => extractAttrs cfg st a
  | .expr _ cm => codeMessages cm
  | _ => []

/-- the common loop of the directive `extract` methods: every event is appended to the
    buffer(s); the attributes of START events and the code of EXPR events are extracted first -/
def appendAll (cfg : Cfg) (st : Bool) (b : MB) : List TEvent → Except Err (List Message × MB)
  | [] => pure ([], b)
  | e :: es => do
      let b' ← mbAppend b e
      let (ms, b'') ← appendAll cfg st b' es
      pure (evMessages cfg st e ++ ms, b'')

/-- `MsgDirective.extract` (as repaired) -/
def msgExtract (cfg : Cfg) (params : List Str) (st : Bool) (cs xs : List Str) (s : List TEvent) :
    Except Err (List Message) :=
  match s with
  | [] => .error .stopIteration
  | first :: rest =>
      if first.isStart then
        match rest with
        | [] => .error .stopIteration
        | _ => do
          let (ms, b) ← appendAll cfg st (MB.new params) rest.dropLast
          match contextify none (.one (some b.format)) (lastSlice cs) (lastSlice xs) with
          | some m => pure (startAttrs cfg st first ++ ms ++ [m])
          | none => .error .keyError
      else do
        let (ms, b) ← appendAll cfg st (MB.new params) (first :: rest).dropLast
        let b' ← mbAppend b ((first :: rest).getLast?.getD first)
        match contextify none (.one (some b'.format)) (lastSlice cs) (lastSlice xs) with
        | some m => pure (ms ++ exprCode ((first :: rest).getLast?.getD first) ++ [m])
        | none => .error .keyError

/-- `ChooseBranchDirective.extract(..., msgbuf)`: returns the attribute messages and the buffer -/
def branchExtract (cfg : Cfg) (st : Bool) (b : MB) (s : List TEvent) : Except Err (List Message × MB) :=
  match s with
  | [] => .error .stopIteration
  | first :: rest =>
      let go (pre : List Message) (evs : List TEvent) : Except Err (List Message × MB) :=
        match evs.getLast? with
        | none => .error .stopIteration
        | some last => do
            let (ms, b1) ← appendAll cfg st b evs.dropLast
            let b2 ← if last.isEnd then pure b1 else mbAppend b1 last
            pure (pre ++ ms ++ exprCode last, b2)
      if first.isStart then go (startAttrs cfg st first) rest else go [] (first :: rest)

/-- one step of the loop of `ChooseDirective.extract` for the event `previous` -/
def chooseStep (cfg : Cfg) (st : Bool) (sb pb : MB) : TEvent → Except Err (List Message × MB × MB)
  | .sub dirs body =>
      let rec loop (ds : List Dir) (sb pb : MB) : Except Err (List Message × MB × MB) :=
        match ds with
        | [] => pure ([], sb, pb)
        | .singular :: ds' => do
            let (ms, sb') ← branchExtract cfg st sb body
            let (ms', r) ← loop ds' sb' pb
            pure (ms ++ ms', r)
        | .plural :: ds' => do
            let (ms, pb') ← branchExtract cfg st pb body
            let (ms', r) ← loop ds' sb pb'
            pure (ms ++ ms', r)
        | .strip :: ds' => loop ds' sb pb
        | _ :: ds' => do
            let sb' ← mbAppend sb (.sub dirs body)
            let pb' ← mbAppend pb (.sub dirs body)
            loop ds' sb' pb'
      loop dirs sb pb
  | e => do
      let sb' ← mbAppend sb e
      let pb' ← mbAppend pb e
      pure (evMessages cfg st e, sb', pb')

def chooseLoop (cfg : Cfg) (st : Bool) (sb pb : MB) : List TEvent → Except Err (List Message × MB × MB)
  | [] => pure ([], sb, pb)
  | e :: es => do
      let (ms, sb', pb') ← chooseStep cfg st sb pb e
      let (ms', r) ← chooseLoop cfg st sb' pb' es
      pure (ms ++ ms', r)

/-- `ChooseDirective.extract` -/
def chooseExtract (cfg : Cfg) (params : List Str) (st : Bool) (cs xs : List Str) (s : List TEvent) :
    Except Err (List Message) :=
  let finish (pre : List Message) (sb pb : MB) : Except Err (List Message) :=
    match contextify (some ngettextName) (.many [some sb.format, some pb.format]) (lastSlice cs) (lastSlice xs) with
    | some m => pure (pre ++ [m])
    | none => .error .keyError
  match s with
  | [] => .error .stopIteration
  | first :: rest =>
      if first.isStart then
        match rest with
        | [] => .error .stopIteration
        | _ => do
          let (ms, sb, pb) ← chooseLoop cfg st (MB.new params) (MB.new params) rest.dropLast
          finish (startAttrs cfg st first ++ ms) sb pb
      else do
        -- (as repaired) used as an element: the last event is handled like the others
        let (ms, sb, pb) ← chooseLoop cfg st (MB.new params) (MB.new params) (first :: rest)
        finish ms sb pb

/-- state of the first loop over the directives of a SUB event in `Translator.extract` -/
structure SubLoop where
  dirs : List Dir
  inComment : Bool
  inContext : Bool
  cs : List Str
  xs : List Str
  out : List Message
  deriving Repr

/-- `for idx, directive in enumerate(directives): ... directives.pop(idx)`; `ex` is the
    recursive call on the sub-stream -/
def subLoop1 (ex : List Str → List Str → Except Err (List Message)) :
    Nat → Nat → SubLoop → Except Err SubLoop
  | 0, _, r => pure r
  | fuel + 1, idx, r =>
    match r.dirs[idx]? with
    | none => pure r
    | some (.comment c) => do
        let cs' := r.cs ++ [c]
        let out ← if r.dirs.length = 1 then (do let ms ← ex cs' r.xs; pure (r.out ++ ms)) else pure r.out
        subLoop1 ex fuel (idx + 1) { r with inComment := true, cs := cs', out := out, dirs := r.dirs.eraseIdx idx }
    | some (.ctxt c) => do
        let xs' := r.xs ++ [c]
        let out ← if r.dirs.length = 1 then (do let ms ← ex r.cs xs'; pure (r.out ++ ms)) else pure r.out
        subLoop1 ex fuel (idx + 1) { r with inContext := true, xs := xs', out := out, dirs := r.dirs.eraseIdx idx }
    | some d =>
        if d.isI18n then subLoop1 ex fuel (idx + 1) r
        else subLoop1 ex fuel (idx + 1) { r with dirs := r.dirs.eraseIdx idx }

/-- the second loop: every remaining directive extracts -/
def subLoop2 (cfg : Cfg) (st : Bool) (cs xs : List Str) (body : List TEvent)
    (ex : List Str → List Str → Except Err (List Message)) : List Dir → Except Err (List Message)
  | [] => pure []
  | d :: ds => do
      let ms ← match d with
        | .msg params => msgExtract cfg params st cs xs body
        | .choose params => chooseExtract cfg params st cs xs body
        | _ => ex cs xs
      let ms' ← subLoop2 cfg st cs xs body ex ds
      pure (ms ++ ms')

mutual
  /-- the SUB branch of `Translator.extract`; `st` is `search_text and not skip` -/
  def exSub (cfg : Cfg) (st : Bool) (cs xs : List Str) : TEvent → Except Err (List Message)
    | .sub dirs body => do
        let ex := fun (cs' xs' : List Str) => exList cfg (cfg.extractText && st) cs' xs' 0 body
        let r ← subLoop1 ex dirs.length 0 ⟨dirs, false, false, cs, xs, []⟩
        let out1 ← if r.dirs.isEmpty && !r.inComment && !r.inContext
                   then (do let ms ← ex [] []; pure (r.out ++ ms)) else pure r.out
        let out2 ← subLoop2 cfg st r.cs r.xs body ex r.dirs
        pure (out1 ++ out2)
    | _ => pure []
  /-- the loop of `Translator.extract`; `st` = `search_text` after the `extract_text`
      override, `cs`/`xs` the comment and context stacks -/
  def exList (cfg : Cfg) (st : Bool) (cs xs : List Str) : Nat → List TEvent → Except Err (List Message)
    | _, [] => pure []
    | skip, e :: es =>
        let skip1 := if skip = 0 then 0 else
          match e with
          | .start _ _ => skip + 1
          | .end_ _ => skip - 1
          | _ => skip
        match e with
        | .start tag attrs =>
            -- (as repaired) the code in the attributes of excluded elements is searched as well
            if skip1 = 0 then
              if excluded cfg tag attrs then do
                let ms ← exList cfg st cs xs 1 es
                pure (extractAttrs cfg false attrs ++ ms)
              else do
                let ms ← exList cfg st cs xs 0 es
                pure (extractAttrs cfg st attrs ++ ms)
            else do
              let ms ← exList cfg st cs xs skip1 es
              pure (extractAttrs cfg false attrs ++ ms)
        | .text s => do
            let ms ← exList cfg st cs xs skip1 es
            if skip1 = 0 && st && !(strip s).isEmpty && hasLetter (strip s) then
              match contextify none (.one (some (strip s))) (lastSlice cs) (lastSlice xs) with
              | some m => pure (m :: ms)
              | none => .error .keyError
            else pure ms
        | .expr _ cm => do
            let ms ← exList cfg st cs xs skip1 es
            pure (codeMessages cm ++ ms)
        | .exec cm => do
            let ms ← exList cfg st cs xs skip1 es
            pure (codeMessages cm ++ ms)
        | .sub dirs body => do
            let ms0 ← exSub cfg (st && skip1 = 0) cs xs (.sub dirs body)
            let ms ← exList cfg st cs xs skip1 es
            pure (ms0 ++ ms)
        | _ => exList cfg st cs xs skip1 es
end

/-- `Translator.extract(stream)` -/
def extract (cfg : Cfg) (s : TStream) : Except Err (List Message) :=
  exList cfg cfg.extractText [] [] 0 s

/-- `Translator.extract(stream, search_text=st, comment_stack=cs, context_stack=xs)` with the
    keyword arguments given (the defaults are `True`, `None` → `[]`, `None` → `[]`: `extract`) -/
def extractWith (cfg : Cfg) (st : Bool) (cs xs : List Str) (s : TStream) : Except Err (List Message) :=
  exList cfg (cfg.extractText && st) cs xs 0 s

end Genshi.I18n

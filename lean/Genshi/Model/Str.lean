/-
  Python `str` primitives used by genshi, as total structural functions over
  `List Char` (so that `decide`/`rfl` reduce them and induction is direct).
  Nothing is imported: the driver executable links without Mathlib.
-/
namespace Genshi.Str

/-- `str.replace(pat, new)` for a non-empty `pat`: leftmost, non-overlapping.
    Structural on the text: `skip` counts the characters of a match that are
    still to be passed over. -/
def replaceGo (pat new : List Char) : Nat → List Char → List Char
  | _, [] => []
  | skip + 1, _ :: cs => replaceGo pat new skip cs
  | 0, c :: cs =>
      if pat.isPrefixOf (c :: cs) then new ++ replaceGo pat new (pat.length - 1) cs
      else c :: replaceGo pat new 0 cs

def replace (pat new s : List Char) : List Char :=
  if pat.isEmpty then s else replaceGo pat new 0 s

/-- `str.startswith`. -/
def startsWith (s pre : List Char) : Bool := pre.isPrefixOf s

/-- index of first occurrence of `pat` at or after position 0, as in `str.find`. -/
def findAux (pat : List Char) : Nat → List Char → Nat → Option Nat
  | 0, _, _ => none
  | fuel + 1, s, i =>
      if pat.isPrefixOf s then some i else
      match s with
      | [] => none
      | _ :: cs => findAux pat fuel cs (i + 1)

def find (s pat : List Char) : Option Nat := findAux pat (s.length + 1) s 0

def contains (s pat : List Char) : Bool := (find s pat).isSome

/-- Python's `str.isspace` for the ASCII range plus the characters `str.strip()`
    removes; the full Unicode table is generated (`Gen/CharClass`). Only used
    where genshi strips ASCII markup whitespace. -/
def isAsciiSpace (c : Char) : Bool :=
  c = ' ' || c = '\t' || c = '\n' || c = '\r' || c = '\x0b' || c = '\x0c'

def lstripBy (p : Char → Bool) : List Char → List Char
  | [] => []
  | c :: cs => if p c then lstripBy p cs else c :: cs

def rstripBy (p : Char → Bool) (s : List Char) : List Char :=
  (lstripBy p s.reverse).reverse

def stripBy (p : Char → Bool) (s : List Char) : List Char := rstripBy p (lstripBy p s)

def join (sep : List Char) : List (List Char) → List Char
  | [] => []
  | [x] => x
  | x :: xs => x ++ sep ++ join sep xs

def lower (c : Char) : Char :=
  if 'A' ≤ c ∧ c ≤ 'Z' then Char.ofNat (c.toNat + 32) else c

end Genshi.Str

/-
  C13 / C03 — model of `genshi.template.eval.TemplateASTTransformer` in statement mode (`Suite`):
  the `self.locals` stack over statements, every visitor that pushes / pops a scope or binds a name,
  and the rewriting of the remaining `Name` loads into `_lookup_name(__data__, 'x')`.

  Expressions are traversed by one generic function `ml ops s e` ("map the name loads"): `ops.dec`
  decides whether a load is left alone, `ops.push` enters the scope of a lambda / comprehension.
  The transformer of the code under test is the instance `genshiOps` over the scope stack
  (`xt = ml genshiOps`); the specification side (`Model/PyScope.lean`) instantiates the same
  traversal with Python's own scoping rule, so that the two can be compared by one simulation lemma.

  Unlike `ExpressionASTTransformer` (`Model/PyXform.lean`) attribute and item loads are not
  rewritten in statement mode.
-/
import Genshi.Model.PyXform
import Genshi.Model.PyUnxf
namespace Genshi.Py

/-! ### generic traversal of the name loads of an expression -/

structure NameOps (σ : Type) where
  /-- is the load of this name left as it is (a local / free variable)? -/
  dec : σ → Str → Bool
  /-- enter the scope of a lambda / comprehension that binds these names -/
  push : σ → List Str → σ

def loadOf {σ : Type} (ops : NameOps σ) (s : σ) (id : Str) : PyExpr :=
  if ops.dec s id then .name id else lookupNameCall id

/-- the names bound by the parameters of a function / lambda (`_extract_names(node.args)`) -/
def paramNames (po ar : List PyExpr) (va : Option PyExpr) (ko : List PyExpr) (ka : Option PyExpr) : List Str :=
  targetNamesL po ++ targetNamesL ar ++ targetNamesL ko ++ targetNamesO va ++ targetNamesO ka

mutual
def ml {σ : Type} (ops : NameOps σ) (s : σ) : PyExpr → PyExpr
  | .name id => loadOf ops s id
  | .const c => .const c
  | .boolOp op vs => .boolOp op (mlL ops s vs)
  | .binOp l op r => .binOp (ml ops s l) op (ml ops s r)
  | .unaryOp op e => .unaryOp op (ml ops s e)
  | .lambda po ar va ko ka body =>
      -- `_visit_scope`: defaults (and annotations) in the enclosing scope, the body with the
      -- parameters local
      .lambda (mlL ops s po) (mlL ops s ar) (mlO ops s va) (mlL ops s ko) (mlO ops s ka)
        (ml ops (ops.push s (paramNames po ar va ko ka)) body)
  | .ifExp t b o => .ifExp (ml ops s t) (ml ops s b) (ml ops s o)
  | .dict items => .dict (mlL ops s items)
  | .listComp elt gens =>
      .listComp (ml ops (ops.push s (compNames gens)) elt) (mlGens ops s (ops.push s (compNames gens)) gens)
  | .genExp elt gens =>
      .genExp (ml ops (ops.push s (compNames gens)) elt) (mlGens ops s (ops.push s (compNames gens)) gens)
  | .yield_ v => .yield_ (mlO ops s v)
  | .compare l rest => .compare (ml ops s l) (mlL ops s rest)
  | .call f args kws => .call (ml ops s f) (mlL ops s args) (mlL ops s kws)
  | .attribute v a => .attribute (ml ops s v) a
  | .subscript v sl => .subscript (ml ops s v) (ml ops s sl)
  | .slice l u st => .slice (mlO ops s l) (mlO ops s u) (mlO ops s st)
  | .starred e => .starred (ml ops s e)
  | .list elts => .list (mlL ops s elts)
  | .tuple elts => .tuple (mlL ops s elts)
  | .unsupported k => .unsupported k           -- no visitor: returned as it is
  | .keyword n v => .keyword n (ml ops s v)
  | .comp t it ifs a => .comp (mlT ops s t) (ml ops s it) (mlL ops s ifs) a
  | .param n ann d => .param n (mlO ops s ann) (mlO ops s d)    -- `visit_arg`, and the default
  | .dictItem k v => .dictItem (mlO ops s k) (ml ops s v)
  | .cmpRhs op e => .cmpRhs op (ml ops s e)
def mlL {σ : Type} (ops : NameOps σ) (s : σ) : List PyExpr → List PyExpr
  | [] => []
  | e :: es => ml ops s e :: mlL ops s es
def mlO {σ : Type} (ops : NameOps σ) (s : σ) : Option PyExpr → Option PyExpr
  | none => none
  | some e => some (ml ops s e)
/-- the clauses of a comprehension: the first iterable in the enclosing scope `s0`, everything else
    in the comprehension's scope `s1` -/
def mlGens {σ : Type} (ops : NameOps σ) (s0 s1 : σ) : List PyExpr → List PyExpr
  | [] => []
  | .comp t it ifs a :: r => .comp (mlT ops s1 t) (ml ops s0 it) (mlL ops s1 ifs) a :: mlGens ops s1 s1 r
  | e :: r => ml ops s1 e :: mlGens ops s1 s1 r
/-- a Store / Del position: names stay, the loads inside attribute / subscript targets are visited -/
def mlT {σ : Type} (ops : NameOps σ) (s : σ) : PyExpr → PyExpr
  | .name id => .name id
  | .tuple elts => .tuple (mlTL ops s elts)
  | .list elts => .list (mlTL ops s elts)
  | .starred e => .starred (mlT ops s e)
  | .attribute v a => .attribute (ml ops s v) a
  | .subscript v sl => .subscript (ml ops s v) (ml ops s sl)
  | e => e          -- (no other node type is a target in parsed Python)
def mlTL {σ : Type} (ops : NameOps σ) (s : σ) : List PyExpr → List PyExpr
  | [] => []
  | e :: es => mlT ops s e :: mlTL ops s es
end

/-! ### the scope stack of `TemplateASTTransformer` -/

/-- one entry of `self.locals`: is it a `_ClassScope`, and its names -/
abbrev Scope := Bool × List Str

/-- the names of the non-class scopes (what a nested function sees) -/
def nv (L : List Scope) (id : Str) : Bool := L.any fun s => !s.1 && s.2.contains id

/-- `_is_local(name)`; the head of the list is `self.locals[-1]` -/
def isLocalT : List Scope → Str → Bool
  | [], _ => false
  | top :: outer, id => top.2.contains id || nv outer id

/-- is one of `self.locals[:-1]` a class scope -/
def classBelow : List Scope → Bool
  | [] => false
  | _ :: outer => outer.any (·.1)

/-- `if len(self.locals) > 1: self.locals[-1].update(names)` -/
def addTop : List Scope → List Str → List Scope
  | (k, t) :: o :: r, ns => (k, ns ++ t) :: o :: r
  | L, _ => L

def superNames : List Str := [cs!"super", cs!"__class__"]

/-- `visit_Name` on a load: left alone when local, and (`super` / `__class__` inside a class) when
    the compiler has to see the plain name -/
def genshiDec (L : List Scope) (id : Str) : Bool :=
  (superNames.contains id && !isLocalT L id && classBelow L) || isLocalT L id

def genshiOps : NameOps (List Scope) where
  dec := genshiDec
  push := fun L ns => (false, ns) :: L

/-- `TemplateASTTransformer.visit` on an expression with the scope stack `L` -/
def xt (L : List Scope) (e : PyExpr) : PyExpr := ml genshiOps L e
def xtL (L : List Scope) (es : List PyExpr) : List PyExpr := mlL genshiOps L es
def xtO (L : List Scope) (o : Option PyExpr) : Option PyExpr := mlO genshiOps L o
def xtT (L : List Scope) (e : PyExpr) : PyExpr := mlT genshiOps L e
def xtTL (L : List Scope) (es : List PyExpr) : List PyExpr := mlTL genshiOps L es

/-! ### statements -/

/-- `_process(names, alias)`: `asname`, else the first component of the dotted module name -/
def aliasName : Str × Option Str → Str
  | (_, some a) => a
  | (n, none) => n.takeWhile (· != '.')

mutual
/-- a Store position in a statement (assignment / `for` / `with … as` target): `visit_Name` adds a
    stored name to `self.locals[-1]` *while* the target is visited, so the state is threaded -/
def xsTgt (L : List Scope) : PyExpr → PyExpr × List Scope
  | .name id => (.name id, addTop L [id])
  | .tuple elts => let r := xsTgtL L elts; (.tuple r.1, r.2)
  | .list elts => let r := xsTgtL L elts; (.list r.1, r.2)
  | .starred e => let r := xsTgt L e; (.starred r.1, r.2)
  | .attribute v a => (.attribute (xt L v) a, L)
  | .subscript v sl => (.subscript (xt L v) (xt L sl), L)
  | e => (e, L)
def xsTgtL (L : List Scope) : List PyExpr → List PyExpr × List Scope
  | [] => ([], L)
  | e :: es => let r := xsTgt L e; let r' := xsTgtL r.2 es; (r.1 :: r'.1, r'.2)
end

/-- the items of a `with` statement (`visit_withitem`: context expression, then the target) -/
def xsItems (L : List Scope) : List (PyExpr × Option PyExpr) → List (PyExpr × Option PyExpr) × List Scope
  | [] => ([], L)
  | (c, none) :: r => let r' := xsItems L r; ((xt L c, none) :: r'.1, r'.2)
  | (c, some v) :: r =>
      let t := xsTgt L v
      let r' := xsItems t.2 r
      ((xt L c, some t.1) :: r'.1, r'.2)

mutual
/-- `_bound_names(body)`: the names bound anywhere in the body of a function, not descending into
    nested scopes (the walk over all child nodes finds `Name` nodes with a Store / Del context
    exactly in the target positions below; nested `def` / `class` contribute their name) -/
def bnS : PyStmt → List Str
  | .assign ts _ => targetNamesL ts
  | .augAssign t _ _ => targetNames t
  | .delete ts => targetNamesL ts
  | .import_ ns => ns.map aliasName
  | .importFrom _ ns _ => ns.map aliasName
  | .if_ _ b o => bnB b ++ bnB o
  | .while_ _ b o => bnB b ++ bnB o
  | .for_ t _ b o => targetNames t ++ (bnB b ++ bnB o)
  | .with_ items b => (items.map fun i => targetNamesO i.2).flatten ++ bnB b
  | .try_ b hs o f => bnB b ++ (bnB hs ++ (bnB o ++ bnB f))
  | .handler _ _ b => bnB b
  | .functionDef name _ _ _ _ _ _ _ _ _ => [name]
  | .classDef name _ _ _ _ _ => [name]
  | _ => []
def bnB : List PyStmt → List Str
  | [] => []
  | s :: ss => bnS s ++ bnB ss
end

def isStarImport (ns : List (Str × Option Str)) : Bool := ns.map (·.1) == [['*']]

mutual
/-- one statement: the transformed statement and `self.locals` afterwards (only the top entry can
    have grown; scopes pushed for a nested `def` / `class` body are popped again) -/
def xsS (L : List Scope) : PyStmt → PyStmt × List Scope
  | .expr e => (.expr (xt L e), L)
  | .assign ts v => let r := xsTgtL L ts; (.assign r.1 (xt r.2 v), r.2)       -- fields: targets, value
  | .augAssign t op v => let r := xsTgt L t; (.augAssign r.1 op (xt r.2 v), r.2)
  | .return_ v => (.return_ (xtO L v), L)
  | .delete ts => (.delete (xtTL L ts), L)                                   -- Del context: nothing is added
  | .pass_ => (.pass_, L)
  | .break_ => (.break_, L)
  | .continue_ => (.continue_, L)
  | .assert_ t m => (.assert_ (xt L t) (xtO L m), L)
  | .raise_ e c => (.raise_ (xtO L e) (xtO L c), L)
  | .global_ ns => (.global_ ns, L)
  | .import_ ns => (.import_ ns, addTop L (ns.map aliasName))
  | .importFrom m ns lvl =>
      if isStarImport ns then (.importFrom m ns lvl, L) else (.importFrom m ns lvl, addTop L (ns.map aliasName))
  | .if_ t b o =>
      let b' := xsB L b; let o' := xsB b'.2 o
      (.if_ (xt L t) b'.1 o'.1, o'.2)
  | .while_ t b o =>
      let b' := xsB L b; let o' := xsB b'.2 o
      (.while_ (xt L t) b'.1 o'.1, o'.2)
  | .for_ t it b o =>                                                         -- fields: target, iter, body, orelse
      let r := xsTgt L t; let b' := xsB r.2 b; let o' := xsB b'.2 o
      (.for_ r.1 (xt r.2 it) b'.1 o'.1, o'.2)
  | .with_ items b =>
      let r := xsItems L items; let b' := xsB r.2 b
      (.with_ r.1 b'.1, b'.2)
  | .try_ b hs o f =>
      let b' := xsB L b; let h' := xsB b'.2 hs; let o' := xsB h'.2 o; let f' := xsB o'.2 f
      (.try_ b'.1 h'.1 o'.1 f'.1, f'.2)
  | .handler t n b =>                                                         -- the name is a string: not registered
      let b' := xsB L b
      (.handler (xtO L t) n b'.1, b'.2)
  | .functionDef name po ar va ko ka body decos ret tp =>
      let L1 := addTop L [name]
      (.functionDef name (xtL L1 po) (xtL L1 ar) (xtO L1 va) (xtL L1 ko) (xtO L1 ka)
          (xsB ((false, paramNames po ar va ko ka ++ bnB body) :: L1) body).1
          (xtL L1 decos) (xtO L1 ret) tp, L1)
  | .classDef name bases kws body decos tp =>
      let L1 := addTop L [name]
      (.classDef name (xtL L1 bases) (xtL L1 kws) (xsB ((true, []) :: L1) body).1 (xtL L1 decos) tp, L1)
  | .unsupported k => (.unsupported k, L)
def xsB (L : List Scope) : List PyStmt → List PyStmt × List Scope
  | [] => ([], L)
  | s :: ss => let r := xsS L s; let r' := xsB r.2 ss; (r.1 :: r'.1, r'.2)
end

/-- `TemplateASTTransformer().visit(Module(body))` -/
def xformS (body : List PyStmt) : List PyStmt := (xsB [(false, constantNames)] body).1

/-! ### undoing the rewriting on statements -/

def unxfItems : List (PyExpr × Option PyExpr) → List (PyExpr × Option PyExpr)
  | [] => []
  | (c, v) :: r => (unxf c, unxfO v) :: unxfItems r

mutual
def unxfS : PyStmt → PyStmt
  | .expr e => .expr (unxf e)
  | .assign ts v => .assign (unxfL ts) (unxf v)
  | .augAssign t op v => .augAssign (unxf t) op (unxf v)
  | .return_ v => .return_ (unxfO v)
  | .delete ts => .delete (unxfL ts)
  | .pass_ => .pass_
  | .break_ => .break_
  | .continue_ => .continue_
  | .assert_ t m => .assert_ (unxf t) (unxfO m)
  | .raise_ e c => .raise_ (unxfO e) (unxfO c)
  | .global_ ns => .global_ ns
  | .import_ ns => .import_ ns
  | .importFrom m ns lvl => .importFrom m ns lvl
  | .if_ t b o => .if_ (unxf t) (unxfB b) (unxfB o)
  | .while_ t b o => .while_ (unxf t) (unxfB b) (unxfB o)
  | .for_ t it b o => .for_ (unxf t) (unxf it) (unxfB b) (unxfB o)
  | .with_ items b => .with_ (unxfItems items) (unxfB b)
  | .try_ b hs o f => .try_ (unxfB b) (unxfB hs) (unxfB o) (unxfB f)
  | .handler t n b => .handler (unxfO t) n (unxfB b)
  | .functionDef name po ar va ko ka body decos ret tp =>
      .functionDef name (unxfL po) (unxfL ar) (unxfO va) (unxfL ko) (unxfO ka) (unxfB body) (unxfL decos) (unxfO ret) tp
  | .classDef name bases kws body decos tp =>
      .classDef name (unxfL bases) (unxfL kws) (unxfB body) (unxfL decos) tp
  | .unsupported k => .unsupported k
def unxfB : List PyStmt → List PyStmt
  | [] => []
  | s :: ss => unxfS s :: unxfB ss
end

end Genshi.Py

/-
  C08 — `WhitespaceFilter` (genshi/output.py) as an explicit function on a FOREST.

  `wsForestG` walks the forest with the filter's own state (`WsSt`: the `preserve` depth, the
  `noescape` flag, the CDATA flag and the text buffer) and delivers the forest the filter's output
  is the flattening of: adjacent text leaves merged into ONE Markup text leaf (every non-Markup
  piece escaped, the run trimmed / collapsed by `norm` unless inside preserved space), everything
  else untouched.  `Lemmas/OutputWsForest.lean` proves it equal to the event-level filter
  (`wsFilterG`, the model of `WhitespaceFilter.__call__` that is tied to the code by C09's and
  C08's render correspondence) on the events of every forest; the driver verb `C08 wsforest` ties it
  to the real filter directly.

  Model file: imports Model files only (linked into `gdrv`).
-/
import Genshi.Model.OutputWs
namespace Genshi.Output
open Genshi Genshi.Escape

/-- the pending text as one Markup text leaf (nothing when the buffer is empty) -/
def wsFlushN (norm : Bool → Str → Str) (st : WsSt) : List Node :=
  if st.textbuf.isEmpty then []
  else
    let text := st.textbuf.flatMap fun p => if p.2 then p.1 else escapePy false p.1
    [.leaf (.text (norm (st.preserve != 0) text) true)]

mutual
  /-- one tree: the nodes that are complete after it and the state (pending text included) -/
  def wsTreeG (norm : Bool → Str → Str) (cfg : WsCfg) (st : WsSt) : Node → List Node × WsSt
    | .elem t a ks =>
        if ks.isEmpty then
          -- EMPTY event: flushes the buffer, changes no other state
          (wsFlushN norm st ++ [.elem t a []], { st with textbuf := [] })
        else
          let r := wsForestG norm cfg (wsUpdate cfg { st with textbuf := [] } (.start t a)) ks
          (wsFlushN norm st ++ [.elem t a (r.1 ++ wsFlushN norm r.2)],
           wsUpdate cfg { r.2 with textbuf := [] } (.end_ t))
    | .leaf e =>
        match e with
        | .text s safe =>
            ([], { st with textbuf := st.textbuf ++ [(s, safe || st.noescape || st.inCdata)] })
        | e => (wsFlushN norm st ++ [.leaf e], wsUpdate cfg { st with textbuf := [] } (ofEvent e))
  def wsForestG (norm : Bool → Str → Str) (cfg : WsCfg) (st : WsSt) : List Node → List Node × WsSt
    | [] => ([], st)
    | n :: ns =>
        let r := wsTreeG norm cfg st n
        let r2 := wsForestG norm cfg r.2 ns
        (r.1 ++ r2.1, r2.2)
end

/-- `WhitespaceFilter` on a whole forest: the walk from the initial state, then the final flush
    (the `(None, None, None)` sentinel of the code) -/
def wsForest (cfg : WsCfg) (ns : List Node) : List Node :=
  let r := wsForestG stdNorm cfg {} ns
  r.1 ++ wsFlushN stdNorm r.2

end Genshi.Output

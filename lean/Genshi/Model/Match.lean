/-
  C12 — the match filter `MarkupTemplate._match` (genshi/template/markup.py) over event
  lists, with the per-render match-template list, the `start`/`end` window, `_strip`,
  the `select` closure, the `updateonly` notifications and the hints, as the (repaired)
  code reads them.  Import-free apart from Core.

  The matcher of a template is abstract: a state and a step function
  `step : σ → Event → Bool(updateonly) → σ × Bool(fired)`.  `_match` shows it START and END
  events only.  `Genshi/Model/MatchPath.lean` has the concrete tiny matchers used by the
  driver; the full path model (C05/C17) can be plugged in through the same interface.

  This file is the *eager* model: every matched element's content is buffered
  (`list(content)`, the default).  `buffer="false"` is modelled in MatchLazy.lean.
-/
import Genshi.Model.Core
namespace Genshi.Match
open Genshi

/-- the select() paths the generated bodies use (all served by SingleStepStrategy, context kept) -/
inductive Sel where
  | self                -- `.`
  | node                -- `node()`
  | elems               -- `*`
  | text                -- `text()`
  | nodeText            -- `*|text()`
  | named (n : Str)     -- `n`
  deriving DecidableEq, Repr, Inhabited

/-- an item of a match-template body after parsing: a literal event or `${select(p)}` -/
inductive BItem where
  | ev (e : Event)
  | sel (s : Sel)
  deriving DecidableEq, Repr, Inhabited

/-- one entry of `ctxt._match_templates`: the test closure (step function + its state), the body,
    the hints; `retired` is the slot of a `once` template after it matched (repaired code keeps the slot) -/
structure MT (σ : Type) where
  step : σ → Event → Bool → σ × Bool
  st : σ
  body : List BItem
  once : Bool := false
  recursive : Bool := true
  buffered : Bool := true
  retired : Bool := false
  /-- ghost: how many elements this template has replaced (never read by the filter) -/
  hits : Nat := 0

/-! ### the optimisation hints as `MatchDirective.attach` reads them
    (`value.get('buffer', '').lower() == 'false'` …; the comparison strings are ASCII, and no
    non-ASCII character lower-cases to one of their letters, so ASCII lower-casing is exact) -/

def asciiLower (c : Char) : Char :=
  if 'A' ≤ c ∧ c ≤ 'Z' then Char.ofNat (c.toNat + 32) else c

def hintEq (v : Option Str) (lit : Str) : Bool :=
  match v with
  | none => false
  | some s => s.map asciiLower == lit

structure Hints where
  notBuffered : Bool
  matchOnce : Bool
  notRecursive : Bool
  deriving DecidableEq, Repr, Inhabited

/-- the `buffer=`, `once=`, `recursive=` attribute values (`none`: attribute absent) -/
def parseHints (b o r : Option Str) : Hints :=
  { notBuffered := hintEq b ['f', 'a', 'l', 's', 'e'],
    matchOnce := hintEq o ['t', 'r', 'u', 'e'],
    notRecursive := hintEq r ['f', 'a', 'l', 's', 'e'] }

def MT.ofHints {σ} (step : σ → Event → Bool → σ × Bool) (st : σ) (body : List BItem) (h : Hints) : MT σ :=
  { step := step, st := st, body := body, once := h.matchOnce, recursive := !h.notRecursive,
    buffered := !h.notBuffered }

/-- what `_flatten` hands to `_match`: an event, or the moment a `py:match` directive registers -/
inductive Item (σ : Type) where
  | ev (e : Event)
  | reg (t : MT σ)

def isStart : Event → Bool
  | .start _ _ => true
  | _ => false

def isEnd : Event → Bool
  | .end_ _ => true
  | _ => false

/-- calling the test closure of a slot: the state advances, the verdict comes back -/
def MT.test {σ} (t : MT σ) (e : Event) (upd : Bool) : MT σ × Bool :=
  if t.retired then (t, false)
  else
    let r := t.step t.st e upd
    ({ t with st := r.1 }, r.2)

def MT.retire {σ} (t : MT σ) : MT σ := { t with retired := true }

def inWindow (start : Nat) (end_ : Option Nat) (i : Nat) : Bool :=
  decide (start ≤ i) && (match end_ with | some n => decide (i < n) | none => true)

/-- the `for idx, (test, …) in enumerate(match_templates)` loop on a START event: slots outside
    the window are skipped, the others are tested in order until one fires.
    Returns the list with the advanced states and the index that fired. -/
def scan {σ} (e : Event) (start : Nat) (end_ : Option Nat) : Nat → List (MT σ) → List (MT σ) × Option Nat
  | _, [] => ([], none)
  | i, t :: ts =>
    if inWindow start end_ i then
      let r := t.test e false
      if r.2 then ({ r.1 with hits := r.1.hits + 1 } :: ts, some i)
      else
        let q := scan e start end_ (i + 1) ts
        (r.1 :: q.1, q.2)
    else
      let q := scan e start end_ (i + 1) ts
      (t :: q.1, q.2)

/-- the same loop on an END event: every test of the window pops its state, none fires
    (all path strategies return `None` for END) -/
def scanEnd {σ} (e : Event) (start : Nat) (end_ : Option Nat) : Nat → List (MT σ) → List (MT σ)
  | _, [] => []
  | i, t :: ts =>
    (if inWindow start end_ i then (t.test e false).1 else t) :: scanEnd e start end_ (i + 1) ts

/-- `test(event, …, updateonly=True)` for the slots `lo ≤ i < hi` -/
def updRange {σ} (e : Event) (lo hi : Nat) : Nat → List (MT σ) → List (MT σ)
  | _, [] => []
  | i, t :: ts =>
    (if decide (lo ≤ i) && decide (i < hi) then (t.test e true).1 else t) :: updRange e lo hi (i + 1) ts

def retireAt {σ} : Nat → List (MT σ) → List (MT σ)
  | _, [] => []
  | 0, t :: ts => t.retire :: ts
  | i + 1, t :: ts => t :: retireAt i ts

/-- `_strip`: the items up to the END that closes the element just opened (depth starts at 1),
    that END, and what follows.  `none`: the stream ends first (`next()` would raise). -/
def strip {σ} : Nat → List (Item σ) → Option (List (Item σ) × Event × List (Item σ))
  | _, [] => none
  | d, .reg t :: rest => (strip d rest).map fun (a, e, b) => (.reg t :: a, e, b)
  | d, .ev e :: rest =>
    if isStart e then (strip (d + 1) rest).map fun (a, x, b) => (.ev e :: a, x, b)
    else if isEnd e then
      match d with
      | 0 => none
      | d' + 1 =>
        if d' = 0 then some ([], e, rest)
        else (strip d' rest).map fun (a, x, b) => (.ev e :: a, x, b)
    else (strip d rest).map fun (a, x, b) => (.ev e :: a, x, b)

/-! ### `content.select(path)` for the body paths (Path.select over SingleStepStrategy tests) -/

/-- the node test of the single step on an event (START or TEXT; other kinds are not generated) -/
def Sel.nodeTest : Sel → Event → Bool
  | .self, .start _ _ => true
  | .self, .text _ _ => true
  | .node, .start _ _ => true
  | .node, .text _ _ => true
  | .elems, .start _ _ => true
  | .text, .text _ _ => true
  | .nodeText, .start _ _ => true
  | .nodeText, .text _ _ => true
  | .named n, .start t _ => t.loc == n
  | _, _ => false

/-- the depth at which the step's axis looks: `self::` at 0, `child::` at 1 -/
def Sel.depth : Sel → Nat
  | .self => 0
  | _ => 1

/-- `Path(p).select(stream)` as one pass.  `d` is the depth counter of the single-step test
    (`depth[0]`), `c` the `depth` of the copy loop that yields the subtree of a selected START
    (0: not copying; the loop calls the test with `updateonly`, which keeps `d` in step). -/
def selM (s : Sel) : Nat → Nat → List Event → List Event
  | _, _, [] => []
  | d, 0, e :: es =>
    if isStart e then
      if d = s.depth ∧ s.nodeTest e then e :: selM s (d + 1) 1 es
      else selM s (d + 1) 0 es
    else if isEnd e then selM s (d - 1) 0 es
    else if d = s.depth ∧ s.nodeTest e then e :: selM s d 0 es
    else selM s d 0 es
  | d, c + 1, e :: es =>
    if isStart e then e :: selM s (d + 1) (c + 2) es
    else if isEnd e then e :: selM s (d - 1) c es
    else e :: selM s d (c + 1) es

def select (s : Sel) (content : List Event) : List Event := selM s 0 0 content

/-- `_flatten(template, select=…)`: the body with every `${select(p)}` spliced in -/
def instantiate (body : List BItem) (content : List Event) : List Event :=
  body.flatMap fun
    | .ev e => [e]
    | .sel s => select s content

def evItems {σ} (es : List Event) : List (Item σ) := es.map Item.ev

/-! ### the filter -/

/-- the end of the window the content of a matched element is matched against:
    `pre_end = idx + 1`, minus one for `recursive="false"` without `once` -/
def preEnd {σ} (t : MT σ) (idx : Nat) : Nat :=
  if !t.once && !t.recursive then idx else idx + 1

/-- the template list after template `idx` fired: a `once` template is retired in place -/
def fired {σ} (t : MT σ) (idx : Nat) (mts : List (MT σ)) : List (MT σ) :=
  if t.once then retireAt idx mts else mts

/-- prepend an event that passes through -/
def emit {σ} (e : Event) (r : Option (List (MT σ) × List Event)) : Option (List (MT σ) × List Event) :=
  r.map fun (m, out) => (m, e :: out)

/-- `_match(stream, ctxt, start, end)` with every matched content buffered, whatever the
    `buffer` hint says (the automaton in MatchLazy.lean honours the hint).
    `none`: out of fuel, or a stream that ends inside an element. -/
def run {σ} : Nat → Nat → Option Nat → List (Item σ) → List (MT σ) → Option (List (MT σ) × List Event)
  | 0, _, _, _, _ => none
  | _ + 1, _, _, [], mts => some (mts, [])
  | f + 1, start, end_, .reg t :: rest, mts => run f start end_ rest (mts ++ [t])
  | f + 1, start, end_, .ev e :: rest, mts =>
    if isStart e then
      match scan e start end_ 0 mts with
      | (mts1, none) => emit e (run f start end_ rest mts1)
      | (mts1, some idx) =>
        match mts1[idx]? with
        | none => none
        | some t =>
          match strip 1 rest with
          | none => none
          | some (inner, tail, rest') =>
            -- the content is matched against the window up to (and, if recursive, including) idx
            match run f start (some (preEnd t idx)) inner (fired t idx mts1) with
            | none => none
            | some (mts3, innerOut) =>
              let content := e :: innerOut ++ [tail]
              -- the body is matched against the later templates of the same window
              match run f (idx + 1) end_ (evItems (instantiate t.body content)) mts3 with
              | none => none
              | some (mts4, out) =>
                -- every template that tested the START sees the END (updateonly)
                let mts5 := updRange tail start (idx + 1) 0 mts4
                (run f start end_ rest' mts5).map fun (m, outRest) => (m, out ++ outRest)
    else if isEnd e then
      emit e (run f start end_ rest (scanEnd e start end_ 0 mts))
    else
      emit e (run f start end_ rest mts)

/-- the filter as `generate()` installs it: whole list, no templates registered yet -/
def render {σ} (fuel : Nat) (items : List (Item σ)) : Option (List Event) :=
  (run fuel 0 none items []).map (·.2)

end Genshi.Match

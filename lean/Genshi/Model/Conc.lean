/-
  C16 — concurrent loads: N threads, each a list of `load` requests, interleaved at the
  granularity of the atomic steps

      call; acquire; lookup; [uptodate; search; open]; parse; callback (nested loads); store;
      release; return

  over the loader state of C15 (`Genshi/Model/Loader.lean`) and a re-entrant lock
  (owner, depth).  A request may carry nested requests: the loads the callback performs
  while the lock is held (prepare-time inlining of includes re-enters `load`).
  Import-free (linked into `gdrv`).
-/
import Genshi.Model.Loader
namespace Genshi.Conc
open Genshi.Lru Genshi.Loader

abbrev Tid := Nat

/-- a load request with the loads its callback performs (only if the template is parsed) -/
inductive CReq where
  | mk (r : Req) (key : Key) (children : List CReq)

def CReq.r : CReq → Req | .mk r _ _ => r
def CReq.key : CReq → Key | .mk _ k _ => k
def CReq.children : CReq → List CReq | .mk _ _ c => c

mutual
  def CReq.size : CReq → Nat
    | .mk _ _ cs => 1 + sizeList cs
  def sizeList : List CReq → Nat
    | [] => 0
    | c :: cs => c.size + sizeList cs
end

/-- where a load is -/
inductive PC where
  | start                                            -- about to `self._lock.acquire()`
  | acquired                                         -- about to `self._cache[cachekey]`
  | looked (hit : Option Tmpl)                       -- about to decide: serve / search the path
  | found (loc : Loc) (f : File) (u : Utd) (isabs : Bool)   -- a load function delivered; about to parse
  | calling (t : Tmpl) (u : Utd) (todo : List CReq)  -- inside the callback; nested loads pending
  | called (t : Tmpl) (u : Utd)                      -- about to store
  | done (res : Res)                                 -- about to `self._lock.release()` (finally)
  | released (res : Res)                             -- about to return / re-raise

structure Frame where
  req : CReq
  pc : PC

/-- is the lock held at this point of a load -/
def PC.inCS : PC → Bool
  | .start => false
  | .released _ => false
  | _ => true

structure CCfg where
  cfg : Cfg
  fs : FS
  reentrant : Bool := true

/-- what the steps of the lock holder act on: the loader state (its `lock` field is the depth
    of the lock), the holder's stack of active loads, and the log of completed top-level loads -/
structure CS where
  ls : LState
  stack : List Frame
  completed : List (Tid × Req × Res)

/-- walk the search path: the result of the first load function that does not raise IOError -/
def searchProbe (fs : FS) (fault : Fault) (key : Key) : List Entry → Option Probe
  | [] => none
  | e :: rest =>
    match probe fs fault e key with
    | .skip => searchProbe fs fault key rest
    | p => some p

/-- the decision after the cache lookup (serve / fail / parse the first file on the path) -/
def decide (c : CCfg) (ls : LState) (q : CReq) (hit : Option Tmpl) : PC :=
  let served : Option Tmpl := match hit with
    | some t => if !c.cfg.autoReload then some t else if stillCurrent c.fs ls q.key then some t else none
    | none => none
  match served with
  | some t => .done (.ok t)
  | none =>
    match searchPath c.cfg q.r q.key with
    | none => .done (.err .noSearchPath)
    | some (entries, isabs) =>
      match searchProbe c.fs q.r.fault q.key entries with
      | none => .done (.err .notFound)
      | some .skip => .done (.err .notFound)
      | some .raise => .done (.err .loadFunc)
      | some (.found loc f u) => .found loc f u isabs

/-- one atomic step of thread `tid` inside (or entering, re-entrantly, or leaving) its
    critical section; the identity when there is nothing to do -/
def csStep (c : CCfg) (tid : Tid) (x : CS) : CS :=
  match x.stack with
  | [] => x
  | ⟨q, pc⟩ :: rest =>
    match pc with
    | .start =>
      -- acquire (first or re-entrant)
      { x with ls := { x.ls with lock := x.ls.lock + 1 }, stack := ⟨q, .acquired⟩ :: rest }
    | .acquired =>
      let hit := alookup q.key x.ls.cache.items
      let ls' := match hit with
        | some _ => { x.ls with cache := (astep x.ls.cache (.get q.key)).1 }
        | none => x.ls
      { x with ls := ls', stack := ⟨q, .looked hit⟩ :: rest }
    | .looked hit => { x with stack := ⟨q, decide c x.ls q hit⟩ :: rest }
    | .found loc f u isabs =>
      if f.bad then { x with stack := ⟨q, .done (.err .syntaxError)⟩ :: rest } else
      let t : Tmpl := ⟨x.ls.nextObj, loc, f.content, q.r.cls, q.r.enc, isabs⟩
      let ls1 := { x.ls with nextObj := x.ls.nextObj + 1, parsed := t.obj :: x.ls.parsed }
      let ls2 := if c.cfg.hasCallback then { ls1 with cbLog := t.obj :: ls1.cbLog } else ls1
      { x with ls := ls2, stack := ⟨q, .calling t u (if c.cfg.hasCallback then q.children else [])⟩ :: rest }
    | .calling t u (ch :: todo) =>
      { x with stack := ⟨ch, .start⟩ :: ⟨q, .calling t u todo⟩ :: rest }
    | .calling t u [] =>
      if c.cfg.hasCallback && q.r.cbRaise then { x with stack := ⟨q, .done (.err .callback)⟩ :: rest }
      else { x with stack := ⟨q, .called t u⟩ :: rest }
    | .called t u =>
      { x with ls := { x.ls with cache := (astep x.ls.cache (.set q.key t)).1, utd := utdSet x.ls.utd q.key u },
               stack := ⟨q, .done (.ok t)⟩ :: rest }
    | .done res =>
      { x with ls := { x.ls with lock := x.ls.lock - 1 }, stack := ⟨q, .released res⟩ :: rest,
               completed := if rest.isEmpty then x.completed ++ [(tid, q.r, res)] else x.completed }
    | .released res =>
      match rest with
      | [] => x                       -- the top-level return is a step of the thread, not of the section
      | ⟨p, ppc⟩ :: rest' =>
        -- back in the callback of the enclosing load; an exception propagates out of it
        match res with
        | .ok _ => { x with stack := ⟨p, ppc⟩ :: rest' }
        | .err _ => { x with stack := ⟨p, .done (.err .callback)⟩ :: rest' }

/-! ### the interleaving model -/

structure Thread where
  stack : List Frame
  todo : List CReq

structure G where
  ls : LState                       -- shared; `ls.lock` is the depth of the lock
  owner : Option Tid
  threads : Tid → Thread
  n : Nat                           -- threads `0 … n-1`
  acqLog : List (Tid × CReq)        -- top-level acquisitions, in order
  completed : List (Tid × Req × Res)

def setThread (f : Tid → Thread) (t : Tid) (th : Thread) : Tid → Thread :=
  fun u => if u = t then th else f u

/-- may thread `t` take the lock now? -/
def canAcquire (c : CCfg) (g : G) (t : Tid) : Bool :=
  match g.owner with
  | none => true
  | some o => o == t && c.reentrant

/-- one step of thread `t`; `none`: finished, or blocked on the lock -/
def step (c : CCfg) (g : G) (t : Tid) : Option G :=
  let th := g.threads t
  match th.stack with
  | [] =>
    match th.todo with
    | [] => none
    | q :: more => some { g with threads := setThread g.threads t ⟨[⟨q, .start⟩], more⟩ }     -- call
  | [⟨_, .released _⟩] => some { g with threads := setThread g.threads t ⟨[], th.todo⟩ }       -- return
  | ⟨q, .start⟩ :: rest =>
    if canAcquire c g t then
      let x := csStep c t ⟨g.ls, th.stack, g.completed⟩
      some { g with ls := x.ls, owner := some t, threads := setThread g.threads t ⟨x.stack, th.todo⟩,
                    acqLog := if rest.isEmpty then g.acqLog ++ [(t, q)] else g.acqLog }
    else none
  | _ =>
    let x := csStep c t ⟨g.ls, th.stack, g.completed⟩
    some { g with ls := x.ls, owner := if x.ls.lock = 0 then none else g.owner,
                  threads := setThread g.threads t ⟨x.stack, th.todo⟩, completed := x.completed }

/-- a schedule is a list of thread ids; a turn of a thread that cannot step is skipped -/
def exec (c : CCfg) (g : G) : List Tid → G
  | [] => g
  | t :: ts =>
    match step c g t with
    | none => exec c g ts
    | some g' => exec c g' ts

def Thread.finished (th : Thread) : Bool := th.stack.isEmpty && th.todo.isEmpty

def G.init (ls : LState) (progs : List (List CReq)) : G :=
  { ls := ls, owner := none, threads := fun t => ⟨[], progs.getD t []⟩, n := progs.length,
    acqLog := [], completed := [] }

/-! ### the serial specification: each top-level load runs alone, start to release -/

def frameMeasure (f : Frame) : Nat :=
  match f.pc with
  | .start => 9 + 10 * sizeList f.req.children
  | .acquired => 8 + 10 * sizeList f.req.children
  | .looked _ => 7 + 10 * sizeList f.req.children
  | .found _ _ _ _ => 6 + 10 * sizeList f.req.children
  | .calling _ _ todo => 5 + 10 * sizeList todo
  | .called _ _ => 4
  | .done _ => 3
  | .released _ => 2

def stackMeasure : List Frame → Nat
  | [] => 0
  | f :: fs => frameMeasure f + stackMeasure fs

def iter {α : Type} (f : α → α) : Nat → α → α
  | 0, x => x
  | n + 1, x => iter f n (f x)

/-- run the section to its end (the measure bounds the number of steps) -/
def finish (c : CCfg) (tid : Tid) (x : CS) : CS := iter (csStep c tid) (stackMeasure x.stack) x

/-- one whole top-level load, executed alone -/
def atomicLoad (c : CCfg) (tid : Tid) (ls : LState) (completed : List (Tid × Req × Res)) (q : CReq) :
    LState × List (Tid × Req × Res) :=
  let x := finish c tid ⟨ls, [⟨q, .start⟩], completed⟩
  (x.ls, x.completed)

/-- the serial execution of the loads in the given order -/
def serial (c : CCfg) (ls : LState) (completed : List (Tid × Req × Res)) :
    List (Tid × CReq) → LState × List (Tid × Req × Res)
  | [] => (ls, completed)
  | (t, q) :: more =>
    let (ls', completed') := atomicLoad c t ls completed q
    serial c ls' completed' more

end Genshi.Conc

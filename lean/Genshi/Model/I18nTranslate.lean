/-
  C19 — `Translator.__call__` (genshi/filters/i18n.py): the translation pass over a
  template stream, and the look-ups it makes.  Bug-compatible with the code under test:
  attribute values are replaced by the translation of their stripped text (edge white space
  is lost, finding C19-attr-space); `translate_text` is recomputed for every SUB instead of
  being inherited (finding C19-fragments).
-/
import Genshi.Model.I18nCore
namespace Genshi.I18n
open Genshi

/-- Python `list.insert(i, x)` -/
def listInsert {α} (l : List α) (i : Nat) (x : α) : List α := l.take i ++ x :: l.drop i

/-- result of the loop that "organises" the directives of a SUB event -/
structure Reorder where
  dirs : List Dir
  domain : Option Str
  context : Option Str
  pushed : List Frame        -- frames pushed on the context, last pushed first
  deriving DecidableEq, Repr

/-- `for idx, directive in enumerate(directives)` with the list edited under the iterator:
    a domain directive is moved to the front, a context directive to position 0 or 1. -/
def reorderGo : Nat → Nat → Reorder → Reorder
  | 0, _, r => r
  | fuel + 1, idx, r =>
    match r.dirs[idx]? with
    | none => r
    | some dir =>
      let r1 : Reorder := match dir with
        | .domain d => { r with dirs := dir :: r.dirs.eraseIdx idx, domain := some d,
                                pushed := .domain d :: r.pushed }
        | _ => r
      let r2 : Reorder := match dir with
        | .ctxt c => { r1 with dirs := listInsert (r1.dirs.eraseIdx idx)
                                          (if (truthy r1.domain).isSome then 1 else 0) dir,
                                context := some c, pushed := .context c :: r1.pushed }
        | _ => r1
      reorderGo fuel (idx + 1) r2

def reorder (dirs : List Dir) : Reorder := reorderGo dirs.length 0 ⟨dirs, none, none, []⟩

/-- `any(isinstance(d, ExtractableI18NDirective) for d in directives)` -/
def hasExtractable (dirs : List Dir) : Bool := dirs.any Dir.isExtractable

/-- the catalogue function bound on entry of the pass -/
def gettextOf (cat : Catalog) (ctx : Ctx) (s : Str) : Str :=
  cat.lookup (boundKey ctx).1 (boundKey ctx).2 s

/-- one attribute: a plain string value of an included attribute is replaced by the
    translation of its stripped text; interpolated values pass (they are sent through the
    pass with `translate_text=False`, which changes nothing) -/
def trAttr (cfg : Cfg) (gt : Str → Str) (ta : Bool) (p : QName × AVal) : QName × AVal :=
  match p.2 with
  | .str v =>
      if ta && cfg.includeAttrs.contains p.1.text && !(strip v).isEmpty then (p.1, .str (gt (strip v)))
      else p
  | .parts _ => p

def trAttrs (cfg : Cfg) (gt : Str → Str) (ta : Bool) (a : TAttrs) : TAttrs := a.map (trAttr cfg gt ta)

/-- a text node: `data.replace(stripped, gettext(stripped))` -/
def trText (gt : Str → Str) (s : Str) : Str :=
  if (strip s).isEmpty then s else Str.replace (strip s) (gt (strip s)) s

/-- the skip counter inside an excluded sub-tree -/
def skipStep (skip : Nat) : TEvent → Nat
  | .start _ _ => skip + 1
  | .end_ _ => skip - 1
  | _ => skip

mutual
  /-- the recursive call for a SUB event -/
  def trSub (cfg : Cfg) (cat : Catalog) (ctx : Ctx) (ta : Bool) : TEvent → TEvent
    | .sub dirs body =>
        let r := reorder dirs
        let tt' := cfg.extractText && !hasExtractable r.dirs
        let ta' := cfg.extractText && ta
        .sub r.dirs (trList cfg cat (r.pushed ++ ctx) tt' ta' 0 body)
    | e => e
  /-- the loop of `Translator.__call__`; `tt`/`ta` are `translate_text`/`translate_attrs`
      after the `extract_text` override, `skip` is the depth inside an excluded sub-tree -/
  def trList (cfg : Cfg) (cat : Catalog) (ctx : Ctx) (tt ta : Bool) : Nat → List TEvent → List TEvent
    | _, [] => []
    | skip + 1, e :: es => e :: trList cfg cat ctx tt ta (skipStep (skip + 1) e) es
    | 0, .start tag attrs :: es =>
        if excluded cfg tag attrs then .start tag attrs :: trList cfg cat ctx tt ta 1 es
        else .start tag (trAttrs cfg (gettextOf cat ctx) ta attrs) :: trList cfg cat ctx tt ta 0 es
    | 0, .text s :: es =>
        (if tt then .text (trText (gettextOf cat ctx) s) else .text s) :: trList cfg cat ctx tt ta 0 es
    | 0, .sub dirs body :: es => trSub cfg cat ctx ta (.sub dirs body) :: trList cfg cat ctx tt ta 0 es
    | 0, e :: es => e :: trList cfg cat ctx tt ta 0 es
end

/-- `Translator.__call__(stream, ctxt, translate_text, translate_attrs)` -/
def translate (cfg : Cfg) (cat : Catalog) (ctx : Ctx) (tt ta : Bool) (s : TStream) : TStream :=
  trList cfg cat ctx (cfg.extractText && tt) (cfg.extractText && ta) 0 s

/-! ### the look-ups made by the pass, in order -/

def lkAttr (cfg : Cfg) (ctx : Ctx) (ta : Bool) (p : QName × AVal) : List Lookup :=
  match p.2 with
  | .str v =>
      if ta && cfg.includeAttrs.contains p.1.text && !(strip v).isEmpty
      then [⟨(boundKey ctx).1, (boundKey ctx).2, strip v⟩] else []
  | .parts _ => []

def lkAttrs (cfg : Cfg) (ctx : Ctx) (ta : Bool) (a : TAttrs) : List Lookup := a.flatMap (lkAttr cfg ctx ta)

mutual
  def lkSub (cfg : Cfg) (ctx : Ctx) (ta : Bool) : TEvent → List Lookup
    | .sub dirs body =>
        let r := reorder dirs
        lkList cfg (r.pushed ++ ctx) (cfg.extractText && !hasExtractable r.dirs) (cfg.extractText && ta) 0 body
    | _ => []
  def lkList (cfg : Cfg) (ctx : Ctx) (tt ta : Bool) : Nat → List TEvent → List Lookup
    | _, [] => []
    | skip + 1, e :: es => lkList cfg ctx tt ta (skipStep (skip + 1) e) es
    | 0, .start tag attrs :: es =>
        if excluded cfg tag attrs then lkList cfg ctx tt ta 1 es
        else lkAttrs cfg ctx ta attrs ++ lkList cfg ctx tt ta 0 es
    | 0, .text s :: es =>
        (if tt && !(strip s).isEmpty then [⟨(boundKey ctx).1, (boundKey ctx).2, strip s⟩] else [])
          ++ lkList cfg ctx tt ta 0 es
    | 0, .sub dirs body :: es => lkSub cfg ctx ta (.sub dirs body) ++ lkList cfg ctx tt ta 0 es
    | 0, _ :: es => lkList cfg ctx tt ta 0 es
end

def lookups (cfg : Cfg) (ctx : Ctx) (tt ta : Bool) (s : TStream) : List Lookup :=
  lkList cfg ctx (cfg.extractText && tt) (cfg.extractText && ta) 0 s

end Genshi.I18n

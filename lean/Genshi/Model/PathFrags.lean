/-
  The location path a list of SimplePathStrategy fragments stands for, and the check
  "this is a fragment list `SimplePathStrategy.__init__` builds for a path without interior
  `self::` steps and without a final attribute step" — the scope of
  `C17.simple_eq_generic_fragments_partial` / `C05.select_eq_xp_fragments`, as computations,
  so that the driver can report for every generated path whether it lies in that scope
  (`C17 inscope`).  `Lemmas/PathFrags.lean` proves that these are the notions the theorems use
  (`normPathM_eq`, `fragsOkM_eq`).
-/
import Genshi.Model.PathStrategy
namespace Genshi.Path.FragsM
open Genshi Genshi.Path

def chainM (ts : List NodeTest) : LocPath := ts.map fun t => ⟨.child, t, []⟩

def fragPathM (ax : Axis) : List NodeTest → LocPath
  | [] => []
  | t :: ts => ⟨ax, t, []⟩ :: chainM ts

def tailPathM : List Frag → LocPath
  | [] => []
  | f :: fs => fragPathM (if f.selfBeginning then .descendantOrSelf else .descendant) f.tests ++ tailPathM fs

/-- the location path with these fragments -/
def normPathM : List Frag → LocPath
  | [] => []
  | f0 :: fs => (if f0.selfBeginning then fragPathM .self f0.tests else chainM f0.tests) ++ tailPathM fs

def simpleTM : NodeTest → Bool
  | .localName false _ | .comment | .text => true
  | _ => false

/-- the hypotheses of the fragment theorems, as a computation -/
def fragsOkM (frags : List Frag) : Bool :=
  frags.all (fun f => f.pi == calculatePi f.tests && f.attr.isNone && f.tests.all simpleTM) &&
  (frags.drop 1).all (fun f => !f.tests.isEmpty) &&
  (match frags with
   | [] => false
   | f0 :: fs => !f0.tests.isEmpty || (!f0.selfBeginning && !fs.isEmpty))

/-- a step SimplePathStrategy supports other than a final attribute step; the hypothesis of the
    spelling theorems (`C17.simple_eq_generic_spellings_partial`) -/
def sstepM (s : Step) : Bool := s.preds.isEmpty && simpleTM s.test && s.axis != .attribute

def allSStepM (p : LocPath) : Bool := !p.isEmpty && p.all sstepM

/-- is the location path in the scope of the fragment theorems: supported by
    SimplePathStrategy, its fragment list passes `fragsOkM`, and it is the path of that list -/
def inScope (p : LocPath) : Option (Bool × Bool) :=
  match fragments p with
  | none => none
  | some frags => some (fragsOkM frags, decide (normPathM frags = p))

/-- the principal-type flag of a name test (`True` = built for the attribute axis) -/
def attrFlagM : NodeTest → Bool
  | .principal a | .qprincipal a _ | .localName a _ | .qname a _ _ => a
  | _ => false

/-- the hypotheses of `C17.simple_eq_generic` (the full statement), as a computation:
    SimplePathStrategy supports the path, and name tests off the attribute axis carry the element
    principal type (what the parser builds) -/
def fullScopeM (p : LocPath) : Bool :=
  simpleSupports p && p.all fun s => s.axis == .attribute || !attrFlagM s.test

end Genshi.Path.FragsM

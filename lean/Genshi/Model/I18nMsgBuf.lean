/-
  C19 — `MessageBuffer` (append / format / translate), `parse_msg`, and the generator of
  `MsgDirective.__call__` (genshi/filters/i18n.py), as total functions with Python's
  exceptions as an error value.

  `MessageBuffer.events` (order -> list of groups, grown by `_add_event` under `_prev_order`)
  is a finite map given as a function `Nat → Option (List (List MEv))`.
-/
import Genshi.Model.I18nCore
namespace Genshi.I18n
open Genshi

inductive Err where
  | indexError      -- more expressions than parameters; empty stack
  | keyError        -- unknown parameter / placeholder number
  | typeError       -- a SUB event with `None` as sub-stream
  | stopIteration   -- `next()` on an exhausted stream inside a generator (RuntimeError)
  | attributeError  -- `None.format()`
  deriving DecidableEq, Repr, Inhabited

instance {ε α} [DecidableEq ε] [DecidableEq α] : DecidableEq (Except ε α)
  | .ok a, .ok b => if h : a = b then isTrue (by rw [h]) else isFalse (by intro e; cases e; exact h rfl)
  | .error a, .error b => if h : a = b then isTrue (by rw [h]) else isFalse (by intro e; cases e; exact h rfl)
  | .ok _, .error _ => isFalse (by intro e; cases e)
  | .error _, .ok _ => isFalse (by intro e; cases e)

/-- entries of `MessageBuffer.events` -/
inductive MEv where
  | subStart
  | subEnd
  | ev (e : TEvent)
  deriving Repr, Inhabited

abbrev Groups := Nat → Option (List (List MEv))

structure MB where
  params : List Str
  str : Str                          -- ''.join(self.string)
  events : Groups                    -- `self.events`
  prevOrder : Option Nat             -- `self._prev_order`
  values : List (Str × TEvent)       -- latest binding first
  depth : Int
  order : Nat
  stack : List Nat                   -- top first
  subdirs : List (Nat × List Dir)

def MB.new (params : List Str) : MB :=
  { params := params, str := [], events := fun _ => none, prevOrder := none, values := [], depth := 1,
    order := 1, stack := [0], subdirs := [] }

/-- append to the last list of a list of lists -/
def appendLast {α} : List (List α) → α → List (List α)
  | [], x => [[x]]
  | [g], x => [g ++ [x]]
  | g :: gs, x => g :: appendLast gs x

def setGroups (ev : Groups) (k : Nat) (gs : List (List MEv)) : Groups :=
  fun j => if j = k then some gs else ev j

/-- the decimal digit `d` (`d < 10`) -/
def digitChar (d : Nat) : Char := Char.ofNat (48 + d)

/-- `'%d' % n`, most significant digit first -/
def natStrF : Nat → Nat → Str
  | 0, n => [digitChar (n % 10)]
  | f + 1, n => if n < 10 then [digitChar n] else natStrF f (n / 10) ++ [digitChar (n % 10)]

def natStr (n : Nat) : Str := natStrF n n

/-- `data.replace('[', r'\[').replace(']', r'\]')` -/
def escBrackets (s : Str) : Str :=
  Str.replace [']'] ['\\', ']'] (Str.replace ['['] ['\\', '['] s)

/-- `part.replace(r'\[', '[').replace(r'\]', ']')` -/
def unescBrackets (s : Str) : Str :=
  Str.replace ['\\', ']'] [']'] (Str.replace ['\\', '['] ['['] s)

/-- `self.subdirectives.setdefault(order, []).extend(dirs)` -/
def extendAssoc (m : List (Nat × List Dir)) (k : Nat) (ds : List Dir) : List (Nat × List Dir) :=
  if m.any (fun p => p.1 = k) then m.map (fun p => if p.1 = k then (p.1, p.2 ++ ds) else p)
  else m ++ [(k, ds)]

/-- `MessageBuffer._add_event(order, event)` -/
def MB.add (b : MB) (order : Nat) (e : MEv) : MB :=
  if b.prevOrder = some order then
    { b with events := setGroups b.events order (appendLast ((b.events order).getD []) e) }
  else
    { b with prevOrder := some order,
             events := setGroups b.events order ((b.events order).getD [] ++ [[e]]) }

mutual
  /-- `MessageBuffer.append(kind, data, pos)` -/
  def mbAppend (b : MB) : TEvent → Except Err MB
    | .sub dirs body => do
        let order := b.order
        let b1 := ({ b with subdirs := extendAssoc b.subdirs order dirs }).add order .subStart
        let b2 ← mbAppendList b1 body
        pure (b2.add order .subEnd)
    | .text s =>
        match b.stack with
        | [] => .error .indexError
        | top :: _ =>
          let d := escBrackets s
          pure ({ b with str := b.str ++ d }.add top (.ev (.text d)))
    | .expr i m =>
        match b.params with
        | [] => .error .indexError
        | p :: ps =>
          match b.stack with
          | [] => .error .indexError
          | top :: _ =>
            pure ({ b with params := ps, str := b.str ++ ('%' :: '(' :: p ++ [')', 's']),
                           values := (p, .expr i m) :: b.values }.add top (.ev (.expr i m)))
    | .start t a =>
        pure ({ b with str := b.str ++ ('[' :: natStr b.order ++ [':']), stack := b.order :: b.stack,
                       depth := b.depth + 1, order := b.order + 1 }.add b.order (.ev (.start t a)))
    | .end_ t =>
        if b.depth - 1 = 0 then pure { b with depth := 0 }
        else
          match b.stack with
          | [] => .error .indexError
          | top :: rest =>
            pure ({ b with depth := b.depth - 1, str := b.str ++ [']'], stack := rest }.add top (.ev (.end_ t)))
    | .exec _ => pure b
    | .other _ => pure b
  def mbAppendList (b : MB) : List TEvent → Except Err MB
    | [] => pure b
    | e :: es => do
        let b' ← mbAppend b e
        mbAppendList b' es
end

/-- `MessageBuffer.format()` -/
def MB.format (b : MB) : Str := strip b.str

/-! ### parse_msg -/

/-- `(\d+)\:` after a `[`: the number and how many characters were read -/
def readDigits : Str → Option Nat → Nat → Option (Nat × Nat)
  | [], _, _ => none
  | c :: cs, acc, k =>
      match digitVal c with
      | some d => readDigits cs (some (acc.getD 0 * 10 + d)) (k + 1)
      | none =>
          if c = ':' then
            match acc with
            | some n => some (n, k + 1)
            | none => none
          else none

/-- the first alternative `\[(\d+)\:` at the head of the string: the number and the length of the match -/
def readOpen : Str → Option (Nat × Nat)
  | '[' :: cs => readDigits cs none 1
  | _ => none

/-- `if mo.start() or stack[-1]: parts.append((stack[-1], string[:mo.start()]))` -/
def addPart (top : Nat) (cur : Str) (acc : List (Nat × Str)) : List (Nat × Str) :=
  if !cur.isEmpty || top != 0 then acc ++ [(top, cur)] else acc

/-- the loop of `parse_msg`, structural on the string: `skip` = characters of the current match
    still to pass over, `stack` (top first), `cur` = the text since the last match (reversed),
    `bs` = the previous character is a backslash, `acc` = parts so far -/
def parseGo : Nat → List Nat → Str → Bool → List (Nat × Str) → Str → Except Err (List (Nat × Str))
  | _, [], _, _, acc, _ => pure acc
  | _, top :: _, cur, _, acc, [] =>
      pure (if cur.isEmpty then acc else acc ++ [(top, cur.reverse)])
  | skip + 1, st, cur, bs, acc, _ :: cs => parseGo skip st cur bs acc cs
  | 0, top :: st, cur, bs, acc, c :: cs =>
      match readOpen (c :: cs) with
      | some (n, len) => parseGo (len - 1) (n :: top :: st) [] false (addPart top cur.reverse acc) cs
      | none =>
        if c = ']' && !bs then
          let acc' := addPart top cur.reverse acc
          match st with
          | [] => if cs.isEmpty then pure acc' else .error .indexError   -- `stack[-1]` of the emptied stack
          | _ => parseGo 0 st [] false acc' cs
        else parseGo 0 (top :: st) (c :: cur) (c = '\\') acc cs

/-- `parse_msg(string)` -/
def parseMsg (s : Str) : Except Err (List (Nat × Str)) := parseGo 0 [0] [] false [] s

/-! ### MessageBuffer.translate -/

/-- `(\w+)\)s` after `%(`: the name and how many characters were read -/
def readWord : Str → Str → Nat → Option (Str × Nat)
  | [], _, _ => none
  | c :: cs, acc, k =>
      if isWord c then readWord cs (c :: acc) (k + 1)
      else if acc.isEmpty then none
      else
        match c, cs with
        | ')', 's' :: _ => some (acc.reverse, k + 2)
        | _, _ => none

def readParam : Str → Option (Str × Nat)
  | '%' :: '(' :: cs => readWord cs [] 2
  | _ => none

/-- pieces of `regex.split(string)`: `.inl text` / `.inr name`, alternating, text first;
    structural on the string with a skip counter for the characters of a match -/
def splitGo : Nat → Str → Str → List (Str ⊕ Str)
  | _, cur, [] => [.inl cur.reverse]
  | skip + 1, cur, _ :: cs => splitGo skip cur cs
  | 0, cur, c :: cs =>
      match readParam (c :: cs) with
      | some (name, len) => .inl cur.reverse :: .inr name :: splitGo (len - 1) [] cs
      | none => splitGo 0 (c :: cur) cs

def splitParams (s : Str) : List (Str ⊕ Str) := splitGo 0 [] s

def lookupValue (vs : List (Str × TEvent)) (k : Str) : Option TEvent :=
  match vs.find? (fun p => p.1 = k) with
  | some p => some p.2
  | none => none

/-- `yield_parts(string)` -/
def yieldParts (vs : List (Str × TEvent)) (s : Str) : Except Err (List TEvent) :=
  (splitParams s).foldlM (fun acc p =>
    match p with
    | .inl t => pure (if t.isEmpty then acc else acc ++ [.text (unescBrackets t)])
    | .inr n =>
      match lookupValue vs n with
      | some e => pure (acc ++ [e])
      | none => .error .keyError) []

/-- state of the generator `translate`: remaining groups per order, the open sub-stream, output -/
structure TrState where
  rem : Groups
  sub : Option (List TEvent)
  out : List TEvent
  badSub : Bool := false      -- a SUB event was emitted with `None` as its sub-stream

def TrState.emit (st : TrState) (es : List TEvent) : TrState :=
  match st.sub with
  | some s => { st with sub := some (s ++ es) }
  | none => { st with out := st.out ++ es }

def assocGet {β} (m : List (Nat × β)) (k : Nat) : Option β :=
  match m.find? (fun p => p.1 = k) with
  | some p => some p.2
  | none => none

/-- `if string: ...yield_parts(string)...; string = None` -/
def flushPending (vs : List (Str × TEvent)) (st : TrState) (pending : Option Str) : Except Err (TrState × Option Str) :=
  match pending with
  | some s =>
      if s.isEmpty then pure (st, pending)
      else do
        let ps ← yieldParts vs s
        pure (st.emit ps, none)
  | none => pure (st, none)

/-- the events of one group, for the part `(order, string)` -/
def runGroup (b : MB) (order : Nat) : List MEv → TrState → Option Str → Except Err (TrState × Option Str)
  | [], st, pending => pure (st, pending)
  | .subStart :: es, st, pending => runGroup b order es { st with sub := some [] } pending
  | .subEnd :: es, st, pending =>
      match assocGet b.subdirs order, st.sub with
      | some ds, some body => runGroup b order es { st with out := st.out ++ [.sub ds body], sub := none } pending
      | some ds, none => runGroup b order es { st with out := st.out ++ [.sub ds []], badSub := true } pending
      | none, _ => .error .keyError
  | .ev (.text _) :: es, st, pending => do
      let (st', p') ← flushPending b.values st pending
      runGroup b order es st' p'
  | .ev (.start t a) :: es, st, pending => do
      let (st', p') ← flushPending b.values (st.emit [.start t a]) pending
      runGroup b order es st' p'
  | .ev (.end_ t) :: es, st, pending => do
      let (st', p') ← flushPending b.values st pending
      runGroup b order es (st'.emit [.end_ t]) p'
  | .ev (.expr _ _) :: es, st, pending => runGroup b order es st pending
  | .ev e :: es, st, pending => do
      let (st', p') ← flushPending b.values st pending
      runGroup b order es (st'.emit [e]) p'

/-- one round of `while parts: order, string = parts.pop(0) ...` -/
def runPart (b : MB) (order : Nat) (s : Str) (st : TrState) : Except Err TrState :=
  match st.rem order with
  | none => .error .keyError
  | some gs =>
    let (g, rem') : List MEv × Groups :=
      match gs with
      | g :: more => (g, setGroups st.rem order more)
      | [] => ([.ev (.text [])], st.rem)
    do
      let (st1, pending) ← runGroup b order g { st with rem := rem' } (some s)
      -- (repaired code) a part none of whose events emitted the string
      let (st2, _) ← flushPending b.values st1 pending
      pure st2

def runParts (b : MB) : List (Nat × Str) → TrState → Except Err TrState
  | [], st => pure st
  | (order, s) :: ps, st => do
      let st' ← runPart b order s st
      runParts b ps st'

/-- `MessageBuffer.translate(string)` -/
def MB.translate (b : MB) (s : Str) : Except Err (List TEvent) := do
  let parts ← parseMsg s
  let st ← runParts b parts { rem := b.events, sub := none, out := [] }
  if st.badSub then .error .typeError else pure st.out

/-! ### MsgDirective.__call__ -/

def TEvent.isStart : TEvent → Bool
  | .start _ _ => true
  | _ => false

def TEvent.isEnd : TEvent → Bool
  | .end_ _ => true
  | _ => false

/-- the message buffer `MsgDirective.__call__` fills from its stream (as repaired: a missing
    first or second event ends the message), with the events it passes on before and after
    the translated content -/
def msgBuffer (params : List Str) : List TEvent → Except Err (MB × List TEvent × List TEvent)
  | [] => pure (MB.new params, [], [])
  | first :: rest => do
      let b0 ← if first.isStart then pure (MB.new params) else mbAppend (MB.new params) first
      let head := if first.isStart then [first] else []
      match rest.getLast? with
      | none => pure (b0, head, [])
      | some last => do
          let b1 ← mbAppendList b0 rest.dropLast
          let b2 ← if last.isEnd then pure b1 else mbAppend b1 last
          pure (b2, head, if last.isEnd then [last] else [])

/-- the message id `MsgDirective.__call__` looks up -/
def msgId (params : List Str) (s : List TEvent) : Except Err (Option Str) :=
  match s with
  | [] => pure none
  | _ => do
      let (b, _, _) ← msgBuffer params s
      pure (some b.format)

/-- the generator `_generate` of `MsgDirective.__call__`; `gt` is the catalogue function
    chosen from the context -/
def msgGenerate (params : List Str) (gt : Str → Str) (s : List TEvent) : Except Err (List TEvent) :=
  match s with
  | [] => pure []
  | _ => do
      let (b, head, tail) ← msgBuffer params s
      let tr ← b.translate (gt b.format)
      pure (head ++ tr ++ tail)

end Genshi.I18n

/-
  C16 / C15 — `TemplateLoader.load` with nested loads, sequentially (no threads, no stack):
  the callback of a load that parses performs the loads of the request's children
  (prepare-time inlining of includes re-enters `load` while the lock is held); a nested load
  that raises propagates out of the callback.  This is the serial specification of the
  interleaving model for programs with includes (`atomicLoad_eq_loadN`), and for a request
  without children it is C15's `load` (`loadN_flat`).  Import-free apart from the models.
-/
import Genshi.Model.Conc
namespace Genshi.Conc
open Genshi.Lru Genshi.Loader

/-- `self._lock.acquire()` (re-entrant: the depth grows) and `tmpl = self._cache[cachekey]` -/
def lookedUp (ls : LState) (key : Key) : LState :=
  let s0 : LState := { ls with lock := ls.lock + 1 }
  match alookup key s0.cache.items with
  | some _ => { s0 with cache := (astep s0.cache (.get key)).1 }
  | none => s0

/-- from the decision on: parse, callback (`cb` performs the nested loads; `false`: one of them
    raised), store, release -/
def finishLoad (c : CCfg) (s1 : LState) (r : Req) (key : Key) (pc : PC) (cb : LState → LState × Bool) :
    LState × Res :=
  match pc with
  | .found loc f u isabs =>
    if f.bad then ({ s1 with lock := s1.lock - 1 }, .err .syntaxError) else
    let t : Tmpl := ⟨s1.nextObj, loc, f.content, r.cls, r.enc, isabs⟩
    let s2 : LState := { s1 with nextObj := s1.nextObj + 1, parsed := t.obj :: s1.parsed }
    let s3 : LState := if c.cfg.hasCallback then { s2 with cbLog := t.obj :: s2.cbLog } else s2
    -- self.callback(tmpl): the nested loads
    let out := if c.cfg.hasCallback then cb s3 else (s3, true)
    if !out.2 then ({ out.1 with lock := out.1.lock - 1 }, .err .callback)
    else if c.cfg.hasCallback && r.cbRaise then ({ out.1 with lock := out.1.lock - 1 }, .err .callback)
    else
      ({ out.1 with cache := (astep out.1.cache (.set key t)).1, utd := utdSet out.1.utd key u,
                    lock := out.1.lock - 1 }, .ok t)
  | .done res => ({ s1 with lock := s1.lock - 1 }, res)
  | _ => ({ s1 with lock := s1.lock - 1 }, .err .notFound)     -- `decide` yields found / done only

mutual
  /-- one `load` call with the loads its callback performs -/
  def loadN (c : CCfg) (ls : LState) : CReq → LState × Res
    | .mk r key children =>
      finishLoad c (lookedUp ls key) r key
        (decide c (lookedUp ls key) (.mk r key children) (alookup key ls.cache.items))
        (fun s => callbackN c s children)
  /-- the nested loads of a callback, in order; `false`: one of them raised -/
  def callbackN (c : CCfg) (ls : LState) : List CReq → LState × Bool
    | [] => (ls, true)
    | ch :: rest =>
      match loadN c ls ch with
      | (ls', .ok _) => callbackN c ls' rest
      | (ls', .err _) => (ls', false)
end

/-- top-level loads one after the other, with the log of results -/
def seqLoadsN (c : CCfg) (ls : LState) (comp : List (Tid × Req × Res)) :
    List (Tid × CReq) → LState × List (Tid × Req × Res)
  | [] => (ls, comp)
  | (t, q) :: more =>
    let out := loadN c ls q
    seqLoadsN c out.1 (comp ++ [(t, q.r, out.2)]) more

end Genshi.Conc

/-
  C15 — `genshi.util.LRUCache`, statement by statement, over an explicit heap of
  `_Item` nodes, and the abstract bounded-LRU map (capacity + recency list) it is
  proved to refine (`Genshi/Lemmas/Lru.lean`, `Genshi/Props/C15.lean`).

  Python objects are node identities `Id`; `None` is `none`.  Dereferencing `None`
  (an `AttributeError` in Python) and `del d[k]` of a missing key make an operation
  return `none` ("crash"); the theorems show this never happens from a well-formed
  cache.  `KeyError` of `__getitem__` on a missing key is a regular output.
  Import-free (linked into `gdrv`).
-/
namespace Genshi.Lru

abbrev Id := Nat

/-- `LRUCache._Item` -/
structure Node (K V : Type) where
  prv : Option Id
  nxt : Option Id
  key : K
  val : V

/-- the state of an `LRUCache` object: the `_Item`s it ever created (`heap`, `fresh` is the
    next unused identity), `_dict` (the mapping together with its `len`), `capacity`,
    `head`, `tail` -/
structure CLru (K V : Type) where
  heap : Id → Node K V
  fresh : Id
  dict : K → Option Id
  size : Nat
  cap : Nat
  head : Option Id
  tail : Option Id

variable {K V : Type} [DecidableEq K]

def setPrv (h : Id → Node K V) (i : Id) (p : Option Id) : Id → Node K V :=
  fun j => if j = i then { h i with prv := p } else h j
def setNxt (h : Id → Node K V) (i : Id) (n : Option Id) : Id → Node K V :=
  fun j => if j = i then { h i with nxt := n } else h j
def setVal (h : Id → Node K V) (i : Id) (v : V) : Id → Node K V :=
  fun j => if j = i then { h i with val := v } else h j
def setNode (h : Id → Node K V) (i : Id) (n : Node K V) : Id → Node K V :=
  fun j => if j = i then n else h j

def dictSet (d : K → Option Id) (k : K) (i : Id) : K → Option Id :=
  fun k' => if k' = k then some i else d k'
def dictDel (d : K → Option Id) (k : K) : K → Option Id :=
  fun k' => if k' = k then none else d k'

/-- `LRUCache(capacity)`; `dflt` only fills the never-read cells of the heap -/
def empty (cap : Nat) (dflt : Node K V) : CLru K V :=
  { heap := fun _ => dflt, fresh := 0, dict := fun _ => none, size := 0, cap := cap,
    head := none, tail := none }

/-- one iteration of the loop body of `_manage_size`:
    ```
    del self._dict[self.tail.key]
    if self.tail != self.head:
        self.tail = self.tail.prv
        self.tail.nxt = None
    else:
        self.head = self.tail = None
    ``` -/
def evictOne (c : CLru K V) : Option (CLru K V) :=
  match c.tail with
  | none => none                                   -- None.key
  | some t =>
    let k := (c.heap t).key
    match c.dict k with
    | none => none                                 -- KeyError from `del`
    | some _ =>
      let c1 := { c with dict := dictDel c.dict k, size := c.size - 1 }
      if c1.tail ≠ c1.head then
        match (c1.heap t).prv with
        | none => none                             -- self.tail = None; None.nxt = None
        | some p => some { c1 with tail := some p, heap := setNxt c1.heap p none }
      else
        some { c1 with head := none, tail := none }

/-- `_manage_size`: `while len(self._dict) > self.capacity: …` (fuel: the loop removes one
    dictionary entry per iteration, so `size` iterations always suffice) -/
def manageSizeLoop : Nat → CLru K V → Option (CLru K V)
  | 0, c => if c.size > c.cap then none else some c
  | n + 1, c => if c.size > c.cap then (evictOne c).bind (manageSizeLoop n) else some c

def manageSize (c : CLru K V) : Option (CLru K V) := manageSizeLoop c.size c

/-- `_insert_item(item)`:
    ```
    item.prv = None
    item.nxt = self.head
    if self.head is not None: self.head.prv = item
    else: self.tail = item
    self.head = item
    self._manage_size()
    ``` -/
def linkFront (c : CLru K V) (i : Id) : CLru K V :=
  let h1 := setPrv c.heap i none
  let h2 := setNxt h1 i c.head
  match c.head with
  | some hd => { c with heap := setPrv h2 hd (some i), head := some i }
  | none => { c with heap := h2, tail := some i, head := some i }

def insertItem (c : CLru K V) (i : Id) : Option (CLru K V) := manageSize (linkFront c i)

/-- `_update_item(item)`:
    ```
    if self.head == item: return
    prv = item.prv
    prv.nxt = item.nxt
    if item.nxt is not None: item.nxt.prv = prv
    else: self.tail = prv
    item.prv = None
    item.nxt = self.head
    self.head.prv = self.head = item
    ``` -/
def updateItem (c : CLru K V) (i : Id) : Option (CLru K V) :=
  if c.head = some i then some c else
  match (c.heap i).prv with
  | none => none                                   -- None.nxt = …
  | some p =>
    let h1 := setNxt c.heap p (c.heap i).nxt
    let (h2, tail2) : (Id → Node K V) × Option Id :=
      match (h1 i).nxt with
      | some n => (setPrv h1 n (some p), c.tail)
      | none => (h1, some p)
    let h3 := setPrv h2 i none
    let h4 := setNxt h3 i c.head
    match c.head with
    | none => none                                 -- None.prv = item
    | some hd => some { c with heap := setPrv h4 hd (some i), head := some i, tail := tail2 }

/-- `__getitem__(key)`: `item = self._dict[key]; self._update_item(item); return item.value`;
    the outer `none` is a crash, the inner one the `KeyError` -/
def getItem (c : CLru K V) (k : K) : Option (CLru K V × Option V) :=
  match c.dict k with
  | none => some (c, none)
  | some i => (updateItem c i).map fun c' => (c', some (c'.heap i).val)

/-- `__setitem__(key, value)`:
    ```
    item = self._dict.get(key)
    if item is None:
        item = self._Item(key, value)
        self._dict[key] = item
        self._insert_item(item)
    else:
        item.value = value
        self._update_item(item)
        self._manage_size()
    ``` -/
def setItem (c : CLru K V) (k : K) (v : V) : Option (CLru K V) :=
  match c.dict k with
  | none =>
    let i := c.fresh
    let c1 := { c with heap := setNode c.heap i ⟨none, none, k, v⟩, fresh := i + 1,
                       dict := dictSet c.dict k i, size := c.size + 1 }
    insertItem c1 i
  | some i =>
    let c1 := { c with heap := setVal c.heap i v }
    (updateItem c1 i).bind manageSize

def contains (c : CLru K V) (k : K) : Bool := (c.dict k).isSome

def len (c : CLru K V) : Nat := c.size

/-- follow `nxt` from `cur`; `none` when the fuel runs out (Python would not terminate on a
    cyclic list) -/
def walkNxt (h : Id → Node K V) : Nat → Option Id → Option (List Id)
  | _, none => some []
  | 0, some _ => none
  | n + 1, some i => (walkNxt h n (h i).nxt).map (i :: ·)

/-- follow `prv` from `cur` -/
def walkPrv (h : Id → Node K V) : Nat → Option Id → Option (List Id)
  | _, none => some []
  | 0, some _ => none
  | n + 1, some i => (walkPrv h n (h i).prv).map (i :: ·)

/-- the nodes from `head` along `nxt` (at most `size` of them are expected) -/
def toIds (c : CLru K V) : Option (List Id) := walkNxt c.heap (c.size + 1) c.head

/-- `__iter__`: `cur = self.head; while cur: yield cur.key; cur = cur.nxt` -/
def iter (c : CLru K V) : Option (List K) := (toIds c).map fun ids => ids.map fun i => (c.heap i).key

/-- the methods `LRUCache` inherits from `dict` without overriding them (`get`, `keys`, `pop`,
    `__delitem__`, …) act on the base `dict` object, which the class never writes to (it keeps
    its entries in `self._dict`): `cache.get(k)` is always `None` (known finding
    C15-inherited-dict) -/
def inheritedGet (_c : CLru K V) (_k : K) : Option V := none

/-! ### operations and outputs (the overridden interface of the class) -/

inductive Op (K V : Type) where
  | get (k : K)
  | set (k : K) (v : V)
  | contains (k : K)
  | len
  | iter
  deriving DecidableEq, Repr

inductive Out (K V : Type) where
  | val (v : V)
  | keyError
  | unit
  | bool (b : Bool)
  | nat (n : Nat)
  | keys (ks : List K)
  deriving DecidableEq, Repr

def cstep (c : CLru K V) : Op K V → Option (CLru K V × Out K V)
  | .get k => (getItem c k).map fun (c', r) =>
      (c', match r with | some v => .val v | none => .keyError)
  | .set k v => (setItem c k v).map fun c' => (c', .unit)
  | .contains k => some (c, .bool (contains c k))
  | .len => some (c, .nat (len c))
  | .iter => (iter c).map fun ks => (c, .keys ks)

/-- run a sequence of operations, collecting the outputs -/
def crun (c : CLru K V) : List (Op K V) → Option (CLru K V × List (Out K V))
  | [] => some (c, [])
  | op :: ops =>
    match cstep c op with
    | none => none
    | some (c', o) => (crun c' ops).map fun (c'', os) => (c'', o :: os)

/-! ### the abstract bounded LRU map: capacity + recency list (most recent first) -/

structure ALru (K V : Type) where
  cap : Nat
  items : List (K × V)
  deriving DecidableEq, Repr

def alookup (k : K) : List (K × V) → Option V
  | [] => none
  | (k', v) :: rest => if k' = k then some v else alookup k rest

def aerase (k : K) (l : List (K × V)) : List (K × V) := l.filter fun p => p.1 ≠ k

def aempty (cap : Nat) : ALru K V := ⟨cap, []⟩

def astep (a : ALru K V) : Op K V → ALru K V × Out K V
  | .get k =>
    match alookup k a.items with
    | none => (a, .keyError)
    | some v => ({ a with items := (k, v) :: aerase k a.items }, .val v)
  | .set k v => ({ a with items := ((k, v) :: aerase k a.items).take a.cap }, .unit)
  | .contains k => (a, .bool (alookup k a.items).isSome)
  | .len => (a, .nat a.items.length)
  | .iter => (a, .keys (a.items.map (·.1)))

def arun (a : ALru K V) : List (Op K V) → ALru K V × List (Out K V)
  | [] => (a, [])
  | op :: ops =>
    let (a', o) := astep a op
    let (a'', os) := arun a' ops
    (a'', o :: os)

/-- the abstraction function: what the concrete structure represents (`none` if the
    forward walk does not end) -/
def abs (c : CLru K V) : Option (ALru K V) :=
  (toIds c).map fun ids => ⟨c.cap, ids.map fun i => ((c.heap i).key, (c.heap i).val)⟩

/-! ### executable well-formedness check (used by the driver and by the C16 witnesses) -/

/-- forward walk = reverse of backward walk, no node twice, all nodes were created by this
    cache, `_dict` maps exactly the keys of the walked nodes to them, `len(_dict)` is the number
    of nodes.  `keys` is the key universe the dictionary is probed on. -/
def wfCheck (c : CLru K V) (keys : List K) : Bool :=
  match walkNxt c.heap (c.size + 1) c.head, walkPrv c.heap (c.size + 1) c.tail with
  | some f, some b =>
    f == b.reverse && f.length == c.size && decide f.Nodup && f.all (fun i => decide (i < c.fresh)) &&
    f.all (fun i => c.dict (c.heap i).key == some i) &&
    keys.all (fun k => match c.dict k with
      | none => true
      | some i => f.contains i && decide ((c.heap i).key = k))
  | _, _ => false

end Genshi.Lru

/-
  C14 — include-graph model: a file system of template files (items: literal text, expression,
  code block, include), a loader with its flag, reload mode and cache, and the rendering of a
  root template over an arbitrary — possibly cyclic — include graph, after any history of
  earlier loads through the same loader.

  Code mirrored:
    loader.py   TemplateLoader.load (cache keyed by file name only; a failed parse is not cached),
                _instantiate (the loader's flag, `loader=self`)
    base.py     Template.generate/_include (run-time include: load, then generate),
                Template._prepare (auto_reload off: static includes are loaded at prepare time,
                cut at templates already on the inlining stack; dynamic hrefs stay run-time),
                Template._flatten (EXEC events run unconditionally: the only guard is in _parse)
    markup.py / text.py  _parse: a code block raises TemplateSyntaxError when allow_exec is off;
                old-style text templates have no code-block syntax (`#python` is a bad directive)

  Abstraction: a template source is its sequence of items; parsing keeps the items (a code item
  becomes an EXEC event); rendering a code item `code id mult` appends `id` to the sentinel
  `mult` times (0 under a false condition, 2 in a two-round loop).  The LRU bound of the cache
  is not modelled (fewer files than the bound; C15 is about the bound).
-/
import Genshi.Model.Exec
namespace Genshi.Exec
open Genshi.Gen.Exec

inductive Item
  | text (id : Nat)
  | expr (id : Nat)
  | code (id : Nat) (mult : Nat)
  | incl (name : Nat) (p : Parse) (dyn : Bool)
  deriving DecidableEq, Repr

structure File where
  /-- the template language the file is written in -/
  syn : Cls
  items : List Item
  deriving DecidableEq, Repr

abbrev FS := List (Nat × File)

/-- a parsed template object -/
structure Tmpl where
  name : Nat
  cls : Cls
  items : List Item
  /-- the hrefs of this template's includes are absolute paths (only the string template of a
      plugin, which has no file name to be relative to) -/
  absHrefs : Bool := false
  deriving DecidableEq, Repr

inductive Err
  | syntax (file : Nat)      -- TemplateSyntaxError raised while parsing that file
  | notFound (file : Nat)    -- TemplateNotFound
  | diverge                  -- include recursion without end (RecursionError)
  | config                   -- ConfigurationError (plugin option)
  | unmodelled               -- a file parsed as a class it is not written for, missing table entry
  deriving DecidableEq, Repr

def Item.isCode : Item → Bool
  | .code _ _ => true
  | _ => false

def noCode (items : List Item) : Bool := items.all fun it => !it.isCode

/-- `_parse` with the flag: markup and new-style text templates reject the first code block when
    the flag is off; old-style text templates reject `#python` always -/
def parseFile (c : Cls) (flag : Bool) (name : Nat) (f : File) : Except Err Tmpl :=
  if f.syn ≠ c then
    -- a text-syntax source handed to the markup class is not well-formed XML (ParseError,
    -- re-raised as TemplateSyntaxError); the other mix-ups are not modelled
    if c = .markup then .error (.syntax name) else .error .unmodelled
  else if noCode f.items then .ok ⟨name, c, f.items, false⟩
  else match c with
    | .oldtext => .error (.syntax name)
    | _ => if flag then .ok ⟨name, c, f.items, false⟩ else .error (.syntax name)

/-- class an include asks for: `{'xml': MarkupTemplate, 'text': NewTextTemplate}.get(parse) or
    self.__class__`; text templates: `cls or self.__class__` with `cls = None` -/
def childCls : Cls → Parse → Cls
  | .markup, .text => .newtext
  | .markup, _ => .markup
  | c, _ => c

structure St where
  /-- `loader.allow_exec` -/
  flag : Bool
  /-- `loader.auto_reload` -/
  autoReload : Bool
  /-- `loader._cache`, keyed by the file name *as requested* (second component: requested by
      absolute path — the same file can sit in the cache under both keys) -/
  cache : List ((Nat × Bool) × Tmpl)
  /-- the sentinel list in the context data -/
  sentinel : List Nat
  /-- ids of the text / expression items written so far -/
  out : List Nat
  deriving DecidableEq, Repr

abbrev Res := St × Option Err

/-- `TemplateLoader.load(name, cls=c)` -/
def load (fs : FS) (st : St) (name : Nat) (c : Cls) (abs : Bool := false) : Except Err (St × Tmpl) :=
  match st.cache.lookup (name, abs) with
  | some t => .ok (st, t)
  | none =>
      match fs.lookup name with
      | none => .error (.notFound name)
      | some f =>
          match parseFile c st.flag name f with
          | .error e => .error e
          | .ok t => .ok ({ st with cache := ((name, abs), t) :: st.cache }, t)

/-- `_prepare` with `auto_reload` off: every static include is loaded now (first failure wins),
    and its own static includes in turn unless it is already on the inlining stack -/
def preload : Nat → FS → List Nat → Tmpl → St → Res
  | 0, _, _, _, st => (st, some .diverge)
  | fuel + 1, fs, stack, t, st =>
      t.items.foldl (fun (acc : Res) it =>
        match acc with
        | (st, some e) => (st, some e)
        | (st, none) =>
            match it with
            | .incl n p false =>
                match load fs st n (childCls t.cls p) t.absHrefs with
                | .error e => (st, some e)
                | .ok (st', t') =>
                    if stack.contains t'.name then (st', none)
                    else preload fuel fs (t'.name :: stack) t' st'
            | _ => (st, none)) (st, none)

/-- class a run-time INCLUDE event resolves to.  Markup templates store the class in the event
    (`{'xml': …, 'text': …}.get(parse) or self.__class__`); text templates store `None`, and
    `Template._prepare` of the **writing** template fills in `cls or self.__class__` (genshi fix
    37ed34d: before it, `_include` substituted the class of the template whose filter saw the event,
    i.e. the markup class once a text template had been inlined into a markup template).  `host` is
    kept as a parameter to document that it no longer matters. -/
def inclCls (writer : Cls) (p : Parse) (_host : Cls) : Cls := childCls writer p

/-- `generate()` of a template and the consumption of its stream.  `prep`: this is a fresh
    `generate()` (so `_prepare` runs first when `auto_reload` is off), `host`: class of the
    template whose `generate()` is running, `stack`: the inlining stack.
    With `auto_reload` off a static include that is not on the stack has been spliced into the
    host's stream (its items are rendered in place, by the same host); every other include is a
    run-time include: load through the loader, then `generate()` of the included template. -/
def gen : Nat → Nat → FS → Bool → Cls → List Nat → Tmpl → St → Res
  | 0, _, _, _, _, _, _, st => (st, some .diverge)
  | fuel + 1, pf, fs, prep, host, stack, t, st =>
      let start : Res := if prep && !st.autoReload then preload pf fs stack t st else (st, none)
      t.items.foldl (fun (acc : Res) it =>
        match acc with
        | (st, some e) => (st, some e)
        | (st, none) =>
            match it with
            | .text i => ({ st with out := st.out ++ [i] }, none)
            | .expr i => ({ st with out := st.out ++ [i] }, none)
            | .code i m => ({ st with sentinel := st.sentinel ++ List.replicate m i }, none)
            | .incl n p dyn =>
                if !st.autoReload && !dyn && !stack.contains n then
                  match load fs st n (childCls t.cls p) t.absHrefs with
                  | .error e => (st, some e)
                  | .ok (st', t') => gen fuel pf fs false host (n :: stack) t' st'
                else
                  match load fs st n (inclCls t.cls p host) t.absHrefs with
                  | .error e => (st, some e)
                  | .ok (st', t') => gen fuel pf fs true t'.cls [t'.name] t' st') start

/-! ### bringing the root into existence -/

/-- the loader a root works with, the root template object (when it could be made) and the
    inlining stack its `_prepare` starts with -/
structure Setup where
  st : St
  root : Except Err Tmpl
  stack : List Nat
  deriving Repr

def st0 (flag ar : Bool) : St := ⟨flag, ar, [], [], []⟩

/-- the loader the root works with (an explicit `TemplateLoader`, the plugin's loader, or — for a
    template given none — the one it will make for itself), or the configuration error -/
def mkLoader (cfg : Config) : Root → Except Err St
  | .direct c s own =>
      let ld := if own then none else some cfg.loader
      match directLoaderFlag c s cfg.tmpl ld with
      | some lf => .ok (st0 lf (if own then false else cfg.autoReload))
      | none => .error .unmodelled
  | .load c d =>
      match loaderFlag c d cfg.loader with
      | some lf => .ok (st0 lf cfg.autoReload)
      | none => .error .unmodelled
  | .pluginFile _ | .pluginString _ =>
      match parseOpt cfg.opt with
      | .allow => .ok (st0 true cfg.autoReload)
      | .deny => .ok (st0 false cfg.autoReload)
      | .confError => .error .config
      | .failed => .error .unmodelled

/-- the root template: `(state after, template, inlining stack, state the root's includes use)`.
    A directly constructed template is not in the loader's cache; one that makes its own loader
    (no loader passed; plugin string templates) works with a fresh loader of its own. -/
def mkRoot (cfg : Config) (fs : FS) (rootName : Nat) (st : St) : Root → Except Err (St × Tmpl × List Nat)
  | .direct c s own =>
      let ld := if own then none else some cfg.loader
      match directFlag c s cfg.tmpl ld, fs.lookup rootName with
      | some tf, some f =>
          match parseFile c tf rootName f with
          | .ok t => .ok (st, t, [rootName])
          | .error e => .error e
      | _, _ => .error .unmodelled
  | .load c _ =>
      match load fs st rootName c with
      | .ok (st', t) => .ok (st', t, [rootName])
      | .error e => .error e
  | .pluginFile p =>
      match pluginCls p with
      | some c =>
          match load fs st rootName c with
          | .ok (st', t) => .ok (st', t, [rootName])
          | .error e => .error e
      | none => .error .unmodelled
  | .pluginString p =>
      match pluginCls p, pluginByFlag p st.flag, fs.lookup rootName with
      | some c, some row, some f =>
          match row.strF, row.strLF with
          | some tf, some lf =>
              match parseFile c tf rootName f with
              -- no file path: nothing is on the inlining stack; the template's own loader
              | .ok t => .ok ({ st0 lf false with sentinel := st.sentinel }, { t with absHrefs := true }, [])
              | .error e => .error e
          | _, _ => .error .unmodelled
      | _, _, _ => .error .unmodelled

/-- one earlier load-and-render through the same loader; its failure does not stop the history -/
def histStep (fuel pf : Nat) (fs : FS) (st : St) (name : Nat) : St × Option Err :=
  match fs.lookup name with
  | none => (st, some (.notFound name))
  | some f =>
      match load fs st name f.syn with
      | .error e => (st, some e)
      | .ok (st', t) =>
          let r := gen fuel pf fs true t.cls [name] t { st' with out := [] }
          ({ r.1 with out := [] }, r.2)

def runHistory (fuel pf : Nat) (fs : FS) : St → List Nat → St × List (Option Err)
  | st, [] => (st, [])
  | st, n :: ns =>
      let r := histStep fuel pf fs st n
      let rest := runHistory fuel pf fs r.1 ns
      (rest.1, r.2 :: rest.2)

structure Outcome where
  err : Option Err
  sentinel : List Nat
  out : List Nat
  history : List (Option Err)
  deriving DecidableEq, Repr

/-- does the history run through the loader the root uses?  (a template that makes its own
    loader shares it with nothing) -/
def Root.usesLoader : Root → Bool
  | .direct _ _ own => !own
  | .pluginString _ => false
  | _ => true

def afterHistory (fuel pf : Nat) (fs : FS) (root : Root) (st : St) (history : List Nat) :
    St × List (Option Err) :=
  if root.usesLoader then runHistory fuel pf fs st history else (st, [])

/-- bring the root into existence and render it -/
def finish (fuel pf : Nat) (cfg : Config) (root : Root) (fs : FS) (rootName : Nat)
    (h : St × List (Option Err)) : Outcome :=
  match mkRoot cfg fs rootName h.1 root with
  | .error e => ⟨some e, h.1.sentinel, [], h.2⟩
  | .ok (st', t, stack) =>
      let r := gen fuel pf fs true t.cls stack t st'
      ⟨r.2, r.1.sentinel, r.1.out, h.2⟩

/-- the whole experiment: make the loader, run the history through it, bring the root into
    existence, render it -/
def run (fuel pf : Nat) (cfg : Config) (root : Root) (fs : FS) (rootName : Nat) (history : List Nat) : Outcome :=
  match mkLoader cfg root with
  | .error e => ⟨some e, [], [], []⟩
  | .ok st => finish fuel pf cfg root fs rootName (afterHistory fuel pf fs root st history)

end Genshi.Exec

/-
  C09 — model of `WhitespaceFilter` (genshi/output.py, after repair ad5816e:
  CDATA state is a flag of its own and html passes `cdata=False`).

  The two regular expressions are re-implemented as list functions:
    trim      = re.compile('[ \t]+(?=\n)').sub('', ·)
    collapse  = re.compile('\n{2,}').sub('\n', ·)
-/
import Genshi.Model.Output
namespace Genshi.Output
open Genshi Genshi.Escape

def isBlank (c : Char) : Bool := c == ' ' || c == '\t'

/-- `[ \t]+(?=\n)` deleted: `pend` holds the blanks seen since the last other
    character; they are dropped when a line feed follows and kept otherwise. -/
def trimGo : Str → Str → Str
  | pend, [] => pend
  | pend, c :: cs =>
      if isBlank c then trimGo (pend ++ [c]) cs
      else if c == '\n' then '\n' :: trimGo [] cs
      else pend ++ c :: trimGo [] cs

def trim (s : Str) : Str := trimGo [] s

/-- `\n{2,}` ↦ `\n`: a line feed directly after a line feed is dropped -/
def collapseGo : Bool → Str → Str
  | _, [] => []
  | afterNl, c :: cs =>
      if c == '\n' then (if afterNl then collapseGo true cs else '\n' :: collapseGo true cs)
      else c :: collapseGo false cs

def collapse (s : Str) : Str := collapseGo false s

/-- `collapse_lines('\n', trim_trailing_space('', text))` -/
def wsNorm (s : Str) : Str := collapse (trim s)

def xmlSpaceQ : QName := ⟨['h', 't', 't', 'p', ':', '/', '/', 'w', 'w', 'w', '.', 'w', '3', '.', 'o', 'r', 'g', '/',
  'X', 'M', 'L', '/', '1', '9', '9', '8', '/', 'n', 'a', 'm', 'e', 's', 'p', 'a', 'c', 'e'], ['s', 'p', 'a', 'c', 'e']⟩

def preserveLit : Str := ['p', 'r', 'e', 's', 'e', 'r', 'v', 'e']

/-- `attrs.get(name)`: the value of the first attribute whose name has that string value -/
def attrGet (a : AttrList) (n : QName) : Option Str :=
  match a with
  | [] => none
  | (k, v) :: rest => if k.text == n.text then some v else attrGet rest n

/-- the constructor arguments of the filter -/
structure WsCfg where
  preserve : List (Str × Str)
  noescape : List (Str × Str)
  cdata : Bool

/-- what each serializer passes to `WhitespaceFilter(...)` -/
def wsCfg : Method → WsCfg
  | .xml => ⟨preserveElems .xml, [], true⟩
  | .xhtml => ⟨preserveElems .xhtml, [], true⟩
  | .html => ⟨preserveElems .html, noescapeElems .html, false⟩

structure WsSt where
  preserve : Nat := 0
  noescape : Bool := false
  inCdata : Bool := false
  textbuf : List (Str × Bool) := []      -- (data, is Markup)
  deriving Repr

/-- what the filter does to a merged text run: trimmed and collapsed unless inside preserved space -/
def stdNorm (preserved : Bool) (text : Str) : Str := if preserved then text else wsNorm text

/-- the pending text as one Markup TEXT event (nothing when the buffer is empty):
    every non-Markup piece is escaped (quotes untouched), the pieces are joined, and the result goes
    through `norm` (the real filter: `stdNorm`; the parameter exists so that theorems can compare
    with the filter that only merges) -/
def wsFlushG (norm : Bool → Str → Str) (st : WsSt) : List QEv :=
  if st.textbuf.isEmpty then []
  else
    let text := st.textbuf.flatMap fun p => if p.2 then p.1 else escapePy false p.1
    [.text (norm (st.preserve != 0) text) true]

/-- the state changes of the non-TEXT branch -/
def wsUpdate (cfg : WsCfg) (st : WsSt) : QEv → WsSt
  | .start t a =>
      let st := if st.preserve != 0 || qInTable cfg.preserve t || attrGet a xmlSpaceQ == some preserveLit
                then { st with preserve := st.preserve + 1 } else st
      if !st.noescape && qInTable cfg.noescape t then { st with noescape := true } else st
  | .end_ _ =>
      { st with noescape := false, preserve := if st.preserve != 0 then st.preserve - 1 else 0 }
  | .startCdata => { st with inCdata := cfg.cdata }
  | .endCdata => { st with inCdata := false }
  | _ => st

/-- `WhitespaceFilter.__call__` with the text normalisation as a parameter; the end of the list is
    the `(None, None, None)` sentinel -/
def wsFilterG (norm : Bool → Str → Str) (cfg : WsCfg) : WsSt → List QEv → List QEv
  | st, [] => wsFlushG norm st
  | st, .text s safe :: rest =>
      wsFilterG norm cfg { st with textbuf := st.textbuf ++ [(s, safe || st.noescape || st.inCdata)] } rest
  | st, ev :: rest =>
      wsFlushG norm st ++ ev :: wsFilterG norm cfg (wsUpdate cfg { st with textbuf := [] } ev) rest

/-- `WhitespaceFilter.__call__` -/
def wsFilter (cfg : WsCfg) (st : WsSt) (es : List QEv) : List QEv := wsFilterG stdNorm cfg st es

end Genshi.Output

/-
  C04 — text templates end to end from their source text: the character-level scanners
  (`Model/TmplScan.lean`: directive / comment / escape scanners, `interpolate` over `lex` of
  `Model/PyLex.lean`) composed with a reader of the mini expression language and of the directive
  arguments, feeding the token loop `textParse`, `_prepare` and `run` that the C04 theorems are
  about.  `genshi.template.eval` itself is not modelled: a source outside the mini language
  answers `unmodelled`.

  No Mathlib: linked into `gdrv`.
-/
import Genshi.Model.TmplScan
import Genshi.Model.TmplText
import Genshi.Model.TmplImpl
namespace Genshi.Tmpl.Raw
open Genshi.Tmpl.Scan (RTok OTok SEv PErr)

/-! ### tokens of the mini language -/

inductive MTok where
  | name (s : Str)
  | int (n : Nat)
  | str (s : Str)
  | sym (c : Char)
  | eqeq
  deriving DecidableEq, Repr, Inhabited

def isDigit (c : Char) : Bool := '0' ≤ c && c ≤ '9'
def isIdStart (c : Char) : Bool := ('a' ≤ c && c ≤ 'z') || ('A' ≤ c && c ≤ 'Z') || c = '_'
def isIdChar (c : Char) : Bool := isIdStart c || isDigit c
def isWs (c : Char) : Bool := c = ' ' || c = '\t' || c = '\n' || c = '\r'

def natOf (ds : Str) : Nat := ds.foldl (fun n c => 10 * n + (c.toNat - 48)) 0

def tokGo : Nat → Str → List MTok → Option (List MTok)
  | 0, _, _ => none
  | _ + 1, [], acc => some acc.reverse
  | f + 1, c :: r, acc =>
      if isWs c then tokGo f r acc
      else if isIdStart c then
        tokGo f (r.dropWhile isIdChar) (.name (c :: r.takeWhile isIdChar) :: acc)
      else if isDigit c then
        tokGo f (r.dropWhile isDigit) (.int (natOf (c :: r.takeWhile isDigit)) :: acc)
      else if c = '\'' then
        let body := r.takeWhile (fun d => d != '\'')
        match r.dropWhile (fun d => d != '\'') with
        | _ :: r' => if body.contains '\\' || body.contains '\n' then none else tokGo f r' (.str body :: acc)
        | [] => none
      else if c = '=' then
        match r with
        | '=' :: r' => tokGo f r' (.eqeq :: acc)
        | _ => tokGo f r (.sym '=' :: acc)
      else if ['(', ')', '[', ']', '{', '}', ',', ':', ';', '-'].contains c then tokGo f r (.sym c :: acc)
      else none

def tokenize (s : Str) : Option (List MTok) := tokGo (s.length + 1) s []

/-! ### reader -/

def pAtom : List MTok → Option (Atom × List MTok)
  | .name ['N', 'o', 'n', 'e'] :: r => some (.none, r)
  | .name ['T', 'r', 'u', 'e'] :: r => some (.bool true, r)
  | .name ['F', 'a', 'l', 's', 'e'] :: r => some (.bool false, r)
  | .int n :: r => some (.int n, r)
  | .sym '(' :: .sym '-' :: .int n :: .sym ')' :: r => some (.int (-(n : Int)), r)
  | .str s :: r => some (.str s, r)
  | _ => none

/-- `a, b, c]` -/
def pAtoms : Nat → List MTok → Option (List Atom × List MTok)
  | 0, _ => none
  | f + 1, toks =>
      match pAtom toks with
      | some (a, .sym ',' :: r) =>
          match pAtoms f r with
          | some (as, r') => some (a :: as, r')
          | none => none
      | some (a, .sym ']' :: r) => some ([a], r)
      | _ => none

/-- `'k': a, 'j': b}` -/
def pPairs : Nat → List MTok → Option (List (Str × Atom) × List MTok)
  | 0, _ => none
  | f + 1, .str k :: .sym ':' :: toks =>
      match pAtom toks with
      | some (a, .sym ',' :: r) =>
          match pPairs f r with
          | some (kv, r') => some ((k, a) :: kv, r')
          | none => none
      | some (a, .sym '}' :: r) => some ([(k, a)], r)
      | _ => none
  | _ + 1, _ => none

def kwLen : Str := ['l', 'e', 'n']
def kwNot : Str := ['n', 'o', 't']
def kwIn : Str := ['i', 'n']

def mkVar (strict : Bool) (n : Str) : Expr := if strict then .svar n else .var n
def mkIx (strict : Bool) (a i : Expr) : Expr := if strict then .six a i else .ix a i

mutual
  def pExpr : Nat → Bool → List MTok → Option (Expr × List MTok)
    | 0, _, _ => none
    | f + 1, st, toks =>
        match pPrimary f st toks with
        | some (e, rest) => pPostfix f st e rest
        | none => none
  def pPostfix : Nat → Bool → Expr → List MTok → Option (Expr × List MTok)
    | 0, _, _, _ => none
    | f + 1, st, e, .sym '[' :: r =>
        match pExpr f st r with
        | some (i, .sym ']' :: r') => pPostfix f st (mkIx st e i) r'
        | _ => none
    | _ + 1, _, e, toks => some (e, toks)
  def pPrimary : Nat → Bool → List MTok → Option (Expr × List MTok)
    | 0, _, _ => none
    | f + 1, st, .name n :: .sym '(' :: r =>
        if n = kwLen then
          match pExpr f st r with
          | some (e, .sym ')' :: r') => some (.len e, r')
          | _ => none
        else none
    | _ + 1, st, .name n :: r =>
        match pAtom [.name n] with
        | some (a, _) => some (.lit (.atom a), r)
        | none => if n = kwNot || n = kwIn || n = kwLen then none else some (mkVar st n, r)
    | f + 1, st, .sym '(' :: .name n :: r =>
        if n = kwNot then
          match pExpr f st r with
          | some (e, .sym ')' :: r') => some (.not e, r')
          | _ => none
        else
          match pExpr f st (.name n :: r) with
          | some (a, .eqeq :: r1) =>
              match pExpr f st r1 with
              | some (b, .sym ')' :: r2) => some (.eq a b, r2)
              | _ => none
          | _ => none
    | f + 1, st, .sym '(' :: .sym '-' :: r =>
        match pAtom (.sym '(' :: .sym '-' :: r) with
        | some (a, r') => some (.lit (.atom a), r')
        | none => none
    | f + 1, st, .sym '(' :: r =>
        match pExpr f st r with
        | some (a, .eqeq :: r1) =>
            match pExpr f st r1 with
            | some (b, .sym ')' :: r2) => some (.eq a b, r2)
            | _ => none
        | _ => none
    | _ + 1, _, .sym '[' :: .sym ']' :: r => some (.lit (.list []), r)
    | f + 1, _, .sym '[' :: r =>
        match pAtoms f r with
        | some (as, r') => some (.lit (.list as), r')
        | none => none
    | _ + 1, _, .sym '{' :: .sym '}' :: r => some (.lit (.dict []), r)
    | f + 1, _, .sym '{' :: r =>
        match pPairs f r with
        | some (kv, r') => some (.lit (.dict kv), r')
        | none => none
    | _ + 1, _, toks =>
        match pAtom toks with
        | some (a, r) => some (.lit (.atom a), r)
        | none => none
end

def readExprToks (strict : Bool) (toks : List MTok) : Option Expr :=
  match pExpr (2 * toks.length + 2) strict toks with
  | some (e, []) => some e
  | _ => none

def readExpr (strict : Bool) (s : Str) : Option Expr := do
  let toks ← tokenize s
  readExprToks strict toks

/-- `e, e, k=e)` at the end of the source: positional arguments, then keyword arguments
    (`kw`: a keyword argument was seen — a positional one behind it is a syntax error) -/
def pArgs : Nat → Bool → Bool → List MTok → Option (List Arg)
  | 0, _, _, _ => none
  | f + 1, st, _, .name k :: .sym '=' :: toks =>
      match pExpr (2 * toks.length + 2) st toks with
      | some (e, [.sym ')']) => some [(some k, e)]
      | some (e, .sym ',' :: r) =>
          match pArgs f st true r with
          | some es => some ((some k, e) :: es)
          | none => none
      | _ => none
  | f + 1, st, kw, toks =>
      if kw then none else
      match pExpr (2 * toks.length + 2) st toks with
      | some (e, [.sym ')']) => some [(none, e)]
      | some (e, .sym ',' :: r) =>
          match pArgs f st false r with
          | some es => some ((none, e) :: es)
          | none => none
      | _ => none

/-- the tokens of `${…}`: a macro call `f(a, b)` or an expression -/
def readXToks (strict : Bool) (toks : List MTok) : Option XExpr :=
  match toks with
  | .name f :: .sym '(' :: r =>
      if f = kwLen then (readExprToks strict toks).map .pure
      else match r with
        | [.sym ')'] => some (.call (mkVar strict f) [])
        | _ => (pArgs (r.length + 1) strict false r).map (.call (mkVar strict f))
  | _ => (readExprToks strict toks).map .pure

/-- the source of `${…}` -/
def readXExpr (strict : Bool) (s : Str) : Option XExpr := do
  let toks ← tokenize s
  readXToks strict toks

/-- `a, b, c='x')` at the end of the value of `def`: parameters, the last ones with defaults
    (`dflt`: a default was seen — the signature is parsed as a call, so a bare name behind a
    `name=default` is a syntax error) -/
def pParams : Nat → Bool → Bool → List MTok → Option (List Param)
  | 0, _, _, _ => none
  | f + 1, st, _, .name n :: .sym '=' :: toks =>
      match pExpr (2 * toks.length + 2) st toks with
      | some (e, [.sym ')']) => some [(n, some e)]
      | some (e, .sym ',' :: r) =>
          match pParams f st true r with
          | some ps => some ((n, some e) :: ps)
          | none => none
      | _ => none
  | _ + 1, _, dflt, [.name n, .sym ')'] => if dflt then none else some [(n, none)]
  | f + 1, st, dflt, .name n :: .sym ',' :: r =>
      if dflt then none else (pParams f st false r).map ((n, none) :: ·)
  | _ + 1, _, _, _ => none

def pBinds : Nat → Bool → List MTok → Option (List (Name × Expr))
  | 0, _, _ => none
  | f + 1, st, .name n :: .sym '=' :: r =>
      match pExpr (2 * r.length + 2) st r with
      | some (e, []) => some [(n, e)]
      | some (e, .sym ';' :: r') => (pBinds f st r').map ((n, e) :: ·)
      | _ => none
  | _ + 1, _, _ => none

def optExpr (strict : Bool) (toks : List MTok) : Option (Option Expr) :=
  if toks.isEmpty then some none else (readExprToks strict toks).map some

/-- the directive a text template builds from the command and the tokens of the value -/
def readDirToks (strict : Bool) (cmd : Str) (toks : List MTok) : Option Dir :=
  if cmd = ['d', 'e', 'f'] then
    match toks with
    | [.name f] => some (.def_ f [])
    | .name f :: .sym '(' :: r => (pParams (r.length + 1) strict false r).map (.def_ f)
    | _ => none
  else if cmd = ['f', 'o', 'r'] then
    match toks with
    | .name v :: .name i :: r => if i = kwIn then (readExprToks strict r).map (.for_ v) else none
    | _ => none
  else if cmd = ['i', 'f'] then (readExprToks strict toks).map .if_
  else if cmd = ['w', 'h', 'e', 'n'] then (optExpr strict toks).map .when
  else if cmd = ['c', 'h', 'o', 'o', 's', 'e'] then (optExpr strict toks).map .choose
  else if cmd = ['o', 't', 'h', 'e', 'r', 'w', 'i', 's', 'e'] then (if toks.isEmpty then some .otherwise else none)
  else if cmd = ['w', 'i', 't', 'h'] then (pBinds (toks.length + 1) strict toks).map .with_
  else none

/-- the directive a text template builds from `{% cmd value %}` / `#cmd value` -/
def readDir (strict : Bool) (cmd : Str) (val : Str) : Option Dir := do
  let toks ← tokenize val
  readDirToks strict cmd toks

/-! ### source text -> tokens of `textParse` -/

def evToks (strict : Bool) : List SEv → Except PErr (List TTok)
  | [] => .ok []
  | .text s :: r => do let ts ← evToks strict r; pure (.text s :: ts)
  | .expr src :: r =>
      match readXExpr strict src with
      | some x => do let ts ← evToks strict r; pure (.xexpr x :: ts)
      | none => .error .unmodelled
  | _ :: _ => .error .unmodelled

def dirToks (strict : Bool) (names : List (Str × Str)) (cmd : Str) (val : Str) : Except PErr (List TTok) :=
  if cmd = ['e', 'n', 'd'] then .ok [.end_]
  else if cmd = ['i', 'n', 'c', 'l', 'u', 'd', 'e'] || cmd = ['p', 'y', 't', 'h', 'o', 'n'] then .error .unmodelled
  else if names.any (fun p => p.1 = cmd) then
    match readDir strict cmd val with
    | some d => .ok [.dir d]
    | none => .error .unmodelled
  else .error .badDirective

def newToks (strict : Bool) : List RTok → Except PErr (List TTok)
  | [] => .ok []
  | .text raw :: r => do
      let evs ← Scan.interpolate (Scan.unescapeNew raw)
      let a ← evToks strict evs
      let b ← newToks strict r
      pure (a ++ b)
  | .comment _ :: r => newToks strict r
  | .dir _ cmd val :: r => do
      let a ← dirToks strict Gen.Directives.newTextDirectives cmd val
      let b ← newToks strict r
      pure (a ++ b)

def oldToks (strict : Bool) : List OTok → Except PErr (List TTok)
  | [] => .ok []
  | .text raw :: r => do
      let evs ← Scan.interpolate (Scan.unescapeOld raw)
      let a ← evToks strict evs
      let b ← oldToks strict r
      pure (a ++ b)
  | .line bl body :: r => do
      let cv := Scan.splitLine bl body
      let a ← (if cv.1.head? = some '#' then .ok []
               else dirToks strict Gen.Directives.oldTextDirectives cv.1 (cv.2.getD []))
      let b ← oldToks strict r
      pure (a ++ b)

/-- tokens of a text template given by its source -/
def rawToks (old strict : Bool) (src : Str) : Except PErr (List TTok) :=
  if old then oldToks strict (Scan.scanOld src) else newToks strict (Scan.scanNew src)

/-- `Template.stream` of a text template given by its source: scanners, token loop, `_prepare` -/
def compileRaw (old strict : Bool) (src : Str) : Except PErr (List CEv) := do
  let toks ← rawToks old strict src
  pure (toCEvs (prepareRs (textParse toks)))

/-- `Template(source).generate(**data)` -/
def renderRaw (fuel : Nat) (old strict : Bool) (src : Str) (data : Env) : Except PErr (Except Err (List Event)) := do
  let body ← compileRaw old strict src
  pure (do
    let (o, _) ← run fuel (.flat body) (St.init data)
    pure o)

end Genshi.Tmpl.Raw

/-
  C06 — character-level primitives of the sanitizer's code, over the tables the translator
  reads from the running interpreter (`Gen/SanClass.lean`): `str.isalnum`, `str.isspace`,
  `str.lower`, the `\s \w \d` classes of `re`, `int()`, `chr()`.

  No Mathlib: linked into `gdrv`.
-/
import Genshi.Model.Core
import Genshi.Model.Str
import Genshi.Gen.SanClass
namespace Genshi.San
open Genshi.Gen

/-- what the Python code can raise -/
inductive Err where
  | valueError      -- chr() out of range, int() of a bad literal, int() digit limit
  | overflowError   -- chr() of an int that does not fit a C int
  deriving DecidableEq, Repr, Inhabited

/-- membership in a sorted list of inclusive code-point ranges -/
def inRanges (rs : List (Nat × Nat)) (n : Nat) : Bool :=
  rs.any fun r => r.1 ≤ n && n ≤ r.2

/-- `c.isalnum()` -/
def isAlnum (c : Char) : Bool := inRanges SanClass.alnumRanges c.toNat
/-- `c.isspace()`: what `str.strip()` removes -/
def isSpace (c : Char) : Bool := inRanges SanClass.spaceRanges c.toNat
/-- `\s` of `re` -/
def isReSpace (c : Char) : Bool := inRanges SanClass.reSpaceRanges c.toNat
/-- `\w` of `re` -/
def isReWord (c : Char) : Bool := inRanges SanClass.reWordRanges c.toNat

/-- value of a decimal digit matched by `\d` (any script), as `int()` reads it -/
def digitVal? (c : Char) : Option Nat :=
  match SanClass.digitZeros.find? (fun z => z ≤ c.toNat && c.toNat ≤ z + 9) with
  | some z => some (c.toNat - z)
  | none => none

def isReDigit (c : Char) : Bool := (digitVal? c).isSome

/-- value of an ASCII hex digit -/
def hexVal? (c : Char) : Option Nat :=
  if '0' ≤ c ∧ c ≤ '9' then some (c.toNat - 48)
  else if 'a' ≤ c ∧ c ≤ 'f' then some (c.toNat - 87)
  else if 'A' ≤ c ∧ c ≤ 'F' then some (c.toNat - 55)
  else none

def inClass (cls : List Nat) (c : Char) : Bool := cls.contains c.toNat

/-- the text starts with one character of each class in turn -/
def matchClasses : List (List Nat) → Str → Bool
  | [], _ => true
  | _ :: _, [] => false
  | cl :: cls, c :: cs => inClass cl c && matchClasses cls cs

def dropClasses : List (List Nat) → Str → Str
  | [], s => s
  | _ :: cls, _ :: cs => dropClasses cls cs
  | _ :: _, [] => []

/-- `chr(n)`: fails outside the code space (surrogates are *accepted* by Python but are not
    Lean characters: the repaired code never calls `chr` on one) -/
def pyChr (n : Nat) : Except Err Char :=
  if n.isValidChar then .ok (Char.ofNat n)
  else if n < 2147483648 then .error .valueError else .error .overflowError

def lookupLower (tab : List (Nat × List Nat)) (n : Nat) : Option (List Nat) :=
  match tab.find? (fun e => e.1 == n) with
  | some e => some e.2
  | none => none

def lookupRun (runs : List (Nat × Nat × Nat × Nat)) (n : Nat) : Option Nat :=
  match runs.find? (fun r => r.1 ≤ n && n ≤ r.2.1 && (n - r.1) % r.2.2.1 == 0) with
  | some r => some (r.2.2.2 + (n - r.1))
  | none => none

/-- `c.lower()` for one character (context-free part of `str.lower`) -/
def pyLowerChar (c : Char) : List Char :=
  if c.toNat < 128 then
    match lookupLower SanClass.lowerAscii c.toNat with
    | some l => l.map Char.ofNat
    | none => [c]
  else
    match lookupLower SanClass.lowerMulti c.toNat with
    | some l => l.map Char.ofNat
    | none =>
      match lookupRun SanClass.lowerRuns c.toNat with
      | some t => [Char.ofNat t]
      | none => [c]

/-- `s.lower()` (the final-sigma context rule of CPython is not modelled: U+03A3 always gives U+03C3) -/
def pyLower (s : Str) : Str := s.flatMap pyLowerChar

/-- `s.strip()` -/
def pyStrip (s : Str) : Str := Genshi.Str.stripBy isSpace s

/-- `s.split(sep)` for a one-character separator: always at least one piece -/
def splitOn (sep : Char) : Str → List Str
  | [] => [[]]
  | c :: cs =>
    if c = sep then [] :: splitOn sep cs
    else match splitOn sep cs with
      | [] => [[c]]          -- unreachable
      | p :: ps => (c :: p) :: ps

/-- `s.split(sep, 1)`: `(before, some after)` at the first separator, `(s, none)` without one -/
def split1 (sep : Char) : Str → Str × Option Str
  | [] => ([], none)
  | c :: cs =>
    if c = sep then ([], some cs)
    else let (a, b) := split1 sep cs; (c :: a, b)

end Genshi.San

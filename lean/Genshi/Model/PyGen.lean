/-
  C13 — model of `genshi.template.astutil.ASTCodeGenerator`: the visitor methods as functions
  from syntax to token lists, *including where parentheses are and are not written*.

  The operator tables, the set of `visit_*` methods and, for the operator-like visitors, whether
  the output is parenthesised are read from `Genshi.Gen.AstGen` (regenerated from the code on
  every run), so a changed table changes this model and re-checks the theorems stated over it.

  `gen` is total; `genOk e = false` means "the real generator raises an exception on this tree"
  (node type without visitor, operator missing from a table, …) — `genE` combines the two.
-/
import Genshi.Model.PyAst
import Genshi.Model.Str
import Genshi.Gen.AstGen
namespace Genshi.Py
open Genshi.Gen

def lookup (tbl : List (Str × Str)) (k : Str) : Option Str :=
  match tbl with
  | [] => none
  | (a, b) :: r => if a = k then some b else lookup r k

def isAlphaC (c : Char) : Bool :=
  ('a' ≤ c && c ≤ 'z') || ('A' ≤ c && c ≤ 'Z') || c = '_'

def isDigitC (c : Char) : Bool := '0' ≤ c && c ≤ '9'

/-- split at blanks (`"is not"` ↦ `["is", "not"]`) -/
def splitBlankGo : Str → Str → List Str
  | [], cur => if cur.isEmpty then [] else [cur.reverse]
  | c :: cs, cur =>
      if c = ' ' then (if cur.isEmpty then splitBlankGo cs [] else cur.reverse :: splitBlankGo cs [])
      else splitBlankGo cs (c :: cur)

def splitBlank (s : Str) : List Str := splitBlankGo s []

def wordTok (p : Str) : Tok :=
  match p with
  | c :: _ => if isAlphaC c then .name p else .op p
  | [] => .op p

/-- the tokens of an operator's source text -/
def symToks (sym : Str) : List Tok := (splitBlank sym).map wordTok

/-- `' ' + table[op.__class__] + ' '` -/
def opToks (tbl : List (Str × Str)) (cls : Str) : List Tok :=
  match lookup tbl cls with
  | some sym => symToks sym
  | none => []

def tLP : Tok := .op ['(']
def tRP : Tok := .op [')']
def tLB : Tok := .op ['[']
def tRB : Tok := .op [']']
def tLC : Tok := .op ['{']
def tRC : Tok := .op ['}']
def tComma : Tok := .op [',']
def tColon : Tok := .op [':']
def tDot : Tok := .op ['.']
def tStar : Tok := .op ['*']
def tDStar : Tok := .op ['*', '*']
def tEq : Tok := .op ['=']
def tSlash : Tok := .op ['/']
def tEllipsis : Tok := .op ['.', '.', '.']
def tArrow : Tok := .op ['-', '>']
def tAt : Tok := .op ['@']
def kw (s : Str) : Tok := .name s

/-- `@with_parens`, as probed on the real visitor -/
def parenthesised (kind : Str) : Bool := lookup AstGen.parenthesised kind = some ['T']

def wrapP (kind : Str) (toks : List Tok) : List Tok :=
  if parenthesised kind then tLP :: (toks ++ [tRP]) else toks

/-- a number-like `repr`: optional sign, then a NUMBER token when it starts like a number,
    else a NAME (`inf`, `nan`) -/
def wordNum (t : Str) : List Tok :=
  match t with
  | c :: _ => if isDigitC c || c = '.' then [.num t] else [.name t]
  | [] => []

def signedNum (t : Str) : List Tok :=
  match t with
  | '-' :: r => .op ['-'] :: wordNum r
  | _ => wordNum t

/-- `visit_Constant`: `...` for Ellipsis, `repr(value)` with `inf` replaced for floats, else `repr(value)` -/
def genConst (c : Const) : List Tok :=
  match c.kind with
  | .true_ | .false_ | .none_ => [.name c.text]
  | .ellipsis => [tEllipsis]
  | .str | .bytes => [.str c.text]
  | .int => signedNum c.text
  | .float | .complex => signedNum (Str.replace cs!"inf" AstGen.infStr c.text)

def allDigits : Str → Bool
  | [] => true
  | c :: cs => isDigitC c && allDigits cs

/-- `visit_arguments` on the already generated pieces: every piece was written with a leading
    `, `; the very first one is dropped (`write_possible_comma`); `, /` follows the last
    positional-only parameter -/
def paramsToks (poT : List Tok) (poEmpty : Bool) (arT vaT koT kaT : List Tok) : List Tok :=
  (poT ++ (if poEmpty then [] else [tComma, tSlash]) ++ arT ++ vaT ++ koT ++ kaT).drop 1

/-- `*name`, or the bare `*` when there are keyword-only parameters but no `*name` -/
def varargToks (vaT : List Tok) (vaNone koEmpty : Bool) : List Tok :=
  if !vaNone then vaT else if koEmpty then [] else [tComma, tStar]

mutual
/-- the expression visitors -/
def gen : PyExpr → List Tok
  | .name id => [.name id]
  | .const c => genConst c
  | .boolOp op vs =>
      wrapP cs!"BoolOp" (match vs with
        | [] => []
        | v :: rest => gen v ++ genList (opToks AstGen.boolOperators op) [] rest)
  | .binOp l op r => wrapP cs!"BinOp" (gen l ++ opToks AstGen.binaryOperators op ++ gen r)
  | .unaryOp op e => wrapP cs!"UnaryOp" (opToks AstGen.unaryOperators op ++ gen e)
  | .lambda po ar va ko ka body =>
      wrapP cs!"Lambda" (kw cs!"lambda" ::
        (paramsToks (genList [tComma] [] po) po.isEmpty (genList [tComma] [] ar)
            (varargToks (genOpt [tComma, tStar] va) va.isNone ko.isEmpty) (genList [tComma] [] ko)
            (genOpt [tComma, tDStar] ka)
          ++ tColon :: gen body))
  | .ifExp t b o => wrapP cs!"IfExp" (gen b ++ kw cs!"if" :: (gen t ++ kw cs!"else" :: gen o))
  | .dict items => tLC :: (genList [] [tComma] items ++ [tRC])
  | .listComp elt gens => tLB :: (gen elt ++ genList [] [] gens ++ [tRB])
  | .genExp elt gens => tLP :: (gen elt ++ genList [] [] gens ++ [tRP])
  | .yield_ v => wrapP cs!"Yield" (kw cs!"yield" :: genOpt [] v)
  | .compare l rest => wrapP cs!"Compare" (gen l ++ genList [] [] rest)
  | .call f args kws =>
      gen f ++ tLP :: ((genList [tComma] [] args ++ genList [tComma] [] kws).drop 1 ++ [tRP])
  | .attribute (.const ⟨.int, t⟩) a =>
      -- `1` + `.real` is the text `1.real`, which tokenizes as the float `1.` and a name
      if allDigits t && !t.isEmpty then [.num (t ++ ['.']), .name a]
      else genConst ⟨.int, t⟩ ++ [tDot, .name a]
  | .attribute v a => gen v ++ [tDot, .name a]
  | .subscript v (.const ⟨.ellipsis, _⟩) => gen v ++ [tLB, tEllipsis, tRB]
  | .subscript v (.slice l u st) =>
      gen v ++ tLB :: (genOpt [] l ++ tColon :: (genOpt [] u ++ genOpt [tColon] st) ++ [tRB])
  | .subscript v s => gen v ++ tLB :: (gen s ++ [tRB])
  | .slice l u st =>
      -- only written by `visit_Subscript` (`_process_slice`); on its own there is no
      -- `visit_Slice` and the generator raises (see `genOk`)
      genOpt [] l ++ tColon :: (genOpt [] u ++ genOpt [tColon] st)
  | .starred e => tStar :: gen e
  | .list elts => tLB :: (genList [] [tComma] elts ++ [tRB])
  | .tuple elts => tLP :: (genList [] [tComma] elts ++ [tRP])
  | .unsupported _ => []
  | .keyword none v => tDStar :: gen v
  | .keyword (some n) v => .name n :: tEq :: gen v
  | .comp t it ifs a =>
      (if a then [kw cs!"async"] else []) ++ kw cs!"for" :: (gen t ++ kw cs!"in" :: (gen it ++ genList [kw cs!"if"] [] ifs))
  | .param n ann d => .name n :: (genOpt [tColon] ann ++ genOpt [tEq] d)
  | .dictItem k v => genOpt [] k ++ tColon :: gen v
  | .cmpRhs op e => opToks AstGen.comparisonOperators op ++ gen e
/-- every element written as `pre ++ gen e ++ post` -/
def genList (pre post : List Tok) : List PyExpr → List Tok
  | [] => []
  | e :: es => pre ++ gen e ++ post ++ genList pre post es
def genOpt (pre : List Tok) : Option PyExpr → List Tok
  | none => []
  | some e => pre ++ gen e
end

/-- `visit_arguments` -/
def genParams (po ar : List PyExpr) (va : Option PyExpr) (ko : List PyExpr) (ka : Option PyExpr) : List Tok :=
  paramsToks (genList [tComma] [] po) po.isEmpty (genList [tComma] [] ar)
    (varargToks (genOpt [tComma, tStar] va) va.isNone ko.isEmpty) (genList [tComma] [] ko)
    (genOpt [tComma, tDStar] ka)

def hasVisitor (k : Str) : Bool := AstGen.visitors.contains k

def isSlice : PyExpr → Bool
  | .slice _ _ _ => true
  | _ => false

mutual
/-- `false` iff the real generator raises on this tree -/
def genOk : PyExpr → Bool
  | .name _ => hasVisitor cs!"Name"
  | .const _ => hasVisitor cs!"Constant"
  | .boolOp op vs =>
      hasVisitor cs!"BoolOp" && (lookup AstGen.boolOperators op).isSome && !vs.isEmpty && genOkList vs
  | .binOp l op r => hasVisitor cs!"BinOp" && (lookup AstGen.binaryOperators op).isSome && genOk l && genOk r
  | .unaryOp op e => hasVisitor cs!"UnaryOp" && (lookup AstGen.unaryOperators op).isSome && genOk e
  | .lambda po ar va ko ka body =>
      hasVisitor cs!"Lambda" && hasVisitor cs!"arguments" && genOkList po && genOkList ar && genOkOpt va
        && genOkList ko && genOkOpt ka && genOk body
  | .ifExp t b o => hasVisitor cs!"IfExp" && genOk t && genOk b && genOk o
  | .dict items => hasVisitor cs!"Dict" && genOkList items
  | .listComp elt gens => hasVisitor cs!"ListComp" && genOk elt && genOkList gens
  | .genExp elt gens => hasVisitor cs!"GeneratorExp" && genOk elt && genOkList gens
  | .yield_ v => hasVisitor cs!"Yield" && genOkOpt v
  | .compare l rest => hasVisitor cs!"Compare" && genOk l && genOkList rest
  | .call f args kws => hasVisitor cs!"Call" && genOk f && genOkList args && genOkList kws
  | .attribute v _ => hasVisitor cs!"Attribute" && genOk v
  | .subscript v s => hasVisitor cs!"Subscript" && genOk v && genOk s
  -- a slice is written by `visit_Subscript` itself; anywhere else (in practice: inside the tuple
  -- of an extended subscript `x[a:b, c]`) there is no `visit_Slice` and the generator raises
  | .slice l u st => genOkOpt l && genOkOpt u && genOkOpt st
  | .starred e => hasVisitor cs!"Starred" && genOk e
  | .list elts => hasVisitor cs!"List" && genOkList elts
  | .tuple elts => hasVisitor cs!"Tuple" && genOkList elts && (hasVisitor cs!"Slice" || !elts.any isSlice)
  | .unsupported k => hasVisitor k
  | .keyword _ v => genOk v
  | .comp t it ifs _ => genOk t && genOk it && genOkList ifs
  | .param _ ann d => hasVisitor cs!"arg" && genOkOpt ann && genOkOpt d
  | .dictItem k v => genOkOpt k && genOk v
  | .cmpRhs op e => (lookup AstGen.comparisonOperators op).isSome && genOk e
def genOkList : List PyExpr → Bool
  | [] => true
  | e :: es => genOk e && genOkList es
def genOkOpt : Option PyExpr → Bool
  | none => true
  | some e => genOk e
end

/-- `ASTCodeGenerator(tree).code` as tokens, or `none` when it raises -/
def genE (e : PyExpr) : Option (List Tok) := if genOk e then some (gen e) else none

/-! ### statements -/

/-- `a.b.c` as written by `_write(name)`: NAME tokens separated by `.` -/
def dottedGo : Str → Str → List Tok
  | [], cur => if cur.isEmpty then [] else [.name cur.reverse]
  | c :: cs, cur =>
      if c = '.' then (if cur.isEmpty then tDot :: dottedGo cs [] else .name cur.reverse :: tDot :: dottedGo cs [])
      else dottedGo cs (c :: cur)

def dottedToks (s : Str) : List Tok := dottedGo s []

/-- `'.' * level` as the tokenizer sees it: `...` is one token -/
def dotsToks : Nat → List Tok
  | n + 3 => tEllipsis :: dotsToks n
  | 2 => [tDot, tDot]
  | 1 => [tDot]
  | 0 => []

/-- `repr` of an identifier-like string (what `visit(str)` writes for `global` names and the
    name of an exception handler) -/
def reprIdent (s : Str) : Tok := .str ('\'' :: (s ++ ['\'']))

def aliasToks : Str × Option Str → List Tok
  | (n, none) => dottedToks n
  | (n, some a) => dottedToks n ++ [kw cs!"as", .name a]

/-- a name of `from m import …`: plain names (or `*`) with optional `as` -/
def fromAliasToks : Str × Option Str → List Tok
  | (n, none) => if n = ['*'] then [tStar] else [Tok.name n]
  | (n, some a) => [Tok.name n, kw cs!"as", Tok.name a]

def joinToks (sep : List Tok) : List (List Tok) → List Tok
  | [] => []
  | [x] => x
  | x :: xs => x ++ sep ++ joinToks sep xs

def withItemToks : PyExpr × Option PyExpr → List Tok
  | (c, none) => gen c
  | (c, some v) => gen c ++ kw cs!"as" :: gen v

/-- the header `(` … `)` of a class: bases then keywords, or nothing when both are empty -/
def classArgs (bases kws : List PyExpr) : List Tok :=
  if bases.isEmpty && kws.isEmpty then []
  else tLP :: ((genList [tComma] [] bases ++ genList [tComma] [] kws).drop 1 ++ [tRP])

mutual
def genStmt (ind : Nat) : PyStmt → List Line
  | .expr e => [⟨ind, gen e⟩]
  | .assign ts v => [⟨ind, genList [] [tEq] ts ++ gen v⟩]
  | .augAssign t op v =>
      [⟨ind, gen t ++ (match lookup AstGen.binaryOperators op with
                        | some sym => [Tok.op (sym ++ ['='])]
                        | none => []) ++ gen v⟩]
  | .return_ v => [⟨ind, kw cs!"return" :: genOpt [] v⟩]
  | .delete ts => [⟨ind, kw cs!"del" :: (genList [tComma] [] ts).drop 1⟩]
  | .pass_ => [⟨ind, [kw cs!"pass"]⟩]
  | .break_ => [⟨ind, [kw cs!"break"]⟩]
  | .continue_ => [⟨ind, [kw cs!"continue"]⟩]
  | .assert_ t m => [⟨ind, kw cs!"assert" :: (gen t ++ genOpt [tComma] m)⟩]
  | .raise_ e c =>
      [⟨ind, kw cs!"raise" :: (match e with
                                | none => []
                                | some _ => genOpt [] e ++ genOpt [kw cs!"from"] c)⟩]
  | .global_ ns => [⟨ind, kw cs!"global" :: joinToks [tComma] (ns.map fun n => [reprIdent n])⟩]
  | .import_ ns => [⟨ind, kw cs!"import" :: joinToks [tComma] (ns.map aliasToks)⟩]
  | .importFrom m ns lvl =>
      [⟨ind, kw cs!"from" :: (dotsToks lvl ++ (match m with | some m => dottedToks m | none => [])
              ++ kw cs!"import" :: joinToks [tComma] (ns.map fromAliasToks))⟩]
  | .if_ t b o =>
      ⟨ind, kw cs!"if" :: (gen t ++ [tColon])⟩ :: (genBody (ind + 1) b ++ genElse ind o)
  | .while_ t b o =>
      ⟨ind, kw cs!"while" :: (gen t ++ [tColon])⟩ :: (genBody (ind + 1) b ++ genElse ind o)
  | .for_ t it b o =>
      ⟨ind, kw cs!"for" :: (gen t ++ kw cs!"in" :: (gen it ++ [tColon]))⟩ :: (genBody (ind + 1) b ++ genElse ind o)
  | .with_ items b =>
      ⟨ind, kw cs!"with" :: (joinToks [tComma] (items.map withItemToks) ++ [tColon])⟩ :: genBody (ind + 1) b
  | .try_ b hs o f =>
      ⟨ind, [kw cs!"try", tColon]⟩ :: (genBody (ind + 1) b ++ genBody ind hs ++ genElse ind o
        ++ (match f with
            | [] => []
            | _ :: _ => ⟨ind, [kw cs!"finally", tColon]⟩ :: genBody (ind + 1) f))
  | .handler t n b =>
      ⟨ind, kw cs!"except" :: (genOpt [] t ++ (match n with
                                                | none => []
                                                | some n => [tComma, reprIdent n]) ++ [tColon])⟩ :: genBody (ind + 1) b
  | .functionDef name po ar va ko ka body decos ret _ =>
      decos.map (fun d => ⟨ind, tAt :: gen d⟩) ++
      ⟨ind, kw cs!"def" :: .name name :: tLP :: (genParams po ar va ko ka ++ tRP :: (genOpt [tArrow] ret ++ [tColon]))⟩
        :: genBody (ind + 1) body
  | .classDef name bases kws body decos _ =>
      decos.map (fun d => ⟨ind, tAt :: gen d⟩) ++
      ⟨ind, kw cs!"class" :: .name name :: (classArgs bases kws ++ [tColon])⟩ :: genBody (ind + 1) body
  | .unsupported _ => []
def genBody (ind : Nat) : List PyStmt → List Line
  | [] => []
  | s :: ss => genStmt ind s ++ genBody ind ss
def genElse (ind : Nat) : List PyStmt → List Line
  | [] => []
  | s :: ss => ⟨ind, [kw cs!"else", tColon]⟩ :: (genStmt (ind + 1) s ++ genBody (ind + 1) ss)
end

mutual
def genOkS : PyStmt → Bool
  | .expr e => hasVisitor cs!"Expr" && genOk e
  | .assign ts v => hasVisitor cs!"Assign" && genOkList ts && genOk v
  | .augAssign t op v =>
      hasVisitor cs!"AugAssign" && (lookup AstGen.binaryOperators op).isSome && genOk t && genOk v
  | .return_ v => hasVisitor cs!"Return" && genOkOpt v
  | .delete ts => hasVisitor cs!"Delete" && !ts.isEmpty && genOkList ts
  | .pass_ => hasVisitor cs!"Pass"
  | .break_ => hasVisitor cs!"Break"
  | .continue_ => hasVisitor cs!"Continue"
  | .assert_ t m => hasVisitor cs!"Assert" && genOk t && genOkOpt m
  | .raise_ e c => hasVisitor cs!"Raise" && genOkOpt e && genOkOpt c
  | .global_ ns => hasVisitor cs!"Global" && !ns.isEmpty
  | .import_ ns => hasVisitor cs!"Import" && hasVisitor cs!"alias" && !ns.isEmpty
  | .importFrom m ns _ => hasVisitor cs!"ImportFrom" && hasVisitor cs!"alias" && m.isSome && !ns.isEmpty
  | .if_ t b o => hasVisitor cs!"If" && genOk t && genOkBody b && genOkBody o
  | .while_ t b o => hasVisitor cs!"While" && genOk t && genOkBody b && genOkBody o
  | .for_ t it b o => hasVisitor cs!"For" && genOk t && genOk it && genOkBody b && genOkBody o
  | .with_ items b =>
      hasVisitor cs!"With" && items.all (fun i => genOk i.1 && genOkOpt i.2) && genOkBody b
  | .try_ b hs o f => hasVisitor cs!"Try" && genOkBody b && genOkBody hs && genOkBody o && genOkBody f
  | .handler t _ b => hasVisitor cs!"ExceptHandler" && genOkOpt t && genOkBody b
  | .functionDef _ po ar va ko ka body decos ret _ =>
      hasVisitor cs!"FunctionDef" && hasVisitor cs!"arguments" && genOkList po && genOkList ar && genOkOpt va
        && genOkList ko && genOkOpt ka && genOkBody body && genOkList decos && genOkOpt ret
  | .classDef _ bases kws body decos _ =>
      hasVisitor cs!"ClassDef" && genOkList bases && genOkList kws && genOkBody body && genOkList decos
  | .unsupported k => hasVisitor k
def genOkBody : List PyStmt → Bool
  | [] => true
  | s :: ss => genOkS s && genOkBody ss
end

/-- `ASTCodeGenerator(Module(body)).code` as logical lines, or `none` when it raises -/
def genModule (body : List PyStmt) : Option (List Line) :=
  if genOkBody body then some (genBody 0 body) else none

end Genshi.Py

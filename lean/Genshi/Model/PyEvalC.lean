/-
  C03 — a concrete, executable instance of the evaluator of `Model/PyEval.lean`.

  * `evalD σ look mk` is `eval σ look` with ONE difference: a lambda expression evaluates to
    `mk … names body env` — the closure *as data* (parameter lists with the values of the defaults,
    body, captured environment) — instead of `σ.mkFun … (fun b => eval … body (paramScope names b ++ env))`.
    On expressions without a lambda the two evaluators are equal (`Lemmas/PyEvalC.lean: evalD_eq_eval`).
  * `CV` / `CE`: a concrete value domain (None, bools, ints, strings, tuples, lists, dicts, attribute-only
    objects, ranges, slices, lenient `Undefined`, builtins, bound methods, generators as the deferred list of
    their items, closures) and the exception classes.
  * `sem strict data cc : Sem CV CE`: CPython's semantics of operators, comparisons, containers, iteration,
    unpacking and calls on that domain (`cc` = how a closure is called); whatever is outside the modelled
    part answers `CE.unmodelled`, never a guess.
  * `callAt … n`: calling a closure re-enters `evalD` on its body in the scope
    `paramScope names (bindArgs …) ++ env`, with fuel `n` for the re-entry.
  * `run py strict data fuel e`: the documented template semantics of `e` (`py = false`: `gsLook` on `e`) or
    what genshi actually executes (`py = true`: Python's plain evaluation `pyLook` of `xform e` with the
    globals `__data__`, `_lookup_name`, `_lookup_attr`, `_lookup_item`).
-/
import Genshi.Model.PyEval
namespace Genshi.Py.C
open Genshi.Py

inductive CE where
  | typeError | nameError | keyError | indexError | attributeError | zeroDivision | valueError
  | undefinedError | unmodelled | fuel
  deriving Repr, DecidableEq, Inhabited

inductive CV where
  | none
  | bool (b : Bool)
  | int (i : Int)
  | str (s : Str)
  | tuple (xs : List CV)
  | list (xs : List CV)
  | dict (ks vs : List CV)
  /-- an instance with instance attributes only (no items, no class attributes) -/
  | obj (names : List Str) (vals : List CV)
  | range (a b : Int)
  | slice (a b c : Option CV)
  | undef (name : Str)
  | builtin (name : Str)
  | bound (self : CV) (name : Str)
  /-- a generator object: the (deferred) computation of its items -/
  | gen (r : Except CE (List CV))
  | clo (po ar : List (Str × Option CV)) (va : Option Str) (ko : List (Str × Option CV)) (ka : Option Str)
      (names : List Str) (body : PyExpr) (env : List (Str × Option CV))
  /-- a value outside the modelled domain (a float constant, …): every use answers `unmodelled` -/
  | bad
  deriving Inhabited

abbrev R := Except CE CV

def unm {α : Type} : Except CE α := .error .unmodelled

/-! ### values -/

def num? : CV → Option Int
  | .int i => some i
  | .bool b => some (if b then 1 else 0)
  | _ => Option.none

def strLt : Str → Str → Bool
  | [], [] => false
  | [], _ :: _ => true
  | _ :: _, [] => false
  | a :: r, b :: s => if a.toNat < b.toNat then true else if b.toNat < a.toNat then false else strLt r s

def allEq (f : CV → CV → Option Bool) : List CV → List CV → Option Bool
  | [], [] => some true
  | a :: r, b :: s =>
      match f a b with
      | some true => allEq f r s
      | x => x
  | _, _ => some false

/-- membership of a key (by `==`) -/
def findKey (f : CV → CV → Option Bool) (k : CV) : List CV → List CV → Option (Option CV)
  | a :: r, v :: s =>
      match f k a with
      | some true => some (some v)
      | some false => findKey f k r s
      | Option.none => Option.none
  | _, _ => some Option.none

/-- `a == b` (`none`: outside the modelled part); the fuel bounds the nesting of containers -/
def veq : Nat → CV → CV → Option Bool
  | 0, _, _ => Option.none
  | n + 1, a, b =>
    match num? a, num? b with
    | some x, some y => some (x == y)
    | _, _ =>
      match a, b with
      | .none, .none => some true
      | .str s, .str t => some (s == t)
      | .tuple xs, .tuple ys => allEq (veq n) xs ys
      | .list xs, .list ys => allEq (veq n) xs ys
      | .dict ks vs, .dict ks2 vs2 =>
          if ks.length != ks2.length then some false else
          -- every key of the left with an equal value on the right
          (ks.zip vs).foldl (fun acc (k, v) =>
            match acc with
            | some true =>
                match findKey (veq n) k ks2 vs2 with
                | some (some v2) => veq n v v2
                | some Option.none => some false
                | Option.none => Option.none
            | x => x) (some true)
      | .undef _, _ | _, .undef _ | .builtin _, _ | _, .builtin _ | .bound _ _, _ | _, .bound _ _
      | .gen _, _ | _, .gen _ | .clo .., _ | _, .clo .. | .bad, _ | _, .bad | .obj _ _, _ | _, .obj _ _
      | .range _ _, _ | _, .range _ _ | .slice _ _ _, _ | _, .slice _ _ _ => Option.none
      | _, _ => some false

def eqFuel : Nat := 40

def hashable : Nat → CV → Option Bool
  | 0, _ => Option.none
  | n + 1, v =>
    match v with
    | .none | .bool _ | .int _ | .str _ => some true
    | .tuple xs => xs.foldl (fun acc x => match acc with
        | some true => hashable n x
        | y => y) (some true)
    | .list _ | .dict _ _ => some false
    | _ => Option.none

def truthy : CV → Except CE Bool
  | .none => .ok false
  | .bool b => .ok b
  | .int i => .ok (i != 0)
  | .str s => .ok (!s.isEmpty)
  | .tuple xs | .list xs => .ok (!xs.isEmpty)
  | .dict ks _ => .ok (!ks.isEmpty)
  | .range a b => .ok (a < b)
  | .undef _ => .ok false
  | .obj _ _ | .builtin _ | .bound _ _ | .gen _ | .clo .. | .slice _ _ _ => .ok true
  | .bad => unm

def rangeList (a b : Int) : List CV := (List.range (b - a).toNat).map fun (i : Nat) => .int (a + (i : Int))

def iter : CV → Except CE (List CV)
  | .tuple xs | .list xs => .ok xs
  | .str s => .ok (s.map fun c => .str [c])
  | .dict ks _ => .ok ks
  | .range a b => .ok (rangeList a b)
  | .gen r => r
  | .undef _ => .ok []
  | .bad | .bound _ _ => unm
  | _ => .error .typeError

/-- iteration by a consumer that may stop early (a `for` clause whose body raises, `sum` meeting a non-number): the model's
    generator object is all-or-nothing (its items, or the first exception), CPython produces the items one by one — a
    generator that would raise later is outside the model for such consumers (`list`, `tuple`, `sorted`, `*g` consume
    everything: exact) -/
def iterFor : CV → Except CE (List CV)
  | .gen (.error _) => unm
  | v => iter v

/-- `Constant`: kind and `repr` text (string literals: no escape sequences — the driver refuses those) -/
def parseNat : Str → Option Nat
  | [] => Option.none
  | cs => cs.foldl (fun acc c => match acc with
      | some n => if c.isDigit then some (n * 10 + (c.toNat - 48)) else Option.none
      | Option.none => Option.none) (some 0)

def constV (c : Const) : CV :=
  match c.kind with
  | .none_ => .none
  | .true_ => .bool true
  | .false_ => .bool false
  | .int => match parseNat c.text with
      | some n => .int n
      | Option.none => .bad
  | .str => match c.text with
      | '\'' :: r => if r.getLast? = some '\'' then .str r.dropLast else .bad
      | _ => .bad
  | _ => .bad

def natRepr (n : Nat) : Str := (toString n).toList

def intRepr (i : Int) : Str := if i < 0 then '-' :: natRepr i.natAbs else natRepr i.natAbs

def repeatL {α : Type} (xs : List α) (n : Int) : List α := ((List.replicate n.toNat xs).flatten)

def tooBig (len : Nat) (n : Int) : Bool := decide (n > 64) || decide ((len : Int) * n > 2000)

def binop (op : Str) (a b : CV) : R :=
  match a, b with
  | .bad, _ | _, .bad | .undef _, _ | _, .undef _ | .obj _ _, _ | _, .obj _ _ => unm
  | _, _ =>
  match num? a, num? b with
  | some x, some y =>
      if op = cs!"Add" then .ok (.int (x + y))
      else if op = cs!"Sub" then .ok (.int (x - y))
      else if op = cs!"Mult" then .ok (.int (x * y))
      else if op = cs!"FloorDiv" then (if y = 0 then .error .zeroDivision else .ok (.int (Int.fdiv x y)))
      else if op = cs!"Mod" then (if y = 0 then .error .zeroDivision else .ok (.int (Int.fmod x y)))
      else unm
  | _, _ =>
    if op = cs!"Add" then
      match a, b with
      | .str s, .str t => .ok (.str (s ++ t))
      | .list s, .list t => .ok (.list (s ++ t))
      | .tuple s, .tuple t => .ok (.tuple (s ++ t))
      | .dict _ _, _ | _, .dict _ _ | .none, _ | _, .none | .str _, _ | _, .str _ | .list _, _ | _, .list _
      | .tuple _, _ | _, .tuple _ => .error .typeError
      | _, _ => unm
    else if op = cs!"Mult" then
      match a, num? b, num? a, b with
      | .str s, some n, _, _ | _, _, some n, .str s => if tooBig s.length n then unm else .ok (.str (repeatL s n))
      | .list s, some n, _, _ | _, _, some n, .list s => if tooBig s.length n then unm else .ok (.list (repeatL s n))
      | .tuple s, some n, _, _ | _, _, some n, .tuple s => if tooBig s.length n then unm else .ok (.tuple (repeatL s n))
      | _, _, _, _ =>
        match a, b with
        | .dict _ _, _ | _, .dict _ _ | .none, _ | _, .none | .str _, _ | _, .str _ | .list _, _ | _, .list _
        | .tuple _, _ | _, .tuple _ => .error .typeError
        | _, _ => unm
    else if op = cs!"Sub" || op = cs!"FloorDiv" then
      match a, b with
      | .dict _ _, _ | _, .dict _ _ | .none, _ | _, .none | .str _, _ | _, .str _ | .list _, _ | _, .list _
      | .tuple _, _ | _, .tuple _ => .error .typeError
      | _, _ => unm
    else unm

def unop (op : Str) (a : CV) : R :=
  if op = cs!"Not" then (truthy a).map fun t => .bool (!t)
  else match a with
    | .bad | .undef _ | .obj _ _ => unm
    | _ =>
    match num? a with
    | some x =>
        if op = cs!"USub" then .ok (.int (-x))
        else if op = cs!"UAdd" then .ok (.int x)
        else if op = cs!"Invert" then .ok (.int (-x - 1))
        else unm
    | Option.none =>
        match a with
        | .none | .str _ | .list _ | .tuple _ | .dict _ _ => .error .typeError
        | _ => unm

def isInfix : Str → Str → Bool
  | [], _ => true
  | _ :: _, [] => false
  | p, c :: r => p.isPrefixOf (c :: r) || isInfix p r

def contains (x c : CV) : Except CE Bool :=
  match c with
  | .list xs | .tuple xs =>
      xs.foldl (fun acc y => match acc with
        | .ok false => match veq eqFuel x y with
            | some b => .ok b
            | Option.none => unm
        | r => r) (.ok false)
  | .dict ks vs =>
      match hashable eqFuel x with
      | some true => match findKey (veq eqFuel) x ks vs with
          | some r => .ok r.isSome
          | Option.none => unm
      | some false => .error .typeError
      | Option.none => unm
  | .str s => match x with
      | .str p => .ok (isInfix p s)
      | .bad | .undef _ => unm
      | _ => .error .typeError
  | .range a b => match num? x with
      | some i => .ok (a ≤ i && i < b)
      | Option.none => unm
  | .none | .int _ | .bool _ => match x with
      | .bad => unm
      | _ => .error .typeError
  | _ => unm

def cmp (op : Str) (a b : CV) : R :=
  match a, b with
  | .bad, _ | _, .bad => unm
  | _, _ =>
  if op = cs!"Eq" then match veq eqFuel a b with
    | some r => .ok (.bool r)
    | Option.none => unm
  else if op = cs!"NotEq" then match veq eqFuel a b with
    | some r => .ok (.bool (!r))
    | Option.none => unm
  else if op = cs!"In" then (contains a b).map .bool
  else if op = cs!"NotIn" then (contains a b).map fun r => .bool (!r)
  else if op = cs!"Is" || op = cs!"IsNot" then
    -- identity is modelled for None only
    match a, b with
    | .none, .none => .ok (.bool (op = cs!"Is"))
    | .none, .int _ | .none, .str _ | .none, .bool _ | .none, .list _ | .none, .tuple _ | .none, .dict _ _ | .none, .undef _
    | .int _, .none | .str _, .none | .bool _, .none | .list _, .none | .tuple _, .none | .dict _ _, .none | .undef _, .none =>
        .ok (.bool (op = cs!"IsNot"))
    | _, _ => unm
  else
    let ord (lt eq : Bool) : R :=
      if op = cs!"Lt" then .ok (.bool lt)
      else if op = cs!"LtE" then .ok (.bool (lt || eq))
      else if op = cs!"Gt" then .ok (.bool (!lt && !eq))
      else if op = cs!"GtE" then .ok (.bool (!lt))
      else unm
    match num? a, num? b with
    | some x, some y => ord (x < y) (x == y)
    | _, _ =>
      match a, b with
      | .str s, .str t => ord (strLt s t) (s == t)
      | .none, _ | _, .none | .str _, .int _ | .int _, .str _ | .str _, .bool _ | .bool _, .str _
      | .dict _ _, _ | _, .dict _ _
      | .list _, .int _ | .int _, .list _ | .list _, .str _ | .str _, .list _ | .tuple _, .int _ | .int _, .tuple _
      | .tuple _, .str _ | .str _, .tuple _ | .list _, .tuple _ | .tuple _, .list _
      | .list _, .bool _ | .bool _, .list _ | .tuple _, .bool _ | .bool _, .tuple _ => .error .typeError
      | _, _ => unm

/-! ### attributes and items -/

def dictMethods : List Str := [cs!"clear", cs!"copy", cs!"fromkeys", cs!"get", cs!"items", cs!"keys", cs!"pop",
  cs!"popitem", cs!"setdefault", cs!"update", cs!"values"]

/-- names of at most two characters are attributes of no builtin type -/
def shortName (k : Str) : Bool := k.length ≤ 2

def lookupAssoc (k : Str) : List Str → List CV → Option CV
  | n :: r, v :: s => if n = k then some v else lookupAssoc k r s
  | _, _ => Option.none

def getattr (o : CV) (k : Str) : R :=
  match o with
  | .obj names vals =>
      match lookupAssoc k names vals with
      | some v => .ok v
      | Option.none => if shortName k then .error .attributeError else unm
  | .dict _ _ => if dictMethods.contains k then .ok (.bound o k) else if shortName k then .error .attributeError else unm
  | .str _ => if k = cs!"upper" then .ok (.bound o k) else if shortName k then .error .attributeError else unm
  | .none | .bool _ | .int _ | .list _ | .tuple _ | .range _ _ => if shortName k then .error .attributeError else unm
  | .undef _ => .error .undefinedError
  | _ => unm

def classHasAttr (o : CV) (k : Str) : Bool :=
  match o with
  | .dict _ _ => dictMethods.contains k
  | _ => false

def normIndex (len : Nat) (i : Int) : Option Nat :=
  let j := if i < 0 then i + len else i
  if j < 0 || j ≥ len then Option.none else some j.toNat

/-- a slice bound (`None` or an int), clamped as `slice.indices` does for step 1 -/
def clampBound (len : Nat) (dflt : Nat) : Option CV → Except CE Nat
  | Option.none | some .none => .ok dflt
  | some v => match num? v with
      | some i =>
          let j := if i < 0 then i + len else i
          .ok (if j < 0 then 0 else if j > len then len else j.toNat)
      | Option.none => match v with
          | .str _ | .list _ | .tuple _ | .dict _ _ => .error .typeError
          | _ => unm

def seqItem (mk : List CV → CV) (xs : List CV) (k : CV) : R :=
  match num? k with
  | some i => match normIndex xs.length i with
      | some j => match xs[j]? with
          | some v => .ok v
          | Option.none => .error .indexError
      | Option.none => .error .indexError
  | Option.none =>
      match k with
      | .slice a b c =>
          match c with
          | Option.none | some .none => do
              let lo ← clampBound xs.length 0 a
              let hi ← clampBound xs.length xs.length b
              .ok (mk ((xs.drop lo).take (hi - lo)))
          | _ => unm
      | .str _ | .none | .list _ | .tuple _ | .dict _ _ => .error .typeError
      | _ => unm

def getitem (o k : CV) : R :=
  match k with
  | .bad => unm
  | _ =>
  match o with
  | .list xs => seqItem .list xs k
  | .tuple xs => seqItem .tuple xs k
  | .str s =>
      match seqItem .list (s.map fun c => .str [c]) k with
      | .ok (.list cs) => .ok (.str (cs.flatMap fun c => match c with
          | .str t => t
          | _ => []))
      | r => r
  | .range a b => match k with
      | .slice _ _ _ => unm
      | _ => seqItem .list (rangeList a b) k
  | .dict ks vs =>
      match hashable eqFuel k with
      | some true => match findKey (veq eqFuel) k ks vs with
          | some (some v) => .ok v
          | some Option.none => .error .keyError
          | Option.none => unm
      | some false => .error .typeError
      | Option.none => unm
  | .obj _ _ | .none | .int _ | .bool _ | .clo .. | .gen _ => .error .typeError
  | .undef _ => .error .undefinedError
  | _ => unm

/-! ### displays, unpacking -/

def expand : List (Bool × CV) → Except CE (List CV)
  | [] => .ok []
  | (false, v) :: r => do
      let xs ← expand r
      .ok (v :: xs)
  | (true, v) :: r => do
      let ys ← iter v
      let xs ← expand r
      .ok (ys ++ xs)

/-- insert / overwrite a key (the position of the first insertion is kept) -/
def dictSet (k v : CV) : List CV → List CV → Except CE (List CV × List CV)
  | a :: r, b :: s =>
      match veq eqFuel k a with
      | some true => .ok (a :: r, v :: s)
      | some false => do
          let (ks, vs) ← dictSet k v r s
          .ok (a :: ks, b :: vs)
      | Option.none => unm
  | _, _ => .ok ([k], [v])

def mkDict (items : List (Option CV × CV)) : R := do
  let (ks, vs) ← items.foldlM (fun (acc : List CV × List CV) it =>
    match it with
    | (some k, v) =>
        match hashable eqFuel k with
        | some true => dictSet k v acc.1 acc.2
        | some false => .error .typeError
        | Option.none => unm
    | (Option.none, _) => unm) ([], [])
  .ok (.dict ks vs)

mutual
def bindTarget : PyExpr → CV → Except CE (List (Str × CV))
  | .name id, v => .ok [(id, v)]
  | .tuple ts, v => do
      let xs ← iter v
      bindTargets ts xs
  | .list ts, v => do
      let xs ← iter v
      bindTargets ts xs
  | _, _ => unm
def bindTargets : List PyExpr → List CV → Except CE (List (Str × CV))
  | [], [] => .ok []
  | t :: ts, x :: xs => do
      let a ← bindTarget t x
      let b ← bindTargets ts xs
      .ok (a ++ b)
  | _, _ => .error .valueError
end

/-! ### calls -/

/-- how a closure is called: positional values, keyword values -/
abbrev CallT := CV → List CV → List (Str × CV) → R

def expandKws : List (Option Str × CV) → Except CE (List (Str × CV))
  | [] => .ok []
  | (some k, v) :: r => do
      let xs ← expandKws r
      match v with
      | .bad => unm
      | _ => if xs.any (fun p => p.1 = k) then .error .typeError else .ok ((k, v) :: xs)
  | (Option.none, .dict ks vs) :: r => do
      let xs ← expandKws r
      let ys ← (ks.zip vs).mapM fun (k, v) => match k with
        | .str s => .ok (s, v)
        | _ => (.error .typeError : Except CE (Str × CV))
      if ys.any (fun p => xs.any fun q => q.1 = p.1) then .error .typeError else .ok (ys ++ xs)
  | (Option.none, _) :: _ => unm

def insertBy (lt : CV → CV → Bool) (x : CV) : List CV → List CV
  | [] => [x]
  | y :: r => if lt x y then x :: y :: r else y :: insertBy lt x r

/-- stable insertion sort -/
def sortBy (lt : CV → CV → Bool) (xs : List CV) : List CV := xs.foldl (fun acc x => insertBy lt x acc) []

def isStrV : CV → Bool
  | .str _ => true
  | _ => false

def isScalar : CV → Bool
  | .none | .bool _ | .int _ | .str _ => true
  | _ => false

def typeNames : List Str := [cs!"list", cs!"tuple", cs!"bool", cs!"str", cs!"range", cs!"int", cs!"dict", cs!"float",
  cs!"set", cs!"object", cs!"type", cs!"enumerate", cs!"zip", cs!"map", cs!"filter", cs!"reversed"]

def callableNames : List Str := [cs!"len", cs!"sum", cs!"sorted", cs!"abs", cs!"max", cs!"min", cs!"any", cs!"all",
  cs!"repr", cs!"isinstance", cs!"id", cs!"hash", cs!"iter", cs!"next", cs!"ord", cs!"chr"]

def callBuiltin (name : Str) (pos : List CV) (kws : List (Str × CV)) : R :=
  if !kws.isEmpty then unm else
  if name = cs!"len" then
    match pos with
    | [.str s] => .ok (.int s.length)
    | [.list xs] | [.tuple xs] => .ok (.int xs.length)
    | [.dict ks _] => .ok (.int ks.length)
    | [.range a b] => .ok (.int (b - a).toNat)
    | [.none] | [.int _] | [.bool _] | [.gen _] | [.clo ..] | [.obj _ _] | [.undef _] | [.builtin _] => .error .typeError
    | [_] => unm
    | _ => .error .typeError
  else if name = cs!"list" then
    match pos with
    | [] => .ok (.list [])
    | [v] => (iter v).map .list
    | _ => .error .typeError
  else if name = cs!"tuple" then
    match pos with
    | [] => .ok (.tuple [])
    | [v] => (iter v).map .tuple
    | _ => .error .typeError
  else if name = cs!"bool" then
    match pos with
    | [] => .ok (.bool false)
    | [v] => (truthy v).map .bool
    | _ => .error .typeError
  else if name = cs!"sum" then
    match pos with
    | [v] => do
        let xs ← iterFor v
        xs.foldlM (fun acc x => match num? acc, num? x with
          | some a, some b => .ok (.int (a + b))
          | _, _ => if isScalar x || (match x with | .list _ | .tuple _ | .dict _ _ => true | _ => false)
              then .error .typeError else unm) (.int 0)
    | [] => .error .typeError
    | _ => unm
  else if name = cs!"sorted" then
    match pos with
    | [v] => do
        let xs ← iter v
        if xs.length ≤ 1 then .ok (.list xs)
        else if xs.all (fun x => (num? x).isSome) then
          .ok (.list (sortBy (fun a b => match num? a, num? b with
            | some x, some y => x < y
            | _, _ => false) xs))
        else if xs.all isStrV then
          .ok (.list (sortBy (fun a b => match a, b with
            | .str s, .str t => strLt s t
            | _, _ => false) xs))
        else if xs.all (fun x => isScalar x) && !(xs.any fun x => match x with | .none => true | _ => false) then
          -- numbers and strings mixed: the first comparison of a number with a string raises
          .error .typeError
        else unm
    | [] => .error .typeError
    | _ => unm
  else if name = cs!"range" then
    match pos with
    | [a] => match num? a with
        | some x => .ok (.range 0 x)
        | Option.none => if isStrV a || (match a with | .none | .list _ | .tuple _ | .dict _ _ => true | _ => false)
            then .error .typeError else unm
    | [a, b] => match num? a, num? b with
        | some x, some y => .ok (.range x y)
        | _, _ => unm
    | [] => .error .typeError
    | _ => unm
  else if name = cs!"str" then
    match pos with
    | [] => .ok (.str [])
    | [.str s] => .ok (.str s)
    | [.int i] => .ok (.str (intRepr i))
    | [.bool b] => .ok (.str (if b then cs!"True" else cs!"False"))
    | [.none] => .ok (.str cs!"None")
    | _ => unm
  else if name = cs!"abs" then
    match pos with
    | [v] => match num? v with
        | some x => .ok (.int x.natAbs)
        | Option.none => match v with
            | .str _ | .none | .list _ | .tuple _ | .dict _ _ => .error .typeError
            | _ => unm
    | _ => .error .typeError
  else unm

def callBound (self : CV) (name : Str) (pos : List CV) (kws : List (Str × CV)) : R :=
  if !kws.isEmpty then unm else
  match self with
  | .dict ks vs =>
      if name = cs!"get" then
        match pos with
        | [k] | [k, _] =>
            match hashable eqFuel k with
            | some true => match findKey (veq eqFuel) k ks vs with
                | some (some v) => .ok v
                | some Option.none => .ok (pos.getD 1 .none)
                | Option.none => unm
            | some false => .error .typeError
            | Option.none => unm
        | _ => .error .typeError
      else if name = cs!"copy" then
        match pos with
        | [] => .ok self
        | _ => .error .typeError
      else unm
  | .str s =>
      if name = cs!"upper" then
        match pos with
        | [] => if s.all (fun c => c.toNat < 128) then .ok (.str (s.map Char.toUpper)) else unm
        | _ => .error .typeError
      else unm
  | _ => unm

/-- `lookup_attr` / `lookup_item` need `getattr`, `getitem`, `strV` only: a semantics with just those -/
def sem0 : Sem CV CE where
  const := constV
  strV := .str
  binop := binop
  unop := unop
  truthy := truthy
  cmp := cmp
  call := fun _ _ _ => unm
  getattr := getattr
  getitem := getitem
  mkList := fun xs => (expand xs).map .list
  mkTuple := fun xs => (expand xs).map .tuple
  mkDict := mkDict
  mkSlice := .slice
  iter := iterFor
  getIter := fun v => match v with
    -- (a generator object that raises while `*g` unpacks it does so before the following elements are evaluated;
    --  the model expands after evaluating them: outside the model)
    | .gen (.error _) => unm
    | .tuple _ | .list _ | .str _ | .dict _ _ | .range _ _ | .gen _ | .undef _ => .ok v
    | .bad | .bound _ _ => unm
    | _ => .error .typeError
  bindTarget := bindTarget
  mkFun := fun _ _ _ _ _ _ => .bad
  mkGen := .gen
  yieldV := fun _ => unm
  unbound := fun _ => .nameError

def builtinValue (name : Str) : Option CV :=
  if name = cs!"True" then some (.bool true)
  else if name = cs!"False" then some (.bool false)
  else if name = cs!"None" then some .none
  else if typeNames.contains name || callableNames.contains name then some (.builtin name)
  else Option.none

def world (strict : Bool) (data : List (Str × CV)) : World CV CE where
  data := fun k => (data.find? fun p => p.1 = k).map (·.2)
  builtins := builtinValue
  strict := strict
  undefinedError := fun _ _ => .undefinedError
  undefinedV := fun k _ => .undef k
  isAttributeError := fun e => e == .attributeError
  isKeyError := fun e => e == .keyError
  isIndexError := fun e => e == .indexError
  isTypeError := fun e => e == .typeError
  classHasAttr := classHasAttr
  strOf := fun v => match v with
    | .str s => some s
    | _ => Option.none

/-- the call machinery: star arguments expanded, then by the kind of the callee -/
def call (strict : Bool) (data : List (Str × CV)) (cc : CallT) (f : CV) (args : List (Bool × CV))
    (kws : List (Option Str × CV)) : R :=
  -- the lookup helpers of the rewritten code, called as the transformer writes the calls
  match f, args, kws with
  | .builtin n, [(false, a1), (false, a2)], [] =>
      if n = cs!"_lookup_name" then
        match a1, a2 with
        | .builtin d, .str id => if d = cs!"__data__" then lookupName (world strict data) id else unm
        | _, _ => unm
      else if n = cs!"_lookup_attr" then
        match a2 with
        | .str a => lookupAttr sem0 (world strict data) a1 a
        | _ => unm
      else if n = cs!"_lookup_item" then
        match a2 with
        | .tuple [key] => lookupItem sem0 (world strict data) a1 key
        | _ => unm
      else do
        let pos ← expand args
        callBuiltin n pos []
  | _, _, _ => do
      let pos ← expand args
      let ks ← expandKws kws
      match f with
      | .clo .. => cc f pos ks
      | .builtin n => callBuiltin n pos ks
      | .bound self n => callBound self n pos ks
      | .undef _ => .error .undefinedError
      | .none | .bool _ | .int _ | .str _ | .list _ | .tuple _ | .dict _ _ | .obj _ _ | .range _ _ => .error .typeError
      | _ => unm

def sem (strict : Bool) (data : List (Str × CV)) (cc : CallT) : Sem CV CE :=
  { sem0 with call := call strict data cc }

/-- the globals genshi evaluates the compiled code in (`LookupBase.globals`) -/
def globals (strict : Bool) (data : List (Str × CV)) (id : Str) : R :=
  if id = cs!"__data__" || id = cs!"_lookup_name" || id = cs!"_lookup_attr" || id = cs!"_lookup_item" then .ok (.builtin id)
  else if constantNames.contains id then lookupName (world strict data) id
  else .error .nameError

/-! ### binding the arguments of a call to the parameters -/

def bindPositional : List (Str × Option CV) → List CV → List (Str × CV) × List CV
  | (n, _) :: ps, v :: vs =>
      let (b, extra) := bindPositional ps vs
      ((n, v) :: b, extra)
  | _, vs => ([], vs)

def bindArgs (po ar : List (Str × Option CV)) (va : Option Str) (ko : List (Str × Option CV)) (ka : Option Str)
    (pos : List CV) (kws : List (Str × CV)) : Except CE (List (Str × CV)) := do
  let (b0, extra) := bindPositional (po ++ ar) pos
  if !extra.isEmpty && va.isNone then .error .typeError else
  -- keywords: to the positional-or-keyword and keyword-only parameters, the rest to `**kwargs`
  let kwNames := (ar ++ ko).map (·.1)
  let (b1, rest) ← kws.foldlM (fun (acc : List (Str × CV) × List (Str × CV)) (kv : Str × CV) =>
      if kwNames.contains kv.1 then
        if acc.1.any (fun p => p.1 = kv.1) then (.error .typeError : Except CE _) else .ok (acc.1 ++ [kv], acc.2)
      else if ka.isSome then .ok (acc.1, acc.2 ++ [kv])
      else .error .typeError) (b0, [])
  -- defaults for what is still unbound
  let b2 ← (po ++ ar ++ ko).foldlM (fun (acc : List (Str × CV)) (p : Str × Option CV) =>
      if acc.any (fun q => q.1 = p.1) then (.ok acc : Except CE _)
      else match p.2 with
        | some d => .ok (acc ++ [(p.1, d)])
        | Option.none => .error .typeError) b1
  let b3 := match va with
    | some n => b2 ++ [(n, .tuple extra)]
    | Option.none => b2
  .ok (match ka with
    | some n => b3 ++ [(n, .dict (rest.map fun p => .str p.1) (rest.map (·.2)))]
    | Option.none => b3)

end Genshi.Py.C

/-! ### the evaluator with closures as data -/
namespace Genshi.Py

section
variable {V E : Type} (σ : Sem V E) (look : Look V E)
  (mk : (po ar : List (Str × Option V)) → (va : Option Str) → (ko : List (Str × Option V)) → (ka : Option Str)
      → (names : List Str) → (body : PyExpr) → (env : Env V) → V)

mutual
def evalD : PyExpr → Env V → Except E V
  | .name id, env =>
      match env.find id with
      | some (some v) => .ok v
      | some none => .error (σ.unbound id)
      | none => look.free id
  | .const c, _ => .ok (σ.const c)
  | .boolOp op vs, env =>
      match vs with
      | [] => .error (σ.unbound [])
      | v :: rest => do
          let x ← evalD v env
          evalBoolD (op = cs!"And") x rest env
  | .binOp l op r, env => do
      let a ← evalD l env
      let b ← evalD r env
      σ.binop op a b
  | .unaryOp op e, env => do
      let a ← evalD e env
      σ.unop op a
  | .lambda po ar va ko ka body, env => do
      let dpo ← evalParamsD po env
      let dar ← evalParamsD ar env
      let dko ← evalParamsD ko env
      let names := targetNamesL po ++ targetNamesL ar ++ targetNamesL ko ++ targetNamesO va ++ targetNamesO ka
      .ok (mk dpo dar (optName va) dko (optName ka) names body env)
  | .ifExp t b o, env => do
      let c ← evalD t env
      if (← σ.truthy c) then evalD b env else evalD o env
  | .dict items, env => do
      let kvs ← evalDictD items env
      σ.mkDict kvs
  | .listComp elt gens, env => do
      let xs ← evalCompD elt gens env
      σ.mkList (xs.map fun x => (false, x))
  | .genExp elt gens, env =>
      match gens with
      | .comp t it ifs _ :: rest => do
          let itV ← evalD it env
          let itr ← σ.getIter itV
          .ok (σ.mkGen (do
            let items ← σ.iter itr
            runFromD t ifs rest items (declare (compNames gens) env) elt))
      | _ => .error (σ.unbound [])
  | .yield_ v, env => do
      let x ← evalOptD v env
      σ.yieldV x
  | .compare l rest, env => do
      let a ← evalD l env
      evalCmpD a rest env
  | .call f args kws, env => do
      let fv ← evalD f env
      let as ← evalArgsD args env
      let ks ← evalKwsD kws env
      σ.call fv as ks
  | .attribute v a, env => do
      let x ← evalD v env
      look.attr x a
  | .subscript v s, env => do
      let x ← evalD v env
      let k ← evalD s env
      if isSliceKey s then σ.getitem x k else look.item x k
  | .slice l u st, env => do
      let a ← evalOptD l env
      let b ← evalOptD u env
      let c ← evalOptD st env
      .ok (σ.mkSlice a b c)
  | .starred e, env => evalD e env
  | .list elts, env => do
      let xs ← evalArgsD elts env
      σ.mkList xs
  | .tuple elts, env => do
      let xs ← evalArgsD elts env
      σ.mkTuple xs
  | .unsupported _, _ => .error (σ.unbound [])
  | .keyword _ v, env => evalD v env
  | .comp _ it _ _, env => evalD it env
  | .param _ _ d, env => do
      let x ← evalOptD d env
      match x with
      | some v => .ok v
      | none => .error (σ.unbound [])
  | .dictItem _ v, env => evalD v env
  | .cmpRhs _ e, env => evalD e env
termination_by e _ => sizeOf e
def evalBoolD (isAnd : Bool) (x : V) : List PyExpr → Env V → Except E V
  | [], _ => .ok x
  | v :: rest, env => do
      let t ← σ.truthy x
      if t = isAnd then do
        let y ← evalD v env
        evalBoolD isAnd y rest env
      else .ok x
termination_by vs _ => sizeOf vs
def evalCmpD (a : V) : List PyExpr → Env V → Except E V
  | [], _ => .ok a
  | .cmpRhs op e :: rest, env => do
      let b ← evalD e env
      let r ← σ.cmp op a b
      if rest.isEmpty then .ok r
      else if (← σ.truthy r) then evalCmpD b rest env else .ok r
  | _ :: _, _ => .error (σ.unbound [])
termination_by rest _ => sizeOf rest
def evalOptD : Option PyExpr → Env V → Except E (Option V)
  | none, _ => .ok none
  | some e, env => do
      let x ← evalD e env
      .ok (some x)
termination_by o _ => sizeOf o
def evalArgsD : List PyExpr → Env V → Except E (List (Bool × V))
  | [], _ => .ok []
  | .starred e :: rest, env => do
      let x ← evalD e env
      let x ← σ.getIter x
      let xs ← evalArgsD rest env
      .ok ((true, x) :: xs)
  | e :: rest, env => do
      let x ← evalD e env
      let xs ← evalArgsD rest env
      .ok ((false, x) :: xs)
termination_by es _ => sizeOf es
def evalKwsD : List PyExpr → Env V → Except E (List (Option Str × V))
  | [], _ => .ok []
  | .keyword n v :: rest, env => do
      let x ← evalD v env
      let xs ← evalKwsD rest env
      .ok ((n, x) :: xs)
  | _ :: _, _ => .error (σ.unbound [])
termination_by es _ => sizeOf es
def evalDictD : List PyExpr → Env V → Except E (List (Option V × V))
  | [], _ => .ok []
  | .dictItem k v :: rest, env => do
      let a ← evalOptD k env
      let b ← evalD v env
      let xs ← evalDictD rest env
      .ok ((a, b) :: xs)
  | _ :: _, _ => .error (σ.unbound [])
termination_by es _ => sizeOf es
def evalParamsD : List PyExpr → Env V → Except E (List (Str × Option V))
  | [], _ => .ok []
  | .param n _ d :: rest, env => do
      let x ← evalOptD d env
      let xs ← evalParamsD rest env
      .ok ((n, x) :: xs)
  | _ :: _, _ => .error (σ.unbound [])
termination_by es _ => sizeOf es
def evalCondsD : List PyExpr → Env V → Except E Bool
  | [], _ => .ok true
  | c :: rest, env => do
      let x ← evalD c env
      if (← σ.truthy x) then evalCondsD rest env else .ok false
termination_by es _ => sizeOf es
def evalCompD (elt : PyExpr) : List PyExpr → Env V → Except E (List V)
  | .comp t it ifs _ :: rest, env => do
      let itV ← evalD it env
      let items ← σ.iter itV
      runFromD t ifs rest items (declare (targetNames t ++ compNames rest) env) elt
  | _, _ => .error (σ.unbound [])
termination_by gens _ => sizeOf elt + sizeOf gens
def runFromD (t : PyExpr) (ifs rest : List PyExpr) (items : List V) (env : Env V) (elt : PyExpr) : Except E (List V) :=
  (items.mapM fun item => do
      let b ← σ.bindTarget t item
      let env' := env.assign b
      if (← evalCondsD ifs env') then runGensD rest env' elt else .ok []).map List.flatten
termination_by sizeOf t + sizeOf ifs + sizeOf rest + sizeOf elt + 1
def runGensD : List PyExpr → Env V → PyExpr → Except E (List V)
  | [], env, elt => do
      let x ← evalD elt env
      .ok [x]
  | .comp t it ifs _ :: rest, env, elt => do
      let itV ← evalD it env
      let items ← σ.iter itV
      runFromD t ifs rest items env elt
  | _ :: _, _, _ => .error (σ.unbound [])
termination_by gens _ elt => sizeOf gens + sizeOf elt
end
end

namespace C

def mkClo (po ar : List (Str × Option CV)) (va : Option Str) (ko : List (Str × Option CV)) (ka : Option Str)
    (names : List Str) (body : PyExpr) (env : Env CV) : CV := .clo po ar va ko ka names body env

def lookOf (py strict : Bool) (data : List (Str × CV)) (cc : CallT) : Look CV CE :=
  if py then pyLook (sem strict data cc) (globals strict data) else gsLook (sem strict data cc) (world strict data)

/-- calling a closure: bind the arguments, evaluate the body in the parameter scope on top of the
    captured environment; `n` bounds the depth of re-entry -/
def callAt (py strict : Bool) (data : List (Str × CV)) : Nat → CallT
  | 0 => fun _ _ _ => .error .fuel
  | n + 1 => fun f pos kws =>
      match f with
      | .clo po ar va ko ka names body env => do
          let b ← bindArgs po ar va ko ka pos kws
          evalD (sem strict data (callAt py strict data n)) (lookOf py strict data (callAt py strict data n)) mkClo
            body (paramScope names b ++ env)
      | _ => .error .typeError

/-- `py = false`: the documented semantics of `e`;  `py = true`: Python's evaluation of the rewritten tree;
    `cc`: how closures are called -/
def runWith (py strict : Bool) (data : List (Str × CV)) (cc : CallT) (e : PyExpr) : R :=
  evalD (sem strict data cc) (lookOf py strict data cc) mkClo (if py then xform e else e) []

/-- … with closures called by re-entering the evaluator (same mode), `fuel` levels deep -/
def run (py strict : Bool) (data : List (Str × CV)) (fuel : Nat) (e : PyExpr) : R :=
  runWith py strict data (callAt py strict data fuel) e

end C
end Genshi.Py

/-
  C10 — one `next()` of a render as a transition of a coroutine state.

  A render (`Template.generate(**data)` iterated lazily) is the `_flatten` generator
  (`genshi/template/base.py`) with its stack of suspended iterators, fed by the template's
  stream or by the `Translator.__call__` generator over it (`genshi/filters/i18n.py`); the
  directive generators (`genshi/template/directives.py`) are the nodes of the iterator tree.
  `_match` and `_include` pass every event through in this fragment (no match templates, no
  INCLUDE events).

  Every function is total; recursion is on an explicit fuel (a step that needs more reports
  `Err.fuel`).  The template's heap is threaded through exactly the code paths that hold a
  reference to one of its lists and call a mutating method on it.
-/
import Genshi.Model.Heap
namespace Genshi.Heap
open Genshi

/-- the part of a render's private state directives and filters work on -/
structure St where
  ctx : Ctx
  ph : Heap
  deriving DecidableEq, Repr, Inhabited

/-- iterator objects: list iterators and (suspended) directive generators -/
inductive It where
  | lst (evs : List TEv)                 -- iterator over a list private to the render: remaining items
  | ref (r : Ref) (i : Nat)              -- Python list iterator: the list is read at every `next()`
  | raw (r : Ref) (i : Nat)              -- a list object used as `stream` (SUB with an empty directive list):
                                         -- the `for` statement makes a NEW iterator whenever it is re-entered
  | ensure (xs : List Atom)              -- `_ensure(result)` for an expression that produced a list
  | forNew (var : Str) (e : Expr) (src : It) (rest : List Dir)
  | forNext (var : Str) (items : List Atom) (scope : Frame) (body : List TEv) (rest : List Dir)
  | forRun (var : Str) (items : List Atom) (scope : Frame) (body : List TEv) (rest : List Dir) (inner : It)
                                         -- `scope`: the ONE dict ForDirective pushes for every item; what was
                                         -- written into it while it was `frames[0]` is still there next time
  | withNew (binds : List (Str × Expr)) (src : It) (rest : List Dir)
  | popAfter (inner : It)                -- py:with / i18n:domain / i18n:ctxt running: `ctxt.pop()` at the end
  | chooseNew (e : Option Expr) (src : It) (rest : List Dir)
  | chooseRun (inner : It)               -- `_choice_stack.pop()` at the end
  | pushNew (f : Frame) (src : It) (rest : List Dir)
  | stripNew (e : Option Expr) (src : It)
  | stripRun (prev : TEv) (src : It)     -- StripDirective._generate with its one-event look-behind
  | attrsNew (spec : AttrsSpec) (src : It)   -- AttrsDirective._generate, not started
  | macroNew (m : Macro) (arg : Option Val)   -- the generator a `py:def` function returned, not started
  | genfNew (x : Str) (src body : Expr)   -- `_ensure(result)` over the generator object of a generator function,
                                         -- not started: the first `next()` evaluates `src` and calls `iter()`
  | genexp (x : Str) (items : List Atom) (body : Expr)
                                         -- `_ensure(result)` over the generator object of `(body for x in …)`:
                                         -- `body` runs at each `next()`, in the render's context as it is then
  | forNextG (var : Str) (x : Str) (items : List Atom) (gbody : Expr) (scope : Frame) (body : List TEv)
      (rest : List Dir)                  -- ForDirective iterating over such a generator object: the next item is
                                         -- computed after `ctxt.pop()`
  | forRunG (var : Str) (x : Str) (items : List Atom) (gbody : Expr) (scope : Frame) (body : List TEv)
      (rest : List Dir) (inner : It)
  | dead
  deriving DecidableEq, Repr, Inhabited

inductive PullOut where
  | item (t : TEv)
  | done
  | err (e : Err)
  deriving DecidableEq, Repr, Inhabited

def sDomain : Str := ['_', 'i', '1', '8', 'n', '.', 'd', 'o', 'm', 'a', 'i', 'n']
def sContext : Str := ['_', 'i', '1', '8', 'n', '.', 'c', 'o', 'n', 't', 'e', 'x', 't']

/-! ## attribute values: interpolation (`_flatten` on a START event) and `py:attrs` -/

/-- the TEXT data the nested `_flatten(value, ctxt)` yields for the list of an interpolated attribute
    value (a list of TEXT and EXPR events): `None` results are skipped, an iterable goes through `_ensure` -/
def interpParts (fs : List Frame) : List TEv → Except Err (List Str)
  | [] => .ok []
  | t :: ts =>
    let here : Except Err (List Str) :=
      match t with
      | .out (.text s _) => .ok [s]
      | .expr e =>
        (match eval fs e with
         | .error er => .error er
         | .ok (.atom .none) => .ok []
         | .ok (.atom a) => .ok [a.text]
         | .ok (.list xs) => .ok (xs.map Atom.text)
         | .ok _ => .error .unmodelled)
      | _ => .error .unmodelled
    match here with
    | .error er => .error er
    | .ok a =>
      match interpParts fs ts with
      | .error er => .error er
      | .ok b => .ok (a ++ b)

/-- the loop over `attrs` in `_flatten`: `if not values: continue` drops the attribute, otherwise
    `''.join(values)` -/
def evalAttrs (h ph : Heap) (fs : List Frame) : List (QName × AVal) → Except Err AttrList
  | [] => .ok []
  | (n, .plain s) :: rest =>
    (match evalAttrs h ph fs rest with
     | .error er => .error er
     | .ok as => .ok ((n, s) :: as))
  | (n, .interp r) :: rest =>
    match readEvs h ph r with
    | none => .error .unmodelled
    | some parts =>
      match interpParts fs parts with
      | .error er => .error er
      | .ok vals =>
        match evalAttrs h ph fs rest with
        | .error er => .error er
        | .ok as => .ok (if vals.isEmpty then as else (n, vals.flatten) :: as)

/-- characters `str.strip()` removes, as far as the model goes (a text with a character outside ASCII is
    outside the model) -/
def isStripSpace (c : Char) : Bool :=
  c = ' ' || (9 ≤ c.toNat && c.toNat ≤ 13) || (28 ≤ c.toNat && c.toNat ≤ 31)

/-- `None if v is None else str(v).strip()` (genshi fix ec9dd78: an empty value is kept; before it
    `v is not None and str(v).strip() or None` removed the attribute) -/
def attrText : Val → Except Err (Option Str)
  | .atom .none => .ok none
  | .atom a =>
    if a.text.all (fun c => c.toNat < 128) then
      .ok (some (Genshi.Str.stripBy isStripSpace a.text))
    else .error .unmodelled
  | _ => .error .unmodelled

/-- the values of a dict / list display, left to right -/
def evalEntries (fs : List Frame) : List (Str × Expr) → Except Err (List (Str × Val))
  | [] => .ok []
  | (k, e) :: rest =>
    match eval fs e with
    | .error er => .error er
    | .ok v =>
      match evalEntries fs rest with
      | .error er => .error er
      | .ok vs => .ok ((k, v) :: vs)

def entryTexts : List (Str × Val) → Except Err (List (QName × Option Str))
  | [] => .ok []
  | (k, v) :: rest =>
    match attrText v with
    | .error er => .error er
    | .ok t =>
      match entryTexts rest with
      | .error er => .error er
      | .ok ts => .ok ((QName.plain k, t) :: ts)

/-- `attrs = _eval_expr(self.expr, …)`, then (`if attrs:`) the list of `(QName(n), text or None)`;
    `none`: the value is false, the START event stays as it is -/
def evalAttrsSpec (fs : List Frame) : AttrsSpec → Except Err (Option (List (QName × Option Str)))
  | .dict kvs =>
    (match evalEntries fs kvs with
     | .error er => .error er
     | .ok vs =>
       -- a dict: a repeated key keeps its first position and gets the last value
       let d : Frame := vs.foldl (fun acc (kv : Str × Val) => Frame.set acc kv.1 kv.2) []
       if d.isEmpty then .ok none else (entryTexts d).map some)
  | .pairs kvs =>
    (match evalEntries fs kvs with
     | .error er => .error er
     | .ok vs => if vs.isEmpty then .ok none else (entryTexts vs).map some)
  | .expr e =>
    match eval fs e with
    | .error er => .error er
    | .ok v =>
      if !v.truthy then .ok none
      else match v with
        | .atom _ => .error .attribute        -- `attrs.items()` on a number / string
        | _ => .error .unmodelled

/-- `Attrs.__or__`: names given `None` are removed, names already present get the (last) new value in
    place, the others are appended (a repeated new name keeps its first position, last value) -/
def attrsOr (self : List (QName × AVal)) (new : List (QName × Option Str)) : List (QName × AVal) :=
  let inSelf (n : QName) : Bool := self.any (fun p => p.1 == n)
  let removed (n : QName) : Bool := new.any (fun p => p.1 == n && p.2.isNone)
  let replace (n : QName) : Option Str :=
    (new.reverse.find? (fun p => p.1 == n && p.2.isSome)).bind (·.2)
  let added : List (QName × AVal) := new.foldl (fun acc p =>
      match p.2 with
      | none => acc
      | some v =>
        if inSelf p.1 || removed p.1 then acc
        else if acc.any (fun q => q.1 == p.1) then acc.map (fun q => if q.1 == p.1 then (q.1, .plain v) else q)
        else acc ++ [(p.1, .plain v)]) []
  (self.filter (fun p => !removed p.1)).map (fun p =>
      match replace p.1 with
      | some v => (p.1, AVal.plain v)
      | none => p) ++ added

/-- the START data of a template event, if it is one -/
def startOf : TEv → Option (QName × List (QName × AVal))
  | .out (.start tag attrs) => some (tag, attrs.map fun p => (p.1, .plain p.2))
  | .startI tag attrs => some (tag, attrs)
  | _ => none

/-! ## `_apply_directives`: the part of each directive that runs when it is applied -/

/-- `py:when`: decide the branch; `none` = TemplateRuntimeError -/
def whenMatched (fs : List Frame) (info : Choice) (e : Option Expr) : Except Err Bool :=
  match e, info.hasTest with
  | none, false => .error .runtime
  | none, true => .ok (match info.value with | some v => v.truthy | none => false)
  | some ex, true =>
    match eval fs ex with
    | .error er => .error er
    | .ok x => .ok (match info.value with | some v => v.pyEq x | none => false)
  | some ex, false =>
    match eval fs ex with
    | .error er => .error er
    | .ok x => .ok x.truthy

/-- `list(stream)` for a plain list iterator -/
def remaining (h ph : Heap) : It → Option (List TEv)
  | .lst l => some l
  | .ref r i => (readEvs h ph r).map (·.drop i)
  | _ => none

def applyDirs (h ph : Heap) (c : Ctx) (stream : It) : List Dir → Except Err (Ctx × It)
  | [] => .ok (c, stream)
  | d :: rest =>
    match d.kind with
    | .pyIf e =>
      match eval c.frames e with
      | .error er => .error er
      | .ok v => if v.truthy then applyDirs h ph c stream rest else .ok (c, .lst [])
    | .pyFor var e => .ok (c, .forNew var e stream rest)
    | .pyWith b => .ok (c, .withNew b stream rest)
    | .pyChoose e => .ok (c, .chooseNew e stream rest)
    | .i18nDomain dm => .ok (c, .pushNew [(sDomain, .atom (.str dm))] stream rest)
    | .i18nCtxt cx => .ok (c, .pushNew [(sContext, .atom (.str cx))] stream rest)
    | .i18nComment _ => applyDirs h ph c stream rest
    | .pyWhen e =>
      match c.choice with
      | [] => .error .runtime
      | info :: more =>
        if info.matched then .ok (c, .lst [])
        else
          match whenMatched c.frames info e with
          | .error er => .error er
          | .ok m =>
            let c' := { c with choice := { info with matched := m } :: more }
            if m then applyDirs h ph c' stream rest else .ok (c', .lst [])
    | .pyOtherwise =>
      match c.choice with
      | [] => .error .runtime
      | info :: more =>
        if info.matched then .ok (c, .lst [])
        else applyDirs h ph { c with choice := { info with matched := true } :: more } stream rest
    | .pyStrip e => applyDirs h ph c (.stripNew e stream) rest
    | .pyAttrs spec => applyDirs h ph c (.attrsNew spec stream) rest
    | .pyDef name params =>
      -- DefDirective.__call__: `stream = list(stream)`; the function goes into the BOTTOM frame; nothing is output
      match remaining h ph stream with
      | none => .error .unmodelled
      | some body =>
        .ok ({ c with frames := setBottom c.frames name (.macro ⟨name, params, body, rest⟩) }, .lst [])
    | .pyMatch name once =>
      -- MatchDirective.__call__: `ctxt._match_templates.append((test, path, list(stream), hints, ns, directives))`
      match remaining h ph stream with
      | none => .error .unmodelled
      | some body => .ok ({ c with mts := c.mts ++ [⟨name, body, once, rest, false⟩] }, .lst [])
    | _ => .error .unmodelled

/-! ## directive generators -/

/-- `py:with`: the assignments are evaluated one after the other in the frame already pushed -/
def evalBinds (c : Ctx) : List (Str × Expr) → Except (Ctx × Err) Ctx
  | [] => .ok c
  | (n, e) :: rest =>
    match eval c.frames e with
    | .error er => .error (c, er)
    | .ok v =>
      -- a generator object bound to a name can be consumed from several places: outside the model
      if v.isGenerator then .error (c, .unmodelled) else evalBinds (c.setTop n v) rest

/-- positional arguments first, then the default expressions (evaluated in the caller's context at call
    time); a parameter with neither: `_eval_expr(None, …)` raises AttributeError.  Extra arguments are dropped. -/
def bindParams (fs : List Frame) : List (Str × Option Expr) → Option Val → Frame → Except Err Frame
  | [], _, acc => .ok acc
  | (n, _) :: rest, some a, acc => bindParams fs rest none (acc ++ [(n, a)])
  | (n, some d) :: rest, none, acc =>
    match eval fs d with
    | .error er => .error er
    | .ok v => bindParams fs rest none (acc ++ [(n, v)])
  | (_, none) :: _, none, _ => .error .attribute

structure PullRes where
  st : St
  it : It
  out : PullOut
  deriving DecidableEq, Repr, Inhabited

/-- `next(it)`; the template heap is only read -/
def pull (h : Heap) : Nat → St → It → PullRes
  | 0, st, it => ⟨st, it, .err .fuel⟩
  | fuel + 1, st, it =>
    match it with
    | .dead => ⟨st, .dead, .done⟩
    | .lst [] => ⟨st, .lst [], .done⟩
    | .lst (t :: ts) => ⟨st, .lst ts, .item t⟩
    | .ref r i =>
      match readEvs h st.ph r with
      | none => ⟨st, .dead, .err .unmodelled⟩
      | some l =>
        match l[i]? with
        | some t => ⟨st, .ref r (i + 1), .item t⟩
        | none => ⟨st, .ref r i, .done⟩
    | .raw r i =>
      match readEvs h st.ph r with
      | none => ⟨st, .dead, .err .unmodelled⟩
      | some l =>
        match l[i]? with
        | some t => ⟨st, .raw r (i + 1), .item t⟩
        | none => ⟨st, .raw r i, .done⟩
    | .ensure [] => ⟨st, .ensure [], .done⟩
    | .ensure (a :: as) => ⟨st, .ensure as, .item (.out (.text a.text false))⟩
    | .forNew var e src rest =>
      match eval st.ctx.frames e with
      | .error er => ⟨st, .dead, .err er⟩
      | .ok v =>
        match v with
        | .genx x items gbody =>
          -- `iter(generator)` is the generator; `stream = list(stream)`; then the loop asks for the first item
          (match remaining h st.ph src with
           | none => ⟨st, .dead, .err .unmodelled⟩
           | some body => pull h fuel st (.forNextG var x items gbody [] body rest))
        | .genf x gsrc gbody =>
          -- the generator of a generator function: its `for x in src` starts at the first `next()`, i.e. here,
          -- after `stream = list(stream)`
          (match remaining h st.ph src with
           | none => ⟨st, .dead, .err .unmodelled⟩
           | some body =>
             match eval st.ctx.frames gsrc with
             | .error er => ⟨st, .dead, .err er⟩
             | .ok (.atom a) =>
               (match iterItems (.atom a) with
                | none => ⟨st, .dead, .err .typeError⟩
                | some items => pull h fuel st (.forNextG var x items gbody [] body rest))
             | .ok (.list xs) => pull h fuel st (.forNextG var x xs gbody [] body rest)
             | .ok (.opaque _) | .ok (.macro _) | .ok (.genfn _ _ _ _) | .ok (.lam _ _) => ⟨st, .dead, .err .typeError⟩
             | .ok _ => ⟨st, .dead, .err .unmodelled⟩)
        | .gen0 _ | .gen1 _ _ => ⟨st, .dead, .err .unmodelled⟩
        | _ =>
        match iterItems v with
        | none => ⟨st, .dead, .err .typeError⟩
        | some items =>
          match remaining h st.ph src with
          | none => ⟨st, .dead, .err .unmodelled⟩
          | some body => pull h fuel st (.forNext var items [] body rest)
    | .forNext _ [] _ _ _ => ⟨st, .dead, .done⟩
    | .forNext var (x :: xs) scope body rest =>
      -- `assign(scope, item); ctxt.push(scope)`
      let c1 := st.ctx.push (Frame.set scope var (.atom x))
      match applyDirs h st.ph c1 (.lst body) rest with
      | .error er => ⟨{ st with ctx := c1 }, .dead, .err er⟩
      | .ok (c2, inner) => pull h fuel { st with ctx := c2 } (.forRun var xs scope body rest inner)
    | .forRun var xs scope body rest inner =>
      let r := pull h fuel st inner
      match r.out with
      | .item t => ⟨r.st, .forRun var xs scope body rest r.it, .item t⟩
      | .err er => ⟨r.st, .dead, .err er⟩
      | .done =>
        -- `ctxt.pop()`: the frame that comes off is the scope dict with whatever was stored in it meanwhile
        pull h fuel { r.st with ctx := r.st.ctx.pop } (.forNext var xs (r.st.ctx.frames.headD scope) body rest)
    | .forNextG _ _ [] _ _ _ _ => ⟨st, .dead, .done⟩
    | .forNextG var x (a :: as) gbody scope body rest =>
      -- `next(generator)`: the body of the nested scope runs NOW — `x` is its local, every other name is looked
      -- up in the Context (`__data__` of the globals of the eval that created the generator) as it is now
      match eval ([(x, .atom a)] :: st.ctx.frames) gbody with
      | .error er => ⟨st, .dead, .err er⟩
      | .ok v =>
        if v.isGenerator then ⟨st, .dead, .err .unmodelled⟩
        else
          let c1 := st.ctx.push (Frame.set scope var v)
          match applyDirs h st.ph c1 (.lst body) rest with
          | .error er => ⟨{ st with ctx := c1 }, .dead, .err er⟩
          | .ok (c2, inner) => pull h fuel { st with ctx := c2 } (.forRunG var x as gbody scope body rest inner)
    | .forRunG var x xs gbody scope body rest inner =>
      let r := pull h fuel st inner
      match r.out with
      | .item t => ⟨r.st, .forRunG var x xs gbody scope body rest r.it, .item t⟩
      | .err er => ⟨r.st, .dead, .err er⟩
      | .done =>
        pull h fuel { r.st with ctx := r.st.ctx.pop } (.forNextG var x xs gbody (r.st.ctx.frames.headD scope) body rest)
    | .genfNew x gsrc gbody =>
      match eval st.ctx.frames gsrc with
      | .error er => ⟨st, .dead, .err er⟩
      | .ok (.atom a) =>
        (match iterItems (.atom a) with
         | none => ⟨st, .dead, .err .typeError⟩
         | some items => pull h fuel st (.genexp x items gbody))
      | .ok (.list xs) => pull h fuel st (.genexp x xs gbody)
      | .ok (.opaque _) | .ok (.macro _) | .ok (.genfn _ _ _ _) | .ok (.lam _ _) => ⟨st, .dead, .err .typeError⟩
      | .ok _ => ⟨st, .dead, .err .unmodelled⟩
    | .genexp _ [] _ => ⟨st, .dead, .done⟩
    | .genexp x (a :: as) gbody =>
      -- `_ensure`: `next(stream)`, then `TEXT, str(item)` for an item that is no event tuple
      match eval ([(x, .atom a)] :: st.ctx.frames) gbody with
      | .error er => ⟨st, .dead, .err er⟩
      | .ok (.atom v) => ⟨st, .genexp x as gbody, .item (.out (.text v.text false))⟩
      | .ok _ => ⟨st, .dead, .err .unmodelled⟩
    | .withNew binds src rest =>
      match evalBinds (st.ctx.push []) binds with
      | .error (c', er) => ⟨{ st with ctx := c' }, .dead, .err er⟩
      | .ok c2 =>
        match applyDirs h st.ph c2 src rest with
        | .error er => ⟨{ st with ctx := c2 }, .dead, .err er⟩
        | .ok (c3, inner) => pull h fuel { st with ctx := c3 } (.popAfter inner)
    | .popAfter inner =>
      let r := pull h fuel st inner
      match r.out with
      | .item t => ⟨r.st, .popAfter r.it, .item t⟩
      | .err er => ⟨r.st, .dead, .err er⟩
      | .done => ⟨{ r.st with ctx := r.st.ctx.pop }, .dead, .done⟩
    | .chooseNew e src rest =>
      let val : Except Err (Option Val) :=
        match e with
        | none => .ok none
        | some ex => (eval st.ctx.frames ex).map some
      match val with
      | .error er => ⟨st, .dead, .err er⟩
      | .ok v =>
        let c1 := { st.ctx with choice := ⟨false, e.isSome, v⟩ :: st.ctx.choice }
        match applyDirs h st.ph c1 src rest with
        | .error er => ⟨{ st with ctx := c1 }, .dead, .err er⟩
        | .ok (c2, inner) => pull h fuel { st with ctx := c2 } (.chooseRun inner)
    | .chooseRun inner =>
      let r := pull h fuel st inner
      match r.out with
      | .item t => ⟨r.st, .chooseRun r.it, .item t⟩
      | .err er => ⟨r.st, .dead, .err er⟩
      | .done => ⟨{ r.st with ctx := { r.st.ctx with choice := r.st.ctx.choice.tail } }, .dead, .done⟩
    | .pushNew f src rest =>
      let c1 := st.ctx.push f
      match applyDirs h st.ph c1 src rest with
      | .error er => ⟨{ st with ctx := c1 }, .dead, .err er⟩
      | .ok (c2, inner) => pull h fuel { st with ctx := c2 } (.popAfter inner)
    | .stripNew e src =>
      let cond : Except Err Bool :=
        match e with
        | none => .ok true
        | some ex => (eval st.ctx.frames ex).map Val.truthy
      match cond with
      | .error er => ⟨st, .dead, .err er⟩
      | .ok false => pull h fuel st src
      | .ok true =>
        let r1 := pull h fuel st src            -- next(stream): skip the start tag
        match r1.out with
        | .err er => ⟨r1.st, .dead, .err er⟩
        | .done => ⟨r1.st, .dead, .err .stopIter⟩
        | .item _ =>
          let r2 := pull h fuel r1.st r1.it      -- previous = next(stream)
          match r2.out with
          | .err er => ⟨r2.st, .dead, .err er⟩
          | .done => ⟨r2.st, .dead, .err .stopIter⟩
          | .item p => pull h fuel r2.st (.stripRun p r2.it)
    | .macroNew m arg =>
      -- the body of `function(*args)`: bind the parameters, push the scope, apply the remaining directives
      match bindParams st.ctx.frames m.params arg [] with
      | .error er => ⟨st, .dead, .err er⟩
      | .ok scope =>
        let c1 := st.ctx.push scope
        match applyDirs h st.ph c1 (.lst m.body) m.rest with
        | .error er => ⟨{ st with ctx := c1 }, .dead, .err er⟩
        | .ok (c2, inner) => pull h fuel { st with ctx := c2 } (.popAfter inner)
    | .stripRun p src =>
      let r := pull h fuel st src
      match r.out with
      | .item t => ⟨r.st, .stripRun t r.it, .item p⟩
      | .err er => ⟨r.st, .dead, .err er⟩
      | .done => ⟨r.st, .dead, .done⟩
    | .attrsNew spec src =>
      -- `kind, data, pos = next(stream)`; the expression is evaluated only for a START; afterwards the
      -- generator relays the stream
      let r := pull h fuel st src
      match r.out with
      | .err er => ⟨r.st, .dead, .err er⟩
      | .done => ⟨r.st, .dead, .err .stopIter⟩
      | .item t =>
        match startOf t with
        | none => ⟨r.st, r.it, .item t⟩
        | some (tag, attrib) =>
          match evalAttrsSpec r.st.ctx.frames spec with
          | .error er => ⟨r.st, .dead, .err er⟩
          | .ok none => ⟨r.st, r.it, .item t⟩
          | .ok (some new) => ⟨r.st, r.it, .item (.startI tag (attrsOr attrib new))⟩

/-! ## `Translator.__call__` -/

def i18nKeys : List Str := [
  ['_','i','1','8','n','.','g','e','t','t','e','x','t'],
  ['_','i','1','8','n','.','n','g','e','t','t','e','x','t'],
  ['_','i','1','8','n','.','d','g','e','t','t','e','x','t'],
  ['_','i','1','8','n','.','d','n','g','e','t','t','e','x','t'],
  ['_','i','1','8','n','.','p','g','e','t','t','e','x','t'],
  ['_','i','1','8','n','.','n','p','g','e','t','t','e','x','t'],
  ['_','i','1','8','n','.','d','p','g','e','t','t','e','x','t'],
  ['_','i','1','8','n','.','d','n','p','g','e','t','t','e','x','t']]

/-- the generator's prologue: `ctxt['_i18n.gettext'] = gettext` … (translations object) -/
def setI18nKeys (c : Ctx) : Ctx := i18nKeys.foldl (fun c k => c.setTop k (.opaque k)) c

def popN : Nat → Ctx → Ctx
  | 0, c => c
  | n + 1, c => popN n c.pop

def insertAt : Nat → Dir → List Dir → List Dir
  | 0, d, l => d :: l
  | _ + 1, d, [] => [d]
  | n + 1, d, x :: xs => x :: insertAt n d xs

/-- state of `for idx, directive in enumerate(directives)` -/
structure Reorder where
  ds : List Dir
  dom : Option Str
  cx : Option Str
  ctx : Ctx
  deriving Repr, Inhabited

/-- the loop body runs on the list as it is at that moment (Python list iterator) -/
def reorderLoop : Nat → Nat → Reorder → Reorder
  | 0, _, s => s
  | n + 1, i, s =>
    match s.ds[i]? with
    | none => s
    | some d =>
      match d.kind with
      | .i18nDomain dm =>
        reorderLoop n (i + 1)
          { s with dom := some dm, ctx := s.ctx.push [(sDomain, .atom (.str dm))],
                   ds := d :: s.ds.eraseIdx i }
      | .i18nCtxt c =>
        let pos := match s.dom with | some dm => if dm.isEmpty then 0 else 1 | none => 0
        reorderLoop n (i + 1)
          { s with cx := some c, ctx := s.ctx.push [(sContext, .atom (.str c))],
                   ds := insertAt pos d (s.ds.eraseIdx i) }
      | _ => reorderLoop n (i + 1) s

/-- the same loop one list-method call at a time: the contents of the list after every `pop` and every
    `insert` (what another thread holding a reference to the list can see, before the fix) -/
def reorderMicro : Nat → Nat → List Dir → Bool → List (List Dir)
  | 0, _, _, _ => []
  | n + 1, i, ds, dom =>
    match ds[i]? with
    | none => []
    | some d =>
      match d.kind with
      | .i18nDomain dm =>
        let a := ds.eraseIdx i
        let b := d :: a
        a :: b :: reorderMicro n (i + 1) b (!dm.isEmpty)
      | .i18nCtxt _ =>
        let a := ds.eraseIdx i
        let b := insertAt (if dom then 1 else 0) d a
        a :: b :: reorderMicro n (i + 1) b dom
      | _ => reorderMicro n (i + 1) ds dom

def strTruthy : Option Str → Bool
  | some s => !s.isEmpty
  | none => false

/-- result of translating a list of events eagerly (`list(self(substream, ctxt, …))`) -/
structure TRes where
  h : Heap
  st : St
  out : List TEv
  err : Option Err
  deriving Repr, Inhabited

/-- result of handling one SUB event up to its `yield` -/
structure TSub where
  h : Heap
  st : St
  ev : TEv
  pops : Nat          -- `ctxt.pop()`s executed when the generator is resumed
  err : Option Err
  deriving Repr, Inhabited

def writeDirs (h ph : Heap) (r : Ref) (ds : List Dir) : Heap × Heap :=
  match r with
  | .tmpl a => (h.set a (.dirs ds), ph)
  | .priv a => (h, ph.set a (.dirs ds))

/-- the SUB branch of `Translator.__call__`.  `nested` is the recursive call on the sub-stream.
    Before the fix the reordering is done on the list the event refers to — the template's. -/
def transSub (v : Variant) (nested : Heap → St → List TEv → TRes) (h : Heap) (st : St)
    (d b : Ref) : TSub :=
  match readDirs h st.ph d, readEvs h st.ph b with
  | some ds, some body =>
    let r := reorderLoop ds.length 0 ⟨ds, none, none, st.ctx⟩
    let (h1, ph1, dref) :=
      if v.callCopies then (h, st.ph ++ [.dirs r.ds], Ref.priv st.ph.length)
      else let w := writeDirs h st.ph d r.ds; (w.1, w.2, d)
    let n := nested h1 ⟨setI18nKeys r.ctx, ph1⟩ body
    let bref := Ref.priv n.st.ph.length
    let pops := (if strTruthy r.dom then 1 else 0) + (if strTruthy r.cx then 1 else 0)
    ⟨n.h, { n.st with ph := n.st.ph ++ [.evs n.out] }, .sub dref bref, pops, n.err⟩
  | _, _ => ⟨h, st, .other, 0, some .unmodelled⟩

/-- the body of the generator over a list of events, run to exhaustion (identity catalogue:
    START / TEXT events are re-yielded unchanged) -/
def transEvs (v : Variant) : Nat → Heap → St → List TEv → TRes
  | 0, h, st, _ => ⟨h, st, [], some .fuel⟩
  | _ + 1, h, st, [] => ⟨h, st, [], none⟩
  | fuel + 1, h, st, t :: ts =>
    match t with
    | .sub d b =>
      let r := transSub v (transEvs v fuel) h st d b
      match r.err with
      | some e => ⟨r.h, r.st, [], some e⟩
      | none =>
        let rest := transEvs v fuel r.h { r.st with ctx := popN r.pops r.st.ctx } ts
        ⟨rest.h, rest.st, r.ev :: rest.out, rest.err⟩
    | .startI _ attrs =>
      -- `newval = list(self(_ensure(value), ctxt, translate_text=False))` for every interpolated value: a nested
      -- call whose prologue stores the eight functions in `frames[0]`; identity catalogue: the events stay
      let st1 : St := if attrs.any (fun p => p.2.isInterp) then { st with ctx := setI18nKeys st.ctx } else st
      let rest := transEvs v fuel h st1 ts
      ⟨rest.h, rest.st, t :: rest.out, rest.err⟩
    | _ =>
      let rest := transEvs v fuel h st ts
      ⟨rest.h, rest.st, t :: rest.out, rest.err⟩

/-- what `_flatten` pulls from when its own stack is empty: the list `root` (a template's `_stream`, or the
    fallback of an include), directly or through the Translator generator -/
inductive Src where
  | direct (root : Ref) (i : Nat)                                -- `iter(stream)`
  | trans (root : Ref) (i : Nat) (started : Bool) (pend : Nat)   -- the Translator generator over it, suspended
  | none                                                         -- `_flatten(iterator)`: everything is on the stack
  deriving DecidableEq, Repr, Inhabited

structure SrcRes where
  h : Heap
  st : St
  src : Src
  out : PullOut
  deriving Repr, Inhabited

def pullSource (v : Variant) (fuel : Nat) (h : Heap) (st : St) : Src → SrcRes
  | .none => ⟨h, st, .none, .done⟩
  | .direct root i =>
    match readEvs h st.ph root with
    | none => ⟨h, st, .direct root i, .err .unmodelled⟩
    | some l =>
      match l[i]? with
      | some t => ⟨h, st, .direct root (i + 1), .item t⟩
      | none => ⟨h, st, .direct root i, .done⟩
  | .trans root i started pend =>
    let c0 := if started then st.ctx else setI18nKeys st.ctx
    let st1 : St := { st with ctx := popN pend c0 }
    match readEvs h st.ph root with
    | none => ⟨h, st1, .trans root i true 0, .err .unmodelled⟩
    | some l =>
      match l[i]? with
      | none => ⟨h, st1, .trans root i true 0, .done⟩
      | some (.sub d b) =>
        let r := transSub v (transEvs v fuel) h st1 d b
        match r.err with
        | some e => ⟨r.h, r.st, .trans root (i + 1) true 0, .err e⟩
        | none => ⟨r.h, r.st, .trans root (i + 1) true r.pops, .item r.ev⟩
      | some (.startI tag attrs) =>
        let st2 : St := if attrs.any (fun p => p.2.isInterp) then { st1 with ctx := setI18nKeys st1.ctx } else st1
        ⟨h, st2, .trans root (i + 1) true 0, .item (.startI tag attrs)⟩
      | some t => ⟨h, st1, .trans root (i + 1) true 0, .item t⟩

/-! ## `_flatten` -/

/-- `stream = pop()` followed by `for … in stream`: an iterator continues, a list starts again -/
def resumeTop : List It → List It
  | .raw r _ :: rest => .raw r 0 :: rest
  | l => l

/-- what comes out of `_flatten` (and passes `_match` unchanged) -/
inductive FlatOut where
  | ev (e : Event)
  | done
  | err (e : Err)
  | incl (t : Option Nat) (fb : Option Ref)      -- an INCLUDE event, for the `_include` filter behind
  deriving DecidableEq, Repr, Inhabited

structure FlatRes where
  h : Heap
  st : St
  src : Src
  stack : List It
  out : FlatOut
  deriving Repr, Inhabited

def flat (v : Variant) : Nat → Heap → St → Src → List It → FlatRes
  | 0, h, st, src, stack => ⟨h, st, src, stack, .err .fuel⟩
  | fuel + 1, h, st, src, stack =>
    let p : SrcRes × List It :=
      match stack with
      | [] => (pullSource v fuel h st src, [])
      | it :: rest =>
        let r := pull h fuel st it
        (⟨h, r.st, src, r.out⟩, r.it :: rest)
    let h1 := p.1.h
    let st1 := p.1.st
    let src1 := p.1.src
    let stack1 := p.2
    match p.1.out with
    | .err e => ⟨h1, st1, src1, stack1, .err e⟩
    | .done =>
      match stack1 with
      | [] => ⟨h1, st1, src1, [], .done⟩
      | _ :: rest => flat v fuel h1 st1 src1 (resumeTop rest)
    | .item t =>
      match t with
      | .out e => ⟨h1, st1, src1, stack1, .ev e⟩
      | .other => ⟨h1, st1, src1, stack1, .err .unmodelled⟩
      | .execGen name x gsrc gbody =>
        -- `_exec_suite`: `exec(code, globals, ctxt)` — the `def` statement stores the function with `ctxt[name] = …`
        -- (`frames[0]`); nothing is yielded
        flat v fuel h1 { st1 with ctx := st1.ctx.setTop name (.genfn name x gsrc gbody) } src1 stack1
      | .incl ti fb => ⟨h1, st1, src1, stack1, .incl ti fb⟩
      | .startI tag attrs =>
        match evalAttrs h1 st1.ph st1.ctx.frames attrs with
        | .error er => ⟨h1, st1, src1, stack1, .err er⟩
        | .ok as => ⟨h1, st1, src1, stack1, .ev (.start tag as)⟩
      | .expr ex =>
        match eval st1.ctx.frames ex with
        | .error er => ⟨h1, st1, src1, stack1, .err er⟩
        | .ok (.atom .none) => flat v fuel h1 st1 src1 stack1
        | .ok (.atom (.str s)) => ⟨h1, st1, src1, stack1, .ev (.text s false)⟩
        | .ok (.atom a) => ⟨h1, st1, src1, stack1, .ev (.text a.text false)⟩
        | .ok (.list xs) => flat v fuel h1 st1 src1 (.ensure xs :: stack1)
        | .ok (.opaque _) => ⟨h1, st1, src1, stack1, .err .unmodelled⟩
        | .ok (.macro _) => ⟨h1, st1, src1, stack1, .err .unmodelled⟩
        | .ok (.gen0 m) => flat v fuel h1 st1 src1 (.macroNew m none :: stack1)
        | .ok (.gen1 m a) => flat v fuel h1 st1 src1 (.macroNew m (some a) :: stack1)
        | .ok (.genx x items gbody) => flat v fuel h1 st1 src1 (.genexp x items gbody :: stack1)
        | .ok (.genf x gsrc gbody) => flat v fuel h1 st1 src1 (.genfNew x gsrc gbody :: stack1)
        | .ok (.genfn _ _ _ _) => ⟨h1, st1, src1, stack1, .err .unmodelled⟩     -- `str(function)` shows an address
        | .ok (.lam _ _) => ⟨h1, st1, src1, stack1, .err .unmodelled⟩
      | .sub d b =>
        match readDirs h1 st1.ph d with
        | none => ⟨h1, st1, src1, stack1, .err .unmodelled⟩
        | some ds =>
          -- `_apply_directives`: `directives[0](iter(stream), directives[1:], …)`, or the list itself
          match applyDirs h1 st1.ph st1.ctx (if ds.isEmpty then .raw b 0 else .ref b 0) ds with
          | .error er => ⟨h1, st1, src1, stack1, .err er⟩
          | .ok (c2, it2) => flat v fuel h1 { st1 with ctx := c2 } src1 (it2 :: stack1)

/-! ## the `_match` filter (one-step element-name paths, content not selected) -/

/-- the first match template with index in `[start, end)` that tests true on a START with this local name -/
def findMatchFrom (name : Str) (start : Nat) (end_ : Option Nat) : Nat → List MatchT → Option (Nat × MatchT)
  | _, [] => none
  | idx, mt :: rest =>
    let inRange := start ≤ idx && (match end_ with | some e => idx < e | none => true)
    if inRange && !mt.retired && mt.name = name then some (idx, mt) else findMatchFrom name start end_ (idx + 1) rest

def findMatch (mts : List MatchT) (start : Nat) (end_ : Option Nat) (name : Str) : Option (Nat × MatchT) :=
  findMatchFrom name start end_ 0 mts

/-- `if 'match_once' in hints: match_templates[idx] = (_retired,) + match_templates[idx][1:]`; the slot
    stays, so `pre_end = idx + 1` either way; returns the list and `idx + 1` -/
def afterOnce (mts : List MatchT) (idx : Nat) (mt : MatchT) : List MatchT × Nat :=
  if mt.once then (mts.set idx { mt with retired := true }, idx + 1) else (mts, idx + 1)

structure CRes where
  h : Heap
  st : St
  src : Src
  stack : List It
  err : Option Err
  deriving Repr, Inhabited

mutual
  /-- `content = list(self._include(chain([event], inner, tail), ctxt))`: the matched element is pulled out
      of this `_flatten` up to its END (`_strip`), through `self._match(inner, start, end=pre_end)`; bodies of
      match templates that fire inside are rendered on the spot.  Nobody selects the content: only the
      effects of producing it remain. -/
  def consume (v : Variant) : Nat → Heap → St → Src → List It → Nat → Nat → Nat → CRes
    | 0, h, st, src, stack, _, _, _ => ⟨h, st, src, stack, some .fuel⟩
    | fuel + 1, h, st, src, stack, start, preEnd, depth =>
      if depth = 0 then ⟨h, st, src, stack, none⟩
      else
        let r := flat v fuel h st src stack
        match r.out with
        | .done => ⟨r.h, r.st, r.src, r.stack, some .stopIter⟩      -- `next(stream)` inside `_strip`
        | .err e => ⟨r.h, r.st, r.src, r.stack, some e⟩
        | .incl _ _ => ⟨r.h, r.st, r.src, r.stack, some .unmodelled⟩
        | .ev (.end_ _) => consume v fuel r.h r.st r.src r.stack start preEnd (depth - 1)
        | .ev (.start tag _) =>
          match (if preEnd > 0 then findMatch r.st.ctx.mts start (some preEnd) tag.loc else none) with
          | none => consume v fuel r.h r.st r.src r.stack start preEnd (depth + 1)
          | some (idx, mt) =>
            let (mts', pe2) := afterOnce r.st.ctx.mts idx mt
            let st1 : St := { r.st with ctx := { r.st.ctx with mts := mts' } }
            let c := consume v fuel r.h st1 r.src r.stack start pe2 1
            match c.err with
            | some e => ⟨c.h, c.st, c.src, c.stack, some e⟩
            | none =>
              match applyDirs c.h c.st.ph c.st.ctx (.lst mt.body) mt.rest with
              | .error e => ⟨c.h, c.st, c.src, c.stack, some e⟩
              | .ok (c2, it) =>
                let b := runBody v fuel c.h { c.st with ctx := c2 } [it] pe2 (some preEnd)
                match b.err with
                | some e => ⟨b.h, b.st, c.src, c.stack, some e⟩
                | none => consume v fuel b.h b.st c.src c.stack start preEnd depth
        | .ev _ => consume v fuel r.h r.st r.src r.stack start preEnd depth

  /-- `self._match(self._flatten(template, …), ctxt, start=idx+1, end=end)` driven to its end, events dropped -/
  def runBody (v : Variant) : Nat → Heap → St → List It → Nat → Option Nat → CRes
    | 0, h, st, stack, _, _ => ⟨h, st, .none, stack, some .fuel⟩
    | fuel + 1, h, st, stack, start, end_ =>
      let r := flat v fuel h st .none stack
      match r.out with
      | .done => ⟨r.h, r.st, .none, r.stack, none⟩
      | .err e => ⟨r.h, r.st, .none, r.stack, some e⟩
      | .incl _ _ => ⟨r.h, r.st, .none, r.stack, some .unmodelled⟩
      | .ev (.start tag _) =>
        match findMatch r.st.ctx.mts start end_ tag.loc with
        | none => runBody v fuel r.h r.st r.stack start end_
        | some (idx, mt) =>
          let (mts', pe2) := afterOnce r.st.ctx.mts idx mt
          let st1 : St := { r.st with ctx := { r.st.ctx with mts := mts' } }
          let c := consume v fuel r.h st1 .none r.stack start pe2 1
          match c.err with
          | some e => ⟨c.h, c.st, .none, c.stack, some e⟩
          | none =>
            match applyDirs c.h c.st.ph c.st.ctx (.lst mt.body) mt.rest with
            | .error e => ⟨c.h, c.st, .none, c.stack, some e⟩
            | .ok (c2, it) =>
              let b := runBody v fuel c.h { c.st with ctx := c2 } [it] pe2 end_
              match b.err with
              | some e => ⟨b.h, b.st, .none, c.stack, some e⟩
              | none => runBody v fuel b.h b.st c.stack start end_
      | .ev _ => runBody v fuel r.h r.st r.stack start end_
end

inductive MOut where
  | ev (e : Event)
  | done
  | err (e : Err)
  | incl (t : Option Nat) (fb : Option Ref)
  | matched (body : It) (start : Nat)     -- a match template fired: its body is rendered next, matched from `start`
  deriving Repr, Inhabited

structure MRes where
  h : Heap
  st : St
  src : Src
  stack : List It
  out : MOut
  deriving Repr, Inhabited

/-- one `next()` of `_match(stream, ctxt, start)` over this frame's `_flatten` -/
def mpull (v : Variant) (fuel : Nat) (h : Heap) (st : St) (src : Src) (stack : List It) (start : Nat) : MRes :=
  let r := flat v fuel h st src stack
  match r.out with
  | .done => ⟨r.h, r.st, r.src, r.stack, .done⟩
  | .err e => ⟨r.h, r.st, r.src, r.stack, .err e⟩
  | .incl t fb => ⟨r.h, r.st, r.src, r.stack, .incl t fb⟩
  | .ev (.start tag attrs) =>
    match findMatch r.st.ctx.mts start none tag.loc with
    | none => ⟨r.h, r.st, r.src, r.stack, .ev (.start tag attrs)⟩
    | some (idx, mt) =>
      let (mts', pe) := afterOnce r.st.ctx.mts idx mt
      let st1 : St := { r.st with ctx := { r.st.ctx with mts := mts' } }
      let c := consume v fuel r.h st1 r.src r.stack start pe 1
      match c.err with
      | some e => ⟨c.h, c.st, c.src, c.stack, .err e⟩
      | none =>
        match applyDirs c.h c.st.ph c.st.ctx (.lst mt.body) mt.rest with
        | .error e => ⟨c.h, c.st, c.src, c.stack, .err e⟩
        | .ok (c2, it) => ⟨c.h, { c.st with ctx := c2 }, c.src, c.stack, .matched it pe⟩
  | .ev e => ⟨r.h, r.st, r.src, r.stack, .ev e⟩

/-! ## the `_include` filter: one pipeline (filters of a template over a list) per nesting level -/

/-- the suspended generators of one `generate()` / of the filtered fallback / of the body of a match
    template: `_flatten` with its source, and the `start` of the `_match` over it -/
structure PFrame where
  src : Src
  stack : List It
  mstart : Nat := 0
  deriving DecidableEq, Repr, Inhabited

def srcOver (translator : Bool) (root : Ref) : Src :=
  if translator then .trans root 0 false 0 else .direct root 0

inductive StepOut where
  | ev (e : Event)
  | done                 -- StopIteration: the render is complete
  | err (e : Err)        -- the exception that ends the render
  | stopped              -- `next()` on a generator that already finished or raised
  deriving DecidableEq, Repr, Inhabited

structure PipeRes where
  h : Heap
  st : St
  frames : List PFrame
  touched : List Nat     -- templates loaded through the loader and rendered (`tmpl.generate(ctxt)` prepares them)
  out : StepOut
  deriving Repr, Inhabited

/-- `roots[t]` = address of the `_stream` list of template `t` of the loader (0 = the template itself).
    Head of `frames` = the innermost pipeline, the one that runs. -/
def pipe (v : Variant) (translator : Bool) (roots : List Nat) :
    Nat → Heap → St → List PFrame → List Nat → PipeRes
  | 0, h, st, frames, touched => ⟨h, st, frames, touched, .err .fuel⟩
  | _ + 1, h, st, [], touched => ⟨h, st, [], touched, .done⟩
  | fuel + 1, h, st, f :: outer, touched =>
    let r := mpull v fuel h st f.src f.stack f.mstart
    let cur : PFrame := ⟨r.src, r.stack, f.mstart⟩
    match r.out with
    | .ev e => ⟨r.h, r.st, cur :: outer, touched, .ev e⟩
    | .err e => ⟨r.h, r.st, cur :: outer, touched, .err e⟩
    | .done => pipe v translator roots fuel r.h r.st outer touched     -- back in the enclosing generator's loop
    | .matched it start =>
      pipe v translator roots fuel r.h r.st (⟨.none, [it], start⟩ :: cur :: outer) touched
    | .incl (some t) _ =>
      match roots[t]? with
      | none => ⟨r.h, r.st, cur :: outer, touched, .err .unmodelled⟩
      | some root =>
        pipe v translator roots fuel r.h r.st (⟨srcOver translator (.tmpl root), [], 0⟩ :: cur :: outer) (touched ++ [t])
    | .incl none (some fb) =>
      pipe v translator roots fuel r.h r.st (⟨srcOver translator fb, [], 0⟩ :: cur :: outer) touched
    | .incl none none =>
      -- TemplateNotFound; inside an included template the includer's `except` would see it (C11's business)
      ⟨r.h, r.st, cur :: outer, touched, .err (if outer.isEmpty then .notFound else .unmodelled)⟩

/-! ## a render and its `next()` -/

structure Render where
  ctx : Ctx
  ph : Heap
  frames : List PFrame
  live : Bool
  deriving DecidableEq, Repr, Inhabited

/-- `Template.generate(**data)` on a prepared template: nothing runs before the first `next()` -/
def Render.new (translator : Bool) (root : Nat) (data : Frame) : Render :=
  { ctx := Ctx.new data, ph := [], frames := [⟨srcOver translator (.tmpl root), [], 0⟩], live := true }

structure StepRes where
  h : Heap
  r : Render
  out : StepOut
  touched : List Nat
  deriving Repr, Inhabited

def stepR (v : Variant) (translator : Bool) (roots : List Nat) (fuel : Nat) (h : Heap) (r : Render) : StepRes :=
  if r.live then
    let f := pipe v translator roots fuel h ⟨r.ctx, r.ph⟩ r.frames []
    let live := match f.out with | .ev _ => true | _ => false
    ⟨f.h, { ctx := f.st.ctx, ph := f.st.ph, frames := f.frames, live := live }, f.out, f.touched⟩
  else ⟨h, r, .stopped, []⟩

end Genshi.Heap

/-
  C04 — `NewTextTemplate._parse` / `OldTextTemplate._parse` at token level: the scanners
  (regular expressions, not modelled) cut the source into text, `${…}`, directive and
  `end` tokens; the loop below is what both `_parse` methods do with them: a depth
  counter and the dictionary `dirmap` keyed by *depth*; at `end` the events since the
  recorded offset move into a SUB event carrying the single directive.
-/
import Genshi.Model.TmplExtract
namespace Genshi.Tmpl

inductive TTok where
  | text (s : Str)
  | xexpr (x : XExpr)
  | dir (d : Dir)        -- `{% for … %}` / `#for …`
  | end_                 -- `{% end %}` / `#end`
  deriving Repr, Inhabited

mutual
  /-- the token stream of a template made of text, `${…}` and blocks -/
  def toToks : TNode → List TTok
    | .text s => [.text s]
    | .expr x => [.xexpr x]
    | .delem d kids => .dir d :: (toTokss kids ++ [.end_])
    | .elem _ _ _ _ => []        -- not a text-template node (see `textNode`)
  def toTokss : List TNode → List TTok
    | [] => []
    | n :: ns => toToks n ++ toTokss ns
end

abbrev TDirMap := List (Int × (Dir × Nat))

def TDirMap.get? (m : TDirMap) (k : Int) : Option (Dir × Nat) :=
  match m with
  | [] => none
  | (k', v) :: rest => if k' = k then some v else TDirMap.get? rest k

def TDirMap.erase (m : TDirMap) (k : Int) : TDirMap := m.filter (fun p => p.1 ≠ k)
def TDirMap.put (m : TDirMap) (k : Int) (v : Dir × Nat) : TDirMap := (k, v) :: m.erase k

structure TSt where
  depth : Int            -- a stray `end` makes it negative
  dirmap : TDirMap
  out : List REv
  deriving Repr, Inhabited

def textStep (s : TSt) : TTok → TSt
  | .text t => { s with out := s.out ++ [.text t] }
  | .xexpr x => { s with out := s.out ++ [.xexpr x] }
  | .dir d => ⟨s.depth + 1, s.dirmap.put s.depth (d, s.out.length), s.out⟩
  | .end_ =>
      let depth := s.depth - 1
      match s.dirmap.get? depth with
      | some (d, offset) =>
          ⟨depth, s.dirmap.erase depth, s.out.take offset ++ [.sub [d] (s.out.drop offset)]⟩
      | none => { s with depth := depth }

def textParseFrom (s : TSt) (toks : List TTok) : TSt := toks.foldl textStep s

/-- the SUB structure `_parse` builds from the tokens -/
def textParse (toks : List TTok) : List REv := (textParseFrom ⟨0, [], []⟩ toks).out

/-- nodes a text template can hold, and directives a text template registers -/
def Dir.textual : Dir → Bool
  | .replace _ | .content _ | .attrs _ | .strip _ => false
  | _ => true

mutual
  def textNode : TNode → Bool
    | .text _ => true
    | .expr _ => true
    | .delem d kids => d.textual && textNodes kids
    | .elem _ _ _ _ => false
  def textNodes : List TNode → Bool
    | [] => true
    | n :: ns => textNode n && textNodes ns
end

/-- parse + prepare of a text template -/
def compileText (ns : List TNode) : List CEv := toCEvs (prepareRs (textParse (toTokss ns)))

end Genshi.Tmpl

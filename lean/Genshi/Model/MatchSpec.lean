/-
  C12 — the specification side: one match template as a rewrite of the document tree.
  (Executable, so that the driver can run it against the real code; the theorem
  `single_template_is_tree_rewrite` ties it to the filter.)
-/
import Genshi.Model.Match
namespace Genshi.Match
open Genshi

/-- an open element: the tag and attributes of its START event -/
abbrev Open := QName × AttrList

/-- the state of a matcher that started in `s0` and has tested the STARTs of the open elements
    `stk` (innermost first) -/
def openSt {σ} (step : σ → Event → Bool → σ × Bool) (s0 : σ) : List Open → σ
  | [] => s0
  | o :: stk => (step (openSt step s0 stk) (.start o.1 o.2) false).1

mutual
  /-- rewrite one node; `anc` = the open ancestors (innermost first), `b` = the matcher's base state:
      an element at which the matcher fires is replaced by the body instantiated with START, the
      rewritten content (the plain content for `recursive="false"`), END -/
  def specNode {σ} (t : MT σ) (b : σ) (anc : List Open) : Node → List Event
    | .leaf e => [e]
    | .elem tg at_ kids =>
      if (t.step (openSt t.step b anc) (.start tg at_) false).2 then
        instantiate t.body (.start tg at_ ::
          ((if t.recursive then specList t b ((tg, at_) :: anc) kids else flattenList kids) ++ [.end_ tg]))
      else .start tg at_ :: (specList t b ((tg, at_) :: anc) kids ++ [.end_ tg])
  def specList {σ} (t : MT σ) (b : σ) (anc : List Open) : List Node → List Event
    | [] => []
    | n :: ns => specNode t b anc n ++ specList t b anc ns
end

mutual
  /-- `once="true"` as a tree rewrite of its own: the FIRST element in document order at which the
      matcher fires (in the state reached along its ancestors) is replaced by the body instantiated with
      START, its content as it stands (the template is retired before the content is matched), END;
      every other event — before, inside and after it — passes.  The flag says whether it fired. -/
  def onceNode {σ} (t : MT σ) (b : σ) (anc : List Open) : Node → List Event × Bool
    | .leaf e => ([e], false)
    | .elem tg at_ kids =>
      if (t.step (openSt t.step b anc) (.start tg at_) false).2 then
        (instantiate t.body (.start tg at_ :: (flattenList kids ++ [.end_ tg])), true)
      else
        let r := onceList t b ((tg, at_) :: anc) kids
        (.start tg at_ :: (r.1 ++ [.end_ tg]), r.2)
  def onceList {σ} (t : MT σ) (b : σ) (anc : List Open) : List Node → List Event × Bool
    | [] => ([], false)
    | n :: ns =>
      let r := onceNode t b anc n
      if r.2 then (r.1 ++ flattenList ns, true)
      else
        let q := onceList t b anc ns
        (r.1 ++ q.1, q.2)
end

end Genshi.Match

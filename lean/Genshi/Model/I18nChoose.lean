/-
  C19 — the render side of `i18n:choose`: `ChooseBranchDirective.__call__` (for a branch
  whose only directive is `i18n:singular` / `i18n:plural`) and `ChooseDirective.__call__`.
  The numeral is opaque: the caller says whether the plural form is chosen (`isPlural`, what
  `_is_plural` finds out through the sentinel look-up) and gives the catalogue function
  `ngt singular plural` (numeral included).
-/
import Genshi.Model.I18nMsgBuf
namespace Genshi.I18n
open Genshi

/-- what a branch yields: events, and the place holder `MSGBUF` for the translated content -/
inductive BEvent where
  | ev (e : TEvent)
  | msgbuf
  deriving Inhabited

/-- `ChooseBranchDirective.__call__(stream, [], ctxt)`: the events it yields and the buffer it
    leaves in the context (`next()` on an empty stream raises inside the generator) -/
def branchCall (params : List Str) (s : List TEvent) : Except Err (List BEvent × MB) :=
  match s with
  | [] => .error .stopIteration
  | _ => do
      let (b, head, tail) ← msgBuffer params s
      pure (head.map .ev ++ (.msgbuf :: tail.map .ev), b)

/-- `StripDirective.__call__` with an empty expression (`py:strip=""`): the first and the last
    event of the stream are dropped (`next()` twice inside the generator) -/
def stripEnds (s : List TEvent) : Except Err (List TEvent) :=
  match s with
  | [] => .error .stopIteration
  | [_] => .error .stopIteration
  | _ :: rest => pure rest.dropLast

/-- is the event a SUB with a branch directive among its directives -/
def isBranchSub : TEvent → Bool
  | .sub dirs _ => dirs.any Dir.isBranch
  | _ => false

structure ChooseState where
  newStream : List (Option TEvent)            -- `none` = the MSGBUF marker
  sing : Option (List BEvent × MB)            -- `singular_stream`, `ctxt['_i18n.choose.singular']`
  plur : Option (List BEvent × MB)

/-- the first loop of `ChooseDirective.__call__`; `none` = a case the model does not cover
    (a branch SUB with further directives) -/
def choosePass1 (params : List Str) (isPlural : Bool) : List TEvent → ChooseState → Option (Except Err ChooseState)
  | [], st => some (pure st)
  | .sub dirs body :: es, st =>
      if dirs.any Dir.isBranch then
        match dirs with
        | [.singular] =>
            match branchCall params body with
            | .error e => some (.error e)
            | .ok r => choosePass1 params isPlural es { st with newStream := st.newStream ++ [none], sing := some r }
        | [.singular, .strip] =>
            match stripEnds body >>= branchCall params with
            | .error e => some (.error e)
            | .ok r => choosePass1 params isPlural es { st with newStream := st.newStream ++ [none], sing := some r }
        | [.plural] =>
            if isPlural then
              match branchCall params body with
              | .error e => some (.error e)
              | .ok r => choosePass1 params isPlural es { st with plur := some r }
            else choosePass1 params isPlural es st
        | [.plural, .strip] =>
            if isPlural then
              match stripEnds body >>= branchCall params with
              | .error e => some (.error e)
              | .ok r => choosePass1 params isPlural es { st with plur := some r }
            else choosePass1 params isPlural es st
        | _ => none
      else choosePass1 params isPlural es { st with newStream := st.newStream ++ [some (.sub dirs body)] }
  | e :: es, st => choosePass1 params isPlural es { st with newStream := st.newStream ++ [some e] }

/-- the events of the chosen branch, its MSGBUF replaced by the translated content -/
def emitChoice (tr : Except Err (List TEvent)) : List BEvent → Except Err (List TEvent)
  | [] => pure []
  | .ev e :: bs => do
      let rest ← emitChoice tr bs
      pure (e :: rest)
  | .msgbuf :: bs => do
      let t ← tr
      let rest ← emitChoice tr bs
      pure (t ++ rest)

/-- the second loop -/
def choosePass2 (choice : Except Err (List TEvent)) : List (Option TEvent) → Except Err (List TEvent)
  | [] => pure []
  | some e :: es => do
      let rest ← choosePass2 choice es
      pure (e :: rest)
  | none :: es => do
      let c ← choice
      let rest ← choosePass2 choice es
      pure (c ++ rest)

/-- `ChooseDirective.__call__(stream, [], ctxt)` -/
def chooseCall (params : List Str) (isPlural : Bool) (ngt : Str → Str → Str) (s : List TEvent) :
    Option (Except Err (List TEvent)) :=
  match choosePass1 params isPlural s ⟨[], none, none⟩ with
  | none => none
  | some (.error e) => some (.error e)
  | some (.ok st) =>
      -- `for event in choice` with `choice = None` raises TypeError, `None.format()` AttributeError
      let choice : Except Err (List TEvent) :=
        match (if isPlural then st.plur else st.sing) with
        | none => .error .typeError
        | some (evs, b) =>
            match st.sing with
            | none => .error .attributeError
            | some (_, sb) =>
                let pfmt := if isPlural then b.format else (MB.new params).format
                emitChoice (b.translate (ngt sb.format pfmt)) evs
      some (choosePass2 choice st.newStream)

end Genshi.I18n

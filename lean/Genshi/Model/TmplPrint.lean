/-
  C04 — the printer of text templates (specification side): how the documentation writes a
  template of the AST `TNode` in the new text syntax, and in the old one.

      text            the text itself
      ${…}            an expression / a macro call
      {% cmd value %}…{% end %}     a block      (old syntax: `#cmd value` … `#end` on lines of their own)

  Expressions and directive values are printed in two steps: the AST is laid out as a list of
  tokens of the mini language (`MTok`, the tokens `Raw.tokenize` produces), and the token list is
  written with one blank where the layout of the documentation has one (`sep`: behind `,` `:` `;`,
  around `==`, around the words `not` / `in`) or where two tokens would otherwise run together.
  The Python printers of the harness (`gen_templates.to_newtext` / `to_oldtext`) are compared with
  these functions case by case (stream `print-text`).

  `nodesOk`: the decidable side condition of the inversion theorem (`Props/C04.lean`,
  `raw_print_roundtrip`).

  No Mathlib: linked into `gdrv`.
-/
import Genshi.Model.TmplRaw
namespace Genshi.Tmpl.Print
open Genshi.Tmpl.Raw (MTok isDigit isIdStart isIdChar kwLen kwNot kwIn)

/-! ### tokens -> characters -/

def tokSrc : MTok → Str
  | .name s => s
  | .int n => natStr n
  | .str s => '\'' :: (s ++ ['\''])
  | .sym c => [c]
  | .eqeq => ['=', '=']

def MTok.isWordy : MTok → Bool
  | .name _ => true
  | .int _ => true
  | _ => false

/-- is a blank written between the adjacent tokens `a b`? -/
def sep (a b : MTok) : Bool :=
  a = .sym ',' || a = .sym ':' || a = .sym ';' || a = .eqeq || b = .eqeq
  || a = .name kwNot || a = .name kwIn || b = .name kwIn
  || (MTok.isWordy a && MTok.isWordy b)
  || (a = .sym '=' && b = .sym '=')

def toksSrc : List MTok → Str
  | [] => []
  | [t] => tokSrc t
  | a :: b :: r => tokSrc a ++ ((if sep a b then [' '] else []) ++ toksSrc (b :: r))

/-- a token the tokenizer can produce -/
def tokOk : MTok → Bool
  | .name s => (match s with | [] => false | c :: r => isIdStart c && r.all isIdChar)
  | .int _ => true
  | .str s => s.all fun c => c != '\'' && c != '\\' && c != '\n'
  | .sym c => ['(', ')', '[', ']', '{', '}', ',', ':', ';', '-', '='].contains c
  | .eqeq => true

/-! ### AST -> tokens -/

def atomToks : Atom → List MTok
  | .none => [.name ['N', 'o', 'n', 'e']]
  | .bool true => [.name ['T', 'r', 'u', 'e']]
  | .bool false => [.name ['F', 'a', 'l', 's', 'e']]
  | .int (.ofNat n) => [.int n]
  | .int (.negSucc n) => [.sym '(', .sym '-', .int (n + 1), .sym ')']
  | .str s => [.str s]

/-- `a, b, c` -/
def atomsToks : List Atom → List MTok
  | [] => []
  | [a] => atomToks a
  | a :: r => atomToks a ++ .sym ',' :: atomsToks r

/-- `'k': a, 'j': b` -/
def pairsToks : List (Str × Atom) → List MTok
  | [] => []
  | [(k, a)] => .str k :: .sym ':' :: atomToks a
  | (k, a) :: r => .str k :: .sym ':' :: (atomToks a ++ .sym ',' :: pairsToks r)

def exprToks : Expr → List MTok
  | .var n => [.name n]
  | .svar n => [.name n]
  | .lit (.atom a) => atomToks a
  | .lit (.list xs) => .sym '[' :: (atomsToks xs ++ [.sym ']'])
  | .lit (.dict kv) => .sym '{' :: (pairsToks kv ++ [.sym '}'])
  | .lit .undef => []
  | .lit (.macro _) => []
  | .eq a b => .sym '(' :: (exprToks a ++ .eqeq :: (exprToks b ++ [.sym ')']))
  | .not a => .sym '(' :: .name kwNot :: (exprToks a ++ [.sym ')'])
  | .len a => .name kwLen :: .sym '(' :: (exprToks a ++ [.sym ')'])
  | .ix a i => exprToks a ++ .sym '[' :: (exprToks i ++ [.sym ']'])
  | .six a i => exprToks a ++ .sym '[' :: (exprToks i ++ [.sym ']'])

/-- one argument of a call: `e` or `k=e` -/
def argToks : Arg → List MTok
  | (none, e) => exprToks e
  | (some k, e) => .name k :: .sym '=' :: exprToks e

/-- `e, e, k=e` -/
def argsToks : List Arg → List MTok
  | [] => []
  | [a] => argToks a
  | a :: r => argToks a ++ .sym ',' :: argsToks r

def xexprToks : XExpr → List MTok
  | .pure e => exprToks e
  | .call f args => exprToks f ++ .sym '(' :: (argsToks args ++ [.sym ')'])

/-- one parameter of a macro: `a` or `a=default` -/
def paramToks : Param → List MTok
  | (n, none) => [.name n]
  | (n, some e) => .name n :: .sym '=' :: exprToks e

/-- `a, b, c='x'` -/
def paramsToks : List Param → List MTok
  | [] => []
  | [p] => paramToks p
  | p :: r => paramToks p ++ .sym ',' :: paramsToks r

/-- `n=e; m=e` -/
def bindsToks : List (Name × Expr) → List MTok
  | [] => []
  | [(n, e)] => .name n :: .sym '=' :: exprToks e
  | (n, e) :: r => .name n :: .sym '=' :: (exprToks e ++ .sym ';' :: bindsToks r)

def optToks : Option Expr → List MTok
  | none => []
  | some e => exprToks e

/-- the value of a directive (attribute form / text-template block) -/
def dirToks : Dir → List MTok
  | .def_ f [] => [.name f]
  | .def_ f ps => .name f :: .sym '(' :: (paramsToks ps ++ [.sym ')'])
  | .when e => optToks e
  | .otherwise => []
  | .for_ v e => .name v :: .name kwIn :: exprToks e
  | .if_ e => exprToks e
  | .choose e => optToks e
  | .with_ bs => bindsToks bs
  | .replace x => xexprToks x
  | .content x => xexprToks x
  | .attrs e => exprToks e
  | .strip e => optToks e

def exprSrc (e : Expr) : Str := toksSrc (exprToks e)
def xexprSrc (x : XExpr) : Str := toksSrc (xexprToks x)
def dirSrc (d : Dir) : Str := toksSrc (dirToks d)

/-! ### templates -/

def kwEnd : Str := ['e', 'n', 'd']

mutual
  /-- new text syntax -/
  def nodeNew : TNode → Str
    | .text s => s
    | .expr x => '$' :: '{' :: (xexprSrc x ++ ['}'])
    | .delem d kids =>
        Scan.printNewTok (.dir d.name (dirSrc d)) ++ (nodesNew kids ++ Scan.printNewTok (.dir kwEnd []))
    | .elem _ _ _ _ => []
  def nodesNew : List TNode → Str
    | [] => []
    | n :: ns => nodeNew n ++ nodesNew ns
end

/-- the same printer on the flat token form of a template (`toTokss`): one token at a time -/
def ttokNew : TTok → Str
  | .text s => s
  | .xexpr x => '$' :: '{' :: (xexprSrc x ++ ['}'])
  | .dir d => Scan.printNewTok (.dir d.name (dirSrc d))
  | .end_ => Scan.printNewTok (.dir kwEnd [])

def ttoksNew : List TTok → Str
  | [] => []
  | t :: ts => ttokNew t ++ ttoksNew ts

def oldLine (cmd val : Str) : Str :=
  '#' :: (cmd ++ ((if val.isEmpty then [] else ' ' :: val) ++ ['\n']))

mutual
  /-- old text syntax: a directive occupies a line -/
  def nodeOld : TNode → Str
    | .text s => s
    | .expr x => '$' :: '{' :: (xexprSrc x ++ ['}'])
    | .delem d kids => oldLine d.name (dirSrc d) ++ (nodesOld kids ++ oldLine kwEnd [])
    | .elem _ _ _ _ => []
  def nodesOld : List TNode → Str
    | [] => []
    | n :: ns => nodeOld n ++ nodesOld ns
end

/-! ### the side condition of the inversion theorem -/

/-- an identifier that is not a word of the mini language -/
def nameOk (n : Name) : Bool :=
  match n with
  | [] => false
  | c :: r => isIdStart c && r.all isIdChar
      && !([['N', 'o', 'n', 'e'], ['T', 'r', 'u', 'e'], ['F', 'a', 'l', 's', 'e'], kwNot, kwIn, kwLen].contains n)

/-- a character of a string literal: the reader has no escapes, and a literal must not hold what
    could end a directive (`%}`) -/
def strCh (c : Char) : Bool := c != '\\' && c != '\'' && c != '\n' && c != '%' && c != '#'

def strOk (s : Str) : Bool := s.all strCh

def atomOk : Atom → Bool
  | .str s => strOk s
  | _ => true

/-- `st`: the lookup mode the template is read under decides between `var`/`svar`, `ix`/`six` -/
def exprOk (st : Bool) : Expr → Bool
  | .var n => !st && nameOk n
  | .svar n => st && nameOk n
  | .lit (.atom a) => atomOk a
  | .lit (.list xs) => xs.all atomOk
  | .lit (.dict kv) => kv.all fun p => strOk p.1 && atomOk p.2
  | .lit .undef => false
  | .lit (.macro _) => false
  | .eq a b => exprOk st a && exprOk st b
  | .not a => exprOk st a
  | .len a => exprOk st a
  | .ix a i => !st && exprOk st a && exprOk st i
  | .six a i => st && exprOk st a && exprOk st i

def argOk (st : Bool) : Arg → Bool
  | (none, e) => exprOk st e
  | (some k, e) => nameOk k && exprOk st e

/-- positional arguments come before keyword arguments (`kw`: a keyword argument was seen) -/
def argsOrdered : Bool → List Arg → Bool
  | _, [] => true
  | kw, (none, _) :: r => !kw && argsOrdered false r
  | _, (some _, _) :: r => argsOrdered true r

def argsOk (st : Bool) (args : List Arg) : Bool := args.all (argOk st) && argsOrdered false args

def xexprOk (st : Bool) : XExpr → Bool
  | .pure e => exprOk st e
  | .call (.var f) args => !st && nameOk f && argsOk st args
  | .call (.svar f) args => st && nameOk f && argsOk st args
  | .call _ _ => false

def paramOk (st : Bool) : Param → Bool
  | (n, none) => nameOk n
  | (n, some e) => nameOk n && exprOk st e

/-- parameters with a default come last (`dflt`: a default was seen) -/
def paramsOrdered : Bool → List Param → Bool
  | _, [] => true
  | dflt, (_, none) :: r => !dflt && paramsOrdered false r
  | _, (_, some _) :: r => paramsOrdered true r

def optOk (st : Bool) : Option Expr → Bool
  | none => true
  | some e => exprOk st e

def dirOk (st : Bool) : Dir → Bool
  | .def_ f ps => nameOk f && ps.all (paramOk st) && paramsOrdered false ps
  | .when e => optOk st e
  | .otherwise => true
  | .for_ v e => nameOk v && exprOk st e
  | .if_ e => exprOk st e
  | .choose e => optOk st e
  | .with_ bs => !bs.isEmpty && bs.all fun p => nameOk p.1 && exprOk st p.2
  | _ => false

/-- a character of literal text: no escape character, nothing that starts an interpolation or a
    delimiter -/
def textCh (c : Char) : Bool := c != '\\' && c != '$' && c != '{'

def textOk (s : Str) : Bool := !s.isEmpty && s.all textCh

def isTextNode : TNode → Bool
  | .text _ => true
  | _ => false

mutual
  def nodeOk (st : Bool) : TNode → Bool
    | .text s => textOk s
    | .expr x => xexprOk st x
    | .delem d kids => dirOk st d && nodesOk st kids
    | .elem _ _ _ _ => false
  /-- every node is a documented construct; text nodes are maximal (no two in a row) -/
  def nodesOk (st : Bool) : List TNode → Bool
    | [] => true
    | n :: ns => nodeOk st n && nodesOk st ns &&
        !(isTextNode n && (match ns with | m :: _ => isTextNode m | [] => false))
end

/-- the old syntax on the flat token form -/
def ttokOld : TTok → Str
  | .text s => s
  | .xexpr x => '$' :: '{' :: (xexprSrc x ++ ['}'])
  | .dir d => oldLine d.name (dirSrc d)
  | .end_ => oldLine kwEnd []

def ttoksOld : List TTok → Str
  | [] => []
  | t :: ts => ttokOld t ++ ttoksOld ts

/-! the side condition on the flat token form (implied by `nodesOk`; also covers token lists whose
    blocks are not balanced: `{% if x %}` without `{% end %}`, a stray `{% end %}`) -/

def ttokOk (st : Bool) : TTok → Bool
  | .text s => textOk s
  | .xexpr x => xexprOk st x
  | .dir d => dirOk st d
  | .end_ => true

def isTextTok : TTok → Bool
  | .text _ => true
  | _ => false

/-- no two text tokens in a row -/
def noAdjText : List TTok → Bool
  | [] => true
  | t :: ts => !(isTextTok t && (match ts with | u :: _ => isTextTok u | [] => false)) && noAdjText ts

def ttoksOk (st : Bool) (ts : List TTok) : Bool := ts.all (ttokOk st) && noAdjText ts

/-! ### the side condition of the old syntax: the line discipline -/

def endsNl (s : Str) : Bool := s.getLast? == some '\n'

/-- every directive line starts a line (`bol`: the position is the start of a line) -/
def lineStarts : Bool → List TTok → Bool
  | _, [] => true
  | _, .text s :: r => lineStarts (endsNl s) r
  | _, .xexpr _ :: r => lineStarts false r
  | bol, .dir _ :: r => bol && lineStarts true r
  | bol, .end_ :: r => bol && lineStarts true r

def noHash : TTok → Bool
  | .text s => s.all (fun c => c != '#')
  | _ => true

def ttoksOkOld (st : Bool) (ts : List TTok) : Bool :=
  ttoksOk st ts && ts.all noHash && lineStarts true ts

/-- the side condition on the AST -/
def nodesOkOld (st : Bool) (ns : List TNode) : Bool :=
  nodesOk st ns && (toTokss ns).all noHash && lineStarts true (toTokss ns)

end Genshi.Tmpl.Print

/-
  C02 — specification-side vocabulary of the round-trip theorems (not a model of
  genshi code):

    canonX   what a stream denotes: the `REv` events the property compares
             (namespace events dropped, EMPTY = START + END)
    docOK    the hypothesis of `xml_roundtrip`: a decidable check that a stream
             is a well-nested XML document whose names and namespace events the
             XML syntax can express.  Both what the parser produces for a
             well-formed document and what the builder produces satisfy it;
             streams built by hand may not (e.g. an element without namespace
             inside the scope of an explicit non-empty default namespace
             declaration).
    normF    what the text stage does to a flattened event: `None` → `""`.

  They are executable so that the driver can report how many generated streams
  lie inside the hypothesis.
-/
import Genshi.Model.XmlFlatten
import Genshi.Model.XmlReader
namespace Genshi.Xml
open Genshi

def canonEv : Event → List REv
  | .start t a => [.start t a]
  | .end_ t => [.end_ t]
  | .text s _ => [.text s]
  | .comment s => [.comment s]
  | .pi t d => [.pi t d]
  | .doctype n p s => [.doctype n p s]
  | .xmlDecl v e s => [.xmlDecl v e s]
  | .startNs _ _ => []
  | .endNs _ => []
  | .startCdata => [.startCdata]
  | .endCdata => [.endCdata]

def canonXEv : XEv → List REv
  | .ev e => canonEv e
  | .empty t a => [.start t a, .end_ t]

def canonX (xs : List XEv) : List REv := xs.flatMap canonXEv

/-- `escape(None)` is the empty string -/
def normUri (u : Str) : Str := if u = noneUri then [] else u

def normAttrs (as : List (Str × Str)) : List (Str × Str) := as.map fun a => (a.1, normUri a.2)

def normF : FEv → FEv
  | .start n a => .start n (normAttrs a)
  | .empty n a => .empty n (normAttrs a)
  | e => e

/-! ### what XML can express -/

def locOK (l : Str) : Bool :=
  !l.isEmpty && !List.elem ':' l && !(l.head?.map Reader.isNameStartBad).getD true

def nsOK (ns : Str) : Bool := ns ≠ noneUri && ns ≠ Reader.xmlnsNs

def tagOK (t : QName) : Bool := locOK t.loc && nsOK t.ns

def attrOK (a : QName × Str) : Bool :=
  locOK a.1.loc && nsOK a.1.ns && !(a.1.ns.isEmpty && a.1.loc = xmlnsName) && a.2 ≠ noneUri

def attrsOK (as : AttrList) : Bool := as.all attrOK && Reader.nodupKeys as

/-- a START_NS event that stands for a legal declaration (the `xml` prefix may
    be declared, with its own namespace only: `xmlns:xml="http://www.w3.org/XML/1998/namespace"`
    is legal XML and expat reports it; the flattener never writes it, the prefix
    being bound permanently) -/
def nsDeclOK (p u : Str) : Bool :=
  if p.isEmpty then Reader.declLegal [] (normUri u)
  else Reader.declLegal p u && u ≠ noneUri

/-- a preferred-prefix table the constructor may be given -/
def prefOK (pref : List (Str × Str)) : Bool :=
  pref.all fun e => e.2.isEmpty || (Reader.declLegal e.2 e.1 && e.1 ≠ noneUri)

/-! ### the document checker -/

structure CkSt where
  stack : List (QName × Bool)   -- open elements, with the `dTruthy` to restore at their END
  dTruthy : Bool                -- the innermost explicit default-namespace declaration in scope is non-empty
  pendD : Option Bool           -- a START_NS('', u) waiting for its start tag: is `u` non-empty?
  rootSeen : Bool
  doctypeSeen : Bool
  deriving Repr, DecidableEq

def CkSt.init : CkSt := ⟨[], false, none, false, false⟩

def ckStartLike (c : CkSt) (t : QName) (a : AttrList) : Option Bool :=
  let d' := c.pendD.getD c.dTruthy
  if (c.stack.isEmpty && c.rootSeen) || !tagOK t || !attrsOK a || (t.ns.isEmpty && d') then none
  else some d'

def ckStep (c : CkSt) : XEv → Option CkSt
  | .ev (.start t a) =>
      (ckStartLike c t a).map fun d' =>
        { c with stack := (t, c.dTruthy) :: c.stack, dTruthy := d', pendD := none, rootSeen := true }
  | .empty t a =>
      (ckStartLike c t a).map fun _ => { c with pendD := none, rootSeen := true }
  | .ev (.end_ t) =>
      match c.stack with
      | (t', d) :: rest => if t = t' then some { c with stack := rest, dTruthy := d } else none
      | [] => none
  | .ev (.startNs p u) =>
      if !nsDeclOK p u then none
      else if p.isEmpty then some { c with pendD := some (!falsyUri u) }
      else some c
  | .ev (.endNs p) => if p.isEmpty then some { c with pendD := none } else some c
  | .ev (.text _ _) => if c.stack.isEmpty then none else some c
  | .ev (.comment _) => some c
  | .ev (.pi _ _) => some c
  | .ev .startCdata => if c.stack.isEmpty then none else some c
  | .ev .endCdata => if c.stack.isEmpty then none else some c
  | .ev (.doctype _ _ _) =>
      if !c.stack.isEmpty || c.rootSeen || c.doctypeSeen then none else some { c with doctypeSeen := true }
  | .ev (.xmlDecl _ _ _) => none

def docGo : CkSt → List XEv → Bool
  | c, [] => c.stack.isEmpty && c.rootSeen
  | c, x :: xs => match ckStep c x with
      | some c' => docGo c' xs
      | none => false

/-- the hypothesis of the round-trip theorem -/
def docOK (xs : List XEv) : Bool :=
  match xs with
  | .ev (.xmlDecl _ _ _) :: rest => docGo CkSt.init rest
  | _ => docGo CkSt.init xs

end Genshi.Xml

namespace Genshi.Xml
open Genshi

/-! ### what the XML text syntax can express (hypothesis of the text-level theorems) -/

/-- XML characters other than CR (which every XML reader turns into LF) -/
def okStr (s : Str) : Bool := s.all fun c => Reader.isXmlChar c && c ≠ '\r'

def attrValOK (v : Str) : Bool := v = noneUri || (okStr v && v.all fun c => c ≠ '\t' && c ≠ '\n')

def flatAttrsOK (as : List (Str × Str)) : Bool := as.all fun a => Reader.validName a.1 && attrValOK a.2

def commentOK (s : Str) : Bool := okStr s && !Reader.hasSub ['-', '-'] (s ++ ['-'])

def piOK (t d : Str) : Bool :=
  Reader.validName t && !List.elem ':' t && t.map Reader.lowerAscii ≠ ['x', 'm', 'l'] && okStr d &&
  !(d.head?.map Reader.isSpace).getD false && !Reader.hasSub ['?', '>'] (d ++ ['?'])

def cdataOK (s : Str) : Bool := okStr s && !Reader.hasSub [']', ']', '>'] (s ++ [']', ']'])

def startsWithText : List FEv → Bool
  | .other (.text _ _) :: _ => true
  | _ => false

def sysidOK (sy : Str) : Bool := !sy.isEmpty && okStr sy && !(List.elem '"' sy && List.elem '\'' sy)

/-- a DOCTYPE event the text syntax can express and a reader reports unchanged -/
def doctypeOK (n : Str) (p s : Option Str) : Bool :=
  Reader.validName n && Reader.doctypeNameOk n &&
  (match p, s with
   | none, none => true
   | none, some sy => sysidOK sy
   | some pu, some sy =>
       !pu.isEmpty && pu.all Reader.isPubidChar && Reader.normPubid pu = pu && !List.elem '\r' pu && sysidOK sy
   | some _, none => false)

def declOK (v : Str) (enc : Option Str) (sa : Int) : Bool :=
  Reader.validVersion v && (match enc with | some e => Reader.validEncName e | none => true) &&
  (sa = -1 || sa = 0 || sa = 1)

/-- content the text syntax can express, in the normal form in which a tokenizer
    reports it: non-empty character data never adjacent to other character data,
    CDATA sections holding at most one piece of text, no `Markup` (pre-escaped)
    text; `dt`: a DOCTYPE may still come (at most one, not followed by text) -/
def contentOK : Bool → List FEv → Bool
  | _, [] => true
  | dt, .start n a :: es => Reader.validName n && flatAttrsOK a && contentOK dt es
  | dt, .empty n a :: es => Reader.validName n && flatAttrsOK a && contentOK dt es
  | dt, .end_ n :: es => Reader.validName n && contentOK dt es
  | dt, .other (.text s safe) :: es => !safe && !s.isEmpty && okStr s && !startsWithText es && contentOK dt es
  | dt, .other (.comment s) :: es => commentOK s && contentOK dt es
  | dt, .other (.pi t d) :: es => piOK t d && contentOK dt es
  | dt, .other .startCdata :: .other (.text s safe) :: .other .endCdata :: es =>
      !safe && !s.isEmpty && cdataOK s && contentOK dt es
  | dt, .other .startCdata :: .other .endCdata :: es => contentOK dt es
  | true, .other (.doctype n p s) :: es => doctypeOK n p s && !startsWithText es && contentOK false es
  | _, _ => false

/-- element content (no prolog) -/
def bodyOK (fs : List FEv) : Bool := contentOK false fs

/-- a whole document: an optional XML declaration first, then content with at most one DOCTYPE -/
def docTextOK (fs : List FEv) : Bool :=
  match fs with
  | .other (.xmlDecl v e sa) :: rest => declOK v e sa && !startsWithText rest && contentOK true rest
  | _ => contentOK true fs

/-- the line break the serializer writes after the declaration and the DOCTYPE, as a tokenizer sees it -/
def wsTok : FEv := .other (.text ['\n'] false)

/-- the tokens a tokenizer reports for the serialisation of these events -/
def tokOf : List FEv → List FEv
  | [] => []
  | .other (.doctype n p s) :: es => .other (.doctype n p s) :: wsTok :: tokOf es
  | .other (.xmlDecl v e sa) :: es => .other (.xmlDecl v e sa) :: wsTok :: tokOf es
  | e :: es => normF e :: tokOf es

/-! ### what an encoding must be able to represent

`encode` can only fall back to character references in character data and
attribute values.  `repMarkup rep fs`: every character that the serializer
writes *outside* those places — names, comments, PIs, CDATA sections (and
`Markup` text), declaration, DOCTYPE — is representable. -/

def repOpt (rep : Char → Bool) : Option Str → Bool
  | some s => s.all rep
  | none => true

def repMarkupGo (rep : Char → Bool) : Bool → List FEv → Bool
  | _, [] => true
  | c, .start n a :: es => n.all rep && a.all (fun x => x.1.all rep) && repMarkupGo rep c es
  | c, .empty n a :: es => n.all rep && a.all (fun x => x.1.all rep) && repMarkupGo rep c es
  | c, .end_ n :: es => n.all rep && repMarkupGo rep c es
  | c, .other (.text s safe) :: es => (!(c || safe) || s.all rep) && repMarkupGo rep c es
  | c, .other (.comment s) :: es => s.all rep && repMarkupGo rep c es
  | c, .other (.pi t d) :: es => t.all rep && d.all rep && repMarkupGo rep c es
  | _, .other .startCdata :: es => repMarkupGo rep true es
  | _, .other .endCdata :: es => repMarkupGo rep false es
  | c, .other (.xmlDecl v e _) :: es => v.all rep && repOpt rep e && repMarkupGo rep c es
  | c, .other (.doctype n p s) :: es => n.all rep && repOpt rep p && repOpt rep s && repMarkupGo rep c es
  | c, _ :: es => repMarkupGo rep c es

def repMarkup (rep : Char → Bool) (fs : List FEv) : Bool := repMarkupGo rep false fs

/-! ### parsing the output again (for idempotence)

`reparseX` is the specification-side account of what `XMLParser` followed by
`EmptyTagFilter` delivers for a token list: for every start tag the START_NS
events of its declarations (in attribute order; `xmlns=""` is reported with
`None`), the START with resolved names and the ordinary attributes, and after
the END the END_NS events in reverse order; an empty-element tag gives EMPTY. -/

structure PSt where
  open_ : List (Str × QName × Reader.Scope × List Str)
  scope : Reader.Scope
  deriving Repr

def PSt.init : PSt := ⟨[], Reader.baseScope⟩

def nsEvents (ds : Reader.Scope) : List XEv :=
  ds.map fun d => .ev (.startNs d.1 (if d.2.isEmpty then noneUri else d.2))

def endNsEvents (ps : List Str) : List XEv := ps.reverse.map fun p => .ev (.endNs p)

def reparseX : PSt → List FEv → Option (List XEv)
  | _, [] => some []
  | st, .start n attrs :: es =>
      match Reader.resolveTag st.scope n attrs, Reader.splitAttrs attrs with
      | some (q, ras, sc'), some (ds, _) =>
          (reparseX ⟨(n, q, st.scope, ds.map Prod.fst) :: st.open_, sc'⟩ es).map
            (nsEvents ds ++ [.ev (.start q ras)] ++ ·)
      | _, _ => none
  | st, .empty n attrs :: es =>
      match Reader.resolveTag st.scope n attrs, Reader.splitAttrs attrs with
      | some (q, ras, _), some (ds, _) =>
          (reparseX st es).map (nsEvents ds ++ [.empty q ras] ++ endNsEvents (ds.map Prod.fst) ++ ·)
      | _, _ => none
  | st, .end_ n :: es =>
      match st.open_ with
      | (n', q, sc, ps) :: rest =>
          if n = n' then (reparseX ⟨rest, sc⟩ es).map ([.ev (.end_ q)] ++ endNsEvents ps ++ ·) else none
      | [] => none
  | st, .other e :: es => (reparseX st es).map (.ev e :: ·)

/-- white space outside the root element is not reported by a parser
    (`d`: number of open elements) -/
def dropTopWs : Nat → List FEv → List FEv
  | _, [] => []
  | d, .start n a :: es => .start n a :: dropTopWs (d + 1) es
  | d, .end_ n :: es => .end_ n :: dropTopWs (d - 1) es
  | 0, .other (.text s f) :: es =>
      if s.all Reader.isSpace then dropTopWs 0 es else .other (.text s f) :: dropTopWs 0 es
  | d, e :: es => e :: dropTopWs d es

/-- the specification-side account of `XMLParser(text)` followed by
    `EmptyTagFilter`: tokenize, drop the white space outside the root element,
    report namespace declarations as START_NS / END_NS events (`reparseX`) -/
def parseText (t : Str) : Option (List XEv) :=
  (Reader.tokenize t).bind fun toks => reparseX PSt.init (dropTopWs 0 toks)

/-- expat reports `<a></a>` and `<a/>` alike (start, end), and `EmptyTagFilter`
    turns a START directly followed by its END into EMPTY: on the token list, a
    start tag directly followed by an end tag is an empty-element tag -/
def collapseEmpty : List FEv → List FEv
  | .start n a :: .end_ m :: es =>
      if n = m then .empty n a :: collapseEmpty es else .start n a :: .end_ m :: collapseEmpty es
  | e :: es => e :: collapseEmpty es
  | [] => []

/-- `XMLParser(text)` followed by `EmptyTagFilter` for ANY document text (source
    documents, not only serializer output): `parseText` with `<a></a>` read as
    `<a/>`.  On texts without a start tag directly followed by an end tag the
    two agree (`parseSource_eq_parseText`). -/
def parseSource (t : Str) : Option (List XEv) :=
  (Reader.tokenize t).bind fun toks => reparseX PSt.init (collapseEmpty (dropTopWs 0 toks))

/-- no start tag directly followed by an end tag -/
def noStartEnd : List FEv → Bool
  | .start _ _ :: .end_ _ :: _ => false
  | _ :: es => noStartEnd es
  | [] => true

/-- no START_NS / END_NS event -/
def noNs : XEv → Bool
  | .ev (.startNs _ _) => false
  | .ev (.endNs _) => false
  | _ => true

/-- a stream without namespace events: what `genshi.builder` produces (the
    namespaces live in the qualified names only; `NamespaceFlattener` has to
    make up every declaration) -/
def builderShaped (xs : List XEv) : Bool := xs.all noNs

/-! ### no element written `<a></a>` (side condition of the idempotence theorems stated with `parseSource`) -/

def isStartX : XEv → Bool
  | .ev (.start _ _) => true
  | _ => false
def isEndX : XEv → Bool
  | .ev (.end_ _) => true
  | _ => false

/-- the first event that is no namespace event is an END -/
def headEndX : List XEv → Bool
  | [] => false
  | x :: xs => if noNs x then isEndX x else headEndX xs

/-- no START followed by END with nothing but namespace events between them -/
def noStartEndX : List XEv → Bool
  | [] => true
  | x :: xs => !(isStartX x && headEndX xs) && noStartEndX xs

/-- the hypothesis of `ser_idempotent_partial`, checked by running the flattener:
    START_NS events come in runs directly in front of their start tag, never
    carry the empty string (the parser reports `xmlns=""` with `None`), and the
    flattener never has to make up a declaration (every namespace used is bound
    by the stream's own declarations) — what the parser delivers for a
    well-formed document.  `inRun`: a START_NS run is open. -/
def idemGo (pref : List (Str × Str)) : FSt → Bool → List XEv → Bool
  | _, inRun, [] => !inRun
  | st, inRun, x :: xs =>
      (match x with
       | .ev (.startNs _ u) => !u.isEmpty
       | .ev (.start t a) =>
           decide ((flatStart pref st t a).2.2 =
             takePending { bindings := st.bindings, declared := [], counter := st.counter } st.pending)
       | .empty t a =>
           decide ((flatStart pref st t a).2.2 =
             takePending { bindings := st.bindings, declared := [], counter := st.counter } st.pending)
       | _ => !inRun) &&
      idemGo pref (flatStep pref st x).1 (match x with | .ev (.startNs _ _) => true | _ => false) xs

def idemOK (pref : List (Str × Str)) (xs : List XEv) : Bool := idemGo pref FSt.init false xs

/-! ### the text-level hypotheses, stated on the input

`docTextOK` and `repMarkup` speak about the flattener's output.  On the input
they amount to: the names, prefixes and namespace URIs of the stream can be
written (`evTxt`), and the stream with every name replaced by a fixed one and
the namespace events removed (`skeleton`) is text-expressible and representable. -/

def nameTxt (rep : Char → Bool) (n : Str) : Bool := Reader.validName n && n.all rep

def prefixTxt (rep : Char → Bool) (p : Str) : Bool := p.isEmpty || nameTxt rep p

/-- a namespace URI as the value of an `xmlns` attribute -/
def uriTxt (u : Str) : Bool := attrValOK u

def qnameTxt (rep : Char → Bool) (q : QName) : Bool := nameTxt rep q.loc && uriTxt q.ns

def attrsTxt (rep : Char → Bool) (a : AttrList) : Bool := a.all fun x => qnameTxt rep x.1 && attrValOK x.2

def prefTxt (rep : Char → Bool) (pref : List (Str × Str)) : Bool := pref.all fun e => prefixTxt rep e.2

def evTxt (rep : Char → Bool) : XEv → Bool
  | .ev (.start t a) => qnameTxt rep t && attrsTxt rep a
  | .empty t a => qnameTxt rep t && attrsTxt rep a
  | .ev (.end_ t) => qnameTxt rep t
  | .ev (.startNs p u) => prefixTxt rep p && uriTxt u
  | _ => true

def dummyName : Str := ['x']

def skeleton : List XEv → List FEv
  | [] => []
  | .ev (.start _ _) :: xs => .start dummyName [] :: skeleton xs
  | .empty _ _ :: xs => .empty dummyName [] :: skeleton xs
  | .ev (.end_ _) :: xs => .end_ dummyName :: skeleton xs
  | .ev (.startNs _ _) :: xs => skeleton xs
  | .ev (.endNs _) :: xs => skeleton xs
  | .ev e :: xs => .other e :: skeleton xs

/-- the input-side form of `docTextOK ∧ repMarkup` -/
def inputTextOK (rep : Char → Bool) (pref : List (Str × Str)) (xs : List XEv) : Bool :=
  prefTxt rep pref && xs.all (evTxt rep) && docTextOK (skeleton xs) && repMarkup rep (skeleton xs)

/-! ### adjacent character data

Adjacent TEXT events (the builder makes them for adjacent string children) are
written as one run of character data and an XML reader reports one event; empty
TEXT events leave no trace.  `mergeF` / `mergeR` say this on flattened events
and on what a reader reports. -/

def flushF (t : Str) : List FEv := if t.isEmpty then [] else [.other (.text t false)]

def mergeFGo : Option Str → List FEv → List FEv
  | none, [] => []
  | some t, [] => flushF t
  | none, .other (.text s false) :: es => mergeFGo (some s) es
  | some t, .other (.text s false) :: es => mergeFGo (some (t ++ s)) es
  | none, e :: es => e :: mergeFGo none es
  | some t, e :: es => flushF t ++ e :: mergeFGo none es

def mergeF (fs : List FEv) : List FEv := mergeFGo none fs

def flushR (t : Str) : List REv := if t.isEmpty then [] else [.text t]

def mergeRGo : Option Str → List REv → List REv
  | none, [] => []
  | some t, [] => flushR t
  | none, .text s :: es => mergeRGo (some s) es
  | some t, .text s :: es => mergeRGo (some (t ++ s)) es
  | none, e :: es => e :: mergeRGo none es
  | some t, e :: es => flushR t ++ e :: mergeRGo none es

/-- adjacent character data merged, empty character data dropped -/
def mergeR (rs : List REv) : List REv := mergeRGo none rs

def flushX (t : Str) : List XEv := if t.isEmpty then [] else [.ev (.text t false)]

/-- the same on events after `EmptyTagFilter`; namespace events are passed on at
    once (they do not interact with character data) -/
def mergeXGo : Option Str → List XEv → List XEv
  | none, [] => []
  | some t, [] => flushX t
  | none, .ev (.text s false) :: es => mergeXGo (some s) es
  | some t, .ev (.text s false) :: es => mergeXGo (some (t ++ s)) es
  | acc, .ev (.startNs p u) :: es => .ev (.startNs p u) :: mergeXGo acc es
  | acc, .ev (.endNs p) :: es => .ev (.endNs p) :: mergeXGo acc es
  | none, e :: es => e :: mergeXGo none es
  | some t, e :: es => flushX t ++ e :: mergeXGo none es

def mergeX (xs : List XEv) : List XEv := mergeXGo none xs

/-- the input-side hypothesis of `xml_roundtrip`: like `inputTextOK`, with
    character data allowed to be adjacent and empty -/
def noSafeText : XEv → Bool
  | .ev (.text _ true) => false
  | _ => true

def inputTextOKm (rep : Char → Bool) (pref : List (Str × Str)) (xs : List XEv) : Bool :=
  prefTxt rep pref && xs.all (evTxt rep) && xs.all noSafeText && docTextOK (mergeF (skeleton xs)) &&
  repMarkup rep (skeleton xs)

end Genshi.Xml

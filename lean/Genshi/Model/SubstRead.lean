/-
  C01 — the specification-side reader: the smallest reader that accepts the serializers'
  output language for START / END / TEXT.  It is the "independent parser" inside the
  theorems and is itself compared with expat / html.parser on every real output.

    * `readText` / `readAttr` : character data up to the next `<`, an attribute value up to the
      closing `"`, the four references `&amp; &lt; &gt; &#34;` decoded (`Markup.unescape`'s table)
    * `readTextXml` / `readAttrXml` : what a conforming XML 1.0 processor does in addition —
      the Char production, line-end normalisation, attribute-value normalisation
-/
import Genshi.Model.SubstEmit
namespace Genshi.Subst
open Genshi.Escape Genshi.Str

/-- character data: everything up to the next `<`, references decoded -/
def readText (s : List Char) : List Char := unescape (s.takeWhile (· ≠ '<'))

/-- a double-quoted attribute value (the reader stands just after the opening quote) -/
def readAttr (s : List Char) : List Char := unescape (s.takeWhile (· ≠ '"'))

/-- does an entity name follow (the reader stands just after `&`)? -/
def entityFollows (s : List Char) : Bool :=
  ['a', 'm', 'p', ';'].isPrefixOf s || ['l', 't', ';'].isPrefixOf s ||
  ['g', 't', ';'].isPrefixOf s || ['#', '3', '4', ';'].isPrefixOf s

/-- every `&` starts one of the four references -/
def ampsOk : List Char → Bool
  | [] => true
  | c :: cs => (c != '&' || entityFollows cs) && ampsOk cs

/-! ### what an XML 1.0 processor adds -/

/-- the Char production of XML 1.0 -/
def isXmlChar (c : Char) : Bool :=
  let n := c.toNat
  n = 9 || n = 10 || n = 13 || (32 ≤ n && n ≤ 0xD7FF) || (0xE000 ≤ n && n ≤ 0xFFFD) || 0x10000 ≤ n

/-- line-end normalisation (XML 1.0 §2.11): CR LF and a lone CR become LF -/
def normEolGo : Bool → List Char → List Char
  | _, [] => []
  | afterCr, c :: cs =>
      if c = '\r' then '\n' :: normEolGo true cs
      else if c = '\n' && afterCr then normEolGo false cs
      else c :: normEolGo false cs

def normEol (s : List Char) : List Char := normEolGo false s

/-- attribute-value normalisation (XML 1.0 §3.3.3) of literal white space (after line ends) -/
def normAttrWs (s : List Char) : List Char :=
  (normEol s).map fun c => if c = '\t' || c = '\n' then ' ' else c

/-- `none`: not well-formed (a character outside Char) -/
def readTextXml (s : List Char) : Option (List Char) :=
  if s.all isXmlChar then some (unescape ((normEol s).takeWhile (· ≠ '<'))) else none

def readAttrXml (s : List Char) : Option (List Char) :=
  if s.all isXmlChar then some (unescape ((normAttrWs s).takeWhile (· ≠ '"'))) else none

end Genshi.Subst

/-! ### the document reader

  A character-at-a-time state machine (so that it composes over concatenation): character
  data, start tags with double-quoted attributes, `/>` and ` />`, end tags.  Names end at
  white space, `/`, `>`, `=`; anything the serializers never write (comments, processing
  instructions, CDATA, doctype, single-quoted or unquoted attribute values, a tag that is not
  closed) makes the reader give up (`none`).  Under html an element of the generated void
  list is complete without an end tag, and the content of a raw-text element (the generated
  `_NOESCAPE_ELEMS`: `script`, `style`) is raw text: it runs to the next `</` and is not decoded. -/
namespace Genshi.Subst
open Genshi.Escape Genshi.Str

inductive Mode where
  | text        -- character data
  | lt          -- just after `<`
  | closeName   -- after `</`
  | openName    -- reading the element name of a start tag
  | attrName    -- after white space inside a start tag
  | attrEq      -- after `=`
  | attrVal     -- inside the double quotes
  | inTag       -- after the closing quote of an attribute value
  | slash       -- after `/` inside a start tag
  | raw         -- inside a raw-text element (html `script` / `style`): everything is content …
  | rawLt       -- … up to the next `</`; here the last character read (and kept in `buf`) is `<`
  deriving Repr, DecidableEq, Inhabited

structure RS where
  mode : Mode
  buf : List Char                    -- raw character data / name / attribute value being read
  tag : Name                         -- name of the start tag being read
  attrs : List (Name × List Char)    -- its attributes so far
  aname : Name                       -- name of the attribute being read
  out : List Ev                      -- what has been read
  deriving Repr, Inhabited

def isNameChar (c : Char) : Bool :=
  !(c = '<' || c = '>' || c = '/' || c = '=' || c = '"' || c = '\'' || c = '&' ||
    c = ' ' || c = '\t' || c = '\n' || c = '\r')

/-- pending character data becomes one text event, references decoded; nothing if empty -/
def flushText (raw : List Char) : List Ev :=
  if raw.isEmpty then [] else [.text (unescape raw) false]

/-- the content of a raw-text element becomes one text event, NOT decoded; nothing if empty -/
def flushRaw (raw : List Char) : List Ev :=
  if raw.isEmpty then [] else [.text raw false]

/-- is `t` a raw-text element of the method (`HTMLSerializer._NOESCAPE_ELEMS`; none under xml / xhtml)? -/
def isRawElem (m : Method) (t : Name) : Bool := (noescapeElems m).contains t

/-- the events of a completed start tag -/
def startEvents (m : Method) (t : Name) (attrs : List (Name × List Char)) : List Ev :=
  if m = .html && (voidElems .html).contains t then [.start t attrs, .end_ t] else [.start t attrs]

def step (m : Method) (st : RS) (c : Char) : Option RS :=
  match st.mode with
  | .text =>
      if c = '<' then some { st with mode := .lt, buf := [], out := st.out ++ flushText st.buf }
      else some { st with buf := st.buf ++ [c] }
  | .lt =>
      if c = '/' then some { st with mode := .closeName, buf := [] }
      else if isNameChar c then some { st with mode := .openName, buf := [c] }
      else none
  | .closeName =>
      if c = '>' then
        (if st.buf.isEmpty then none
         else some { st with mode := .text, buf := [], out := st.out ++ [.end_ st.buf] })
      else if isNameChar c then some { st with buf := st.buf ++ [c] }
      else none
  | .openName =>
      if isNameChar c then some { st with buf := st.buf ++ [c] }
      else if c = ' ' then some { st with mode := .attrName, tag := st.buf, attrs := [], aname := [], buf := [] }
      else if c = '/' then some { st with mode := .slash, tag := st.buf, attrs := [], buf := [] }
      else if c = '>' then
        some { st with mode := (if isRawElem m st.buf then .raw else .text), buf := [],
                       out := st.out ++ startEvents m st.buf [] }
      else none
  | .attrName =>
      if isNameChar c then some { st with aname := st.aname ++ [c] }
      else if c = '=' then (if st.aname.isEmpty then none else some { st with mode := .attrEq })
      else if c = '/' then (if st.aname.isEmpty then some { st with mode := .slash } else none)
      else none
  | .attrEq =>
      if c = '"' then some { st with mode := .attrVal, buf := [] } else none
  | .attrVal =>
      if c = '"' then
        some { st with mode := .inTag, buf := [], attrs := st.attrs ++ [(st.aname, unescape st.buf)] }
      else some { st with buf := st.buf ++ [c] }
  | .inTag =>
      if c = ' ' then some { st with mode := .attrName, aname := [] }
      else if c = '/' then some { st with mode := .slash }
      else if c = '>' then
        some { st with mode := (if isRawElem m st.tag then .raw else .text), buf := [],
                       out := st.out ++ startEvents m st.tag st.attrs }
      else none
  | .raw =>
      if c = '<' then some { st with mode := .rawLt, buf := st.buf ++ [c] }
      else some { st with buf := st.buf ++ [c] }
  | .rawLt =>
      if c = '/' then
        some { st with mode := .closeName, buf := [], out := st.out ++ flushRaw st.buf.dropLast }
      else if c = '<' then some { st with buf := st.buf ++ [c] }
      else some { st with mode := .raw, buf := st.buf ++ [c] }
  | .slash =>
      if c = '>' then
        some { st with mode := .text, buf := [], out := st.out ++ [.start st.tag st.attrs, .end_ st.tag] }
      else none

def initRS : RS := { mode := .text, buf := [], tag := [], attrs := [], aname := [], out := [] }

def run (m : Method) (st : RS) (s : List Char) : Option RS := s.foldlM (step m) st

/-- re-read a document: the START / END / TEXT events it denotes (text merged and decoded);
    `none`: not in the language -/
def readDoc (m : Method) (s : List Char) : Option (List Ev) :=
  match run m initRS s with
  | some st => if st.mode = .text then some (st.out ++ flushText st.buf) else none
  | none => none

end Genshi.Subst

/-! ### the output language, before any knowledge of escaping

  What the serializers write is a sequence of raw tokens: character data, start tags with
  raw (already escaped) attribute values, empty-element forms, end tags.  `absorb` says what
  the reader makes of such a sequence. -/
namespace Genshi.Subst
open Genshi.Escape Genshi.Str

inductive RTok where
  | text (raw : List Char)
  | open (tag : Name) (attrs : List (Name × List Char))
  | empty (tag : Name) (attrs : List (Name × List Char))
  | close (tag : Name)
  deriving Repr, DecidableEq, Inhabited

def attrRaw (n : Name) (raw : List Char) : List Char := ' ' :: (n ++ ('=' :: '"' :: (raw ++ ['"'])))

def attrsRaw (attrs : List (Name × List Char)) : List Char := attrs.flatMap fun p => attrRaw p.1 p.2

def emitRTok (m : Method) : RTok → List Char
  | .text raw => raw
  | .open t a => '<' :: (t ++ (attrsRaw a ++ ['>']))
  | .close t => '<' :: '/' :: (t ++ ['>'])
  | .empty t a =>
      match m with
      | .xml => '<' :: (t ++ (attrsRaw a ++ ['/', '>']))
      | .xhtml =>
          if (voidElems .xhtml).contains t then '<' :: (t ++ (attrsRaw a ++ [' ', '/', '>']))
          else '<' :: (t ++ (attrsRaw a ++ '>' :: '<' :: '/' :: (t ++ ['>'])))
      | .html =>
          if (voidElems .html).contains t then '<' :: (t ++ (attrsRaw a ++ ['>']))
          else '<' :: (t ++ (attrsRaw a ++ '>' :: '<' :: '/' :: (t ++ ['>'])))

def decodeAttrs (a : List (Name × List Char)) : List (Name × List Char) :=
  a.map fun p => (p.1, unescape p.2)

/-- (events read so far, pending raw character data) after one more raw token -/
def absorb (m : Method) (acc : List Ev × List Char) : RTok → List Ev × List Char
  | .text raw => (acc.1, acc.2 ++ raw)
  | .open t a => (acc.1 ++ flushText acc.2 ++ startEvents m t (decodeAttrs a), [])
  | .close t => (acc.1 ++ flushText acc.2 ++ [.end_ t], [])
  | .empty t a => (acc.1 ++ flushText acc.2 ++ [.start t (decodeAttrs a), .end_ t], [])

def absorbAll (m : Method) (acc : List Ev × List Char) (toks : List RTok) : List Ev × List Char :=
  toks.foldl (absorb m) acc

end Genshi.Subst

/-! ### what re-reading a stream must give, and the streams the theorems speak about -/
namespace Genshi.Subst
open Genshi.Escape Genshi.Str

/-- the character data a TEXT event stands for: a plain string is itself, a `Markup`
    instance holds text that is already escaped -/
def textValue (s : List Char) (safe : Bool) : List Char := if safe then unescape s else s

def flushData (pend : List Char) : List Ev := if pend.isEmpty then [] else [.text pend false]

/-- what a reader makes of an event stream: adjacent character data is one text, empty
    text vanishes, START and END stay as they are -/
def coalesceGo : List Char → List Ev → List Ev
  | pend, [] => flushData pend
  | pend, .text s f :: rest => coalesceGo (pend ++ textValue s f) rest
  | pend, .start t a :: rest => flushData pend ++ .start t a :: coalesceGo [] rest
  | pend, .end_ t :: rest => flushData pend ++ .end_ t :: coalesceGo [] rest

def coalesce (evs : List Ev) : List Ev := coalesceGo [] evs

def isNameB (t : Name) : Bool := !t.isEmpty && t.all isNameChar

/-- attribute names the serializer writes as `name="value"` (not minimised, renamed or dropped) -/
def plainAttrName (m : Method) (n : Name) : Bool :=
  match m with
  | .xml => true
  | .xhtml => !(booleanAttrs .xhtml).contains n && n != xmlLang && n != xmlSpace
  | .html => !(booleanAttrs .html).contains n && !n.contains ':' && n != xmlnsName

def attrsOkB (m : Method) (a : List (Name × List Char)) : Bool :=
  a.all fun p => isNameB p.1 && plainAttrName m p.1

/-- names are names, no raw-text element -/
def evOkB (m : Method) : Ev → Bool
  | .start t a => isNameB t && attrsOkB m a && !(noescapeElems m).contains t
  | .end_ t => isNameB t
  | .text _ _ => true

/-- may `t` be written as a start tag with content?  (under html a void element may not) -/
def openOk (m : Method) (t : Name) : Bool := !(m = .html && (voidElems .html).contains t)

/-- every START is followed by something, an END directly after a START is its own, and
    (html) a void element is empty: what `EmptyTagFilter` and the html reader rely on -/
def emptyOkGo (m : Method) : Option Name → List Ev → Bool
  | none, [] => true
  | some _, [] => false
  | some t, .end_ t' :: rest => t == t' && emptyOkGo m none rest
  | some t, .start t' _ :: rest => openOk m t && emptyOkGo m (some t') rest
  | some t, .text _ _ :: rest => openOk m t && emptyOkGo m none rest
  | none, .start t _ :: rest => emptyOkGo m (some t) rest
  | none, .end_ _ :: rest => emptyOkGo m none rest
  | none, .text _ _ :: rest => emptyOkGo m none rest

/-- with `strip_whitespace` every run of character data is normalised as the option documents,
    except inside a whitespace-preserving element (`pre`, `textarea` under xhtml / html);
    `p` counts the open elements from the outermost preserving one inwards -/
def flushDataP (p : Nat) (pend : List Char) : List Ev :=
  flushData (if p = 0 then normWs pend else pend)

def presStep (pres : List Name) (p : Nat) (t : Name) : Nat :=
  if p > 0 || pres.contains t then p + 1 else p

def coalesceStripGo (pres : List Name) : Nat → List Char → List Ev → List Ev
  | p, pend, [] => flushDataP p pend
  | p, pend, .text s f :: rest => coalesceStripGo pres p (pend ++ textValue s f) rest
  | p, pend, .start t a :: rest =>
      flushDataP p pend ++ .start t a :: coalesceStripGo pres (presStep pres p t) [] rest
  | p, pend, .end_ t :: rest => flushDataP p pend ++ .end_ t :: coalesceStripGo pres (p - 1) [] rest

def coalesceStrip (m : Method) (evs : List Ev) : List Ev := coalesceStripGo (preserveElems m) 0 [] evs

end Genshi.Subst

/-
  C01 — the specification-side reader: the smallest reader that accepts the serializers'
  output language for START / END / TEXT.  It is the "independent parser" inside the
  theorems and is itself compared with expat / html.parser on every real output.

    * `readText` / `readAttr` : character data up to the next `<`, an attribute value up to the
      closing `"`, the four references `&amp; &lt; &gt; &#34;` decoded (`Markup.unescape`'s table)
    * `readTextXml` / `readAttrXml` : what a conforming XML 1.0 processor does in addition —
      the Char production, line-end normalisation, attribute-value normalisation
-/
import Genshi.Model.SubstEmit
namespace Genshi.Subst
open Genshi.Escape Genshi.Str

/-- character data: everything up to the next `<`, references decoded -/
def readText (s : List Char) : List Char := unescape (s.takeWhile (· ≠ '<'))

/-- a double-quoted attribute value (the reader stands just after the opening quote) -/
def readAttr (s : List Char) : List Char := unescape (s.takeWhile (· ≠ '"'))

/-- does an entity name follow (the reader stands just after `&`)? -/
def entityFollows (s : List Char) : Bool :=
  ['a', 'm', 'p', ';'].isPrefixOf s || ['l', 't', ';'].isPrefixOf s ||
  ['g', 't', ';'].isPrefixOf s || ['#', '3', '4', ';'].isPrefixOf s

/-- every `&` starts one of the four references -/
def ampsOk : List Char → Bool
  | [] => true
  | c :: cs => (c != '&' || entityFollows cs) && ampsOk cs

/-! ### what an XML 1.0 processor adds -/

/-- the Char production of XML 1.0 -/
def isXmlChar (c : Char) : Bool :=
  let n := c.toNat
  n = 9 || n = 10 || n = 13 || (32 ≤ n && n ≤ 0xD7FF) || (0xE000 ≤ n && n ≤ 0xFFFD) || 0x10000 ≤ n

/-- line-end normalisation (XML 1.0 §2.11): CR LF and a lone CR become LF -/
def normEolGo : Bool → List Char → List Char
  | _, [] => []
  | afterCr, c :: cs =>
      if c = '\r' then '\n' :: normEolGo true cs
      else if c = '\n' && afterCr then normEolGo false cs
      else c :: normEolGo false cs

def normEol (s : List Char) : List Char := normEolGo false s

/-- attribute-value normalisation (XML 1.0 §3.3.3) of literal white space (after line ends) -/
def normAttrWs (s : List Char) : List Char :=
  (normEol s).map fun c => if c = '\t' || c = '\n' then ' ' else c

/-- `none`: not well-formed (a character outside Char) -/
def readTextXml (s : List Char) : Option (List Char) :=
  if s.all isXmlChar then some (unescape ((normEol s).takeWhile (· ≠ '<'))) else none

def readAttrXml (s : List Char) : Option (List Char) :=
  if s.all isXmlChar then some (unescape ((normAttrWs s).takeWhile (· ≠ '"'))) else none

end Genshi.Subst

/-
  C19 — template streams whose code is a syntax tree: the composition of the stream model
  (`Translator.extract`, `Model/I18nExtract.lean`) with `extract_from_code`
  (`Model/I18nPyExpr.lean`).

  In `TEvent` an EXPR / EXEC event and an expression inside an interpolated attribute value
  carry the list `extract_from_code` finds (the harness used to compute it with the real
  function).  Here they carry the syntax tree itself (`PyExpr`, what `Expression.ast` /
  `Suite.ast` hold) and `lower gf` does what `Translator.extract` does when it meets such an
  event: it calls `extract_from_code(data, gettext_functions)` — with the `gettext_functions`
  argument of `extract`, which every recursive call and every directive `extract` method
  hands on unchanged.  `extractP cfg gf s` is `Translator(cfg).extract(stream,
  gettext_functions=gf)`.
  Imports only other Model files (linked into `gdrv`).
-/
import Genshi.Model.I18nExtract
import Genshi.Model.I18nPyExpr
namespace Genshi.I18n
open Genshi

/-- a part of an interpolated attribute value: TEXT, or EXPR with its syntax tree -/
inductive PPart where
  | text (s : Str)
  | expr (e : PyExpr)
  deriving Repr, Inhabited

inductive PVal where
  | str (s : Str)
  | parts (ps : List PPart)
  deriving Repr, Inhabited

abbrev PAttrs := List (QName × PVal)

/-- template stream events with the code as syntax trees -/
inductive PEvent where
  | start (tag : QName) (attrs : PAttrs)
  | end_ (tag : QName)
  | text (s : Str)
  | expr (id : Nat) (e : PyExpr)
  | exec (e : PyExpr)
  | sub (dirs : List Dir) (body : List PEvent)
  | other (label : Str)
  deriving Repr, Inhabited

abbrev PStream := List PEvent

def lowerPart (gf : List Str) : PPart → APart
  | .text s => .text s
  | .expr e => .expr (extractFromCode gf e)

def lowerVal (gf : List Str) : PVal → AVal
  | .str s => .str s
  | .parts ps => .parts (ps.map (lowerPart gf))

def lowerAttrs (gf : List Str) : PAttrs → TAttrs
  | [] => []
  | (n, v) :: rest => (n, lowerVal gf v) :: lowerAttrs gf rest

mutual
  /-- the event as the rest of `Translator.extract` uses it: every piece of code replaced by
      what `extract_from_code(code, gettext_functions)` reports for it -/
  def lowerEv (gf : List Str) : PEvent → TEvent
    | .start t a => .start t (lowerAttrs gf a)
    | .end_ t => .end_ t
    | .text s => .text s
    | .expr i e => .expr i (extractFromCode gf e)
    | .exec e => .exec (extractFromCode gf e)
    | .sub ds body => .sub ds (lowerList gf body)
    | .other l => .other l
  def lowerList (gf : List Str) : List PEvent → List TEvent
    | [] => []
    | e :: es => lowerEv gf e :: lowerList gf es
end

/-- `Translator(cfg…).extract(stream, gettext_functions=gf)` -/
def extractP (cfg : Cfg) (gf : List Str) (s : PStream) : Except Err (List Message) :=
  extract cfg (lowerList gf s)

end Genshi.I18n

/-
  C03 — an abstract evaluator for Python expressions and the documented lookup rules.

  Both genshi and the reference run on the same CPython, so *what* the operators compute is
  irrelevant for the property; what matters is which tree is evaluated, in which scope every
  name is resolved and which accesses go through the lookup functions.  The evaluator is
  therefore parametric in

    * `σ : Sem V E` — an uninterpreted semantics of values (operators, calls, containers,
      iteration, function objects, unpacking),
    * `look : Look V E` — how a *free* name load, an attribute load and an item load are
      evaluated (Python: globals / `getattr` / `getitem`; the documented template semantics:
      `lookup_name` / `lookup_attr` / `lookup_item`).

  Scoping follows Python: parameters of a lambda and the loop variables of a comprehension are
  local to the body / the comprehension (declared for the whole comprehension, unbound until
  assigned); parameter defaults and the first iterable of a comprehension belong to the
  enclosing scope.
-/
import Genshi.Model.PyAst
import Genshi.Model.PyXform
namespace Genshi.Py

structure Sem (V E : Type) where
  const : Const → V
  strV : Str → V
  binop : Str → V → V → Except E V
  unop : Str → V → Except E V
  truthy : V → Except E Bool
  cmp : Str → V → V → Except E V
  /-- positional arguments (flag: `*arg`), keyword arguments (`none`: `**arg`) -/
  call : V → List (Bool × V) → List (Option Str × V) → Except E V
  getattr : V → Str → Except E V
  getitem : V → V → Except E V
  mkList : List (Bool × V) → Except E V
  mkTuple : List (Bool × V) → Except E V
  mkDict : List (Option V × V) → Except E V
  mkSlice : Option V → Option V → Option V → V
  iter : V → Except E (List V)
  /-- `iter(v)` as far as it is done when a generator expression is CREATED (CPython calls `iter()` on the first
      iterable at once: a non-iterable raises TypeError there; the items are produced when the generator is consumed)
      and when a `*v` element / argument is reached (before the following elements are evaluated) -/
  getIter : V → Except E V := fun v => .ok v
  /-- unpack a value against an assignment target: the names it binds with their values -/
  bindTarget : PyExpr → V → Except E (List (Str × V))
  /-- a function object: parameters (name, default value) by kind, and its body as a function of
      the argument binding the call machinery computes -/
  mkFun : (po ar : List (Str × Option V)) → (va : Option Str) → (ko : List (Str × Option V)) → (ka : Option Str)
      → (List (Str × V) → Except E V) → V
  /-- a generator object from the (deferred) computation of its items -/
  mkGen : Except E (List V) → V
  yieldV : Option V → Except E V
  unbound : Str → E

structure Look (V E : Type) where
  free : Str → Except E V
  attr : V → Str → Except E V
  item : V → V → Except E V

/-- local scopes, innermost first: declared names with their value once bound -/
abbrev Env (V : Type) := List (Str × Option V)

def Env.find {V : Type} : Env V → Str → Option (Option V)
  | [], _ => none
  | (n, v) :: r, id => if n = id then some v else Env.find r id

def declare {V : Type} (names : List Str) (env : Env V) : Env V := names.map (fun n => (n, none)) ++ env

/-- assign to declared names (the innermost declaration of each) -/
def Env.set {V : Type} : Env V → Str → V → Env V
  | [], _, _ => []
  | (n, old) :: r, id, v => if n = id then (n, some v) :: r else (n, old) :: Env.set r id v

def Env.assign {V : Type} (env : Env V) (b : List (Str × V)) : Env V := b.foldl (fun e p => e.set p.1 p.2) env

/-- the scope of a call: the parameter names, bound to what the call machinery provides -/
def paramScope {V : Type} (names : List Str) (b : List (Str × V)) : Env V :=
  names.map fun n => (n, (b.find? (fun p => p.1 = n)).map (·.2))

def paramName : PyExpr → Str
  | .param n _ _ => n
  | _ => []

def optName : Option PyExpr → Option Str
  | some p => some (paramName p)
  | none => none

section
variable {V E : Type} (σ : Sem V E) (look : Look V E)

mutual
def eval : PyExpr → Env V → Except E V
  | .name id, env =>
      match env.find id with
      | some (some v) => .ok v
      | some none => .error (σ.unbound id)
      | none => look.free id
  | .const c, _ => .ok (σ.const c)
  | .boolOp op vs, env =>
      match vs with
      | [] => .error (σ.unbound [])
      | v :: rest => do
          let x ← eval v env
          evalBool (op = cs!"And") x rest env
  | .binOp l op r, env => do
      let a ← eval l env
      let b ← eval r env
      σ.binop op a b
  | .unaryOp op e, env => do
      let a ← eval e env
      σ.unop op a
  | .lambda po ar va ko ka body, env => do
      let dpo ← evalParams po env
      let dar ← evalParams ar env
      let dko ← evalParams ko env
      let names := targetNamesL po ++ targetNamesL ar ++ targetNamesL ko ++ targetNamesO va ++ targetNamesO ka
      .ok (σ.mkFun dpo dar (optName va) dko (optName ka) (fun b => eval body (paramScope names b ++ env)))
  | .ifExp t b o, env => do
      let c ← eval t env
      if (← σ.truthy c) then eval b env else eval o env
  | .dict items, env => do
      let kvs ← evalDict items env
      σ.mkDict kvs
  | .listComp elt gens, env => do
      let xs ← evalComp elt gens env
      σ.mkList (xs.map fun x => (false, x))
  | .genExp elt gens, env =>
      -- the first iterable is evaluated now, everything else when the generator is consumed
      match gens with
      | .comp t it ifs _ :: rest => do
          let itV ← eval it env
          let itr ← σ.getIter itV
          .ok (σ.mkGen (do
            let items ← σ.iter itr
            runFrom t ifs rest items (declare (compNames gens) env) elt))
      | _ => .error (σ.unbound [])
  | .yield_ v, env => do
      let x ← evalOpt v env
      σ.yieldV x
  | .compare l rest, env => do
      let a ← eval l env
      evalCmp a rest env
  | .call f args kws, env => do
      let fv ← eval f env
      let as ← evalArgs args env
      let ks ← evalKws kws env
      σ.call fv as ks
  | .attribute v a, env => do
      let x ← eval v env
      look.attr x a
  | .subscript v s, env => do
      let x ← eval v env
      let k ← eval s env
      if isSliceKey s then σ.getitem x k else look.item x k
  | .slice l u st, env => do
      let a ← evalOpt l env
      let b ← evalOpt u env
      let c ← evalOpt st env
      .ok (σ.mkSlice a b c)
  | .starred e, env => eval e env
  | .list elts, env => do
      let xs ← evalArgs elts env
      σ.mkList xs
  | .tuple elts, env => do
      let xs ← evalArgs elts env
      σ.mkTuple xs
  | .unsupported _, _ => .error (σ.unbound [])
  | .keyword _ v, env => eval v env
  | .comp _ it _ _, env => eval it env
  | .param _ _ d, env => do
      let x ← evalOpt d env
      match x with
      | some v => .ok v
      | none => .error (σ.unbound [])
  | .dictItem _ v, env => eval v env
  | .cmpRhs _ e, env => eval e env
termination_by e _ => sizeOf e
/-- `and` / `or` with short circuit: `x` is the value of the operand just evaluated -/
def evalBool (isAnd : Bool) (x : V) : List PyExpr → Env V → Except E V
  | [], _ => .ok x
  | v :: rest, env => do
      let t ← σ.truthy x
      if t = isAnd then do
        let y ← eval v env
        evalBool isAnd y rest env
      else .ok x
termination_by vs _ => sizeOf vs
/-- comparison chain: `a op1 b op2 c` is `a op1 b and b op2 c` with `b` evaluated once -/
def evalCmp (a : V) : List PyExpr → Env V → Except E V
  | [], _ => .ok a
  | .cmpRhs op e :: rest, env => do
      let b ← eval e env
      let r ← σ.cmp op a b
      if rest.isEmpty then .ok r
      else if (← σ.truthy r) then evalCmp b rest env else .ok r
  | _ :: _, _ => .error (σ.unbound [])
termination_by rest _ => sizeOf rest
def evalOpt : Option PyExpr → Env V → Except E (Option V)
  | none, _ => .ok none
  | some e, env => do
      let x ← eval e env
      .ok (some x)
termination_by o _ => sizeOf o
/-- display elements / positional arguments: `*e` is flagged -/
def evalArgs : List PyExpr → Env V → Except E (List (Bool × V))
  | [], _ => .ok []
  | .starred e :: rest, env => do
      let x ← eval e env
      -- (`*e` is unpacked before the next element / argument is evaluated: a non-iterable raises here)
      let x ← σ.getIter x
      let xs ← evalArgs rest env
      .ok ((true, x) :: xs)
  | e :: rest, env => do
      let x ← eval e env
      let xs ← evalArgs rest env
      .ok ((false, x) :: xs)
termination_by es _ => sizeOf es
def evalKws : List PyExpr → Env V → Except E (List (Option Str × V))
  | [], _ => .ok []
  | .keyword n v :: rest, env => do
      let x ← eval v env
      let xs ← evalKws rest env
      .ok ((n, x) :: xs)
  | _ :: _, _ => .error (σ.unbound [])
termination_by es _ => sizeOf es
def evalDict : List PyExpr → Env V → Except E (List (Option V × V))
  | [], _ => .ok []
  | .dictItem k v :: rest, env => do
      let a ← evalOpt k env
      let b ← eval v env
      let xs ← evalDict rest env
      .ok ((a, b) :: xs)
  | _ :: _, _ => .error (σ.unbound [])
termination_by es _ => sizeOf es
/-- parameters with the values of their defaults (evaluated in the enclosing scope) -/
def evalParams : List PyExpr → Env V → Except E (List (Str × Option V))
  | [], _ => .ok []
  | .param n _ d :: rest, env => do
      let x ← evalOpt d env
      let xs ← evalParams rest env
      .ok ((n, x) :: xs)
  | _ :: _, _ => .error (σ.unbound [])
termination_by es _ => sizeOf es
/-- all conditions of a clause hold -/
def evalConds : List PyExpr → Env V → Except E Bool
  | [], _ => .ok true
  | c :: rest, env => do
      let x ← eval c env
      if (← σ.truthy x) then evalConds rest env else .ok false
termination_by es _ => sizeOf es
/-- the items a comprehension produces: first iterable in the enclosing scope -/
def evalComp (elt : PyExpr) : List PyExpr → Env V → Except E (List V)
  | .comp t it ifs _ :: rest, env => do
      let itV ← eval it env
      let items ← σ.iter itV
      runFrom t ifs rest items (declare (targetNames t ++ compNames rest) env) elt
  | _, _ => .error (σ.unbound [])
termination_by gens _ => sizeOf elt + sizeOf gens
/-- one clause over the items of its iterable -/
def runFrom (t : PyExpr) (ifs rest : List PyExpr) (items : List V) (env : Env V) (elt : PyExpr) : Except E (List V) :=
  (items.mapM fun item => do
      let b ← σ.bindTarget t item
      let env' := env.assign b
      if (← evalConds ifs env') then runGens rest env' elt else .ok []).map List.flatten
termination_by sizeOf t + sizeOf ifs + sizeOf rest + sizeOf elt + 1
/-- the remaining clauses (their iterables are evaluated in the comprehension's scope) -/
def runGens : List PyExpr → Env V → PyExpr → Except E (List V)
  | [], env, elt => do
      let x ← eval elt env
      .ok [x]
  | .comp t it ifs _ :: rest, env, elt => do
      let itV ← eval it env
      let items ← σ.iter itV
      runFrom t ifs rest items env elt
  | _ :: _, _, _ => .error (σ.unbound [])
termination_by gens _ elt => sizeOf gens + sizeOf elt
end
end

end Genshi.Py

namespace Genshi.Py

/-! ### the documented lookup rules (`LookupBase.lookup_name / lookup_attr / lookup_item`,
    `StrictLookup` / `LenientLookup`) -/

/-- what the lookup functions consult -/
structure World (V E : Type) where
  data : Str → Option V
  builtins : Str → Option V
  strict : Bool
  /-- `UndefinedError(name, owner)` -/
  undefinedError : Str → Option V → E
  /-- `Undefined(name, owner)` -/
  undefinedV : Str → Option V → V
  isAttributeError : E → Bool
  isKeyError : E → Bool
  isIndexError : E → Bool
  isTypeError : E → Bool
  /-- `hasattr(obj.__class__, key)` -/
  classHasAttr : V → Str → Bool
  /-- `isinstance(key, str)`: the text of a string key -/
  strOf : V → Option Str

section
variable {V E : Type} (σ : Sem V E) (w : World V E)

/-- `cls.undefined(key, owner)`: raise in strict mode, an `Undefined` object in lenient mode -/
def undefinedRes (key : Str) (owner : Option V) : Except E V :=
  if w.strict then .error (w.undefinedError key owner) else .ok (w.undefinedV key owner)

/-- `lookup_name`: context data, then builtins, then undefined -/
def lookupName (name : Str) : Except E V :=
  match w.data name with
  | some v => .ok v
  | none =>
    match w.builtins name with
    | some v => .ok v
    | none => undefinedRes w name none

/-- `lookup_attr`: the attribute; if there is none (and the class has none either) the item of
    that name; else undefined -/
def lookupAttr (obj : V) (key : Str) : Except E V :=
  match σ.getattr obj key with
  | .ok v => .ok v
  | .error e =>
      if w.isAttributeError e then
        if w.classHasAttr obj key then .error e
        else
          match σ.getitem obj (σ.strV key) with
          | .ok v => .ok v
          | .error e2 => if w.isKeyError e2 || w.isTypeError e2 then undefinedRes w key (some obj) else .error e2
      else .error e

/-- `lookup_item`: the item; if that fails and the key is a string, the attribute of that name;
    else undefined (string keys) or the original error -/
def lookupItem (obj key : V) : Except E V :=
  match σ.getitem obj key with
  | .ok v => .ok v
  | .error e =>
      if w.isAttributeError e || w.isKeyError e || w.isIndexError e || w.isTypeError e then
        match w.strOf key with
        | some s =>
            match σ.getattr obj s with
            | .ok v => .ok v
            | .error e2 => if w.isAttributeError e2 then undefinedRes w s (some obj) else .error e2
        | none => .error e
      else .error e

/-- Python's own evaluation of a tree: free names from the globals `g`, plain attribute / item access -/
def pyLook (g : Str → Except E V) : Look V E := ⟨g, σ.getattr, σ.getitem⟩

/-- the documented template semantics: free names, attributes and items through the lookup rules -/
def gsLook : Look V E := ⟨lookupName w, lookupAttr σ w, lookupItem σ w⟩

end
end Genshi.Py

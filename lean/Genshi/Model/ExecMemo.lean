/-
  C14 (wave 4) — the include-graph model with the bounded loader cache AND `_prepared` memoisation
  as state: template objects have an identity and, once prepared, keep their prepared stream.

  Code mirrored:
    genshi/template/base.py    Template._prepare_self (`if not self._prepared: self._stream =
                               list(self._prepare(self._stream, inlined)); self._prepared = True`),
                               Template._prepare (INCLUDE branch: a static href with `auto_reload`
                               off is loaded now; found and not on the inlining stack: the included
                               object is prepared — unless it already is — and its stream spliced
                               in; on the stack, or not found: the include stays for run time, its
                               class fixed to `cls or self.__class__`), Template.stream,
                               Template._include (run-time include: load, then `generate()`)
    genshi/template/loader.py  TemplateLoader.load (cache hit: LRU touch; miss: parse, store)
    genshi/util.py             LRUCache (`max_cache_size = cap`)

  A prepared object performs no loads for its static includes when it is rendered again, and an
  object prepared as part of another one's `_prepare` stays prepared for as long as it is in the
  cache.  With `cap` 0 or 1 an object can be evicted — or replaced by a re-parse under the same
  key — while it is being prepared: the result is written back only into a cache entry that still
  holds the same object (`oid`).
-/
import Genshi.Model.ExecLru
namespace Genshi.Exec

/-- an event of a prepared stream -/
inductive PItem
  | text (i : Nat)
  | expr (i : Nat)
  | code (i m : Nat)
  /-- an include left for run time: target, class to load it with, `absHrefs` of the writer -/
  | rt (n : Nat) (c : Cls) (abs : Bool)
  deriving DecidableEq, Repr

/-- a template object -/
structure MT where
  oid : Nat
  t : Tmpl
  /-- `_prepared` and the prepared `_stream` -/
  prep : Option (List PItem)
  deriving DecidableEq, Repr

structure MSt where
  flag : Bool
  autoReload : Bool
  cache : List ((Nat × Bool) × MT)
  sentinel : List Nat
  out : List Nat
  /-- the next object identity -/
  next : Nat
  deriving DecidableEq, Repr

def mst0 (flag ar : Bool) : MSt := ⟨flag, ar, [], [], [], 0⟩

/-- `TemplateLoader.load(name, cls=c)` with `max_cache_size = cap` -/
def loadM (cap : Nat) (fs : FS) (st : MSt) (name : Nat) (c : Cls) (abs : Bool) : Except Err (MSt × MT) :=
  match st.cache.lookup (name, abs) with
  | some o => .ok ({ st with cache := ((name, abs), o) :: st.cache.filter (fun p => p.1 != (name, abs)) }, o)
  | none =>
      match fs.lookup name with
      | none => .error (.notFound name)
      | some f =>
          match parseFile c st.flag name f with
          | .error e => .error e
          | .ok t =>
              let o : MT := ⟨st.next, t, none⟩
              .ok ({ st with next := st.next + 1,
                             cache := (((name, abs), o) :: st.cache.filter (fun p => p.1 != (name, abs))).take cap }, o)

/-- the mutation of a template object (`_stream`, `_prepared`) reaches the cache entry that holds
    that very object -/
def writeBack (st : MSt) (o : MT) : MSt :=
  { st with cache := st.cache.map fun e => if e.2.oid == o.oid then (e.1, { e.2 with prep := o.prep }) else e }

abbrev PRes := MSt × Except Err (List PItem)

/-- `_prepare_self(inlined)` of the object `o`: its prepared stream (memoised) -/
def prepM (cap : Nat) : Nat → FS → List Nat → MT → MSt → PRes
  | 0, _, _, _, st => (st, .error .diverge)
  | fuel + 1, fs, stack, o, st =>
      match o.prep with
      | some ps => (st, .ok ps)
      | none =>
          let r : PRes := o.t.items.foldl (fun (acc : PRes) it =>
            match acc with
            | (st, .error e) => (st, .error e)
            | (st, .ok ps) =>
                match it with
                | .text i => (st, .ok (ps ++ [.text i]))
                | .expr i => (st, .ok (ps ++ [.expr i]))
                | .code i m => (st, .ok (ps ++ [.code i m]))
                | .incl n p dyn =>
                    let c := childCls o.t.cls p
                    if dyn || st.autoReload then (st, .ok (ps ++ [.rt n c o.t.absHrefs]))
                    else
                      match loadM cap fs st n c o.t.absHrefs with
                      | .error (.notFound _) => (st, .ok (ps ++ [.rt n c o.t.absHrefs]))
                      | .error e => (st, .error e)
                      | .ok (st', o') =>
                          if stack.contains o'.t.name then (st', .ok (ps ++ [.rt n c o.t.absHrefs]))
                          else
                            match prepM cap fuel fs (o'.t.name :: stack) o' st' with
                            | (st'', .error e) => (st'', .error e)
                            | (st'', .ok sub) => (st'', .ok (ps ++ sub))) (st, .ok [])
          match r with
          | (st', .error e) => (st', .error e)
          | (st', .ok ps) => (writeBack st' { o with prep := some ps }, .ok ps)

abbrev MRes := MSt × Option Err

/-- `generate()` of the object `o` and the consumption of its stream -/
def genM (cap : Nat) : Nat → Nat → FS → MT → MSt → MRes
  | 0, _, _, _, st => (st, some .diverge)
  | fuel + 1, pf, fs, o, st =>
      match prepM cap pf fs [o.t.name] o st with
      | (st', .error e) => (st', some e)
      | (st', .ok ps) =>
          ps.foldl (fun (acc : MRes) it =>
            match acc with
            | (st, some e) => (st, some e)
            | (st, none) =>
                match it with
                | .text i => ({ st with out := st.out ++ [i] }, none)
                | .expr i => ({ st with out := st.out ++ [i] }, none)
                | .code i m => ({ st with sentinel := st.sentinel ++ List.replicate m i }, none)
                | .rt n c abs =>
                    match loadM cap fs st n c abs with
                    | .error e => (st, some e)
                    | .ok (st', o') => genM cap fuel pf fs o' st') (st', none)

/-- one load-and-render through the loader, asking for class `c`; a failure does not stop the
    history -/
def histStepM (cap fuel pf : Nat) (fs : FS) (st : MSt) (name : Nat) (c : Cls) : MSt × Option Err :=
  match loadM cap fs st name c false with
  | .error e => (st, some e)
  | .ok (st', o) => genM cap fuel pf fs o { st' with out := [] }

end Genshi.Exec

/-
  C14 — the include-graph model with the **bounded** loader cache: `max_cache_size = cap`,
  least recently used evicted first (the abstract LRU of C15: a hit moves the entry to the
  front, a store puts it at the front and cuts the list at `cap`).  Everything else is
  `Genshi/Model/ExecGraph.lean`: with a bound, a template that was loaded earlier through the
  same loader may have been evicted and is parsed again when it is asked for later.

  `_prepared` memoisation (a template object inlines its static includes once and keeps the
  result) only removes loader calls; here every `generate()` asks the loader again, which with
  a bound means *more* re-parses than the code performs — the safety theorems hold for this
  larger set of loads.  Import-free apart from the graph model (linked into `gdrv`).
-/
import Genshi.Model.ExecGraph
namespace Genshi.Exec
open Genshi.Gen.Exec

/-- `LRUCache.__getitem__` on a hit: the entry moves to the front -/
def lruTouch (k : Nat × Bool) (t : Tmpl) (cache : List ((Nat × Bool) × Tmpl)) : List ((Nat × Bool) × Tmpl) :=
  (k, t) :: cache.filter (fun p => p.1 != k)

/-- `LRUCache.__setitem__` of a new key: in front, the least recently used dropped beyond `cap` -/
def lruStore (cap : Nat) (k : Nat × Bool) (t : Tmpl) (cache : List ((Nat × Bool) × Tmpl)) :
    List ((Nat × Bool) × Tmpl) :=
  ((k, t) :: cache.filter (fun p => p.1 != k)).take cap

/-- `TemplateLoader.load(name, cls=c)` with `max_cache_size = cap` -/
def loadB (cap : Nat) (fs : FS) (st : St) (name : Nat) (c : Cls) (abs : Bool := false) : Except Err (St × Tmpl) :=
  match st.cache.lookup (name, abs) with
  | some t => .ok ({ st with cache := lruTouch (name, abs) t st.cache }, t)
  | none =>
      match fs.lookup name with
      | none => .error (.notFound name)
      | some f =>
          match parseFile c st.flag name f with
          | .error e => .error e
          | .ok t => .ok ({ st with cache := lruStore cap (name, abs) t st.cache }, t)

def preloadB (cap : Nat) : Nat → FS → List Nat → Tmpl → St → Res
  | 0, _, _, _, st => (st, some .diverge)
  | fuel + 1, fs, stack, t, st =>
      t.items.foldl (fun (acc : Res) it =>
        match acc with
        | (st, some e) => (st, some e)
        | (st, none) =>
            match it with
            | .incl n p false =>
                match loadB cap fs st n (childCls t.cls p) t.absHrefs with
                | .error e => (st, some e)
                | .ok (st', t') =>
                    if stack.contains t'.name then (st', none)
                    else preloadB cap fuel fs (t'.name :: stack) t' st'
            | _ => (st, none)) (st, none)

def genB (cap : Nat) : Nat → Nat → FS → Bool → Cls → List Nat → Tmpl → St → Res
  | 0, _, _, _, _, _, _, st => (st, some .diverge)
  | fuel + 1, pf, fs, prep, host, stack, t, st =>
      let start : Res := if prep && !st.autoReload then preloadB cap pf fs stack t st else (st, none)
      t.items.foldl (fun (acc : Res) it =>
        match acc with
        | (st, some e) => (st, some e)
        | (st, none) =>
            match it with
            | .text i => ({ st with out := st.out ++ [i] }, none)
            | .expr i => ({ st with out := st.out ++ [i] }, none)
            | .code i m => ({ st with sentinel := st.sentinel ++ List.replicate m i }, none)
            | .incl n p dyn =>
                if !st.autoReload && !dyn && !stack.contains n then
                  match loadB cap fs st n (childCls t.cls p) t.absHrefs with
                  | .error e => (st, some e)
                  | .ok (st', t') => genB cap fuel pf fs false host (n :: stack) t' st'
                else
                  match loadB cap fs st n (inclCls t.cls p host) t.absHrefs with
                  | .error e => (st, some e)
                  | .ok (st', t') => genB cap fuel pf fs true t'.cls [t'.name] t' st') start

/-- one load-and-render through the loader, asking for class `c` (a later load may ask for the
    file in any class); its failure does not stop the history -/
def histStepB (cap fuel pf : Nat) (fs : FS) (st : St) (name : Nat) (c : Cls) : St × Option Err :=
  match loadB cap fs st name c with
  | .error e => (st, some e)
  | .ok (st', t) =>
      let r := genB cap fuel pf fs true t.cls [name] t { st' with out := [] }
      ({ r.1 with out := [] }, r.2)

def runHistoryB (cap fuel pf : Nat) (fs : FS) : St → List (Nat × Cls) → St × List (Option Err)
  | st, [] => (st, [])
  | st, (n, c) :: ns =>
      let r := histStepB cap fuel pf fs st n c
      let rest := runHistoryB cap fuel pf fs r.1 ns
      (rest.1, r.2 :: rest.2)

end Genshi.Exec

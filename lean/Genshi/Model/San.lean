/-
  C06 — `HTMLSanitizer.__call__` and `is_safe_elem` (genshi/filters/html.py), as repaired:
  the dropping state is `waiting_for` (compared with `None`) plus the counter `depth` of open
  elements named like the dropped one.  No Mathlib: linked into `gdrv`.
-/
import Genshi.Model.SanText
namespace Genshi.San
open Genshi.Gen

def typeWord : Str := ['t', 'y', 'p', 'e']
def inputWord : Str := ['i', 'n', 'p', 'u', 't']
def passwordWord : Str := ['p', 'a', 's', 's', 'w', 'o', 'r', 'd']
def styleWord : Str := ['s', 't', 'y', 'l', 'e']
def declSep : Str := [';', ' ']

/-- `attrs.get(name, '')`: the first pair whose name equals the string -/
def attrGet (attrs : AttrList) (name : Str) : Str :=
  match attrs.find? (fun a => a.1.text == name) with
  | some a => a.2
  | none => []

/-- the text after the first `}` of a string, if it holds one (`s.split('}', 1)[1]`) -/
def afterBrace : Str → Option Str
  | [] => none
  | c :: cs => if c = '}' then some cs else afterBrace cs

/-- `QName.localname` as `genshi.core.QName.__new__` computes it from the string value of the
    name: leading `{` stripped, then the part after the first `}` (the whole when there is none).
    A Python `QName` *is* its string value (`QName.text` here) — namespace and local name are
    functions of it.  For the names `⟨ns, loc⟩` with a non-empty `ns` free of braces this is
    `loc`; for `⟨[], loc⟩` with a plain `loc` it is `loc`; and the one kind of Python name the
    pair form has no slot for — the namespace is the EMPTY string, as in `QName('}color')` which
    html.parser yields for the attribute `}color`: string value `{}color`, namespace `''`, local
    name `color` — travels as `⟨[], "{}color"⟩`: the same string value (so every comparison with
    the safe sets, with `waiting_for` and in `attrs.get` agrees) and, through this function, the
    same local name. -/
def localname (q : QName) : Str :=
  let t := q.text.dropWhile (· == '{')
  (afterBrace t).getD t

def stripRefsFix : Nat → Str → Except Err Str
  | 0, s => .ok s
  | f + 1, s => do
    let t ← stripentities s
    if t = s then pure s else stripRefsFix f t

/-- `decoded = stripentities(value); while decoded != value: …`: references are decoded until
    none is left (every round that changes the text shortens it) -/
def stripRefs (s : Str) : Except Err Str := stripRefsFix (s.length + 1) s

/-- the same loop where the caller returns a `bool` (`is_safe_elem`): `stripentities` has no
    reachable failure point (`stripRefs_ok`), so the error branch is dead; the correspondence
    stream `is_safe_elem` compares exceptions too -/
def stripRefsD (s : Str) : Str :=
  match stripRefs s with
  | .ok v => v
  | .error _ => s

/-- `HTMLSanitizer.is_safe_elem(tag, attrs)` (as repaired in wave 4: the `type` value is decoded
    until no reference is left before it is lower-cased and compared) -/
def isSafeElem (cfg : Cfg) (tag : QName) (attrs : AttrList) : Bool :=
  cfg.safeTags.contains tag.text &&
    !(localname tag == inputWord && pyLower (stripRefsD (attrGet attrs typeWord)) == passwordWord)

/-- the body of the attribute loop: `none` = `continue` -/
def sanAttr (cfg : Cfg) (a : QName × Str) : Except Err (Option (QName × Str)) := do
  let v ← stripRefs a.2
  if !cfg.safeAttrs.contains a.1.text then pure none
  else if cfg.uriAttrs.contains a.1.text then
    pure (if isSafeUri cfg v then some (a.1, v) else none)
  else if a.1.text == styleWord then do
    let decls ← sanitizeCss cfg v
    if decls.isEmpty then pure none
    else do
      -- `if stripentities(value) != value: continue`
      let back ← stripentities (Genshi.Str.join declSep decls)
      pure (if back = Genshi.Str.join declSep decls then some (a.1, Genshi.Str.join declSep decls) else none)
  else pure (some (a.1, v))

def sanAttrs (cfg : Cfg) : AttrList → Except Err AttrList
  | [] => pure []
  | a :: as => do
    let r ← sanAttr cfg a
    let rest ← sanAttrs cfg as
    pure (match r with | some x => x :: rest | none => rest)

def optHasGt : Option Str → Bool
  | some x => List.contains x '>'
  | none => false

/-- a `>` in the name, the public or the system identifier of a DOCTYPE event: an HTML parser ends
    the declaration there, inside quotes or not, and reads what follows as markup -/
def dtHasGt (n : Str) (p s : Option Str) : Bool := List.contains n '>' || optHasGt p || optHasGt s

/-- the filter's local state: `waiting_for`, `depth` -/
structure St where
  waiting : Option QName
  depth : Nat
  deriving Repr, Inhabited, DecidableEq

def St.init : St := ⟨none, 0⟩

/-- one iteration of the loop: new state and the events yielded -/
def step (cfg : Cfg) (st : St) : Event → Except Err (St × Stream)
  | .start tag attrs =>
    match st.waiting with
    | some w => pure (if tag.text == w.text then { st with depth := st.depth + 1 } else st, [])
    | none =>
      if !isSafeElem cfg tag attrs then pure (⟨some tag, 1⟩, [])
      else do
        let as ← sanAttrs cfg attrs
        pure (st, [.start tag as])
  | .end_ tag =>
    match st.waiting with
    | some w =>
      if w.text == tag.text then
        pure (if st.depth - 1 = 0 then ⟨none, 0⟩ else { st with depth := st.depth - 1 }, [])
      else pure (st, [])
    | none => pure (st, [.end_ tag])
  | .comment _ => pure (st, [])
  | .pi target data =>
    -- `kind is PI and ('>' in data[0] or '>' in data[1])`: dropped
    if List.contains target '>' || List.contains data '>' then pure (st, [])
    else pure (st, if st.waiting.isNone then [.pi target data] else [])
  | .doctype n p s =>
    -- `kind is DOCTYPE and any(part and '>' in part for part in data)`: dropped
    if dtHasGt n p s then pure (st, [])
    else pure (st, if st.waiting.isNone then [.doctype n p s] else [])
  -- `kind is START_CDATA or kind is END_CDATA`: the markers are not passed on (the text between
  -- them is then escaped by every serializer like any other text)
  | .startCdata => pure (st, [])
  | .endCdata => pure (st, [])
  | e => pure (st, if st.waiting.isNone then [e] else [])

def sanitizeFrom (cfg : Cfg) : St → Stream → Except Err Stream
  | _, [] => pure []
  | st, e :: es => do
    let r ← step cfg st e
    let rest ← sanitizeFrom cfg r.1 es
    pure (r.2 ++ rest)

/-- `list(HTMLSanitizer(...)(stream))` -/
def sanitize (cfg : Cfg) (s : Stream) : Except Err Stream := sanitizeFrom cfg St.init s

end Genshi.San

/-
  C04 — the text-template scanners at character level.

  `NewTextTemplate._parse`: `_directive_re.finditer(source)` with
      ((?<!\\){%\s*(\w+)\s*(.*?)\s*%}|(?<!\\){#.*?#})        (re.DOTALL)
  cuts the source into text segments, directives and comments; every text segment goes through
  `_escape_re.sub` (`\\\n|\\\r\n|\\(\\)|\\({%)|\\({#)`) and `interpolate`.
  `OldTextTemplate._parse`: `_DIRECTIVE_RE.finditer(source)` with
      (?:^[ \t]*(?<!\\)#(end).*\n?)|(?:^[ \t]*(?<!\\)#((?:\w+|#).*)\n?)     (re.MULTILINE)
  cuts it into text and directive lines; a line is split with `lstrip()[1:]` and `split(None, 1)`;
  text segments go through `.replace('\\#', '#')` and `interpolate`.

  The scanners below are total, structurally recursive list scanners: what a backtracking
  `finditer` does with these particular expressions (the *shape* of the expressions is checked by
  the translator `harness/extract_textscan.py`; the flags come from `Gen/TextScan.lean`, the
  classes `\s` `\w` and `str.isspace` from `Gen/SanClass.lean`).  A match is emitted where it
  starts; the characters it covers are then skipped one by one (`skip` counter), which keeps the
  recursion structural.

  The token loop (`parseNew` / `parseOld`) is the loop of `Model/TmplText.lean` over raw
  (command, value) pairs, with the error exits of `_parse`.

  No Mathlib: linked into `gdrv`.
-/
import Genshi.Model.SanChars
import Genshi.Model.PyLex
import Genshi.Gen.TextScan
import Genshi.Gen.Directives
namespace Genshi.Tmpl.Scan
open Genshi.San (isReSpace isReWord isSpace)
open Genshi.Gen

abbrev Str := List Char

/-! ### pieces of the regular expressions -/

/-- `.` of `NewTextTemplate._directive_re` -/
def dotNew (c : Char) : Bool := TextScan.newDotall || c != '\n'
/-- `.` of `OldTextTemplate._DIRECTIVE_RE` -/
def dotOld (c : Char) : Bool := TextScan.oldDotall || c != '\n'
/-- `[ \t]` of `OldTextTemplate._DIRECTIVE_RE` -/
def isBlank (c : Char) : Bool := TextScan.oldBlank.contains c.toNat

/-- `s.rstrip` by a class -/
def rstripBy (p : Char → Bool) (s : Str) : Str := (s.reverse.dropWhile p).reverse

/-- first occurrence of the two characters `a b`: (what precedes it, what follows it) -/
def find2 (a b : Char) : Str → Option (Str × Str)
  | [] => none
  | c :: r =>
      if c = a && r.head? = some b then some ([], r.tail)
      else match find2 a b r with
        | some (x, y) => some (c :: x, y)
        | none => none

/-- a match of the first alternative, given what follows `{%` -/
structure DirM where
  inner : Str     -- the characters between `{%` and `%}`
  cmd : Str       -- group 2
  val : Str       -- group 3
  rest : Str      -- what follows `%}`
  deriving Repr

/-- `\s*(\w+)\s*(.*?)\s*%}` after `{%`.  Greedy `\s*`, greedy `\w+`, greedy `\s*`; the lazy
    group then grows until `\s*%}` matches, i.e. up to the blanks in front of the first `%}`
    (no `%` can hide in the blanks or the word).  Without DOTALL the group must not cross a line
    feed. -/
def matchDir (s : Str) : Option DirM :=
  let ws1 := s.takeWhile isReSpace
  let s1 := s.dropWhile isReSpace
  let cmd := s1.takeWhile isReWord
  let s2 := s1.dropWhile isReWord
  if cmd.isEmpty then none else
  let ws2 := s2.takeWhile isReSpace
  let s3 := s2.dropWhile isReSpace
  match find2 '%' '}' s3 with
  | none => none
  | some (body, rest) =>
      let val := rstripBy isReSpace body
      if val.all dotNew then some ⟨ws1 ++ cmd ++ ws2 ++ body, cmd, val, rest⟩ else none

/-- `.*?#}` after `{#`: (comment text, rest) -/
def matchComment (s : Str) : Option (Str × Str) :=
  match find2 '#' '}' s with
  | none => none
  | some (body, rest) => if body.all dotNew then some (body, rest) else none

/-! ### `NewTextTemplate`: raw tokens -/

inductive RTok where
  | text (raw : Str)                    -- `source[offset:start]`, before `_escape_re.sub`
  | dir (inner cmd val : Str)           -- `{%inner%}` with groups 2 and 3
  | comment (inner : Str)               -- `{#inner#}`
  deriving Repr, DecidableEq, Inhabited

/-- the source text a token was cut from -/
def RTok.src : RTok → Str
  | .text r => r
  | .dir i _ _ => '{' :: '%' :: (i ++ ['%', '}'])
  | .comment i => '{' :: '#' :: (i ++ ['#', '}'])

def flushText (acc : Str) : List RTok := if acc.isEmpty then [] else [.text acc.reverse]

/-- `finditer`: `skip` characters still belong to the last match; `prev` is the character in
    front (for `(?<!\\)`; a line feed stands for the start of the text); `acc` the text since the
    last match, reversed -/
def scanNewGo : Nat → Char → Str → Str → List RTok
  | _, _, acc, [] => flushText acc
  | k + 1, _, acc, c :: r => scanNewGo k c acc r
  | 0, prev, acc, c :: r =>
      if c = '{' && prev != '\\' then
        match r with
        | '%' :: r' =>
            match matchDir r' with
            | some m => flushText acc ++ RTok.dir m.inner m.cmd m.val :: scanNewGo (m.inner.length + 3) c [] r
            | none => scanNewGo 0 c (c :: acc) r
        | '#' :: r' =>
            match matchComment r' with
            | some (body, _) => flushText acc ++ RTok.comment body :: scanNewGo (body.length + 3) c [] r
            | none => scanNewGo 0 c (c :: acc) r
        | _ => scanNewGo 0 c (c :: acc) r
      else scanNewGo 0 c (c :: acc) r

def scanNew (s : Str) : List RTok := scanNewGo 0 '\n' [] s

/-- `_escape_re.sub(_escape_repl, text)` -/
def unescapeNew : Str → Str
  | [] => []
  | '\\' :: '\n' :: r => unescapeNew r
  | '\\' :: '\r' :: '\n' :: r => unescapeNew r
  | '\\' :: '\\' :: r => '\\' :: unescapeNew r
  | '\\' :: '{' :: '%' :: r => '{' :: '%' :: unescapeNew r
  | '\\' :: '{' :: '#' :: r => '{' :: '#' :: unescapeNew r
  | c :: r => c :: unescapeNew r

/-! ### `OldTextTemplate`: raw tokens -/

inductive OTok where
  | text (raw : Str)                   -- `source[offset:start]`
  | line (blanks body : Str)           -- a directive line `blanks#body` (body includes the line feed)
  deriving Repr, DecidableEq, Inhabited

def OTok.src : OTok → Str
  | .text r => r
  | .line b body => b ++ '#' :: body

/-- the expression at a position where `^` holds: `[ \t]*#(\w|#).*\n?`; the look-behind
    `(?<!\\)` sees a blank or the line start, both alternatives cover the same characters -/
def matchOldLine (s : Str) : Option (Str × Str) :=
  let blanks := s.takeWhile isBlank
  match s.dropWhile isBlank with
  | '#' :: c :: r =>
      if isReWord c || c = '#' then
        let line := (c :: r).takeWhile dotOld
        let nl := match (c :: r).dropWhile dotOld with
          | '\n' :: _ => ['\n']
          | _ => []
        some (blanks, line ++ nl)
      else none
  | _ => none

def flushOld (acc : Str) : List OTok := if acc.isEmpty then [] else [.text acc.reverse]

/-- `first`: at position 0; `prev`: the character in front -/
def scanOldGo : Nat → Bool → Char → Str → Str → List OTok
  | _, _, _, acc, [] => flushOld acc
  | k + 1, _, _, acc, c :: r => scanOldGo k false c acc r
  | 0, first, prev, acc, c :: r =>
      if first || (TextScan.oldMultiline && prev = '\n') then
        match matchOldLine (c :: r) with
        | some (b, body) => flushOld acc ++ OTok.line b body :: scanOldGo (b.length + body.length) false c [] r
        | none => scanOldGo 0 false c (c :: acc) r
      else scanOldGo 0 false c (c :: acc) r

def scanOld (s : Str) : List OTok := scanOldGo 0 true '\n' [] s

/-- `text.replace('\\#', '#')` -/
def unescapeOld : Str → Str
  | [] => []
  | '\\' :: '#' :: r => '#' :: unescapeOld r
  | c :: r => c :: unescapeOld r

/-- `source[start:end].lstrip()[1:].split(None, 1)` -> (command, value) -/
def splitLine (blanks body : Str) : Str × Option Str :=
  let text := ((blanks ++ '#' :: body).dropWhile isSpace).drop 1
  let t1 := text.dropWhile isSpace
  let cmd := t1.takeWhile (fun c => !isSpace c)
  let rest := (t1.dropWhile (fun c => !isSpace c)).dropWhile isSpace
  (cmd, if rest.isEmpty then none else some rest)

/-! ### `interpolate` over the chunks of `lex` -/

/-- events of the parsed stream of a text template -/
inductive SEv where
  | text (s : Str)
  | expr (src : Str)                                   -- source handed to `Expression`
  | sub (cmd : Str) (val : Option Str) (body : List SEv)
  | incl (parts : List SEv)
  | exec (src : Str)
  deriving Repr, Inhabited

inductive PErr where
  | syntax            -- TemplateSyntaxError('invalid syntax') of `lex`
  | badDirective      -- BadDirectiveError
  | attribute         -- `#include` without a value: `None.strip()`
  | unmodelled
  deriving Repr, DecidableEq, Inhabited

def flushBuf (buf : Str) : List SEv := if buf.isEmpty then [] else [.text buf]

/-- `interpolate`: literal chunks are joined, an empty expression chunk only flushes them -/
def interpGo : Str → List (Bool × Str) → List SEv
  | buf, [] => flushBuf buf
  | buf, (false, c) :: r => interpGo (buf ++ c) r
  | buf, (true, c) :: r =>
      flushBuf buf ++ (if c.isEmpty then [] else [.expr (Py.Lex.stripAscii c)]) ++ interpGo [] r

def hasDollarBrace : Str → Bool
  | '$' :: '{' :: _ => true
  | _ :: r => hasDollarBrace r
  | [] => false

/-- `list(interpolate(text))` (events without positions) -/
def interpolate (text : Str) : Except PErr (List SEv) :=
  if hasDollarBrace text && Py.Lex.unmodelled text then .error .unmodelled else
  match Py.Lex.lex text with
  | .ok chunks => .ok (interpGo [] chunks)
  | .error _ => .error .syntax

/-! ### the token loop of `_parse` -/

abbrev DirMap := List (Int × (Str × Option Str × Nat))

def DirMap.get? (m : DirMap) (k : Int) : Option (Str × Option Str × Nat) :=
  match m with
  | [] => none
  | (k', v) :: rest => if k' = k then some v else DirMap.get? rest k

def DirMap.erase (m : DirMap) (k : Int) : DirMap := m.filter (fun p => p.1 ≠ k)
def DirMap.put (m : DirMap) (k : Int) (v : Str × Option Str × Nat) : DirMap := (k, v) :: m.erase k

structure PSt where
  depth : Int
  dirmap : DirMap
  out : List SEv
  deriving Repr, Inhabited

def PSt.emit (s : PSt) (evs : List SEv) : PSt := { s with out := s.out ++ evs }

/-- `end` -/
def stepEnd (s : PSt) : PSt :=
  let depth := s.depth - 1
  match s.dirmap.get? depth with
  | some (cmd, val, offset) =>
      ⟨depth, s.dirmap.erase depth, s.out.take offset ++ [.sub cmd val (s.out.drop offset)]⟩
  | none => { s with depth := depth }

/-- a directive that opens a block -/
def stepOpen (names : List (Str × Str)) (s : PSt) (cmd : Str) (val : Option Str) : Except PErr PSt :=
  if names.any (fun p => p.1 = cmd) then
    .ok ⟨s.depth + 1, s.dirmap.put s.depth (cmd, val, s.out.length), s.out⟩
  else .error .badDirective

def stepNew (s : PSt) : RTok → Except PErr PSt
  | .text raw => do
      let evs ← interpolate (unescapeNew raw)
      pure (s.emit evs)
  | .comment _ => pure s
  | .dir _ cmd val =>
      if cmd = ['i', 'n', 'c', 'l', 'u', 'd', 'e'] then do
        let parts ← interpolate val
        pure (s.emit [.incl parts])
      else if cmd = ['p', 'y', 't', 'h', 'o', 'n'] then pure (s.emit [.exec val])
      else if cmd = ['e', 'n', 'd'] then pure (stepEnd s)
      else stepOpen Directives.newTextDirectives s cmd (some val)

/-- the loop; an error leaves the state reached (the events appended so far) -/
def parseToks {α} (step : PSt → α → Except PErr PSt) : PSt → List α → PSt × Option PErr
  | s, [] => (s, none)
  | s, t :: ts =>
      match step s t with
      | .ok s' => parseToks step s' ts
      | .error e => (s, some e)

def result (r : PSt × Option PErr) : Except PErr (List SEv) :=
  match r.2 with
  | none => .ok r.1.out
  | some e => .error e

/-- the stream `NewTextTemplate._parse` returns -/
def parseNew (src : Str) : Except PErr (List SEv) :=
  result (parseToks stepNew ⟨0, [], []⟩ (scanNew src))

def stepOld (s : PSt) : OTok → Except PErr PSt
  | .text raw => do
      let evs ← interpolate (unescapeOld raw)
      pure (s.emit evs)
  | .line b body =>
      let (cmd, val) := splitLine b body
      if cmd = ['e', 'n', 'd'] then pure (stepEnd s)
      else if cmd = ['i', 'n', 'c', 'l', 'u', 'd', 'e'] then
        match val with
        | some v => pure (s.emit [.incl [.text (Str.stripBy isSpace v)]])
        | none => .error .attribute
      else if cmd.head? = some '#' then pure s
      else stepOpen Directives.oldTextDirectives s cmd val

/-- the stream `OldTextTemplate._parse` returns -/
def parseOld (src : Str) : Except PErr (List SEv) :=
  result (parseToks stepOld ⟨0, [], []⟩ (scanOld src))

/-! ### printers (specification side: how the documentation writes the constructs) -/

/-- cooked tokens: what a template author means -/
inductive CTok where
  | text (s : Str)               -- literal text
  | dir (cmd val : Str)          -- `{% cmd val %}`
  | comment (body : Str)         -- `{#body#}`
  deriving Repr, DecidableEq, Inhabited

/-- text with the documented escapes: a backslash in front of every backslash and of every
    start delimiter -/
def escapeNew : Str → Str
  | [] => []
  | '\\' :: r => '\\' :: '\\' :: escapeNew r
  | '{' :: '%' :: r => '\\' :: '{' :: '%' :: escapeNew r
  | '{' :: '#' :: r => '\\' :: '{' :: '#' :: escapeNew r
  | c :: r => c :: escapeNew r

def printNewTok : CTok → Str
  | .text s => escapeNew s
  | .dir cmd val =>
      if val.isEmpty then ['{', '%', ' '] ++ cmd ++ [' ', '%', '}']
      else ['{', '%', ' '] ++ cmd ++ [' '] ++ val ++ [' ', '%', '}']
  | .comment b => ['{', '#'] ++ b ++ ['#', '}']

def printNew : List CTok → Str
  | [] => []
  | t :: ts => printNewTok t ++ printNew ts

/-- what a raw token means -/
def cook : RTok → CTok
  | .text raw => .text (unescapeNew raw)
  | .dir _ cmd val => .dir cmd val
  | .comment b => .comment b

end Genshi.Tmpl.Scan

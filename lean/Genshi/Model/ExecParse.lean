/-
  C14 — the two parsers that guard code blocks, function by function.

    genshi/template/markup.py  MarkupTemplate._parse   (over the events of the XML parser)
    genshi/template/text.py    NewTextTemplate._parse  (over the matches of the directive regex)

  Not modelled (parameters of the model): `interpolate` (splits text into TEXT / EXPR events,
  may raise a syntax error), `Suite(...)` (compiles the code block, may raise SyntaxError), the
  XML parser and the directive regular expression (their output is the model's input), the
  directive table (`get_directive`).  None of them reads the flag.
-/
namespace Genshi.Exec.Parse

/-- events of the compiled template stream, as far as this property distinguishes them -/
inductive TEv
  | text (s : List Char)
  | expr (src : List Char)
  | exec (src : List Char)          -- EXEC: a compiled code block
  | comment (s : List Char)
  | pi (target data : List Char)    -- a processing instruction that is not `<?python ?>`
  | other (tag : Nat)               -- START / END / START_NS / … : passed through untouched
  | incl (href : List Char)
  | sub (directive : List Char) (value : List Char) (body : List TEv)
  deriving Repr

inductive PErr
  | notAllowed            -- TemplateSyntaxError('Python code blocks not allowed')
  | badCode               -- SyntaxError from Suite(...) re-raised as TemplateSyntaxError
  | badExpr               -- raised by interpolate
  | badDirective          -- BadDirectiveError
  deriving DecidableEq, Repr

/-- what the parsers call and this model does not look into -/
structure Env where
  /-- `interpolate(text, …)`: TEXT / EXPR events, or a syntax error -/
  interp : List Char → Except PErr (List TEv)
  /-- does `Suite(source)` compile -/
  compiles : List Char → Bool
  /-- `get_directive(command) is not None` -/
  knownDirective : List Char → Bool

/-! ### MarkupTemplate._parse -/

/-- events of `XMLParser`, as far as `_parse` distinguishes them -/
inductive XEv
  | text (s : List Char)
  | pi (target data : List Char)
  | comment (s : List Char)
  | other (tag : Nat)
  deriving Repr

def python : List Char := ['p', 'y', 't', 'h', 'o', 'n']

def isSpace (c : Char) : Bool := c = ' ' || c = '\t' || c = '\n' || c = '\r' || c.toNat = 11 || c.toNat = 12

/-- `data.lstrip().startswith('!')` -/
def bangComment (s : List Char) : Bool :=
  match s.dropWhile isSpace with
  | '!' :: _ => true
  | _ => false

/-- the loop of `MarkupTemplate._parse`; `acc` is the `stream` list built so far -/
def parseMarkup (env : Env) (flag : Bool) : List XEv → List TEv → Except PErr (List TEv)
  | [], acc => .ok acc
  | .text s :: rest, acc =>
      match env.interp s with
      | .error e => .error e
      | .ok evs => parseMarkup env flag rest (acc ++ evs)
  | .pi target data :: rest, acc =>
      if target = python then
        if !flag then .error .notAllowed
        else if env.compiles data then parseMarkup env flag rest (acc ++ [.exec data])
        else .error .badCode
      else parseMarkup env flag rest (acc ++ [.pi target data])
  | .comment s :: rest, acc =>
      if bangComment s then parseMarkup env flag rest acc
      else parseMarkup env flag rest (acc ++ [.comment s])
  | .other tag :: rest, acc => parseMarkup env flag rest (acc ++ [.other tag])

def XEv.isCode : XEv → Bool
  | .pi target _ => target = python
  | _ => false

/-! ### NewTextTemplate._parse -/

/-- what the directive regular expression cuts the source into: the text before a match, and the
    match — a directive `{% command value %}` or a comment `{# … #}` -/
inductive Seg
  | text (s : List Char)
  | dir (command value : List Char)
  | comment
  deriving Repr

def kwInclude : List Char := ['i', 'n', 'c', 'l', 'u', 'd', 'e']
def kwEnd : List Char := ['e', 'n', 'd']

/-- `dirmap`: depth ↦ (directive, value, offset into the stream) -/
abbrev DirMap := List (Int × (List Char × List Char × Nat))

/-- the loop of `NewTextTemplate._parse`; state: `stream`, `dirmap`, `depth` (which goes
    negative on a stray `{% end %}`, exactly as in the code) -/
def parseText (env : Env) (flag : Bool) : List Seg → List TEv → DirMap → Int → Except PErr (List TEv)
  | [], stream, _, _ => .ok stream
  | .text s :: rest, stream, dm, depth =>
      match env.interp s with
      | .error e => .error e
      | .ok evs => parseText env flag rest (stream ++ evs) dm depth
  | .comment :: rest, stream, dm, depth => parseText env flag rest stream dm depth
  | .dir command value :: rest, stream, dm, depth =>
      if command = kwInclude then
        -- the href is interpolated (it may be an expression)
        match env.interp value with
        | .error e => .error e
        | .ok _ => parseText env flag rest (stream ++ [.incl value]) dm depth
      else if command = python then
        if !flag then .error .notAllowed
        else if env.compiles value then parseText env flag rest (stream ++ [.exec value]) dm depth
        else .error .badCode
      else if command = kwEnd then
        let depth' := depth - 1
        match dm.lookup depth' with
        | some (d, v, off) =>
            parseText env flag rest (stream.take off ++ [.sub d v (stream.drop off)])
              (dm.filter fun e => e.1 != depth') depth'
        | none => parseText env flag rest stream dm depth'
      else if env.knownDirective command then
        parseText env flag rest stream ((depth, (command, value, stream.length)) :: dm.filter fun e => e.1 != depth)
          (depth + 1)
      else .error .badDirective

def Seg.isCode : Seg → Bool
  | .dir command _ => command = python
  | _ => false

/-! ### what "holds a code block" means for a compiled stream -/

mutual
def TEv.hasExec : TEv → Bool
  | .exec _ => true
  | .sub _ _ body => hasExecList body
  | _ => false
def hasExecList : List TEv → Bool
  | [] => false
  | e :: es => e.hasExec || hasExecList es
end

end Genshi.Exec.Parse

/-
  C09 / C08 — `NamespaceFlattener` (genshi/output.py after repair 6c40c66 =
  wp-xml fcc85b7) on the *lite* domain only: all bindings are for the default
  prefix `''` (plus the built-in `xml`):
    element namespaces arbitrary but never needing a generated prefix,
    attribute namespaces ∈ {none, XML}, namespace events `START_NS('', u)` /
    `END_NS(p)`.
  Everything else answers `none` (the driver says `unmodelled`): the
  namespace-heavy behaviour belongs to work package `xml` (C02).

  `bindings` of the code, restricted to prefix `''`, is `List (uri × auto)`,
  innermost first here (the code appends; we cons).  `pending` holds at most one
  request for prefix `''`.
-/
import Genshi.Model.Output
namespace Genshi.Output
open Genshi

def xhtmlNs : Str := ['h', 't', 't', 'p', ':', '/', '/', 'w', 'w', 'w', '.', 'w', '3', '.', 'o', 'r', 'g', '/',
  '1', '9', '9', '9', '/', 'x', 'h', 't', 'm', 'l']
def xmlNs : Str := ['h', 't', 't', 'p', ':', '/', '/', 'w', 'w', 'w', '.', 'w', '3', '.', 'o', 'r', 'g', '/',
  'X', 'M', 'L', '/', '1', '9', '9', '8', '/', 'n', 'a', 'm', 'e', 's', 'p', 'a', 'c', 'e']

structure FlatSt where
  bindings : List (Str × Bool) := []     -- default-namespace declarations in scope (uri, auto), innermost first
  pending : Option Str := none           -- `START_NS('', uri)` waiting for the next start tag
  elems : List (Str × Nat) := []         -- open elements: flattened name, number of declarations
  cache : List (QEv × FEv) := []
  deriving Repr

def flatLookup (c : List (QEv × FEv)) (ev : QEv) : Option FEv :=
  match c with
  | [] => none
  | (k, o) :: rest => if k = ev then some o else flatLookup rest ev

/-- `_lookup('')`: `(uri, auto)` of the innermost default-namespace declaration, `('', False)` if none -/
def defaultNs (b : List (Str × Bool)) : Str × Bool :=
  match b with
  | [] => ([], false)
  | x :: _ => x

def flatAttr (p : QName × Str) : Option (Str × Str) :=
  if p.1.ns.isEmpty then some (p.1.loc, p.2)
  else if p.1.ns = xmlNs then some (['x', 'm', 'l', ':'] ++ p.1.loc, p.2)
  else none

def flatAttrs : AttrList → Option FAttrs
  | [] => some []
  | p :: rest => do
      let x ← flatAttr p
      let xs ← flatAttrs rest
      pure (x :: xs)

/-- declarations requested by `START_NS` that the next start tag writes -/
def flatD1 (b : List (Str × Bool)) : Option Str → Option (List (Str × Bool))
  | none => some []
  | some u =>
      if u = xmlNs then none
      else if (defaultNs b).1 ≠ u then some [(u, false)] else some []

/-- the declaration the element name needs (`b1` = bindings including `d1`) -/
def flatD2 (b1 d1 : List (Str × Bool)) (t : QName) : Option (List (Str × Bool)) :=
  if t.ns = xmlNs then none
  else if !t.ns.isEmpty then
    (if (defaultNs b1).1 = t.ns then some []
     else if d1.isEmpty then some [(t.ns, true)] else none)
  else
    (if !(defaultNs b1).1.isEmpty && (defaultNs b1).2 then some [([], true)] else some [])

/-- the miss path of the START/EMPTY branch up to the output: the declarations written on this
    tag (at most one on the lite domain), and the flattened data.  `none` = outside the domain. -/
def flatStartCore (b : List (Str × Bool)) (pending : Option Str) (t : QName) (a : AttrList) :
    Option (List (Str × Bool) × Str × FAttrs) :=
  match flatD1 b pending with
  | none => none
  | some d1 =>
    match flatD2 (d1 ++ b) d1 t with
    | none => none
    | some d2 =>
      match flatAttrs a with
      | none => none
      | some na => some (d1 ++ d2, t.loc, ((d1 ++ d2).map fun d => (xmlns, d.1)) ++ na)

/-- the START branch after a cache miss -/
def flatStartMiss (useCache : Bool) (st : FlatSt) (t : QName) (a : AttrList) : Option (FlatSt × List FEv) :=
  match flatStartCore st.bindings st.pending t a with
  | none => none
  | some (declared, tn, fa) =>
      let out : FEv := .start tn fa
      let cache :=
        if declared.isEmpty then (if useCache then (.start t a, out) :: st.cache else st.cache)
        else []
      some ({ bindings := declared.reverse ++ st.bindings, pending := none,
              elems := (tn, declared.length) :: st.elems, cache := cache }, [out])

/-- the EMPTY branch after a cache miss: the declarations go out of scope at once -/
def flatEmptyMiss (useCache : Bool) (st : FlatSt) (t : QName) (a : AttrList) : Option (FlatSt × List FEv) :=
  match flatStartCore st.bindings st.pending t a with
  | none => none
  | some (declared, tn, fa) =>
      let out : FEv := .empty tn fa
      let cache := if declared.isEmpty && useCache then (.empty t a, out) :: st.cache else st.cache
      some ({ st with pending := none, cache := cache }, [out])

/-- one event: new state and the events passed on; `none` = outside the lite domain -/
def flatStep (useCache : Bool) (st : FlatSt) (ev : QEv) : Option (FlatSt × List FEv) :=
  match ev with
  | .text s f => some (st, [.text s f])
  | .start t a =>
      match (if useCache && st.pending.isNone then flatLookup st.cache ev else none) with
      | some (.start t' a') => some ({ st with elems := (t', 0) :: st.elems }, [.start t' a'])
      | some out => some (st, [out])
      | none => flatStartMiss useCache st t a
  | .empty t a =>
      match (if useCache && st.pending.isNone then flatLookup st.cache ev else none) with
      | some out => some (st, [out])
      | none => flatEmptyMiss useCache st t a
  | .end_ t =>
      match st.elems with
      | (tn, count) :: rest =>
          some ({ st with elems := rest, bindings := st.bindings.drop count,
                          cache := if count = 0 then st.cache else [] }, [.end_ tn])
      | [] => if t.ns = xmlNs then none else some (st, [.end_ t.loc])
  | .startNs p u => if p.isEmpty then some ({ st with pending := some u }, []) else none
  | .endNs p => if p.isEmpty then some ({ st with pending := none }, []) else some (st, [])
  | .comment s => some (st, [.comment s])
  | .pi t d => some (st, [.pi t d])
  | .doctype n p s => some (st, [.doctype n p s])
  | .xmlDecl v e s => some (st, [.xmlDecl v e s])
  | .startCdata => some (st, [.startCdata])
  | .endCdata => some (st, [.endCdata])

def flatten (useCache : Bool) : FlatSt → List QEv → Option (List FEv)
  | _, [] => some []
  | st, ev :: rest =>
      match flatStep useCache st ev with
      | none => none
      | some r =>
          match flatten useCache r.1 rest with
          | none => none
          | some out => some (r.2 ++ out)

def flatInit (_ : Method) : FlatSt := {}

end Genshi.Output

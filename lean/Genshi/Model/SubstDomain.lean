/-
  C01 — the templates and values `structure_preserved` speaks about, as decidable predicates
  (so that the driver can report for each generated case whether it is inside the theorem).
-/
import Genshi.Model.SubstSpec
import Genshi.Model.SubstRead
import Genshi.Model.SubstFmt
namespace Genshi.Subst
open Genshi.Escape Genshi.Str

/-- read a string as escaped text: the four references and otherwise no `&`, `<`, `>`;
    the result is the source characters with the `quotes` flag each was escaped under -/
def parseEsc : List Char → Option (List (Bool × Char))
  | [] => some []
  | '&' :: 'a' :: 'm' :: 'p' :: ';' :: rest => (parseEsc rest).map ((false, '&') :: ·)
  | '&' :: 'l' :: 't' :: ';' :: rest => (parseEsc rest).map ((false, '<') :: ·)
  | '&' :: 'g' :: 't' :: ';' :: rest => (parseEsc rest).map ((false, '>') :: ·)
  | '&' :: '#' :: '3' :: '4' :: ';' :: rest => (parseEsc rest).map ((true, '"') :: ·)
  | c :: rest =>
      if c = '&' || c = '<' || c = '>' then none else (parseEsc rest).map ((false, c) :: ·)

/-- markup that is plain escaped text (no tags, no other entities) -/
def safeOkB (s : List Char) : Bool := (parseEsc s).isSome

/-- text without `&`, `<`, `>` -/
def benignB (s : List Char) : Bool := s.all fun c => !(c = '&' || c = '<' || c = '>')

/-- a value marked safe must be plain escaped text for the theorems to follow it -/
def scalarOkB : Scalar → Bool
  | .markup s => safeOkB s
  | .obj _ (some h) => safeOkB h
  | _ => true

def valOkB : Val → Bool
  | .one x => scalarOkB x
  | .many xs => xs.all scalarOkB

def atomOkB : Atom → Bool
  | .lit x => scalarOkB x
  | .var _ => true

def vexprOkB : VExpr → Bool
  | .val v => valOkB v
  | .var _ => true
  | .listOf items => items.all atomOkB

def fargsOkB : FArgs → Bool
  | .one a => atomOkB a
  | .tup as => as.all atomOkB
  | .map kvs => kvs.all fun p => atomOkB p.2

/-- element and attribute names are names the serializer writes plainly; no raw-text element;
    under html a void element is empty -/
def tagOkB (m : Method) (t : Name) : Bool :=
  isNameB t && !(noescapeElems m).contains t

def attrNameOkB (m : Method) (n : Name) : Bool := isNameB n && plainAttrName m n

mutual
  def bkidOkB (m : Method) : BKid → Bool
    | .arg e => vexprOkB e
    | .el t attrs kids =>
        tagOkB m t && attrs.all (fun p => attrNameOkB m p.1 && atomOkB p.2) &&
        (openOk m t || kids.isEmpty) && bkidsOkB m kids
  def bkidsOkB (m : Method) : List BKid → Bool
    | [] => true
    | k :: ks => bkidOkB m k && bkidsOkB m ks
end

def sexprOkB (m : Method) : SExpr → Bool
  | .v e => vexprOkB e
  | .add mk a => safeOkB mk && atomOkB a
  | .radd mk a => safeOkB mk && atomOkB a
  | .join sep items => safeOkB sep && items.all atomOkB
  | .esc a _ => atomOkB a
  | .fmt f args => benignB f && fargsOkB args
  | .fmtp _ _ => false        -- author markup with tags: see `sexprOkM` / `structure_preserved_markup`
  | .build b => bkidOkB m b
  | .frag kids => bkidsOkB m kids

def apartOkB : APart → Bool
  | .lit _ => true
  | .expr e => vexprOkB e

def attrSpecOkB : AttrSpec → Bool
  | .static _ => true
  | .interp parts => parts.all apartOkB

mutual
  def nodeOkB (m : Method) : Node → Bool
    | .lit _ => true
    | .site e => sexprOkB m e
    | .el t attrs pa kids =>
        tagOkB m t && attrs.all (fun p => attrNameOkB m p.1 && attrSpecOkB p.2) &&
        (match pa with
          | none => true
          | some items => items.all fun p => attrNameOkB m p.1 && atomOkB p.2) &&
        (openOk m t || kids.isEmpty) && nodesOkB m kids
    | .loop e kids => vexprOkB e && nodesOkB m kids
    | .bind a kids => atomOkB a && nodesOkB m kids
    | .cond _ kids => nodesOkB m kids
  def nodesOkB (m : Method) : List Node → Bool
    | [] => true
    | n :: ns => nodeOkB m n && nodesOkB m ns
end

/-! ### … and with markup that has tags, written by the template author in `Markup(fmt) % (…)`
    (no whitespace stripping: `structure_preserved_markup_partial`) -/

def nameNoPctB (n : Name) : Bool := !n.contains '%'

def fpieceOkB (m : Method) : FPiece → Bool
  | .open t attrs =>
      tagOkB m t && nameNoPctB t && openOk m t &&
      attrs.all fun p => attrNameOkB m p.1 && nameNoPctB p.1
  | .close t => isNameB t && nameNoPctB t
  | _ => true

/-- the operand is a plain string of the context -/
def strLitB : Atom → Bool
  | .lit (.str _) => true
  | _ => false

def strOf : Atom → Option (List Char)
  | .lit (.str s) => some s
  | _ => none

def sexprOkM (m : Method) : SExpr → Bool
  | .fmtp ps as => ps.all (fpieceOkB m) && as.all strLitB && (fillEsc ps (as.filterMap strOf)).isSome
  | e => sexprOkB m e

mutual
  def nodeOkM (m : Method) : Node → Bool
    | .lit _ => true
    | .site e => sexprOkM m e
    | .el t attrs pa kids =>
        tagOkB m t && attrs.all (fun p => attrNameOkB m p.1 && attrSpecOkB p.2) &&
        (match pa with
          | none => true
          | some items => items.all fun p => attrNameOkB m p.1 && atomOkB p.2) &&
        (openOk m t || kids.isEmpty) && nodesOkM m kids
    | .loop e kids => vexprOkB e && nodesOkM m kids
    | .bind a kids => atomOkB a && nodesOkM m kids
    | .cond _ kids => nodesOkM m kids
  def nodesOkM (m : Method) : List Node → Bool
    | [] => true
    | n :: ns => nodeOkM m n && nodesOkM m ns
end

/-! ### … and the same sites under `strip_whitespace=True` (`structure_preserved_markup_strip_partial`)

  The filter normalises a `Markup` text as one piece, the author's tags included.  The theorem
  follows it when the author's elements are not whitespace-preserving ones (the filter does not see
  them as elements), their tags are balanced, and no attribute value inside them holds a newline
  (the normalisation would reach into the value). -/

def tokWsOkB (m : Method) : Tok → Bool
  | .open t a => !(preserveElems m).contains t && a.all fun p => p.2.all (· != '\n')
  | _ => true

/-- the author's tags are balanced (`d` = how many are open) -/
def closesOk : Nat → List Tok → Bool
  | d, [] => d == 0
  | d, .open _ _ :: rest => closesOk (d + 1) rest
  | d, .close _ :: rest => decide (d > 0) && closesOk (d - 1) rest
  | d, _ :: rest => closesOk d rest

def sexprOkW (m : Method) : SExpr → Bool
  | .fmtp ps as => sexprOkM m (.fmtp ps as) &&
      (match fillEsc ps (as.filterMap strOf) with
        | some toks => toks.all (tokWsOkB m) && closesOk 0 toks
        | none => false)
  | e => sexprOkB m e

mutual
  def nodeOkW (m : Method) : Node → Bool
    | .lit _ => true
    | .site e => sexprOkW m e
    | .el t attrs pa kids =>
        tagOkB m t && attrs.all (fun p => attrNameOkB m p.1 && attrSpecOkB p.2) &&
        (match pa with
          | none => true
          | some items => items.all fun p => attrNameOkB m p.1 && atomOkB p.2) &&
        (openOk m t || kids.isEmpty) && nodesOkW m kids
    | .loop e kids => vexprOkB e && nodesOkW m kids
    | .bind a kids => atomOkB a && nodesOkW m kids
    | .cond _ kids => nodesOkW m kids
  def nodesOkW (m : Method) : List Node → Bool
    | [] => true
    | n :: ns => nodeOkW m n && nodesOkW m ns
end

end Genshi.Subst

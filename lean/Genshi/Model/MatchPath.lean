/-
  C12 — the tiny concrete matchers behind `Path(p).test(ignore_context=True)` for the match
  paths the C12 generators produce, one per strategy class genshi picks (genshi/path.py):

  * `single`  — SingleStepStrategy: one step, name or `*`, optional positional predicate `[n]`
                (under ignore_context there is no depth bookkeeping; the position counter is
                 one per test closure, advanced by every call, `updateonly` or not);
  * `simple`  — SimplePathStrategy: several steps, local names only, `child::` and
                `descendant::` axes, no predicates: fragments of child steps, KMP over the
                ancestor chain, a stack of (fragment, position) pairs.

  None of the strategies looks at `updateonly`.  This is *not* the C05/C17 path model; it only
  gives the C12 driver something executable that the correspondence ties to the real tests.
-/
import Genshi.Model.Match
namespace Genshi.Match
open Genshi

/-- axes and node tests of the GenericStrategy steps the generators produce -/
inductive GAxis where
  | child | desc | dos
  deriving DecidableEq, Repr, Inhabited

inductive GTest where
  | name (n : Str) | any | node
  deriving DecidableEq, Repr, Inhabited

inductive PathSpec where
  | single (name : Option Str) (pos : Option Nat)
  | simple (frags : List (List Str))
  /-- GenericStrategy, predicate-free: the steps as `test(ignore_context=True)` builds them
      (first axis already turned into descendant-or-self) -/
  | generic (steps : List (GAxis × GTest))
  deriving DecidableEq, Repr, Inhabited

structure PSt where
  count : Nat := 0
  stack : List (Nat × Nat) := []
  /-- GenericStrategy: per open element the positions of the path its children start from -/
  gstack : List (List Nat) := [[0]]
  deriving DecidableEq, Repr, Inhabited

def nameTest (name : Option Str) : Event → Bool
  | .start t _ => match name with | none => true | some n => t.loc == n
  | _ => false

/-! SimplePathStrategy.calculate_pi -/

def getD (l : List Nat) (i : Nat) : Nat := l.getD i 0

/-- `while s > 0 and not nodes_equal(f[s], x): s = pi[s-1]` -/
def piFallback (f : List Str) (pi : List Nat) (x : Str) : Nat → Nat → Nat
  | 0, s => s
  | fuel + 1, s =>
    if s > 0 ∧ f.getD s [] ≠ x then piFallback f pi x fuel (getD pi (s - 1)) else s

def calcPiGo (f : List Str) : List Str → List Nat → Nat → List Nat
  | [], pi, _ => pi
  | x :: xs, pi, s =>
    let s1 := piFallback f pi x (f.length + 1) s
    let s2 := if f.getD s1 [] = x then s1 + 1 else s1
    calcPiGo f xs (pi ++ [s2]) s2

def calcPi (f : List Str) : List Nat :=
  match f with
  | [] => []
  | _ :: xs => calcPiGo f xs [0] 0

/-- `while p > 0 and (p >= frag_len or not frag[p](event)): p = pi[p-1]` -/
def kmpFallback (f : List Str) (pi : List Nat) (name : Str) : Nat → Nat → Nat
  | 0, p => p
  | fuel + 1, p =>
    if p > 0 ∧ (p ≥ f.length ∨ f.getD p [] ≠ name) then kmpFallback f pi name fuel (getD pi (p - 1)) else p

/-- the `_test` closure of SimplePathStrategy (ignore_context = True, every fragment starts after a
    `descendant::` step or is the first) on a START event -/
def simpleStart (frags : List (List Str)) (stack : List (Nat × Nat)) (name : Str) : List (Nat × Nat) × Bool :=
  let top := stack.headD (0, 0)
  let fid := top.1
  let p := top.2
  let frag := frags.getD fid []
  let pi := calcPi frag
  let p1 := kmpFallback frag pi name (frag.length + 1) p
  let p2 := if frag.getD p1 [] = name ∧ p1 < frag.length then p1 + 1 else p1
  if p2 = frag.length then
    if fid + 1 = frags.length then ((fid, p2) :: stack, true)
    else ((fid + 1, 0) :: stack, false)
  else ((fid, p2) :: stack, false)

/-! GenericStrategy without predicates: the counter packs only matter through their presence
    (`pcou` is non-empty exactly for positions inherited from the parent) -/

def GTest.ok : GTest → Str → Bool
  | .name n, x => x == n
  | .any, _ => true
  | .node, _ => true

def GAxis.descLike : GAxis → Bool
  | .child => false
  | _ => true

/-- the `while pos_queue` loop of `GenericStrategy._test` on a START event: queue entries are
    (position, inherited from the parent); returns `next_pos` and whether the path matched -/
def genLoop (steps : List (GAxis × GTest)) (name : Str) : Nat → List (Nat × Bool) → List Nat → Bool → List Nat × Bool
  | 0, _, next, ret => (next, ret)
  | _ + 1, [], next, ret => (next, ret)
  | f + 1, (x, fromParent) :: q, next, ret =>
    match steps[x]? with
    | none => genLoop steps name f q next ret
    | some (axis, test) =>
      let next1 := if axis.descLike && fromParent then
          (if next.getLast? = some x then next else next ++ [x]) else next
      if !test.ok name then genLoop steps name f q next1 ret
      else if x + 1 = steps.length then genLoop steps name f q next1 true
      else
        match steps[x + 1]? with
        | none => genLoop steps name f q next1 ret
        | some (na, _) =>
          let q1 := if na = .dos then
              (match q with
               | [] => [(x + 1, false)]
               | (y, b) :: q' => if y > x + 1 then (x + 1, false) :: (y, b) :: q' else (y, b) :: q')
            else q
          genLoop steps name f q1 (next1 ++ [x + 1]) ret

def genStart (steps : List (GAxis × GTest)) (gstack : List (List Nat)) (name : Str) : List (List Nat) × Bool :=
  match gstack with
  | [] => ([], false)       -- `stack[-1]` would raise: the root entry was popped by an unbalanced END
  | top :: _ =>
    let r := genLoop steps name (2 * (steps.length + top.length) + 2) (top.map fun x => (x, true)) [] false
    (r.1 :: gstack, r.2)

def PathSpec.step (spec : PathSpec) (st : PSt) (e : Event) (_upd : Bool) : PSt × Bool :=
  match spec, e with
  | .single name pos, .start _ _ =>
    if nameTest name e then
      match pos with
      | none => (st, true)
      | some n => ({ st with count := st.count + 1 }, st.count + 1 = n)
    else (st, false)
  | .single _ _, _ => (st, false)
  | .simple frags, .start t _ =>
    let r := simpleStart frags st.stack t.loc
    ({ st with stack := r.1 }, r.2)
  | .simple _, .end_ _ => ({ st with stack := st.stack.tail }, false)
  | .simple _, _ => (st, false)
  | .generic steps, .start t _ =>
    let r := genStart steps st.gstack t.loc
    ({ st with gstack := r.1 }, r.2)
  | .generic _, .end_ _ => ({ st with gstack := st.gstack.tail }, false)
  | .generic _, _ => (st, false)

def mkMT (spec : PathSpec) (body : List BItem) (h : Hints) : MT PSt :=
  MT.ofHints spec.step {} body h

end Genshi.Match

/-
  C13 — specification side of "nothing is dropped", at token level and independent of the reader
  `pyParse`: the *leaf tokens* of a syntax tree in source order — every identifier (names, attribute
  names, keyword-argument names, parameter names, `def` / `class` / imported names and aliases),
  every literal, every operator and every keyword that marks a node or clause (`lambda`, `if`,
  `else`, `for`, `in`, `async`, `yield`, `return`, `def` …) — without any punctuation (no
  parentheses, brackets, commas, colons, dots, stars, `=`).  The theorem (`Props/C13.lean:
  leaves_in_order`) says this list is a subsequence of what the generator writes.

  The functions are plain structural recursions over the tree that do not look at `gen`.
-/
import Genshi.Model.PyGen
namespace Genshi.Py
open Genshi.Gen

/-- the one token of a literal -/
def constLeaf (c : Const) : Tok :=
  match c.kind with
  | .true_ | .false_ | .none_ => .name c.text
  | .ellipsis => tEllipsis
  | .str | .bytes => .str c.text
  | .int | .float | .complex => .num c.text

def startsNum : Str → Bool
  | c :: _ => isDigitC c || c = '.'
  | [] => false

/-- a literal as a parser produces it: number texts start like a number (no sign, not `inf` / `nan`)
    and do not contain the text `inf` (which `visit_Constant` replaces) -/
def constLeafOK (c : Const) : Bool :=
  match c.kind with
  | .int => startsNum c.text
  | .float | .complex => startsNum c.text && (Str.replace cs!"inf" AstGen.infStr c.text == c.text)
  | _ => true

def isIntLit : PyExpr → Bool
  | .const ⟨.int, _⟩ => true
  | _ => false

mutual
def leaves : PyExpr → List Tok
  | .name id => [.name id]
  | .const c => [constLeaf c]
  | .boolOp op vs =>
      match vs with
      | [] => []
      | v :: rest => leaves v ++ leavesL (opToks AstGen.boolOperators op) rest
  | .binOp l op r => leaves l ++ (opToks AstGen.binaryOperators op ++ leaves r)
  | .unaryOp op e => opToks AstGen.unaryOperators op ++ leaves e
  | .lambda po ar va ko ka body =>
      kw cs!"lambda" :: (leavesL [] po ++ (leavesL [] ar ++ (leavesO va ++ (leavesL [] ko ++ (leavesO ka ++ leaves body)))))
  | .ifExp t b o => leaves b ++ kw cs!"if" :: (leaves t ++ kw cs!"else" :: leaves o)
  | .dict items => leavesL [] items
  | .listComp elt gens => leaves elt ++ leavesL [] gens
  | .genExp elt gens => leaves elt ++ leavesL [] gens
  | .yield_ v => kw cs!"yield" :: leavesO v
  | .compare l rest => leaves l ++ leavesL [] rest
  | .call f args kws => leaves f ++ (leavesL [] args ++ leavesL [] kws)
  | .attribute v a => leaves v ++ [.name a]
  | .subscript v s => leaves v ++ leaves s
  | .slice l u st => leavesO l ++ (leavesO u ++ leavesO st)
  | .starred e => leaves e
  | .list elts => leavesL [] elts
  | .tuple elts => leavesL [] elts
  | .unsupported _ => []
  | .keyword none v => leaves v
  | .keyword (some n) v => .name n :: leaves v
  | .comp t it ifs a =>
      (if a then [kw cs!"async"] else []) ++ kw cs!"for" :: (leaves t ++ kw cs!"in" :: (leaves it ++ leavesL [kw cs!"if"] ifs))
  | .param n ann d => .name n :: (leavesO ann ++ leavesO d)
  | .dictItem k v => leavesO k ++ leaves v
  | .cmpRhs op e => opToks AstGen.comparisonOperators op ++ leaves e
/-- the leaves of a list of nodes, each preceded by the words `pre` (an operator / `if`) -/
def leavesL (pre : List Tok) : List PyExpr → List Tok
  | [] => []
  | e :: es => pre ++ (leaves e ++ leavesL pre es)
def leavesO : Option PyExpr → List Tok
  | none => []
  | some e => leaves e
end

mutual
/-- the trees on which the leaf statement is claimed: literals as a parser produces them, no
    attribute access on an integer literal (`(1).real` is written as `1.real`: one float token) -/
def leafOK : PyExpr → Bool
  | .name _ => true
  | .const c => constLeafOK c
  | .boolOp _ vs => leafOKL vs
  | .binOp l _ r => leafOK l && leafOK r
  | .unaryOp _ e => leafOK e
  | .lambda po ar va ko ka body => leafOKL po && leafOKL ar && leafOKO va && leafOKL ko && leafOKO ka && leafOK body
  | .ifExp t b o => leafOK t && leafOK b && leafOK o
  | .dict items => leafOKL items
  | .listComp elt gens => leafOK elt && leafOKL gens
  | .genExp elt gens => leafOK elt && leafOKL gens
  | .yield_ v => leafOKO v
  | .compare l rest => leafOK l && leafOKL rest
  | .call f args kws => leafOK f && leafOKL args && leafOKL kws
  | .attribute v _ => !isIntLit v && leafOK v
  | .subscript v s => leafOK v && leafOK s
  | .slice l u st => leafOKO l && leafOKO u && leafOKO st
  | .starred e => leafOK e
  | .list elts => leafOKL elts
  | .tuple elts => leafOKL elts
  | .unsupported _ => true
  | .keyword _ v => leafOK v
  | .comp t it ifs _ => leafOK t && leafOK it && leafOKL ifs
  | .param _ ann d => leafOKO ann && leafOKO d
  | .dictItem k v => leafOKO k && leafOK v
  | .cmpRhs _ e => leafOK e
def leafOKL : List PyExpr → Bool
  | [] => true
  | e :: es => leafOK e && leafOKL es
def leafOKO : Option PyExpr → Bool
  | none => true
  | some e => leafOK e
end

/-! ### statements -/

def isNameTok : Tok → Bool
  | .name _ => true
  | _ => false

/-- the components of a dotted module path -/
def dottedLeaves (s : Str) : List Tok := (dottedToks s).filter isNameTok

def aliasLeaves : Str × Option Str → List Tok
  | (n, none) => dottedLeaves n
  | (n, some a) => dottedLeaves n ++ [kw cs!"as", .name a]

def fromAliasLeaves : Str × Option Str → List Tok
  | (n, none) => if n = ['*'] then [] else [Tok.name n]
  | (n, some a) => [Tok.name n, kw cs!"as", Tok.name a]

def withItemLeaves : PyExpr × Option PyExpr → List Tok
  | (c, none) => leaves c
  | (c, some v) => leaves c ++ kw cs!"as" :: leaves v

def flatToks : List (List Tok) → List Tok
  | [] => []
  | x :: xs => x ++ flatToks xs

mutual
/-- the leaf tokens of a statement in source order (decorators first, header, body, clauses) -/
def leavesS : PyStmt → List Tok
  | .expr e => leaves e
  | .assign ts v => leavesL [] ts ++ leaves v
  | .augAssign t op v =>
      leaves t ++ ((match lookup AstGen.binaryOperators op with
                    | some sym => [Tok.op (sym ++ ['='])]
                    | none => []) ++ leaves v)
  | .return_ v => kw cs!"return" :: leavesO v
  | .delete ts => kw cs!"del" :: leavesL [] ts
  | .pass_ => [kw cs!"pass"]
  | .break_ => [kw cs!"break"]
  | .continue_ => [kw cs!"continue"]
  | .assert_ t m => kw cs!"assert" :: (leaves t ++ leavesO m)
  | .raise_ e c =>
      kw cs!"raise" :: (match e with
                        | none => []
                        | some x => leaves x ++ (match c with
                                                 | none => []
                                                 | some y => kw cs!"from" :: leaves y))
  | .global_ ns => kw cs!"global" :: ns.map Tok.name
  | .import_ ns => kw cs!"import" :: flatToks (ns.map aliasLeaves)
  | .importFrom m ns _ =>
      kw cs!"from" :: ((match m with | some m => dottedLeaves m | none => [])
        ++ kw cs!"import" :: flatToks (ns.map fromAliasLeaves))
  | .if_ t b o => kw cs!"if" :: (leaves t ++ (leavesB b ++ leavesElse o))
  | .while_ t b o => kw cs!"while" :: (leaves t ++ (leavesB b ++ leavesElse o))
  | .for_ t it b o => kw cs!"for" :: (leaves t ++ kw cs!"in" :: (leaves it ++ (leavesB b ++ leavesElse o)))
  | .with_ items b => kw cs!"with" :: (flatToks (items.map withItemLeaves) ++ leavesB b)
  | .try_ b hs o f =>
      kw cs!"try" :: (leavesB b ++ (leavesB hs ++ (leavesElse o ++
        (match f with
         | [] => []
         | _ :: _ => kw cs!"finally" :: leavesB f))))
  | .handler t n b =>
      kw cs!"except" :: (leavesO t ++ ((match n with
                                        | none => []
                                        | some n => [Tok.name n]) ++ leavesB b))
  | .functionDef name po ar va ko ka body decos ret _ =>
      leavesL [] decos ++ kw cs!"def" :: .name name ::
        (leavesL [] po ++ (leavesL [] ar ++ (leavesO va ++ (leavesL [] ko ++ (leavesO ka ++ (leavesO ret ++ leavesB body))))))
  | .classDef name bases kws body decos _ =>
      leavesL [] decos ++ kw cs!"class" :: .name name :: (leavesL [] bases ++ (leavesL [] kws ++ leavesB body))
  | .unsupported _ => []
def leavesB : List PyStmt → List Tok
  | [] => []
  | s :: ss => leavesS s ++ leavesB ss
/-- an `else` block (absent when empty) -/
def leavesElse : List PyStmt → List Tok
  | [] => []
  | s :: ss => kw cs!"else" :: (leavesS s ++ leavesB ss)
end

def leafOKItems : List (PyExpr × Option PyExpr) → Bool
  | [] => true
  | (c, v) :: r => leafOK c && leafOKO v && leafOKItems r

mutual
/-- the statements on which the leaf statement is claimed: embedded expressions `leafOK`; not
    `global` and not `except E as name` (the generator writes these names as string literals) -/
def leafOKS : PyStmt → Bool
  | .expr e => leafOK e
  | .assign ts v => leafOKL ts && leafOK v
  | .augAssign t _ v => leafOK t && leafOK v
  | .return_ v => leafOKO v
  | .delete ts => leafOKL ts
  | .pass_ | .break_ | .continue_ => true
  | .assert_ t m => leafOK t && leafOKO m
  | .raise_ e c => leafOKO e && leafOKO c
  | .global_ _ => false
  | .import_ _ => true
  | .importFrom _ _ _ => true
  | .if_ t b o => leafOK t && leafOKB b && leafOKB o
  | .while_ t b o => leafOK t && leafOKB b && leafOKB o
  | .for_ t it b o => leafOK t && leafOK it && leafOKB b && leafOKB o
  | .with_ items b => leafOKItems items && leafOKB b
  | .try_ b hs o f => leafOKB b && leafOKB hs && leafOKB o && leafOKB f
  | .handler t n b => leafOKO t && n.isNone && leafOKB b
  | .functionDef _ po ar va ko ka body decos ret _ =>
      leafOKL po && leafOKL ar && leafOKO va && leafOKL ko && leafOKO ka && leafOKB body && leafOKL decos && leafOKO ret
  | .classDef _ bases kws body decos _ => leafOKL bases && leafOKL kws && leafOKB body && leafOKL decos
  | .unsupported _ => true
def leafOKB : List PyStmt → Bool
  | [] => true
  | s :: ss => leafOKS s && leafOKB ss
end

/-- all tokens of the written lines, in order -/
def lineToks : List Line → List Tok
  | [] => []
  | l :: ls => l.toks ++ lineToks ls

end Genshi.Py

/-
  C19 — `extract_from_code(code, gettext_functions)` (genshi/filters/i18n.py): the walk over
  the Python syntax tree of a template expression / code block that reports the gettext calls.

  `PyExpr` is the syntax tree as `_walk` sees it (Python 3.12: string and bytes literals are
  `ast.Constant`, a call has no `starargs` / `kwargs` attributes):
    * `str s`    — `Constant` whose value is a `str`
    * `bytes s`  — `Constant` whose value is a `bytes` object, `s` its utf-8 decoding (a bytes
                   literal that is no utf-8 is not representable: the real function raises
                   `UnicodeDecodeError` there; the driver answers `unmodelled`)
    * `name id`  — `Name` (its only AST child, the `ctx` marker, has no fields)
    * `call func args kwvals` — `Call`; `kwvals` are the `value` children of the `keyword`
                   nodes (a `keyword` node is no call itself and has no other AST child)
    * `node cs`  — every other node: its AST children in `_fields` order (list entries that
                   are AST nodes, single AST children), as `_walk` collects them.
  Imports only other Model files (linked into `gdrv`).
-/
import Genshi.Model.I18nCore
namespace Genshi.I18n
open Genshi

inductive PyExpr where
  | str (s : Str)
  | bytes (s : Str)
  | name (id : Str)
  | call (func : PyExpr) (args : List PyExpr) (kwvals : List PyExpr)
  | node (children : List PyExpr)
  deriving Repr, Inhabited

/-- `_add(arg)`: a `str` constant gives the string, a `bytes` constant its decoding, every
    other argument (syntax-tree nodes are truthy) `None` -/
def litVal : PyExpr → Option Str
  | .str s => some s
  | .bytes s => some s
  | _ => none

/-- the `strings` of a gettext call: one entry per positional argument; a single entry is
    reported bare, anything else (also no argument at all) as a tuple -/
def argVal (args : List PyExpr) : MsgVal :=
  match args.map litVal with
  | [v] => .one v
  | vs => .many vs

/-- the head test of `_walk`: `isinstance(node, ast.Call) and isinstance(node.func, ast.Name)
    and node.func.id in gettext_functions` → the yielded pair -/
def callMsg (gf : List Str) : PyExpr → List CodeMsg
  | .call (.name id) args _ => if gf.contains id then [⟨id, argVal args⟩] else []
  | _ => []

mutual
  /-- `_walk(node)`: the call itself, then the children in field order (`func`, `args`,
      `keywords`), depth first -/
  def walk (gf : List Str) : PyExpr → List CodeMsg
    | .call f args kws => callMsg gf (.call f args kws) ++ (walk gf f ++ (walkList gf args ++ walkList gf kws))
    | .node cs => walkList gf cs
    | _ => []
  def walkList (gf : List Str) : List PyExpr → List CodeMsg
    | [] => []
    | e :: es => walk gf e ++ walkList gf es
end

/-- `list(extract_from_code(code, gettext_functions))` -/
def extractFromCode (gf : List Str) (e : PyExpr) : List CodeMsg := walk gf e

mutual
  /-- `_walk` before fix fbd47f1 (`elif node._fields:`): the children of a reported gettext
      call were not searched -/
  def walkOld (gf : List Str) : PyExpr → List CodeMsg
    | .call f args kws =>
        match callMsg gf (.call f args kws) with
        | [] => walkOld gf f ++ (walkListOld gf args ++ walkListOld gf kws)
        | ms => ms
    | .node cs => walkListOld gf cs
    | _ => []
  def walkListOld (gf : List Str) : List PyExpr → List CodeMsg
    | [] => []
    | e :: es => walkOld gf e ++ walkListOld gf es
end

def extractFromCodeOld (gf : List Str) (e : PyExpr) : List CodeMsg := walkOld gf e

/-! ### specification side -/

/-- a call of a plain name: `(name, positional arguments)` -/
def headCall (f : PyExpr) (args : List PyExpr) : List (Str × List PyExpr) :=
  match f with
  | .name id => [(id, args)]
  | _ => []

mutual
  /-- every sub-expression that is a call of a plain name, in source (pre-)order, at any
      depth: `(name, positional arguments)` -/
  def nameCalls : PyExpr → List (Str × List PyExpr)
    | .call f args kws =>
        headCall f args ++ (nameCalls f ++ (nameCallsList args ++ nameCallsList kws))
    | .node cs => nameCallsList cs
    | _ => []
  def nameCallsList : List PyExpr → List (Str × List PyExpr)
    | [] => []
    | e :: es => nameCalls e ++ nameCallsList es
end

/-- the calls of the gettext functions among them -/
def gettextCalls (gf : List Str) (e : PyExpr) : List (Str × List PyExpr) :=
  (nameCalls e).filter fun c => gf.contains c.1

/-- `SubExpr s e`: `s` occurs in `e` (at any depth, `e` itself included) -/
inductive SubExpr : PyExpr → PyExpr → Prop where
  | refl (e : PyExpr) : SubExpr e e
  | func {s f : PyExpr} (args kws : List PyExpr) : SubExpr s f → SubExpr s (.call f args kws)
  | arg {s a : PyExpr} (f : PyExpr) {args : List PyExpr} (kws : List PyExpr) :
      a ∈ args → SubExpr s a → SubExpr s (.call f args kws)
  | kw {s k : PyExpr} (f : PyExpr) (args : List PyExpr) {kws : List PyExpr} :
      k ∈ kws → SubExpr s k → SubExpr s (.call f args kws)
  | child {s c : PyExpr} {cs : List PyExpr} : c ∈ cs → SubExpr s c → SubExpr s (.node cs)

/-- the string literals `ss` as an argument list -/
def literalArgs (ss : List Str) : List PyExpr := ss.map .str

end Genshi.I18n

/-
  C09 / C08 — model of `genshi/output.py`: the event vocabulary the serializer
  filters work on, `EmptyTagFilter`, `DocTypeInserter`, and the main loops of
  `XMLSerializer`, `XHTMLSerializer`, `HTMLSerializer` with and without the
  per-render cache.

  The model mirrors the code as it is after the repairs
    fbd3a33 (raw TEXT bypasses the cache), 42ef54d (HTMLSerializer honours
    `cache`), 695e12f (EMPTY script/style does not set noescape),
    ad5816e (WhitespaceFilter: CDATA state separate, `cdata=False` for html),
    722d2b1 (DOCTYPE identifiers written literally; cherry-picked from wp-xml).
  Specification-side definitions (`emit`, `ctxAfter`, `serSpec`) live in the
  second half; the theorems relating both are in `Props/C09.lean`.
  Import-free apart from other Model files (linked into `gdrv`).
-/
import Genshi.Model.Core
import Genshi.Model.Escape
import Genshi.Gen.Output
namespace Genshi.Output
open Genshi Genshi.Escape

/-- events as the output filters see them: `ν = QName` before the
    `NamespaceFlattener`, `ν = Str` (prefixed names) after it; `empty` is the
    `EMPTY` kind made by `EmptyTagFilter`. -/
inductive XEv (ν : Type) where
  | start (tag : ν) (attrs : List (ν × Str))
  | empty (tag : ν) (attrs : List (ν × Str))
  | end_ (tag : ν)
  | text (s : Str) (safe : Bool)
  | comment (s : Str)
  | pi (target data : Str)
  | doctype (name : Str) (pubid sysid : Option Str)
  | xmlDecl (version : Str) (encoding : Option Str) (standalone : Int)
  | startNs (pfx uri : Str)
  | endNs (pfx : Str)
  | startCdata
  | endCdata
  deriving DecidableEq, Repr, Inhabited

abbrev QEv := XEv QName
abbrev FEv := XEv Str

inductive Method where
  | xml | xhtml | html
  deriving DecidableEq, Repr, Inhabited

def ofEvent : Event → QEv
  | .start t a => .start t a
  | .end_ t => .end_ t
  | .text s f => .text s f
  | .comment s => .comment s
  | .pi t d => .pi t d
  | .doctype n p s => .doctype n p s
  | .xmlDecl v e s => .xmlDecl v e s
  | .startNs p u => .startNs p u
  | .endNs p => .endNs p
  | .startCdata => .startCdata
  | .endCdata => .endCdata

/-! ### EmptyTagFilter -/

/-- `EmptyTagFilter.__call__`: `pending` is the START held back in `prev`.
    The tag of the END that closes it is not looked at; a START that is the
    last event is never emitted. -/
def emptyTag : Option (QName × AttrList) → Stream → List QEv
  | _, [] => []
  | some (t, a), .end_ _ :: es => .empty t a :: emptyTag none es
  | some (t, a), .start t' a' :: es => .start t a :: emptyTag (some (t', a')) es
  | some (t, a), e :: es => .start t a :: ofEvent e :: emptyTag none es
  | none, .start t a :: es => emptyTag (some (t, a)) es
  | none, e :: es => ofEvent e :: emptyTag none es

/-! ### tables (generated from the code) -/

/-- `s in frozenset_of_names`: Python compares the string values -/
def inTable (tbl : List (Str × Str)) (s : Str) : Bool :=
  tbl.any fun p => (QName.text ⟨p.1, p.2⟩) == s

def qInTable (tbl : List (Str × Str)) (q : QName) : Bool :=
  tbl.any fun p => (QName.text ⟨p.1, p.2⟩) == q.text

def emptyElems : Method → List (Str × Str)
  | .xml => []
  | .xhtml => Gen.Output.xhtmlEmptyElems
  | .html => Gen.Output.htmlEmptyElems

def booleanAttrs : Method → List (Str × Str)
  | .xml => []
  | .xhtml => Gen.Output.xhtmlBooleanAttrs
  | .html => Gen.Output.htmlBooleanAttrs

def noescapeElems : Method → List (Str × Str)
  | .html => Gen.Output.htmlNoescapeElems
  | _ => []

def preserveElems : Method → List (Str × Str)
  | .xml => Gen.Output.xmlPreserveSpace
  | .xhtml => Gen.Output.xhtmlPreserveSpace
  | .html => Gen.Output.htmlPreserveSpace

/-! ### what one event is written as -/

abbrev FAttrs := List (Str × Str)

/-- `'name' in attrib` (`Attrs.__contains__`) -/
def hasAttr (a : FAttrs) (n : Str) : Bool := a.any fun p => p.1 == n

def xmlLang : Str := ['x', 'm', 'l', ':', 'l', 'a', 'n', 'g']
def xmlSpace : Str := ['x', 'm', 'l', ':', 's', 'p', 'a', 'c', 'e']
def lang : Str := ['l', 'a', 'n', 'g']
def xmlns : Str := ['x', 'm', 'l', 'n', 's']

/-- ` name="escape(value)"` -/
def attrOut (n v : Str) : Str := ' ' :: n ++ ['=', '"'] ++ escapePy true v ++ ['"']

/-- the attribute loop of `XMLSerializer` -/
def xmlAttrs (a : FAttrs) : Str := a.flatMap fun p => attrOut p.1 p.2

/-- one iteration of the attribute loop of `XHTMLSerializer` -/
def xhtmlAttr (all : FAttrs) (p : Str × Str) : Str :=
  if inTable (booleanAttrs .xhtml) p.1 then attrOut p.1 p.1
  else if p.1 == xmlLang && !hasAttr all lang then attrOut lang p.2 ++ attrOut p.1 p.2
  else if p.1 == xmlSpace then []
  else attrOut p.1 p.2

def xhtmlAttrs (a : FAttrs) : Str := a.flatMap (xhtmlAttr a)

/-- one iteration of the attribute loop of `HTMLSerializer` -/
def htmlAttr (all : FAttrs) (p : Str × Str) : Str :=
  if inTable (booleanAttrs .html) p.1 then (if p.2.isEmpty then [] else ' ' :: p.1)
  else if p.1.any (· == ':') then
    (if p.1 == xmlLang && !hasAttr all lang then attrOut lang p.2 else [])
  else if p.1 != xmlns then attrOut p.1 p.2
  else []

def htmlAttrs (a : FAttrs) : Str := a.flatMap (htmlAttr a)

def endTag (t : Str) : Str := ['<', '/'] ++ t ++ ['>']

/-- START (`isEmpty = false`) or EMPTY (`isEmpty = true`) -/
def startOut : Method → Bool → Str → FAttrs → Str
  | .xml, isEmpty, t, a => '<' :: t ++ xmlAttrs a ++ (if isEmpty then ['/', '>'] else ['>'])
  | .xhtml, isEmpty, t, a =>
      '<' :: t ++ xhtmlAttrs a ++
        (if isEmpty then (if inTable (emptyElems .xhtml) t then [' ', '/', '>'] else '>' :: endTag t)
         else ['>'])
  | .html, isEmpty, t, a =>
      '<' :: t ++ htmlAttrs a ++ ['>'] ++
        (if isEmpty && !inTable (emptyElems .html) t then endTag t else [])

def commentOut (s : Str) : Str := ['<', '!', '-', '-'] ++ s ++ ['-', '-', '>']
def piOut (t d : Str) : Str := ['<', '?'] ++ t ++ ' ' :: d ++ ['?', '>']

def truthy : Option Str → Bool
  | some s => !s.isEmpty
  | none => false

/-- the DOCTYPE branch (after repair 722d2b1 = wp-xml 96db7c3): the identifiers are written
    literally, `''.join(buf) % tuple(p for p in data if p)`; a system identifier containing `"` is
    delimited by single quotes.  An empty name makes the real code raise; the driver reports such
    events as unmodelled. -/
def doctypeOut (name : Str) (pubid sysid : Option Str) : Str :=
  ['<', '!', 'D', 'O', 'C', 'T', 'Y', 'P', 'E', ' '] ++ name ++
  (if truthy pubid then [' ', 'P', 'U', 'B', 'L', 'I', 'C', ' ', '"'] ++ pubid.getD [] ++ ['"']
   else if truthy sysid then [' ', 'S', 'Y', 'S', 'T', 'E', 'M'] else []) ++
  (if truthy sysid then
     (if (sysid.getD []).any (· == '"') then [' ', '\''] ++ sysid.getD [] ++ ['\'']
      else [' ', '"'] ++ sysid.getD [] ++ ['"'])
   else []) ++
  ['>', '\n']

def xmlDeclOut (version : Str) (encoding : Option Str) (standalone : Int) : Str :=
  ['<', '?', 'x', 'm', 'l', ' ', 'v', 'e', 'r', 's', 'i', 'o', 'n', '=', '"'] ++ version ++ ['"'] ++
  (if truthy encoding then [' ', 'e', 'n', 'c', 'o', 'd', 'i', 'n', 'g', '=', '"'] ++ encoding.getD [] ++ ['"'] else []) ++
  (if standalone != -1 then
     [' ', 's', 't', 'a', 'n', 'd', 'a', 'l', 'o', 'n', 'e', '=', '"'] ++
       (if standalone != 0 then ['y', 'e', 's'] else ['n', 'o']) ++ ['"']
   else []) ++
  ['?', '>', '\n']

def cdataOpen : Str := ['<', '!', '[', 'C', 'D', 'A', 'T', 'A', '[']
def cdataClose : Str := [']', ']', '>']

/-! ### the main loops -/

structure Opts where
  dropXmlDecl : Bool := true       -- `XHTMLSerializer(drop_xml_decl=…)`
  deriving Repr, DecidableEq

/-- loop-local state of `__call__`: the cache dictionary, the two prolog flags,
    and `raw` = `in_cdata` (xml, xhtml) / `noescape` (html). -/
structure LoopSt where
  cache : List (FEv × Str) := []
  haveDecl : Bool := false
  haveDoctype : Bool := false
  raw : Bool := false
  deriving Repr

def lookup (c : List (FEv × Str)) (ev : FEv) : Option Str :=
  match c with
  | [] => none
  | (k, o) :: rest => if k = ev then some o else lookup rest ev

/-- `_emit(kind, data, output)` -/
def store (useCache : Bool) (st : LoopSt) (ev : FEv) (out : Str) : LoopSt :=
  if useCache then { st with cache := (ev, out) :: st.cache } else st

def isNoescapeStart (m : Method) : FEv → Bool
  | .start t _ => inTable (noescapeElems m) t
  | _ => false

/-- what the html loop does to `noescape` after yielding a cached output -/
def hitUpdate (m : Method) (st : LoopSt) (ev : FEv) : LoopSt :=
  match m with
  | .html =>
      if isNoescapeStart .html ev then { st with raw := true }
      else match ev with
        | .end_ _ => { st with raw := false }
        | _ => st
  | _ => st

/-- the `elif` chain after a cache miss -/
def miss (m : Method) (o : Opts) (useCache : Bool) (st : LoopSt) (ev : FEv) : LoopSt × List Str :=
  match ev with
  | .start t a =>
      let out := startOut m false t a
      let st := store useCache st ev out
      (if m = .html && inTable (noescapeElems .html) t then { st with raw := true } else st, [out])
  | .empty t a =>
      let out := startOut m true t a
      (store useCache st ev out, [out])
  | .end_ t =>
      let out := endTag t
      let st := store useCache st ev out
      (if m = .html then { st with raw := false } else st, [out])
  | .text s _ =>
      let out := escapePy false s
      (store useCache st ev out, [out])
  | .comment s =>
      let out := commentOut s
      (store useCache st ev out, [out])
  | .pi t d =>
      let out := piOut t d
      (store useCache st ev out, [out])
  | .doctype n p s =>
      if st.haveDoctype then (st, []) else ({ st with haveDoctype := true }, [doctypeOut n p s])
  | .xmlDecl v e s =>
      match m with
      | .html => (st, [])
      | .xml => if st.haveDecl then (st, []) else ({ st with haveDecl := true }, [xmlDeclOut v e s])
      | .xhtml =>
          if st.haveDecl || o.dropXmlDecl then (st, [])
          else ({ st with haveDecl := true }, [xmlDeclOut v e s])
  | .startCdata =>
      match m with
      | .html => (st, [])
      | _ => ({ st with raw := true }, [cdataOpen])
  | .endCdata =>
      match m with
      | .html => (st, [])
      | _ => ({ st with raw := false }, [cdataClose])
  | .startNs _ _ => (st, [])
  | .endNs _ => (st, [])

/-- one iteration of the `for kind, data, pos in stream` loop -/
def step (m : Method) (o : Opts) (useCache : Bool) (st : LoopSt) (ev : FEv) : LoopSt × List Str :=
  match ev with
  | .text s true => (st, [s])
  | .text s false =>
      if st.raw then (st, [s])
      else match (if useCache then lookup st.cache ev else none) with
        | some out => (hitUpdate m st ev, [out])
        | none => miss m o useCache st ev
  | _ =>
      match (if useCache then lookup st.cache ev else none) with
      | some out => (hitUpdate m st ev, [out])
      | none => miss m o useCache st ev

/-- the chunks yielded by `Serializer.__call__` on an already filtered stream -/
def loop (m : Method) (o : Opts) (useCache : Bool) : LoopSt → List FEv → List Str
  | _, [] => []
  | st, ev :: rest =>
      let r := step m o useCache st ev
      r.2 ++ loop m o useCache r.1 rest

/-! ### DocTypeInserter -/

/-- `DocTypeInserter.__call__` with the resolved `(name, pubid, sysid)` -/
def docTypeInsert (d : Str × Option Str × Option Str) : List FEv → List FEv
  | [] => [.doctype d.1 d.2.1 d.2.2]
  | .xmlDecl v e s :: rest => .xmlDecl v e s :: .doctype d.1 d.2.1 d.2.2 :: rest
  | ev :: rest => .doctype d.1 d.2.1 d.2.2 :: ev :: rest

/-! ### specification side: the context-free meaning of one event -/

/-- markup context of an event as far as the main loop is concerned: inside a
    CDATA section / raw-text element, and whether a declaration / doctype was
    already written (the prolog state) -/
structure Ctx where
  raw : Bool := false
  haveDecl : Bool := false
  haveDoctype : Bool := false
  deriving Repr, DecidableEq

def emit (m : Method) (o : Opts) (c : Ctx) : FEv → List Str
  | .start t a => [startOut m false t a]
  | .empty t a => [startOut m true t a]
  | .end_ t => [endTag t]
  | .text s true => [s]
  | .text s false => if c.raw then [s] else [escapeSpec false s]
  | .comment s => [commentOut s]
  | .pi t d => [piOut t d]
  | .doctype n p s => if c.haveDoctype then [] else [doctypeOut n p s]
  | .xmlDecl v e s =>
      if m = .html || c.haveDecl || (m = .xhtml && o.dropXmlDecl) then [] else [xmlDeclOut v e s]
  | .startCdata => if m = .html then [] else [cdataOpen]
  | .endCdata => if m = .html then [] else [cdataClose]
  | .startNs _ _ => []
  | .endNs _ => []

def ctxAfter (m : Method) (o : Opts) (c : Ctx) : FEv → Ctx
  | .start t _ => if m = .html && inTable (noescapeElems .html) t then { c with raw := true } else c
  | .end_ _ => if m = .html then { c with raw := false } else c
  | .doctype _ _ _ => { c with haveDoctype := true }
  | .xmlDecl _ _ _ =>
      if m = .html || (m = .xhtml && o.dropXmlDecl) then c else { c with haveDecl := true }
  | .startCdata => if m = .html then c else { c with raw := true }
  | .endCdata => if m = .html then c else { c with raw := false }
  | _ => c

/-- the output as the concatenation of `emit` over the context-annotated stream -/
def serSpec (m : Method) (o : Opts) : Ctx → List FEv → List Str
  | _, [] => []
  | c, ev :: rest => emit m o c ev ++ serSpec m o (ctxAfter m o c ev) rest

end Genshi.Output

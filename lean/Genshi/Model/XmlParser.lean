/-
  C02 / C07 — genshi's layer over the expat callbacks (`genshi/input.py`
  `XMLParser._handle_*`, `_coalesce`) and `QName.__new__` (`genshi/core.py`).
  expat itself is not modelled: the layer is a function of the callback
  sequence.  Positions are not modelled.
-/
import Genshi.Model.Core
import Genshi.Model.XmlCore
namespace Genshi.Xml
open Genshi

/-- `QName(text)`: leading `{` are stripped, the text is split at the first `}` -/
def qnameOf (s : Str) : QName :=
  let t := s.dropWhile (· = '{')
  match t.span (· ≠ '}') with
  | (ns, _ :: loc) => ⟨ns, loc⟩
  | (loc, []) => ⟨[], loc⟩

/-- what expat may call (namespace separator `}`, ordered attributes) -/
inductive Cb where
  | startEl (name : Str) (attrib : List (Str × Str))
  | endEl (name : Str)
  | data (s : Str)
  | xmlDecl (version : Str) (encoding : Option Str) (standalone : Int)
  | doctype (name : Str) (sysid pubid : Option Str)
  | startNs (pfx : Option Str) (uri : Option Str)
  | endNs (pfx : Option Str)
  | startCdata
  | endCdata
  | pi (target data : Str)
  | comment (s : Str)
  | other (text : Str)          -- DefaultHandler
  deriving Repr, DecidableEq

inductive CbResult where
  | events (es : List Event)
  | undefinedEntity
  deriving Repr, DecidableEq

/-- `_handle_*`: the event(s) one callback enqueues. `entity` is
    `html.entities.name2codepoint` as a partial function. -/
def handleCb (entity : Str → Option Char) : Cb → CbResult
  | .startEl n attrib => .events [.start (qnameOf n) (attrib.map fun (k, v) => (qnameOf k, v))]
  | .endEl n => .events [.end_ (qnameOf n)]
  | .data s => .events [.text s false]
  | .xmlDecl v e s => .events [.xmlDecl v e s]
  | .doctype n sysid pubid => .events [.doctype n pubid sysid]
  | .startNs p u => .events [.startNs (p.getD []) (u.getD noneUri)]   -- `(prefix or '', uri)`: the URI stays `None` (xmlns="")
  | .endNs p => .events [.endNs (p.getD [])]
  | .startCdata => .events [.startCdata]
  | .endCdata => .events [.endCdata]
  | .pi t d => .events [.pi t d]
  | .comment s => .events [.comment s]
  | .other text =>
      match text with
      | '&' :: rest =>
          match entity rest.dropLast with
          | some c => .events [.text [c] false]
          | none => .undefinedEntity
      | _ => .events []

/-- the queue filled by a callback sequence, up to the first error -/
def runCbs (entity : Str → Option Char) : List Cb → List Event × Bool
  | [] => ([], true)
  | c :: cs =>
      match handleCb entity c with
      | .events es => let (r, ok) := runCbs entity cs; (es ++ r, ok)
      | .undefinedEntity => ([], false)

/-- `_coalesce`: `buf = some t` while TEXT events are being collected -/
def coalesceGo : Option Str → Stream → Stream
  | none, [] => []
  | some t, [] => [.text t false]
  | none, .text s _ :: es => coalesceGo (some s) es
  | some t, .text s _ :: es => coalesceGo (some (t ++ s)) es
  | none, e :: es => e :: coalesceGo none es
  | some t, e :: es => .text t false :: e :: coalesceGo none es

def coalesce (s : Stream) : Stream := coalesceGo none s

/-- `XMLParser.parse()` above expat: the callbacks' queue through `_coalesce`;
    `false`: an undefined entity ended the parse (ParseError) after these events -/
def parseCbs (entity : Str → Option Char) (cbs : List Cb) : Stream × Bool :=
  let (es, ok) := runCbs entity cbs
  (coalesce es, ok)

/-! ### `ET(element)`: an ElementTree element as a stream -/

/-- what `ET` reads of an element: tag, `items()`, `text`, children, `tail` -/
inductive ETree where
  | node (tag : Str) (attrs : List (Str × Str)) (text : Option Str) (kids : List ETree) (tail : Option Str)

/-- `if element.text:` — `None` and `''` give no event -/
def etText : Option Str → Stream
  | some (c :: cs) => [.text (c :: cs) false]
  | _ => []

mutual
/-- `ET(element)`; `QName(tag.lstrip('{'))` is `qnameOf` (which drops leading `{` itself) -/
def etStream : ETree → Stream
  | .node tag attrs text kids tail =>
      .start (qnameOf tag) (attrs.map fun (k, v) => (qnameOf k, v)) :: (etText text ++ etKids kids) ++
        .end_ (qnameOf tag) :: etText tail
def etKids : List ETree → Stream
  | [] => []
  | k :: ks => etStream k ++ etKids ks
end

end Genshi.Xml
